// Command harness runs the real advanced-statefulset code (built from /repo's working tree with
// -tags verif) on generated or replayed cases and prints one canonical line per case:
//
//	<case> => <observation>
//
// Usage:
//
//	harness <engine> gen <n>        print n generated case lines (seeded by VERIF_SEED)
//	harness <engine> enum <scope>   print an exhaustive small-scope enumeration of case lines
//	harness <engine> run            read case lines on stdin, run the real code, print "<case> => <obs>"
//	harness <engine> serve          worker of an engine that supervises the code under test in a child process:
//	                                one case line in, one observation line out, flushed per line
//	harness extract <what>          print facts extracted from /repo's sources (go/ast, reflect, CRD yaml)
package main

import (
	"bufio"
	"flag"
	"fmt"
	"io"
	"math/rand"
	"os"
	"runtime"
	"strconv"
	"sync"
	"sync/atomic"
	"time"

	"k8s.io/klog/v2"
)

// Engine is one correspondence engine.
type Engine struct {
	// Gen prints n generated cases.
	Gen func(rng *rand.Rand, n int, emit func(string))
	// Enum prints an exhaustive enumeration for the named scope.
	Enum func(scope string, emit func(string))
	// Run runs the real code on one case line and returns the canonical observation.
	Run func(line string) string
	// Serve, when set, is what `harness <engine> serve` runs per line (Run then usually forwards to such a child process, so
	// that code under test which kills the process — a panic on a goroutine of its own — costs one case, not the run).
	Serve func(line string) string
	// Serial is set when Run must not be called concurrently.
	Serial bool
}

var engines = map[string]*Engine{}

func seed() int64 {
	if s := os.Getenv("VERIF_SEED"); s != "" {
		if v, err := strconv.ParseInt(s, 10, 64); err == nil {
			return v
		}
	}
	return 1
}

func main() {
	// keep klog quiet and off stdout
	fs := flag.NewFlagSet("klog", flag.ContinueOnError)
	klog.InitFlags(fs)
	_ = fs.Set("logtostderr", "false")
	_ = fs.Set("alsologtostderr", "false")
	_ = fs.Set("stderrthreshold", "FATAL")
	klog.SetOutput(io.Discard)

	if len(os.Args) < 3 {
		fmt.Fprintln(os.Stderr, "usage: harness <engine> gen <n> | enum <scope> | run ; harness extract <what>")
		os.Exit(2)
	}
	if os.Args[1] == "extract" {
		os.Exit(extractMain(os.Args[2:]))
	}
	e, ok := engines[os.Args[1]]
	if !ok {
		fmt.Fprintf(os.Stderr, "unknown engine %q\n", os.Args[1])
		os.Exit(2)
	}
	out := bufio.NewWriterSize(os.Stdout, 1<<20)
	defer out.Flush()
	emit := func(s string) { out.WriteString(s); out.WriteByte('\n') }
	switch os.Args[2] {
	case "gen":
		n := 1000
		if len(os.Args) > 3 {
			n, _ = strconv.Atoi(os.Args[3])
		}
		e.Gen(rand.New(rand.NewSource(seed())), n, emit)
	case "enum":
		scope := ""
		if len(os.Args) > 3 {
			scope = os.Args[3]
		}
		if e.Enum == nil {
			fmt.Fprintln(os.Stderr, "engine has no enumerator")
			os.Exit(2)
		}
		e.Enum(scope, emit)
	case "run":
		runAll(e, os.Stdin, emit)
	case "serve":
		f := e.Serve
		if f == nil {
			f = e.Run
		}
		sc := bufio.NewScanner(os.Stdin)
		sc.Buffer(make([]byte, 1<<20), 1<<26)
		for sc.Scan() {
			emit(safeRun(&Engine{Run: f}, sc.Text()))
			out.Flush()
		}
	default:
		fmt.Fprintf(os.Stderr, "unknown mode %q\n", os.Args[2])
		os.Exit(2)
	}
}

// safeRun converts a panic that escapes the engine itself (a harness bug or an unmodelled crash) into an observation.
func safeRun(e *Engine, line string) (obs string) {
	defer func() {
		if r := recover(); r != nil {
			obs = "harness-panic:" + sanitize(fmt.Sprint(r))
		}
	}()
	return e.Run(line)
}

// runWithWatchdog gives one case a generous wall-clock limit: code under test that spins or blocks for ever (a changed loop
// condition, a worker that never returns) must end as an observation, not as a check that hangs. The stuck goroutine is abandoned.
func runWithWatchdog(e *Engine, line string) string {
	if atomic.LoadInt32(&timeouts) >= 3 {
		// stuck goroutines keep their cores busy: after three cases without an answer the rest is not attempted
		return "harness-timeout:skipped-after-earlier-timeouts"
	}
	done := make(chan string, 1)
	go func() { done <- safeRun(e, line) }()
	select {
	case obs := <-done:
		return obs
	case <-time.After(caseTimeLimit):
		atomic.AddInt32(&timeouts, 1)
		return "harness-timeout:no-answer-within-" + caseTimeLimit.String()
	}
}

const caseTimeLimit = 90 * time.Second

var timeouts int32

func runAll(e *Engine, in io.Reader, emit func(string)) {
	sc := bufio.NewScanner(in)
	sc.Buffer(make([]byte, 1<<20), 1<<26)
	var lines []string
	for sc.Scan() {
		l := sc.Text()
		if l == "" || l[0] == '#' {
			continue
		}
		lines = append(lines, l)
	}
	res := make([]string, len(lines))
	workers := runtime.NumCPU()
	if e.Serial {
		workers = 1
	}
	var wg sync.WaitGroup
	next := make(chan int, 1024)
	for w := 0; w < workers; w++ {
		wg.Add(1)
		go func() {
			defer wg.Done()
			for i := range next {
				res[i] = runWithWatchdog(e, lines[i])
			}
		}()
	}
	for i := range lines {
		next <- i
	}
	close(next)
	wg.Wait()
	for i := range lines {
		emit(lines[i] + " => " + res[i])
	}
}
