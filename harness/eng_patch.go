package main

import (
	"bytes"
	"encoding/json"
	"fmt"
	"hash/fnv"
	"sort"
	"strconv"
	"strings"

	appsv1 "k8s.io/api/apps/v1"
	corev1 "k8s.io/api/core/v1"
	apiequality "k8s.io/apimachinery/pkg/api/equality"
	metav1 "k8s.io/apimachinery/pkg/apis/meta/v1"
	"k8s.io/apimachinery/pkg/runtime"
	"k8s.io/apimachinery/pkg/types"
	kscheme "k8s.io/client-go/kubernetes/scheme"

	asv1 "github.com/pingcap/advanced-statefulset/client/apis/apps/v1"
	"github.com/pingcap/advanced-statefulset/client/apis/apps/v1/helper"
	asscheme "github.com/pingcap/advanced-statefulset/client/client/clientset/versioned/scheme"
	sts "github.com/pingcap/advanced-statefulset/pkg/controller/statefulset"
	"github.com/pingcap/advanced-statefulset/pkg/third_party/k8s"
)

// Engine "patch": the byte level of revisions (C18, byte half of C08).
//
//	case: hex(JSON of a built-in apps/v1 StatefulSet) | emptify ops | hex(JSON of a second PodTemplateSpec) or - | rev | cc | edits
//	      emptify ops : comma separated names of optional maps / slices of the template that are set to EMPTY BUT NON-NIL after decoding
//	                    (JSON cannot carry that distinction): tl ta ns vol tol ips ic c<i>.cmd c<i>.args c<i>.env c<i>.ports c<i>.vm c<i>.lim c<i>.req
//	      rev         : revision number given to newRevision
//	      cc          : collision count, - (nil) or 0..3
//	      edits       : `;` separated NON-template edits, each applied on its own to a copy of the set (and all together to the set that
//	                    receives ApplyRevision): replicas:N slots:<hex> pause:<hex> ann:<hexk>:<hexv> label:<hexk>:<hexv> svc:<hex> status:N gen:N rv:<hex>
//	                    strategy:ondelete|rolling|part:N policy:<hex> rhl:N uid:<hex> fin:<hex> sel:<hexk>:<hexv> vct:<hex> minready:N owner:<hex> del ts
//	obs : out=ok enc=<canonical JSON of the Advanced codec's encoding of the converted set> patch=<hex of getPatch's bytes> same=1|0 refd=<fnv32 of the
//	      reference bytes> edits=0|<first edit that changed the bytes> match=1|0 matchref=1|0 adopt=1|0 hash=<h0,h1,h2,h3,hnil> hashref=<…> name=<…> nameref=<…> revmeta=1|0
//	      [tdiff=0|1 encb=<canonical JSON> rs=<canonical JSON of the re-encoded restored set> restore=1|0 restoreref=1|0 rest=1|0 matchb=1|0]
//	      (restore: ApplyRevision of the Advanced revision gives back template A; restoreref: ApplyRevision of the revision the built-in controller
//	      recorded gives the same set)
//	      canonical JSON = keys sorted, numbers as in the bytes, Go's string escaping, every space written as the escape \\u0020 (so that a token has no blank).
//
// The REFERENCE is what the built-in controller records: k8s.io/kubernetes pkg/controller/statefulset getPatch / newRevision and
// pkg/controller/history HashControllerRevision, re-implemented here from the upstream sources on client-go's scheme.
func init() {
	engines["patch"] = &Engine{Gen: genPatch, Enum: enumPatch, Run: runPatch}
}

// ---------------------------------------------------------------- the reference: upstream's functions

var upstreamPatchCodec = kscheme.Codecs.LegacyCodec(appsv1.SchemeGroupVersion)
var upstreamControllerKind = appsv1.SchemeGroupVersion.WithKind("StatefulSet")

// advancedCodec is built the way the repo builds its private patchCodec.
var advancedCodec = asscheme.Codecs.LegacyCodec(asv1.SchemeGroupVersion)

func upstreamGetPatch(set *appsv1.StatefulSet) ([]byte, error) {
	data, err := runtime.Encode(upstreamPatchCodec, set)
	if err != nil {
		return nil, err
	}
	var raw map[string]interface{}
	err = json.Unmarshal(data, &raw)
	if err != nil {
		return nil, err
	}
	objCopy := make(map[string]interface{})
	specCopy := make(map[string]interface{})
	spec := raw["spec"].(map[string]interface{})
	template := spec["template"].(map[string]interface{})
	specCopy["template"] = template
	template["$patch"] = "replace"
	objCopy["spec"] = specCopy
	patch, err := json.Marshal(objCopy)
	return patch, err
}

const upstreamSafeAlphabet = "bcdfghjklmnpqrstvwxz2456789"

func upstreamSafeEncodeString(s string) string {
	r := make([]byte, len(s))
	for i, b := range []rune(s) {
		r[i] = upstreamSafeAlphabet[(int(b) % len(upstreamSafeAlphabet))]
	}
	return string(r)
}

func upstreamHashControllerRevision(revision *appsv1.ControllerRevision, probe *int32) string {
	hf := fnv.New32()
	if len(revision.Data.Raw) > 0 {
		hf.Write(revision.Data.Raw)
	}
	// revision.Data.Object is never set by the StatefulSet controller
	if probe != nil {
		hf.Write([]byte(strconv.FormatInt(int64(*probe), 10)))
	}
	return upstreamSafeEncodeString(fmt.Sprint(hf.Sum32()))
}

func upstreamControllerRevisionName(prefix string, hash string) string {
	if len(prefix) > 223 {
		prefix = prefix[:223]
	}
	return fmt.Sprintf("%s-%s", prefix, hash)
}

func upstreamNewControllerRevision(parent metav1.Object, templateLabels map[string]string, data runtime.RawExtension, revision int64, collisionCount *int32) *appsv1.ControllerRevision {
	labelMap := make(map[string]string)
	for k, v := range templateLabels {
		labelMap[k] = v
	}
	cr := &appsv1.ControllerRevision{
		ObjectMeta: metav1.ObjectMeta{
			Labels:          labelMap,
			OwnerReferences: []metav1.OwnerReference{*metav1.NewControllerRef(parent, upstreamControllerKind)},
		},
		Data:     data,
		Revision: revision,
	}
	hash := upstreamHashControllerRevision(cr, collisionCount)
	cr.Name = upstreamControllerRevisionName(parent.GetName(), hash)
	cr.Labels["controller.kubernetes.io/hash"] = hash
	return cr
}

func upstreamNewRevision(set *appsv1.StatefulSet, revision int64, collisionCount *int32) (*appsv1.ControllerRevision, error) {
	patch, err := upstreamGetPatch(set)
	if err != nil {
		return nil, err
	}
	cr := upstreamNewControllerRevision(set, set.Spec.Template.Labels, runtime.RawExtension{Raw: patch}, revision, collisionCount)
	if cr.ObjectMeta.Annotations == nil {
		cr.ObjectMeta.Annotations = make(map[string]string)
	}
	for key, value := range set.Annotations {
		cr.ObjectMeta.Annotations[key] = value
	}
	return cr, nil
}

// ---------------------------------------------------------------- canonical rendering of JSON bytes

func patchCanonJSON(b []byte) string {
	dec := json.NewDecoder(bytes.NewReader(b))
	dec.UseNumber()
	var v interface{}
	if err := dec.Decode(&v); err != nil {
		return "unparsable:" + hexEnc(string(b))
	}
	out, err := json.Marshal(v)
	if err != nil {
		return "unrenderable"
	}
	return strings.ReplaceAll(string(out), " ", `\u0020`)
}

func fnv32(b []byte) uint32 {
	h := fnv.New32()
	h.Write(b)
	return h.Sum32()
}

// ---------------------------------------------------------------- case decoding

func patchEmptify(t *corev1.PodTemplateSpec, ops string) bool {
	if ops == "" {
		return true
	}
	for _, op := range strings.Split(ops, ",") {
		switch op {
		case "tl":
			t.Labels = map[string]string{}
		case "ta":
			t.Annotations = map[string]string{}
		case "ns":
			t.Spec.NodeSelector = map[string]string{}
		case "vol":
			t.Spec.Volumes = []corev1.Volume{}
		case "tol":
			t.Spec.Tolerations = []corev1.Toleration{}
		case "ips":
			t.Spec.ImagePullSecrets = []corev1.LocalObjectReference{}
		case "ic":
			t.Spec.InitContainers = []corev1.Container{}
		default:
			d := strings.SplitN(op, ".", 2)
			if len(d) != 2 || !strings.HasPrefix(d[0], "c") {
				return false
			}
			i, err := strconv.Atoi(d[0][1:])
			if err != nil || i < 0 || i >= len(t.Spec.Containers) {
				return false
			}
			c := &t.Spec.Containers[i]
			switch d[1] {
			case "cmd":
				c.Command = []string{}
			case "args":
				c.Args = []string{}
			case "env":
				c.Env = []corev1.EnvVar{}
			case "ports":
				c.Ports = []corev1.ContainerPort{}
			case "vm":
				c.VolumeMounts = []corev1.VolumeMount{}
			case "lim":
				c.Resources.Limits = corev1.ResourceList{}
			case "req":
				c.Resources.Requests = corev1.ResourceList{}
			default:
				return false
			}
		}
	}
	return true
}

// applyPatchEdit applies one NON-template edit to set in place; false = unknown edit.
func applyPatchEdit(set *appsv1.StatefulSet, e string) bool {
	f := strings.Split(e, ":")
	arg := func(i int) string {
		if i < len(f) {
			return f[i]
		}
		return ""
	}
	num := func(i int) int64 {
		v, _ := strconv.ParseInt(arg(i), 10, 64)
		return v
	}
	ann := func(k, v string) {
		if set.Annotations == nil {
			set.Annotations = map[string]string{}
		}
		set.Annotations[k] = v
	}
	switch f[0] {
	case "replicas":
		v := int32(num(1))
		set.Spec.Replicas = &v
	case "slots":
		ann(helper.DeleteSlotsAnn, hexDec(arg(1)))
	case "pause":
		ann(helper.PausedReconcileAnn, hexDec(arg(1)))
	case "ann":
		ann(hexDec(arg(1)), hexDec(arg(2)))
	case "label":
		if set.Labels == nil {
			set.Labels = map[string]string{}
		}
		set.Labels[hexDec(arg(1))] = hexDec(arg(2))
	case "svc":
		set.Spec.ServiceName = hexDec(arg(1))
	case "status":
		n := int32(num(1))
		set.Status = appsv1.StatefulSetStatus{ObservedGeneration: int64(n), Replicas: n, ReadyReplicas: n - 1, CurrentReplicas: n / 2, UpdatedReplicas: n - n/2,
			CurrentRevision: "cur-" + arg(1), UpdateRevision: "upd-" + arg(1), CollisionCount: &n, AvailableReplicas: n,
			Conditions: []appsv1.StatefulSetCondition{{Type: "Weird", Status: corev1.ConditionTrue, Reason: "r", Message: "m " + arg(1)}}}
	case "gen":
		set.Generation = num(1)
	case "rv":
		set.ResourceVersion = hexDec(arg(1))
	case "strategy":
		switch arg(1) {
		case "ondelete":
			set.Spec.UpdateStrategy = appsv1.StatefulSetUpdateStrategy{Type: appsv1.OnDeleteStatefulSetStrategyType}
		case "rolling":
			set.Spec.UpdateStrategy = appsv1.StatefulSetUpdateStrategy{Type: appsv1.RollingUpdateStatefulSetStrategyType, RollingUpdate: &appsv1.RollingUpdateStatefulSetStrategy{}}
		case "part":
			p := int32(num(2))
			set.Spec.UpdateStrategy = appsv1.StatefulSetUpdateStrategy{Type: appsv1.RollingUpdateStatefulSetStrategyType, RollingUpdate: &appsv1.RollingUpdateStatefulSetStrategy{Partition: &p}}
		default:
			return false
		}
	case "policy":
		set.Spec.PodManagementPolicy = appsv1.PodManagementPolicyType(hexDec(arg(1)))
	case "rhl":
		v := int32(num(1))
		set.Spec.RevisionHistoryLimit = &v
	case "uid":
		set.UID = types.UID(hexDec(arg(1)))
	case "fin":
		set.Finalizers = append(set.Finalizers, hexDec(arg(1)))
	case "sel":
		if set.Spec.Selector == nil {
			set.Spec.Selector = &metav1.LabelSelector{}
		}
		if set.Spec.Selector.MatchLabels == nil {
			set.Spec.Selector.MatchLabels = map[string]string{}
		}
		set.Spec.Selector.MatchLabels[hexDec(arg(1))] = hexDec(arg(2))
	case "vct":
		set.Spec.VolumeClaimTemplates = append(set.Spec.VolumeClaimTemplates, corev1.PersistentVolumeClaim{ObjectMeta: metav1.ObjectMeta{Name: hexDec(arg(1))},
			Spec: corev1.PersistentVolumeClaimSpec{AccessModes: []corev1.PersistentVolumeAccessMode{corev1.ReadWriteOnce}}})
	case "minready":
		set.Spec.MinReadySeconds = int32(num(1))
	case "owner":
		t := true
		set.OwnerReferences = append(set.OwnerReferences, metav1.OwnerReference{APIVersion: "v1", Kind: "ConfigMap", Name: hexDec(arg(1)), UID: "u-1", Controller: &t})
	case "del":
		ts := metav1.Unix(1700000000, 0)
		set.DeletionTimestamp = &ts
	case "ts":
		set.CreationTimestamp = metav1.Unix(1600000000, 0)
	default:
		return false
	}
	return true
}

type patchCase struct {
	set   *appsv1.StatefulSet
	tmplB *corev1.PodTemplateSpec
	rev   int64
	cc    *int32
	edits []string
}

func parsePatchCase(line string) (*patchCase, bool) {
	f := strings.Split(line, "|")
	if len(f) != 6 {
		return nil, false
	}
	pc := &patchCase{set: &appsv1.StatefulSet{}}
	if err := json.Unmarshal([]byte(hexDec(f[0])), pc.set); err != nil {
		return nil, false
	}
	if !patchEmptify(&pc.set.Spec.Template, f[1]) {
		return nil, false
	}
	if f[2] != "-" {
		pc.tmplB = &corev1.PodTemplateSpec{}
		if err := json.Unmarshal([]byte(hexDec(f[2])), pc.tmplB); err != nil {
			return nil, false
		}
	}
	r, err := strconv.ParseInt(f[3], 10, 64)
	if err != nil {
		return nil, false
	}
	pc.rev = r
	if f[4] != "-" {
		c, err := strconv.ParseInt(f[4], 10, 32)
		if err != nil {
			return nil, false
		}
		c32 := int32(c)
		pc.cc = &c32
	}
	if f[5] != "" {
		pc.edits = strings.Split(f[5], ";")
	}
	return pc, true
}

// ---------------------------------------------------------------- run

func hashList(h func(p *int32) string) string {
	var out []string
	for i := int32(0); i < 4; i++ {
		p := i
		out = append(out, h(&p))
	}
	out = append(out, h(nil))
	return strings.Join(out, ",")
}

func stringMapEq(a, b map[string]string) bool {
	if len(a) != len(b) {
		return false
	}
	for k, v := range a {
		if w, ok := b[k]; !ok || w != v {
			return false
		}
	}
	return true
}

func runPatch(line string) (obs string) {
	pc, ok := parsePatchCase(line)
	if !ok {
		return "bad-case"
	}
	defer func() {
		if r := recover(); r != nil {
			obs = "out=panic site=" + sanitize(fmt.Sprint(r))
		}
	}()
	adv, err := helper.FromBuiltinStatefulSet(pc.set)
	if err != nil {
		return "out=converr site=" + sanitize(err.Error())
	}
	patch, err := sts.VerifGetPatch(adv)
	if err != nil {
		return "out=patcherr site=" + sanitize(err.Error())
	}
	ref, err := upstreamGetPatch(pc.set)
	if err != nil {
		return "out=referr site=" + sanitize(err.Error())
	}
	enc, err := runtime.Encode(advancedCodec, adv)
	if err != nil {
		return "out=encerr site=" + sanitize(err.Error())
	}
	var b strings.Builder
	fmt.Fprintf(&b, "out=ok enc=%s patch=%s same=%s refd=%d", patchCanonJSON(enc), hexEnc(string(patch)), b2s(bytes.Equal(patch, ref)), fnv32(ref))

	// (b) every non-template edit on its own
	changed := "0"
	for i, e := range pc.edits {
		c := pc.set.DeepCopy()
		if !applyPatchEdit(c, e) {
			return "bad-case"
		}
		ca, err := helper.FromBuiltinStatefulSet(c)
		if err != nil {
			changed = fmt.Sprintf("converr.%d.%s", i, strings.SplitN(e, ":", 2)[0])
			break
		}
		p2, err := sts.VerifGetPatch(ca)
		if err != nil || !bytes.Equal(p2, patch) {
			changed = fmt.Sprintf("%d.%s", i, strings.SplitN(e, ":", 2)[0])
			break
		}
	}
	fmt.Fprintf(&b, " edits=%s", changed)

	// (d) Match on the own revision; (e) hash / name / labels against upstream's
	advRev, err := sts.VerifNewRevision(adv, pc.rev, pc.cc)
	if err != nil {
		return "out=reverr site=" + sanitize(err.Error())
	}
	refRev, err := upstreamNewRevision(pc.set, pc.rev, pc.cc)
	if err != nil {
		return "out=referr site=" + sanitize(err.Error())
	}
	m, err := sts.Match(adv, advRev)
	if err != nil {
		return "out=matcherr site=" + sanitize(err.Error())
	}
	mref, err := sts.Match(adv, refRev)
	if err != nil {
		return "out=matcherr site=" + sanitize(err.Error())
	}
	meta := stringMapEq(advRev.Labels, refRev.Labels) && stringMapEq(advRev.Annotations, refRev.Annotations) && advRev.Revision == refRev.Revision &&
		bytes.Equal(advRev.Data.Raw, patch) && advRev.Labels[k8s.ControllerRevisionHashLabel] != "" && len(advRev.OwnerReferences) == 1 &&
		advRev.OwnerReferences[0].Name == adv.Name && advRev.OwnerReferences[0].UID == adv.UID
	fmt.Fprintf(&b, " match=%s matchref=%s adopt=%s hash=%s hashref=%s name=%s nameref=%s revmeta=%s", b2s(m), b2s(mref), b2s(k8s.EqualRevision(advRev, refRev)),
		hashList(func(p *int32) string { return sts.VerifHashControllerRevision(advRev, p) }),
		hashList(func(p *int32) string { return upstreamHashControllerRevision(refRev, p) }),
		hexEnc(advRev.Name), hexEnc(refRev.Name), b2s(meta))

	// (c) the revision recorded for template A (by this controller, and by the built-in one), applied to the set carrying template B and all the edits
	if pc.tmplB != nil {
		sb := pc.set.DeepCopy()
		sb.Spec.Template = *pc.tmplB.DeepCopy()
		for _, e := range pc.edits {
			applyPatchEdit(sb, e)
		}
		advB, err := helper.FromBuiltinStatefulSet(sb)
		if err != nil {
			return "out=converr site=" + sanitize(err.Error())
		}
		encB, err := runtime.Encode(advancedCodec, advB)
		if err != nil {
			return "out=encerr site=" + sanitize(err.Error())
		}
		before := advB.DeepCopy()
		restored, err := sts.ApplyRevision(advB, advRev)
		if err != nil {
			return "out=applyerr site=" + sanitize(err.Error())
		}
		restoredRef, err := sts.ApplyRevision(advB, refRev)
		if err != nil {
			return "out=applyerr site=" + sanitize(err.Error())
		}
		rs, err := runtime.Encode(advancedCodec, restored)
		if err != nil {
			return "out=encerr site=" + sanitize(err.Error())
		}
		restore := apiequality.Semantic.DeepEqual(restored.Spec.Template, adv.Spec.Template)
		restoreRef := apiequality.Semantic.DeepEqual(restoredRef, restored)
		rc := restored.DeepCopy()
		rc.Spec.Template = before.Spec.Template
		rest := apiequality.Semantic.DeepEqual(rc.ObjectMeta, before.ObjectMeta) && apiequality.Semantic.DeepEqual(rc.Spec, before.Spec) &&
			apiequality.Semantic.DeepEqual(rc.Status, before.Status) && apiequality.Semantic.DeepEqual(advB, before)
		mb, err := sts.Match(advB, advRev)
		if err != nil {
			return "out=matcherr site=" + sanitize(err.Error())
		}
		fmt.Fprintf(&b, " tdiff=%s encb=%s rs=%s restore=%s restoreref=%s rest=%s matchb=%s", b2s(!apiequality.Semantic.DeepEqual(advB.Spec.Template, adv.Spec.Template)),
			patchCanonJSON(encB), patchCanonJSON(rs), b2s(restore), b2s(restoreRef), b2s(rest), b2s(mb))
	}
	if patchHasBigInt(enc) {
		b.WriteString(" bigint=1")
	}
	return b.String()
}

// patchHasBigInt: some integer of the encoded set is not exactly representable as a float64 (|n| > 2^53).
func patchHasBigInt(enc []byte) bool {
	dec := json.NewDecoder(bytes.NewReader(enc))
	dec.UseNumber()
	var v interface{}
	if dec.Decode(&v) != nil {
		return false
	}
	var walk func(x interface{}) bool
	walk = func(x interface{}) bool {
		switch t := x.(type) {
		case json.Number:
			if n, err := t.Int64(); err == nil {
				return n > 1<<53 || n < -(1<<53)
			}
		case map[string]interface{}:
			for _, y := range t {
				if walk(y) {
					return true
				}
			}
		case []interface{}:
			for _, y := range t {
				if walk(y) {
					return true
				}
			}
		}
		return false
	}
	return walk(v)
}

// patchSortedKeys is used by the generator when it has to walk a map deterministically.
func patchSortedKeys(m map[string]interface{}) []string {
	ks := make([]string, 0, len(m))
	for k := range m {
		ks = append(ks, k)
	}
	sort.Strings(ks)
	return ks
}
