package main

import (
	"bytes"
	"encoding/json"
	"fmt"
	"math/rand"
	"strings"

	appsv1 "k8s.io/api/apps/v1"
	corev1 "k8s.io/api/core/v1"
	"k8s.io/apimachinery/pkg/api/resource"
	metav1 "k8s.io/apimachinery/pkg/apis/meta/v1"
	"k8s.io/apimachinery/pkg/util/intstr"
)

// Generator of the `patch` engine: built-in StatefulSets with broad random-but-plausible pod templates.
// Integers stay inside the ranges pod validation accepts (and far below 2^53: getPatch goes through float64).

type pg struct{ r *rand.Rand }

func (g *pg) p(n int) bool { return g.r.Intn(n) == 0 } // probability 1/n
func (g *pg) n(lo, hi int) int {
	return lo + g.r.Intn(hi-lo+1)
}

var patchSpecials = []string{"<", ">", "&", "\u2028", "\u2029", "\"", "\\", "'", "é", "日本", "😀", "\n", "\t", "\r", "\b", "\f", "\x01", "\x1f", "\x7f", " ", "  ",
	"$patch", "/", "\ufffd", "</script>", "&amp;", "\\u003c", "\\n", "{}", "[]", "null", ":", ",", "=>", "|", "\u00a0", "\u0085", "ß", "\U0001F468\u200D\U0001F469"}

// free-form string (annotation values, args, env values, commands)
func (g *pg) free() string {
	switch weighted(g.r, 40, 30, 10, 5) {
	case 0:
		return g.word()
	case 1:
		var b strings.Builder
		for i, n := 0, g.n(1, 4); i < n; i++ {
			if g.p(2) {
				b.WriteString(pick(g.r, patchSpecials...))
			} else {
				b.WriteString(g.word())
			}
		}
		return b.String()
	case 2:
		return pick(g.r, "--flag=<none>", "a&&b", "sh -c \"echo $HOME\"", "x > /dev/null 2>&1", "{\"k\":[1,2]}", "line1\nline2", "tab\there", "C:\\path\\x", "100%", "")
	default:
		return ""
	}
}

var patchWords = []string{"web", "db", "nginx", "tikv", "pd", "app", "data", "cfg", "main", "side", "init", "a", "b1", "x-y", "v2", "prod", "zone", "tier"}

func (g *pg) word() string { return pick(g.r, patchWords...) }

func (g *pg) dnsName() string {
	if g.p(3) {
		return g.word() + "-" + g.word()
	}
	return g.word()
}

func (g *pg) labelKey() string {
	switch g.r.Intn(4) {
	case 0:
		return "app.kubernetes.io/" + g.word()
	case 1:
		return g.word() + "." + g.word() + "/" + g.word()
	default:
		return g.word()
	}
}

func (g *pg) labelVal() string {
	if g.p(6) {
		return ""
	}
	return pick(g.r, "v1", "a_b", "A.b-c", "0", "true", g.word(), "123")
}

// labels: nil a third of the time (the emptify ops turn some of those into empty non-nil maps)
func (g *pg) labels(free bool) map[string]string {
	if g.p(3) {
		return nil
	}
	m := map[string]string{}
	for i, n := 0, g.n(1, 3); i < n; i++ {
		if free {
			m[g.labelKey()] = g.free()
		} else {
			m[g.labelKey()] = g.labelVal()
		}
	}
	return m
}

var patchQuantities = []string{"1000m", "1Gi", "500m", "0.5", "1e3", "100M", "1.5Gi", "250m", "2", "1024Ki", "0", "1E2", "100Mi", "1Ti", "0.1", "1500m", "3", "64Mi", "1k", "2048", "1e-1", "4Gi", "12345678901"}

func (g *pg) quantity() resource.Quantity { return resource.MustParse(pick(g.r, patchQuantities...)) }

func (g *pg) resourceList() corev1.ResourceList {
	if g.p(3) {
		return nil
	}
	rl := corev1.ResourceList{}
	for _, k := range []corev1.ResourceName{corev1.ResourceCPU, corev1.ResourceMemory, corev1.ResourceEphemeralStorage, "hugepages-2Mi", "example.com/gpu"} {
		if g.p(2) {
			rl[k] = g.quantity()
		}
	}
	return rl
}

func (g *pg) strs(lo, hi int) []string {
	n := g.n(lo, hi)
	if n == 0 {
		return nil
	}
	out := make([]string, n)
	for i := range out {
		out[i] = g.free()
	}
	return out
}

func (g *pg) i32p(vals ...int32) *int32 { v := pick(g.r, vals...); return &v }
func (g *pg) i64p(vals ...int64) *int64 { v := pick(g.r, vals...); return &v }
func (g *pg) boolp() *bool              { v := g.p(2); return &v }
func (g *pg) strp(s string) *string     { return &s }

func (g *pg) port() intstr.IntOrString {
	if g.p(3) {
		return intstr.FromString(pick(g.r, "http", "metrics", "grpc"))
	}
	return intstr.FromInt(g.n(1, 65535))
}

func (g *pg) handler() corev1.ProbeHandler {
	switch g.r.Intn(4) {
	case 0:
		return corev1.ProbeHandler{Exec: &corev1.ExecAction{Command: g.strs(0, 3)}}
	case 1:
		h := &corev1.HTTPGetAction{Path: pick(g.r, "/healthz", "/", "/a?b=1&c=<2>", ""), Port: g.port()}
		if g.p(2) {
			h.Scheme = pick(g.r, corev1.URISchemeHTTP, corev1.URISchemeHTTPS)
		}
		if g.p(3) {
			h.Host = pick(g.r, "localhost", "10.0.0.1")
		}
		if g.p(3) {
			h.HTTPHeaders = []corev1.HTTPHeader{{Name: "X-" + g.word(), Value: g.free()}}
		}
		return corev1.ProbeHandler{HTTPGet: h}
	case 2:
		return corev1.ProbeHandler{TCPSocket: &corev1.TCPSocketAction{Port: g.port(), Host: pick(g.r, "", "127.0.0.1")}}
	default:
		gr := &corev1.GRPCAction{Port: int32(g.n(1, 65535))}
		if g.p(2) {
			gr.Service = g.strp(pick(g.r, "", "svc"))
		}
		return corev1.ProbeHandler{GRPC: gr}
	}
}

func (g *pg) probe() *corev1.Probe {
	if g.p(2) {
		return nil
	}
	p := &corev1.Probe{ProbeHandler: g.handler()}
	if g.p(2) {
		p.InitialDelaySeconds = int32(g.n(0, 600))
	}
	if g.p(2) {
		p.TimeoutSeconds = int32(g.n(1, 60))
	}
	if g.p(2) {
		p.PeriodSeconds = int32(g.n(1, 120))
	}
	if g.p(3) {
		p.SuccessThreshold = 1
	}
	if g.p(3) {
		p.FailureThreshold = int32(g.n(1, 10))
	}
	if g.p(5) {
		p.TerminationGracePeriodSeconds = g.i64p(1, 30, 3600)
	}
	return p
}

func (g *pg) lifecycleHandler() *corev1.LifecycleHandler {
	h := g.handler()
	if h.GRPC != nil {
		return &corev1.LifecycleHandler{Exec: &corev1.ExecAction{Command: []string{"true"}}}
	}
	return &corev1.LifecycleHandler{Exec: h.Exec, HTTPGet: h.HTTPGet, TCPSocket: h.TCPSocket}
}

func (g *pg) envVar() corev1.EnvVar {
	e := corev1.EnvVar{Name: strings.ToUpper(g.word()) + pick(g.r, "", "_X", "_1")}
	switch g.r.Intn(6) {
	case 0:
		e.ValueFrom = &corev1.EnvVarSource{FieldRef: &corev1.ObjectFieldSelector{FieldPath: pick(g.r, "metadata.name", "status.podIP", "metadata.labels['a']"), APIVersion: pick(g.r, "", "v1")}}
	case 1:
		q := g.quantity()
		e.ValueFrom = &corev1.EnvVarSource{ResourceFieldRef: &corev1.ResourceFieldSelector{ContainerName: pick(g.r, "", g.word()), Resource: "limits.cpu", Divisor: q}}
	case 2:
		e.ValueFrom = &corev1.EnvVarSource{ConfigMapKeyRef: &corev1.ConfigMapKeySelector{LocalObjectReference: corev1.LocalObjectReference{Name: g.dnsName()}, Key: g.word(), Optional: g.optBool()}}
	case 3:
		e.ValueFrom = &corev1.EnvVarSource{SecretKeyRef: &corev1.SecretKeySelector{LocalObjectReference: corev1.LocalObjectReference{Name: g.dnsName()}, Key: g.word(), Optional: g.optBool()}}
	default:
		e.Value = g.free()
	}
	return e
}

func (g *pg) optBool() *bool {
	if g.p(2) {
		return nil
	}
	return g.boolp()
}

func (g *pg) secCtx() *corev1.SecurityContext {
	if g.p(2) {
		return nil
	}
	sc := &corev1.SecurityContext{}
	if g.p(3) {
		sc.Capabilities = &corev1.Capabilities{}
		if g.p(2) {
			sc.Capabilities.Add = []corev1.Capability{"NET_ADMIN", "SYS_TIME"}[:g.n(1, 2)]
		}
		if g.p(2) {
			sc.Capabilities.Drop = []corev1.Capability{"ALL"}
		}
	}
	sc.Privileged = g.optBool()
	if g.p(3) {
		sc.RunAsUser = g.i64p(0, 1000, 65534, 2147483647)
	}
	if g.p(4) {
		sc.RunAsGroup = g.i64p(0, 3000)
	}
	sc.RunAsNonRoot = g.optBool()
	sc.ReadOnlyRootFilesystem = g.optBool()
	sc.AllowPrivilegeEscalation = g.optBool()
	if g.p(5) {
		sc.SELinuxOptions = &corev1.SELinuxOptions{Level: "s0:c123,c456", Role: pick(g.r, "", "r")}
	}
	if g.p(5) {
		pm := corev1.DefaultProcMount
		sc.ProcMount = &pm
	}
	if g.p(5) {
		sc.SeccompProfile = &corev1.SeccompProfile{Type: corev1.SeccompProfileTypeRuntimeDefault}
	}
	if g.p(8) {
		sc.SeccompProfile = &corev1.SeccompProfile{Type: corev1.SeccompProfileTypeLocalhost, LocalhostProfile: g.strp("profiles/x.json")}
	}
	return sc
}

func (g *pg) container(name string, vols []corev1.Volume, init bool) corev1.Container {
	c := corev1.Container{Name: name, Image: pick(g.r, "nginx", "nginx:1.25", "registry.k8s.io/pause:3.9", "quay.io/x/y@sha256:0123456789abcdef0123456789abcdef0123456789abcdef0123456789abcdef", "busybox:latest", "")}
	if g.p(2) {
		c.Command = g.strs(0, 3)
	}
	if g.p(2) {
		c.Args = g.strs(0, 4)
	}
	if g.p(5) {
		c.WorkingDir = pick(g.r, "/", "/work dir", "/tmp")
	}
	for i, n := 0, weighted(g.r, 4, 3, 2, 1); i < n; i++ {
		p := corev1.ContainerPort{ContainerPort: int32(g.n(1, 65535))}
		if g.p(2) {
			p.Name = pick(g.r, "http", "metrics", "grpc", "p"+fmt.Sprint(i))
		}
		if g.p(3) {
			p.Protocol = pick(g.r, corev1.ProtocolTCP, corev1.ProtocolUDP, corev1.ProtocolSCTP)
		}
		if g.p(6) {
			p.HostPort = int32(g.n(1, 65535))
		}
		if g.p(8) {
			p.HostIP = "0.0.0.0"
		}
		c.Ports = append(c.Ports, p)
	}
	if g.p(5) {
		c.EnvFrom = []corev1.EnvFromSource{{Prefix: pick(g.r, "", "P_"), ConfigMapRef: &corev1.ConfigMapEnvSource{LocalObjectReference: corev1.LocalObjectReference{Name: g.dnsName()}, Optional: g.optBool()}}}
		if g.p(2) {
			c.EnvFrom = append(c.EnvFrom, corev1.EnvFromSource{SecretRef: &corev1.SecretEnvSource{LocalObjectReference: corev1.LocalObjectReference{Name: g.dnsName()}}})
		}
	}
	for i, n := 0, weighted(g.r, 3, 3, 2, 2); i < n; i++ {
		c.Env = append(c.Env, g.envVar())
	}
	if g.p(2) {
		c.Resources.Limits = g.resourceList()
		c.Resources.Requests = g.resourceList()
		if g.p(8) {
			c.Resources.Claims = []corev1.ResourceClaim{{Name: g.word()}}
		}
	}
	if g.p(10) {
		c.ResizePolicy = []corev1.ContainerResizePolicy{{ResourceName: corev1.ResourceCPU, RestartPolicy: corev1.NotRequired}}
	}
	if init && g.p(6) {
		rp := corev1.ContainerRestartPolicyAlways
		c.RestartPolicy = &rp
	}
	for _, v := range vols {
		if g.p(2) {
			m := corev1.VolumeMount{Name: v.Name, MountPath: "/mnt/" + v.Name}
			if g.p(3) {
				m.ReadOnly = true
			}
			if g.p(4) {
				m.SubPath = pick(g.r, "sub", "a/b")
			}
			if g.p(8) {
				m.SubPathExpr = "$(POD_NAME)"
				m.SubPath = ""
			}
			if g.p(8) {
				mp := pick(g.r, corev1.MountPropagationNone, corev1.MountPropagationHostToContainer, corev1.MountPropagationBidirectional)
				m.MountPropagation = &mp
			}
			c.VolumeMounts = append(c.VolumeMounts, m)
		}
	}
	if g.p(12) {
		c.VolumeDevices = []corev1.VolumeDevice{{Name: "blk", DevicePath: "/dev/xvda"}}
	}
	if !init || g.p(4) {
		c.LivenessProbe = g.probe()
		c.ReadinessProbe = g.probe()
		if g.p(3) {
			c.StartupProbe = g.probe()
		}
	}
	if g.p(5) {
		c.Lifecycle = &corev1.Lifecycle{}
		if g.p(2) {
			c.Lifecycle.PostStart = g.lifecycleHandler()
		}
		if g.p(2) {
			c.Lifecycle.PreStop = g.lifecycleHandler()
		}
	}
	if g.p(3) {
		c.TerminationMessagePath = pick(g.r, "/dev/termination-log", "/tmp/msg")
	}
	if g.p(3) {
		c.TerminationMessagePolicy = pick(g.r, corev1.TerminationMessageReadFile, corev1.TerminationMessageFallbackToLogsOnError)
	}
	if g.p(2) {
		c.ImagePullPolicy = pick(g.r, corev1.PullAlways, corev1.PullIfNotPresent, corev1.PullNever)
	}
	c.SecurityContext = g.secCtx()
	if g.p(8) {
		c.Stdin, c.StdinOnce, c.TTY = g.p(2), g.p(2), g.p(2)
	}
	return c
}

func (g *pg) keyToPaths() []corev1.KeyToPath {
	if g.p(2) {
		return nil
	}
	k := corev1.KeyToPath{Key: g.word(), Path: "p/" + g.word()}
	if g.p(2) {
		k.Mode = g.i32p(0, 256, 420, 511)
	}
	return []corev1.KeyToPath{k}
}

func (g *pg) volume(name string) corev1.Volume {
	v := corev1.Volume{Name: name}
	switch g.r.Intn(10) {
	case 0:
		v.EmptyDir = &corev1.EmptyDirVolumeSource{}
	case 1:
		q := g.quantity()
		v.EmptyDir = &corev1.EmptyDirVolumeSource{Medium: corev1.StorageMediumMemory, SizeLimit: &q}
	case 2:
		v.HostPath = &corev1.HostPathVolumeSource{Path: "/var/" + g.word()}
		if g.p(2) {
			t := pick(g.r, corev1.HostPathDirectoryOrCreate, corev1.HostPathFile, corev1.HostPathUnset)
			v.HostPath.Type = &t
		}
	case 3:
		v.Secret = &corev1.SecretVolumeSource{SecretName: g.dnsName(), Items: g.keyToPaths(), Optional: g.optBool()}
		if g.p(2) {
			v.Secret.DefaultMode = g.i32p(0, 256, 420, 511)
		}
	case 4:
		v.ConfigMap = &corev1.ConfigMapVolumeSource{LocalObjectReference: corev1.LocalObjectReference{Name: g.dnsName()}, Items: g.keyToPaths(), Optional: g.optBool()}
		if g.p(2) {
			v.ConfigMap.DefaultMode = g.i32p(0, 420, 511)
		}
	case 5:
		v.PersistentVolumeClaim = &corev1.PersistentVolumeClaimVolumeSource{ClaimName: g.dnsName(), ReadOnly: g.p(3)}
	case 6:
		p := &corev1.ProjectedVolumeSource{}
		if g.p(2) {
			p.DefaultMode = g.i32p(420, 256)
		}
		if g.p(2) {
			p.Sources = append(p.Sources, corev1.VolumeProjection{Secret: &corev1.SecretProjection{LocalObjectReference: corev1.LocalObjectReference{Name: g.dnsName()}, Items: g.keyToPaths()}})
		}
		if g.p(2) {
			p.Sources = append(p.Sources, corev1.VolumeProjection{ConfigMap: &corev1.ConfigMapProjection{LocalObjectReference: corev1.LocalObjectReference{Name: g.dnsName()}, Optional: g.optBool()}})
		}
		if g.p(2) {
			p.Sources = append(p.Sources, corev1.VolumeProjection{ServiceAccountToken: &corev1.ServiceAccountTokenProjection{Audience: pick(g.r, "", "api"), ExpirationSeconds: g.i64p(600, 3600, 86400), Path: "token"}})
		}
		if g.p(2) {
			p.Sources = append(p.Sources, corev1.VolumeProjection{DownwardAPI: &corev1.DownwardAPIProjection{Items: []corev1.DownwardAPIVolumeFile{{Path: "labels", FieldRef: &corev1.ObjectFieldSelector{FieldPath: "metadata.labels"}}}}})
		}
		v.Projected = p
	case 7:
		q := g.quantity()
		v.DownwardAPI = &corev1.DownwardAPIVolumeSource{Items: []corev1.DownwardAPIVolumeFile{{Path: "cpu", ResourceFieldRef: &corev1.ResourceFieldSelector{ContainerName: "c0", Resource: "requests.cpu", Divisor: q}, Mode: g.i32p(256, 420)}}}
	case 8:
		v.NFS = &corev1.NFSVolumeSource{Server: "nfs.example.com", Path: "/exports/" + g.word(), ReadOnly: g.p(2)}
	default:
		v.CSI = &corev1.CSIVolumeSource{Driver: "csi.example.com", ReadOnly: g.optBool(), FSType: g.strp("ext4"), VolumeAttributes: map[string]string{"k": g.free()}}
	}
	return v
}

func (g *pg) nodeSelectorTerm() corev1.NodeSelectorTerm {
	t := corev1.NodeSelectorTerm{}
	for i, n := 0, g.n(1, 2); i < n; i++ {
		op := pick(g.r, corev1.NodeSelectorOpIn, corev1.NodeSelectorOpNotIn, corev1.NodeSelectorOpExists, corev1.NodeSelectorOpGt)
		r := corev1.NodeSelectorRequirement{Key: g.labelKey(), Operator: op}
		switch op {
		case corev1.NodeSelectorOpIn, corev1.NodeSelectorOpNotIn:
			r.Values = []string{g.labelVal(), "z"}[:g.n(1, 2)]
		case corev1.NodeSelectorOpGt:
			r.Values = []string{fmt.Sprint(g.n(0, 100))}
		}
		t.MatchExpressions = append(t.MatchExpressions, r)
	}
	if g.p(4) {
		t.MatchFields = []corev1.NodeSelectorRequirement{{Key: "metadata.name", Operator: corev1.NodeSelectorOpIn, Values: []string{"node-1"}}}
	}
	return t
}

func (g *pg) labelSelector() *metav1.LabelSelector {
	s := &metav1.LabelSelector{}
	if g.p(2) {
		s.MatchLabels = map[string]string{g.labelKey(): g.labelVal()}
	}
	if g.p(2) {
		s.MatchExpressions = []metav1.LabelSelectorRequirement{{Key: g.labelKey(), Operator: pick(g.r, metav1.LabelSelectorOpIn, metav1.LabelSelectorOpExists)}}
		if s.MatchExpressions[0].Operator == metav1.LabelSelectorOpIn {
			s.MatchExpressions[0].Values = []string{g.labelVal()}
		}
	}
	return s
}

func (g *pg) podAffinityTerm() corev1.PodAffinityTerm {
	t := corev1.PodAffinityTerm{LabelSelector: g.labelSelector(), TopologyKey: pick(g.r, "kubernetes.io/hostname", "topology.kubernetes.io/zone")}
	if g.p(3) {
		t.Namespaces = []string{"default", g.word()}[:g.n(1, 2)]
	}
	if g.p(4) {
		t.NamespaceSelector = g.labelSelector()
	}
	return t
}

func (g *pg) affinity() *corev1.Affinity {
	a := &corev1.Affinity{}
	if g.p(2) {
		na := &corev1.NodeAffinity{}
		if g.p(2) {
			na.RequiredDuringSchedulingIgnoredDuringExecution = &corev1.NodeSelector{NodeSelectorTerms: []corev1.NodeSelectorTerm{g.nodeSelectorTerm()}}
		}
		if g.p(2) {
			na.PreferredDuringSchedulingIgnoredDuringExecution = []corev1.PreferredSchedulingTerm{{Weight: int32(g.n(1, 100)), Preference: g.nodeSelectorTerm()}}
		}
		a.NodeAffinity = na
	}
	if g.p(3) {
		a.PodAffinity = &corev1.PodAffinity{RequiredDuringSchedulingIgnoredDuringExecution: []corev1.PodAffinityTerm{g.podAffinityTerm()}}
	}
	if g.p(2) {
		pa := &corev1.PodAntiAffinity{}
		if g.p(2) {
			pa.RequiredDuringSchedulingIgnoredDuringExecution = []corev1.PodAffinityTerm{g.podAffinityTerm()}
		}
		if g.p(2) {
			pa.PreferredDuringSchedulingIgnoredDuringExecution = []corev1.WeightedPodAffinityTerm{{Weight: int32(g.n(1, 100)), PodAffinityTerm: g.podAffinityTerm()}}
		}
		a.PodAntiAffinity = pa
	}
	return a
}

func (g *pg) template() corev1.PodTemplateSpec {
	var t corev1.PodTemplateSpec
	t.Labels = g.labels(false)
	t.Annotations = g.labels(true)
	if g.p(12) {
		t.Name = g.dnsName()
	}
	if g.p(20) {
		t.GenerateName = g.word() + "-"
	}
	if g.p(20) {
		t.Finalizers = []string{"example.com/fin"}
	}
	if g.p(20) {
		t.CreationTimestamp = metav1.Unix(int64(1500000000+g.r.Intn(200000000)), 0)
	}
	if g.p(25) {
		t.Namespace = g.word()
	}
	s := &t.Spec
	for i, n := 0, weighted(g.r, 3, 3, 2, 2); i < n; i++ {
		s.Volumes = append(s.Volumes, g.volume(fmt.Sprintf("v%d", i)))
	}
	for i, n := 0, weighted(g.r, 6, 3, 1); i < n; i++ {
		s.InitContainers = append(s.InitContainers, g.container(fmt.Sprintf("i%d", i), s.Volumes, true))
	}
	for i, n := 0, 1+weighted(g.r, 5, 3, 2); i < n; i++ {
		s.Containers = append(s.Containers, g.container(fmt.Sprintf("c%d", i), s.Volumes, false))
	}
	if g.p(2) {
		s.RestartPolicy = corev1.RestartPolicyAlways
	}
	switch g.r.Intn(5) {
	case 0:
		s.TerminationGracePeriodSeconds = g.i64p(0)
	case 1:
		s.TerminationGracePeriodSeconds = g.i64p(30)
	case 2:
		s.TerminationGracePeriodSeconds = g.i64p(1, 10, 600, 86400, 2147483647)
	}
	if g.p(25) {
		// pod validation puts no upper bound on the grace period: an int64 that float64 cannot represent exactly. getPatch
		// (here and upstream) goes through map[string]interface{}, so the recorded data rounds it. Such cases are judged by
		// the monitors only (the Lean model's numbers are exact) and carry bigint=1 in the observation.
		s.TerminationGracePeriodSeconds = g.i64p(9007199254740993, 9007199254740995, 1152921504606846977)
	}
	if g.p(10) {
		s.ActiveDeadlineSeconds = g.i64p(1, 3600, 2147483647)
	}
	if g.p(2) {
		s.DNSPolicy = pick(g.r, corev1.DNSClusterFirst, corev1.DNSClusterFirstWithHostNet, corev1.DNSDefault, corev1.DNSNone)
	}
	if g.p(3) {
		s.NodeSelector = map[string]string{g.labelKey(): g.labelVal()}
		if g.p(2) {
			s.NodeSelector["kubernetes.io/os"] = "linux"
		}
	}
	switch g.r.Intn(5) {
	case 0:
		s.ServiceAccountName = g.dnsName()
	case 1:
		s.ServiceAccountName = g.dnsName()
		s.DeprecatedServiceAccount = s.ServiceAccountName
	case 2:
		s.DeprecatedServiceAccount = g.dnsName()
	}
	if g.p(4) {
		s.AutomountServiceAccountToken = g.boolp()
	}
	if g.p(15) {
		s.NodeName = "node-" + g.word()
	}
	if g.p(4) {
		s.HostNetwork = true
	}
	if g.p(10) {
		s.HostPID = true
	}
	if g.p(10) {
		s.HostIPC = true
	}
	if g.p(8) {
		s.ShareProcessNamespace = g.boolp()
	}
	if g.p(2) {
		sc := &corev1.PodSecurityContext{}
		if g.p(3) {
			sc.RunAsUser = g.i64p(0, 1000, 4294967295, 2147483647)
		}
		if g.p(3) {
			sc.RunAsGroup = g.i64p(0, 2000)
		}
		sc.RunAsNonRoot = g.optBool()
		if g.p(3) {
			sc.FSGroup = g.i64p(0, 2000, 65534)
		}
		if g.p(4) {
			sc.SupplementalGroups = []int64{1, 2, 1000}[:g.n(0, 3)]
		}
		if g.p(5) {
			sc.Sysctls = []corev1.Sysctl{{Name: "net.core.somaxconn", Value: "1024"}}
		}
		if g.p(5) {
			sc.SELinuxOptions = &corev1.SELinuxOptions{User: "u", Type: "t"}
		}
		if g.p(5) {
			p := pick(g.r, corev1.FSGroupChangeOnRootMismatch, corev1.FSGroupChangeAlways)
			sc.FSGroupChangePolicy = &p
		}
		if g.p(5) {
			sc.SeccompProfile = &corev1.SeccompProfile{Type: corev1.SeccompProfileTypeUnconfined}
		}
		s.SecurityContext = sc
	}
	if g.p(6) {
		s.ImagePullSecrets = []corev1.LocalObjectReference{{Name: g.dnsName()}, {Name: "regcred"}}[:g.n(1, 2)]
	}
	if g.p(10) {
		s.Hostname = g.word()
	}
	if g.p(10) {
		s.Subdomain = g.word()
	}
	if g.p(3) {
		s.Affinity = g.affinity()
	}
	if g.p(4) {
		s.SchedulerName = pick(g.r, "default-scheduler", "my-sched")
	}
	for i, n := 0, weighted(g.r, 6, 2, 2); i < n; i++ {
		tol := corev1.Toleration{}
		switch g.r.Intn(3) {
		case 0:
			tol = corev1.Toleration{Operator: corev1.TolerationOpExists}
		case 1:
			tol = corev1.Toleration{Key: g.labelKey(), Operator: corev1.TolerationOpEqual, Value: g.labelVal(), Effect: pick(g.r, corev1.TaintEffectNoSchedule, corev1.TaintEffectPreferNoSchedule, "")}
		default:
			tol = corev1.Toleration{Key: "node.kubernetes.io/not-ready", Operator: corev1.TolerationOpExists, Effect: corev1.TaintEffectNoExecute, TolerationSeconds: g.i64p(0, 300, -1, 86400)}
		}
		s.Tolerations = append(s.Tolerations, tol)
	}
	if g.p(10) {
		s.HostAliases = []corev1.HostAlias{{IP: "10.1.2.3", Hostnames: []string{"a.local", "b.local"}[:g.n(0, 2)]}}
	}
	if g.p(8) {
		s.PriorityClassName = pick(g.r, "system-cluster-critical", "high")
	}
	if g.p(12) {
		s.Priority = g.i32p(0, 1000, -10, 2000000000)
	}
	if g.p(10) {
		s.DNSConfig = &corev1.PodDNSConfig{Nameservers: []string{"1.1.1.1"}, Searches: g.strs(0, 1), Options: []corev1.PodDNSConfigOption{{Name: "ndots", Value: g.strp("2")}, {Name: "edns0"}}}
	}
	if g.p(12) {
		s.ReadinessGates = []corev1.PodReadinessGate{{ConditionType: "example.com/ready"}}
	}
	if g.p(12) {
		s.RuntimeClassName = g.strp("gvisor")
	}
	if g.p(8) {
		s.EnableServiceLinks = g.boolp()
	}
	if g.p(12) {
		pp := pick(g.r, corev1.PreemptNever, corev1.PreemptLowerPriority)
		s.PreemptionPolicy = &pp
	}
	if g.p(12) {
		s.Overhead = g.resourceList()
	}
	if g.p(8) {
		c := corev1.TopologySpreadConstraint{MaxSkew: int32(g.n(1, 5)), TopologyKey: "topology.kubernetes.io/zone", WhenUnsatisfiable: pick(g.r, corev1.DoNotSchedule, corev1.ScheduleAnyway), LabelSelector: g.labelSelector()}
		if g.p(3) {
			c.MinDomains = g.i32p(1, 3)
		}
		if g.p(3) {
			c.MatchLabelKeys = []string{"pod-template-hash"}
		}
		s.TopologySpreadConstraints = []corev1.TopologySpreadConstraint{c}
	}
	if g.p(15) {
		s.SetHostnameAsFQDN = g.boolp()
	}
	if g.p(15) {
		s.OS = &corev1.PodOS{Name: corev1.Linux}
	}
	if g.p(20) {
		s.HostUsers = g.boolp()
	}
	if g.p(20) {
		s.SchedulingGates = []corev1.PodSchedulingGate{{Name: "example.com/gate"}}
	}
	if g.p(20) {
		s.ResourceClaims = []corev1.PodResourceClaim{{Name: "rc", Source: corev1.ClaimSource{ResourceClaimTemplateName: g.strp("tmpl")}}}
	}
	return t
}

// emptify ops that make sense for the template (an op is only offered where the field is nil, so that it changes something)
func (g *pg) emptifyOps(t *corev1.PodTemplateSpec) string {
	var ops []string
	add := func(cond bool, op string) {
		if cond && g.p(3) {
			ops = append(ops, op)
		}
	}
	add(t.Labels == nil, "tl")
	add(t.Annotations == nil, "ta")
	add(t.Spec.NodeSelector == nil, "ns")
	add(t.Spec.Volumes == nil, "vol")
	add(t.Spec.Tolerations == nil, "tol")
	add(t.Spec.ImagePullSecrets == nil, "ips")
	add(t.Spec.InitContainers == nil, "ic")
	for i, c := range t.Spec.Containers {
		p := fmt.Sprintf("c%d.", i)
		add(c.Command == nil, p+"cmd")
		add(c.Args == nil, p+"args")
		add(c.Env == nil, p+"env")
		add(c.Ports == nil, p+"ports")
		add(c.VolumeMounts == nil, p+"vm")
		add(c.Resources.Limits == nil, p+"lim")
		add(c.Resources.Requests == nil, p+"req")
	}
	return strings.Join(ops, ",")
}

var patchEditKinds = []string{"replicas", "slots", "pause", "ann", "label", "svc", "status", "gen", "rv", "strategy", "policy", "rhl", "uid", "fin", "sel", "vct", "minready", "owner", "del", "ts"}

func (g *pg) edit(kind string) string {
	switch kind {
	case "replicas":
		return fmt.Sprintf("replicas:%d", g.n(0, 50))
	case "slots":
		return "slots:" + hexEnc(pick(g.r, "[1]", "[0,2,5]", "[]", "not json", "[1,<2>]"))
	case "pause":
		return "pause:" + hexEnc(pick(g.r, "true", "false", ""))
	case "ann":
		return "ann:" + hexEnc(pick(g.r, "note", "kubectl.kubernetes.io/last-applied-configuration", "$patch", "spec")) + ":" + hexEnc(g.free())
	case "label":
		return "label:" + hexEnc(g.labelKey()) + ":" + hexEnc(g.labelVal())
	case "svc":
		return "svc:" + hexEnc(g.dnsName()+"-svc")
	case "status":
		return fmt.Sprintf("status:%d", g.n(0, 9))
	case "gen":
		return fmt.Sprintf("gen:%d", g.n(1, 1000))
	case "rv":
		return "rv:" + hexEnc(fmt.Sprint(g.n(1, 1000000)))
	case "strategy":
		return "strategy:" + pick(g.r, "ondelete", "rolling", fmt.Sprintf("part:%d", g.n(0, 5)))
	case "policy":
		return "policy:" + hexEnc(pick(g.r, "Parallel", "OrderedReady", "", "Weird"))
	case "rhl":
		return fmt.Sprintf("rhl:%d", g.n(0, 20))
	case "uid":
		return "uid:" + hexEnc("uid-"+g.word())
	case "fin":
		return "fin:" + hexEnc("example.com/"+g.word())
	case "sel":
		return "sel:" + hexEnc(g.labelKey()) + ":" + hexEnc(g.labelVal())
	case "vct":
		return "vct:" + hexEnc(g.word())
	case "minready":
		return fmt.Sprintf("minready:%d", g.n(1, 60))
	case "owner":
		return "owner:" + hexEnc(g.word())
	}
	return kind // del, ts
}

// noncanonicalQuantities rewrites, in the JSON of the case, canonical quantity strings into equivalent non-canonical spellings, so that the
// decoded object holds quantities that need canonicalisation on their way out.
func noncanonicalQuantities(g *pg, data []byte) []byte {
	alt := map[string][]string{"1": {"1000m", "1e0", "1.0"}, "1Gi": {"1024Mi", "1048576Ki"}, "500m": {"0.5", "0.500"}, "1k": {"1e3", "1000"}, "2": {"2000m", "2.0"},
		"100M": {"100e6", "100000k"}, "100": {"1E2", "100.0"}, "100m": {"0.1", "1e-1"}, "3": {"3000m"}, "1500m": {"1.5"}, "0": {"0m", "0Gi"}}
	dec := json.NewDecoder(bytes.NewReader(data))
	dec.UseNumber()
	var v interface{}
	if dec.Decode(&v) != nil {
		return data
	}
	var walk func(x interface{}, inList bool)
	walk = func(x interface{}, inList bool) {
		switch t := x.(type) {
		case map[string]interface{}:
			for _, k := range patchSortedKeys(t) {
				if inList {
					if s, ok := t[k].(string); ok {
						if a, ok := alt[s]; ok && g.p(2) {
							t[k] = pick(g.r, a...)
						}
						continue
					}
				}
				if s, ok := t[k].(string); ok && (k == "sizeLimit" || k == "divisor") {
					if a, ok := alt[s]; ok && g.p(2) {
						t[k] = pick(g.r, a...)
					}
					continue
				}
				walk(t[k], k == "limits" || k == "requests" || k == "overhead")
			}
		case []interface{}:
			for _, e := range t {
				walk(e, false)
			}
		}
	}
	walk(v, false)
	out, err := json.Marshal(v)
	if err != nil {
		return data
	}
	return out
}

func (g *pg) setAround(t corev1.PodTemplateSpec) *appsv1.StatefulSet {
	name := g.dnsName()
	if g.p(25) {
		name = strings.Repeat("n", g.n(220, 230)) // revision names truncate the prefix at 223 bytes
	}
	set := &appsv1.StatefulSet{ObjectMeta: metav1.ObjectMeta{Name: name, Namespace: pick(g.r, "default", "ns1", "")}}
	if g.p(2) {
		set.TypeMeta = metav1.TypeMeta{Kind: "StatefulSet", APIVersion: "apps/v1"}
	}
	if g.p(2) {
		set.UID = "uid-1"
	}
	set.Labels = g.labels(false)
	set.Annotations = g.labels(true)
	if g.p(2) {
		set.Generation = int64(g.n(1, 20))
	}
	if g.p(3) {
		set.ResourceVersion = fmt.Sprint(g.n(1, 99999))
	}
	if g.p(3) {
		set.CreationTimestamp = metav1.Unix(1650000000, 0)
	}
	if !g.p(6) {
		set.Spec.Replicas = g.i32p(0, 1, 3, 5)
	}
	if !g.p(8) {
		set.Spec.Selector = &metav1.LabelSelector{MatchLabels: t.Labels}
	}
	set.Spec.ServiceName = pick(g.r, "", g.word())
	if g.p(2) {
		set.Spec.PodManagementPolicy = pick(g.r, appsv1.ParallelPodManagement, appsv1.OrderedReadyPodManagement)
	}
	switch g.r.Intn(4) {
	case 0:
		set.Spec.UpdateStrategy.Type = appsv1.RollingUpdateStatefulSetStrategyType
	case 1:
		set.Spec.UpdateStrategy = appsv1.StatefulSetUpdateStrategy{Type: appsv1.RollingUpdateStatefulSetStrategyType, RollingUpdate: &appsv1.RollingUpdateStatefulSetStrategy{Partition: g.i32p(0, 1, 2)}}
	case 2:
		set.Spec.UpdateStrategy.Type = appsv1.OnDeleteStatefulSetStrategyType
	}
	if g.p(3) {
		set.Spec.RevisionHistoryLimit = g.i32p(0, 2, 10)
	}
	if g.p(3) {
		q := g.quantity()
		set.Spec.VolumeClaimTemplates = []corev1.PersistentVolumeClaim{{ObjectMeta: metav1.ObjectMeta{Name: "data"}, Spec: corev1.PersistentVolumeClaimSpec{
			AccessModes: []corev1.PersistentVolumeAccessMode{corev1.ReadWriteOnce}, Resources: corev1.ResourceRequirements{Requests: corev1.ResourceList{corev1.ResourceStorage: q}}}}}
	}
	if g.p(6) {
		set.Spec.MinReadySeconds = int32(g.n(1, 30))
	}
	if g.p(8) {
		set.Spec.PersistentVolumeClaimRetentionPolicy = &appsv1.StatefulSetPersistentVolumeClaimRetentionPolicy{WhenDeleted: appsv1.DeletePersistentVolumeClaimRetentionPolicyType, WhenScaled: appsv1.RetainPersistentVolumeClaimRetentionPolicyType}
	}
	if g.p(10) {
		set.Spec.Ordinals = &appsv1.StatefulSetOrdinals{Start: int32(g.n(0, 3))}
	}
	if g.p(2) {
		n := int32(g.n(0, 5))
		set.Status = appsv1.StatefulSetStatus{ObservedGeneration: set.Generation, Replicas: n, ReadyReplicas: n, CurrentReplicas: n, UpdatedReplicas: n, CurrentRevision: name + "-abc", UpdateRevision: name + "-abc"}
	}
	set.Spec.Template = t
	return set
}

// variant of a template: the "other" template of a case (a rollout step: usually one or two fields differ; sometimes unrelated; sometimes equal)
func (g *pg) variant(t corev1.PodTemplateSpec) corev1.PodTemplateSpec {
	switch weighted(g.r, 5, 3, 1, 1) {
	case 0:
		v := *t.DeepCopy()
		switch g.r.Intn(6) {
		case 0:
			v.Spec.Containers[0].Image = "nginx:" + fmt.Sprint(g.n(1, 99))
		case 1:
			if v.Annotations == nil {
				v.Annotations = map[string]string{}
			}
			v.Annotations["restartedAt"] = g.free() + "x"
		case 2:
			v.Spec.Containers[0].Env = append(v.Spec.Containers[0].Env, corev1.EnvVar{Name: "EXTRA", Value: g.free()})
		case 3:
			v.Spec.Containers[0].Resources.Limits = corev1.ResourceList{corev1.ResourceCPU: resource.MustParse(fmt.Sprintf("%dm", g.n(1, 4000)))}
		case 4:
			v.Spec.TerminationGracePeriodSeconds = g.i64p(7, 77)
		default:
			v.Spec.Containers = append(v.Spec.Containers, g.container("extra", v.Spec.Volumes, false))
		}
		return v
	case 1:
		return g.template()
	case 2:
		return *t.DeepCopy()
	default:
		return corev1.PodTemplateSpec{}
	}
}

func (g *pg) caseLine(set *appsv1.StatefulSet, empt string, b *corev1.PodTemplateSpec, edits []string) string {
	data, err := json.Marshal(set)
	if err != nil {
		panic(err)
	}
	if g.p(2) {
		data = noncanonicalQuantities(g, data)
	}
	bs := "-"
	if b != nil {
		bd, err := json.Marshal(b)
		if err != nil {
			panic(err)
		}
		bs = hexEnc(string(bd))
	}
	cc := "-"
	if !g.p(4) {
		cc = fmt.Sprint(g.n(0, 3))
	}
	return fmt.Sprintf("%s|%s|%s|%d|%s|%s", hexEnc(string(data)), empt, bs, g.n(0, 12), cc, strings.Join(edits, ";"))
}

func genPatch(rng *rand.Rand, n int, emit func(string)) {
	g := &pg{r: rng}
	for i := 0; i < n; i++ {
		var t corev1.PodTemplateSpec
		if g.p(40) { // degenerate stream: a template nobody would write
			t = pick(g.r, corev1.PodTemplateSpec{}, corev1.PodTemplateSpec{Spec: corev1.PodSpec{Containers: []corev1.Container{}}},
				corev1.PodTemplateSpec{ObjectMeta: metav1.ObjectMeta{Labels: map[string]string{"$patch": "delete"}}})
		} else {
			t = g.template()
		}
		set := g.setAround(t)
		empt := g.emptifyOps(&t)
		var b *corev1.PodTemplateSpec
		if g.p(3) {
			var v corev1.PodTemplateSpec
			if len(t.Spec.Containers) == 0 {
				v = g.template()
			} else {
				v = g.variant(t)
			}
			b = &v
		}
		var edits []string
		for j, m := 0, g.n(2, 7); j < m; j++ {
			edits = append(edits, g.edit(patchEditKinds[(i+j*7)%len(patchEditKinds)]))
		}
		emit(g.caseLine(set, empt, b, edits))
	}
}

// enum "edits": a handful of fixed-seed templates x every edit kind on its own (with and without a second template)
func enumPatch(scope string, emit func(string)) {
	g := &pg{r: rand.New(rand.NewSource(424242))}
	for i := 0; i < 6; i++ {
		t := g.template()
		set := g.setAround(t)
		for _, k := range patchEditKinds {
			emit(g.caseLine(set, "", nil, []string{g.edit(k)}))
			v := g.variant(t)
			emit(g.caseLine(set, "", &v, []string{g.edit(k)}))
		}
	}
}
