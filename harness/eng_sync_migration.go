package main

import (
	"fmt"
	"math/rand"
	"sort"
)

// Generator-only sibling of the `sync` engine (same case format, same runner): worlds as the real helper.Upgrade leaves them, at any point of a
// rollout and at any point of the garbage collector's orphaning (C18, migration-flow half). `harness syncmig gen N` wrote corpus/sync/migration.txt.
//
//	revisions: the whole built-in history (length 1..3): selector labels removed, upgrade marker set, hash label and name as the built-in controller
//	           wrote them (= what this controller computes, C18 byte half), owner = the built-in set (o) or already orphaned (n)
//	pods:      canonical names, labels matching, owner o or n, revision label = update or current revision
//	status:    copied from the built-in set (current / update revision names, counters, collision count)
func init() {
	engines["syncmig"] = &Engine{Gen: genSyncMigration, Run: runSync}
}

func genSyncMigration(rng *rand.Rand, n int, emit func(string)) {
	for i := 0; i < n; i++ {
		c := &syCase{selOk: true, fuid: 1, paused: 0}
		c.r = 1 + rng.Intn(4)
		c.pol = pick(rng, "O", "P")
		c.strat = pick(rng, "R", "R", "D")
		c.ru = pick(rng, "none", "0", "0", fmt.Sprint(rng.Intn(c.r+1)))
		c.gen = 1 + rng.Intn(4)
		c.lim = pick(rng, 10, 10, 2, 1)
		c.tmpl = "A"
		c.cc = pick(rng, "0", "0", "nil")
		c.names = syNames(c, c.cc0())
		hist := 1 + rng.Intn(3)
		updName, updHash := syHashName(c, "A", 0)
		olds := []string{"X", "Y"}
		for k := 1; k < hist; k++ {
			d := olds[k-1]
			nm, h := syHashName(c, d, 0)
			c.store = append(c.store, syRev{name: nm, number: k, ctim: k, data: d, hash: h, owner: pick(rng, "o", "n"), sel: false, marker: true})
		}
		c.store = append(c.store, syRev{name: updName, number: hist, ctim: hist, data: "A", hash: updHash, owner: pick(rng, "o", "n"), sel: false, marker: true})
		sort.Slice(c.store, func(a, b int) bool { return c.store[a].name < c.store[b].name })
		// point of the rollout: the highest `done` ordinals already run the update revision
		curName := updName
		done := c.r
		if hist > 1 && rng.Intn(3) != 0 {
			curName, _ = syHashName(c, olds[hist-2], 0)
			done = rng.Intn(c.r + 1)
		}
		if done == c.r {
			curName = updName
		}
		for o := 0; o < c.r; o++ {
			rev := curName
			if o >= c.r-done {
				rev = updName
			}
			ready := true
			if rng.Intn(8) == 0 {
				ready = false
			}
			c.pods = append(c.pods, syPod{name: fmt.Sprintf("%s-%d", rcSetName, o), ord: o, member: true, phase: "R", ready: ready, rev: rev, idOk: true, owner: pick(rng, "o", "n"), sel: true})
		}
		rng.Shuffle(len(c.pods), func(a, b int) { c.pods[a], c.pods[b] = c.pods[b], c.pods[a] })
		cur, upd := c.r-done, done
		if curName == updName {
			cur, upd = c.r, c.r
		}
		c.stored = [7]string{fmt.Sprint(c.r), fmt.Sprint(c.r), fmt.Sprint(cur), fmt.Sprint(upd), curName, updName, fmt.Sprint(c.gen)}
		emit(c.line())
	}
}
