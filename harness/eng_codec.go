package main

import (
	"context"
	"encoding/json"
	"fmt"
	"math/rand"
	"reflect"
	"sort"
	"strings"

	appsv1 "k8s.io/api/apps/v1"
	apiequality "k8s.io/apimachinery/pkg/api/equality"
	"k8s.io/apimachinery/pkg/api/resource"
	metav1 "k8s.io/apimachinery/pkg/apis/meta/v1"
	"k8s.io/apimachinery/pkg/runtime"
	kubefake "k8s.io/client-go/kubernetes/fake"
	clienttesting "k8s.io/client-go/testing"

	asv1 "github.com/pingcap/advanced-statefulset/client/apis/apps/v1"
	"github.com/pingcap/advanced-statefulset/client/apis/apps/v1/helper"
	asfake "github.com/pingcap/advanced-statefulset/client/client/clientset/versioned/fake"
)

// Engine "codec": conversion between the built-in and the Advanced StatefulSet types, directly and through the hijack client.
//
//	case: <emp>|<json of an apps/v1 StatefulSet>[|<json>...]      (first object = the one written; all objects = the list)
//	      emp = 0 | seed: nil slices / maps of the decoded objects are replaced by empty non-nil ones (coin flips from seed)
//	obs : asj=<canonical JSON of FromBuiltinStatefulSet(object as decoded, before the emp perturbation)>
//	      lj=<canonical JSON of ToBuiltinStetefulsetList(list of the Advanced conversions of all objects as decoded)>
//	      conv=<0/1>    ToBuiltin(FromBuiltin(o)) semantically equals o restricted to the fields the Advanced type models
//	      conv2=<0/1>   FromBuiltin(ToBuiltin(a)) semantically equals a (a = FromBuiltin(o))
//	      av=<apiVersion:kind of what comes back>  asav=<apiVersion of the Advanced object>
//	      lost=<paths>  hijack Create then Get: JSON paths at which a value present in o (restricted as above) is missing or different
//	      crt=<0/1>     the object returned by Create equals the object returned by Get
//	      upd=<0/1>     hijack Update of what was read, Get again: semantically equal
//	      ust=<0/1>     hijack UpdateStatus of what was read with a changed status, Get again: equal to what was sent
//	      hav=<apiVersion:kind of what hijack Get returns>
//	      len=<n>:<m>   list of n Advanced objects served to hijack List, m items returned; order=<0/1> names in the same order;
//	      items=<0/1>   every item semantically equals its source restricted as above; lav=<apiVersion of list:of items (distinct)>
//	      lmeta=<0/1>   list metadata kept; dlist=<0/1> same through ToBuiltinStetefulsetList directly
//	      err=<none|where,...>
func init() {
	engines["codec"] = &Engine{Gen: genCodec, Run: runCodec}
}

// projectOnto returns src (a value of built-in type bt) with every field that has no counterpart in the Advanced type at
// zeroed. Types that are identical on both sides are copied wholesale.
func projectOnto(src reflect.Value, bt, at reflect.Type) reflect.Value {
	if bt == at {
		return src
	}
	switch bt.Kind() {
	case reflect.Struct:
		out := reflect.New(bt).Elem()
		if at.Kind() != reflect.Struct {
			return out
		}
		for i := 0; i < bt.NumField(); i++ {
			bf := bt.Field(i)
			af, ok := at.FieldByName(bf.Name)
			if !ok || !bf.IsExported() {
				continue
			}
			out.Field(i).Set(projectOnto(src.Field(i), bf.Type, af.Type))
		}
		return out
	case reflect.Ptr:
		if src.IsNil() || at.Kind() != reflect.Ptr {
			return reflect.Zero(bt)
		}
		p := reflect.New(bt.Elem())
		p.Elem().Set(projectOnto(src.Elem(), bt.Elem(), at.Elem()))
		return p
	case reflect.Slice:
		if src.IsNil() || at.Kind() != reflect.Slice {
			return reflect.Zero(bt)
		}
		out := reflect.MakeSlice(bt, src.Len(), src.Len())
		for i := 0; i < src.Len(); i++ {
			out.Index(i).Set(projectOnto(src.Index(i), bt.Elem(), at.Elem()))
		}
		return out
	default:
		if at.Kind() != bt.Kind() {
			return reflect.Zero(bt)
		}
		return src
	}
}

var builtinT, asT = reflect.TypeOf(appsv1.StatefulSet{}), reflect.TypeOf(asv1.StatefulSet{})

func modelledPart(o *appsv1.StatefulSet) *appsv1.StatefulSet {
	v := projectOnto(reflect.ValueOf(*o), builtinT, asT).Interface().(appsv1.StatefulSet)
	return v.DeepCopy()
}

// lostPaths: every value present in a must be present and equal in b (a null in a stands for "unset")
func lostPaths(a, b interface{}, path string, out map[string]bool) {
	switch av := a.(type) {
	case nil:
		return
	case map[string]interface{}:
		bv, ok := b.(map[string]interface{})
		if !ok {
			out[path] = true
			return
		}
		for k, x := range av {
			y, ok := bv[k]
			if !ok {
				if x != nil {
					out[join(path, k)] = true
				}
				continue
			}
			lostPaths(x, y, join(path, k), out)
		}
	case []interface{}:
		bv, ok := b.([]interface{})
		if !ok || len(av) != len(bv) {
			if len(av) == 0 && b == nil {
				return
			}
			out[path] = true
			return
		}
		for i := range av {
			lostPaths(av[i], bv[i], join(path, "*"), out)
		}
	default:
		if !reflect.DeepEqual(a, b) && !roundedQuantity(path, a, b) {
			out[path] = true
		}
	}
}

// roundedQuantity: b is the quantity a rounded up to 10^-3 (what defaulting is documented to do to resource lists)
func roundedQuantity(path string, a, b interface{}) bool {
	sa, ok1 := a.(string)
	sb, ok2 := b.(string)
	if !ok1 || !ok2 || !(strings.Contains(path, "limits.") || strings.Contains(path, "requests.") || strings.Contains(path, "overhead.") || strings.Contains(path, "capacity.")) {
		return false
	}
	qa, err1 := resource.ParseQuantity(sa)
	qb, err2 := resource.ParseQuantity(sb)
	if err1 != nil || err2 != nil {
		return false
	}
	qa.RoundUp(-3)
	return qa.Cmp(qb) == 0
}

func decodeBuiltin(s string, emp int) *appsv1.StatefulSet {
	obj := &appsv1.StatefulSet{}
	if err := json.Unmarshal([]byte(s), obj); err != nil {
		return nil
	}
	if emp != 0 {
		emptyNils(reflect.ValueOf(obj), rand.New(rand.NewSource(int64(emp))))
	}
	if obj.Name == "" {
		obj.Name = "x"
	}
	obj.Namespace = "default"
	return obj
}

func runCodec(line string) (obs string) {
	f := strings.Split(line, "|")
	if len(f) < 2 {
		return "bad-case"
	}
	emp := atoi(f[0])
	defer func() {
		if r := recover(); r != nil {
			obs = "out=panic site=" + strings.ReplaceAll(sanitize(fmt.Sprint(r)), " ", "_")
		}
	}()
	errs := []string{}
	note := func(where string, err error) bool {
		if err != nil {
			errs = append(errs, where)
			return true
		}
		return false
	}
	// 1. JSON level, on the object exactly as decoded
	asj := "-"
	if o0 := decodeBuiltin(f[1], 0); o0 == nil {
		return "bad-case"
	} else if a0, err := helper.FromBuiltinStatefulSet(o0); !note("from0", err) {
		b, _ := json.Marshal(a0)
		asj = canonJSON(b)
	}
	lj := "-"
	{
		src0 := &asv1.StatefulSetList{}
		src0.Kind, src0.APIVersion = "StatefulSetList", "apps.pingcap.com/v1"
		src0.ResourceVersion, src0.Continue = "42", "tok"
		ok0 := true
		if !(len(f) == 2 && emp%3 == 1) {
			for _, s := range f[1:] {
				o0 := decodeBuiltin(s, 0)
				if o0 == nil {
					return "bad-case"
				}
				a0, err := helper.FromBuiltinStatefulSet(o0)
				if note("list-from0", err) {
					ok0 = false
					break
				}
				src0.Items = append(src0.Items, *a0)
			}
		}
		if ok0 {
			if l0, err := helper.ToBuiltinStetefulsetList(src0); !note("to-list0", err) {
				b, _ := json.Marshal(l0)
				lj = canonJSON(b)
			}
		}
	}
	var objs []*appsv1.StatefulSet
	for i, s := range f[1:] {
		o := decodeBuiltin(s, emp+i)
		if o == nil {
			return "bad-case"
		}
		objs = append(objs, o)
	}
	o := objs[0]
	want := modelledPart(o)
	want.APIVersion = "apps/v1"

	// 2. direct conversions
	conv, conv2, av, asav := false, false, "-", "-"
	a, err := helper.FromBuiltinStatefulSet(o)
	if !note("from", err) {
		asav = a.APIVersion
		back, err := helper.ToBuiltinStatefulSet(a)
		if !note("to", err) {
			conv = apiequality.Semantic.DeepEqual(want, back)
			av = back.APIVersion + ":" + back.Kind
			a2, err := helper.FromBuiltinStatefulSet(back)
			if !note("from2", err) {
				conv2 = apiequality.Semantic.DeepEqual(a, a2)
			}
		}
	}

	// 3. through the hijack client
	ctx := context.TODO()
	crt, upd, ust, hav := false, false, false, "-"
	lost := map[string]bool{}
	{
		asc := asfake.NewSimpleClientset()
		hc := helper.NewHijackClient(kubefake.NewSimpleClientset(), asc).AppsV1().StatefulSets("default")
		created, err := hc.Create(ctx, o.DeepCopy(), metav1.CreateOptions{})
		if !note("create", err) {
			got, err := hc.Get(ctx, o.Name, metav1.GetOptions{})
			if !note("get", err) {
				hav = got.APIVersion + ":" + got.Kind
				crt = apiequality.Semantic.DeepEqual(created, got)
				ta, _ := jsonTree(want)
				tb, _ := jsonTree(got)
				lostPaths(ta, tb, "", lost)
				_, err = hc.Update(ctx, got.DeepCopy(), metav1.UpdateOptions{})
				if !note("update", err) {
					got2, err := hc.Get(ctx, o.Name, metav1.GetOptions{})
					if !note("get2", err) {
						upd = apiequality.Semantic.DeepEqual(got, got2)
						sent := got2.DeepCopy()
						sent.Status.Replicas++
						sent.Status.CurrentRevision = sent.Status.CurrentRevision + "x"
						_, err = hc.UpdateStatus(ctx, sent.DeepCopy(), metav1.UpdateOptions{})
						if !note("update-status", err) {
							got3, err := hc.Get(ctx, o.Name, metav1.GetOptions{})
							if !note("get3", err) {
								ust = apiequality.Semantic.DeepEqual(sent, got3)
							}
						}
					}
				}
			}
		}
	}

	// 4. lists: a fixed Advanced list served in a fixed order
	if len(objs) == 1 && emp%3 == 1 { // an empty list (nil or empty Items)
		objs = nil
	}
	n, m, order, items, lmeta, dlist, lav := len(objs), -1, false, false, false, false, "-"
	{
		src := &asv1.StatefulSetList{}
		src.Kind, src.APIVersion = "StatefulSetList", "apps.pingcap.com/v1"
		src.ResourceVersion, src.Continue = "42", "tok"
		okAll := true
		for i, x := range objs {
			ax, err := helper.FromBuiltinStatefulSet(x)
			if note(fmt.Sprintf("list-from%d", i), err) {
				okAll = false
				break
			}
			src.Items = append(src.Items, *ax)
		}
		if emp != 0 && emp%2 == 0 && len(src.Items) == 0 {
			src.Items = []asv1.StatefulSet{}
		}
		if okAll {
			check := func(l *appsv1.StatefulSetList) (int, bool, bool, bool, string) {
				ord, its := len(l.Items) == len(objs), len(l.Items) == len(objs)
				vers := map[string]bool{}
				for i := range l.Items {
					vers[l.Items[i].APIVersion] = true
					if i < len(objs) {
						if l.Items[i].Name != objs[i].Name {
							ord = false
						}
						w := modelledPart(objs[i])
						w.APIVersion = "apps/v1"
						if !apiequality.Semantic.DeepEqual(w, &l.Items[i]) {
							its = false
						}
					}
				}
				vs := make([]string, 0, len(vers))
				for v := range vers {
					vs = append(vs, v)
				}
				sort.Strings(vs)
				return len(l.Items), ord, its, l.ResourceVersion == "42" && l.Continue == "tok", l.APIVersion + ":" + strings.Join(vs, "+")
			}
			asc := asfake.NewSimpleClientset()
			asc.PrependReactor("list", "statefulsets", func(clienttesting.Action) (bool, runtime.Object, error) { return true, src.DeepCopy(), nil })
			hc := helper.NewHijackClient(kubefake.NewSimpleClientset(), asc).AppsV1().StatefulSets("default")
			l, err := hc.List(ctx, metav1.ListOptions{})
			if !note("list", err) {
				m, order, items, lmeta, lav = check(l)
			}
			l2, err := helper.ToBuiltinStetefulsetList(src.DeepCopy())
			if !note("to-list", err) {
				m2, o2, i2, lm2, lav2 := check(l2)
				dlist = m2 == n && o2 && i2 && lm2 && lav2 == lav
			}
		}
	}
	e := "none"
	if len(errs) > 0 {
		e = strings.Join(errs, ",")
	}
	return fmt.Sprintf("asj=%s lj=%s conv=%s conv2=%s av=%s asav=%s lost=%s crt=%s upd=%s ust=%s hav=%s len=%d:%d order=%s items=%s lav=%s lmeta=%s dlist=%s err=%s",
		asj, lj, b2s(conv), b2s(conv2), av, asav, strings.Join(sortedPathKeys(lost), ","), b2s(crt), b2s(upd), b2s(ust), hav, n, m, b2s(order), b2s(items), lav, b2s(lmeta), b2s(dlist), e)
}

// ---------------------------------------------------------------- generator

func genBuiltinObject(rng *rand.Rand, name string) *appsv1.StatefulSet {
	g := &objGen{rng: rng, rich: rng.Intn(4) == 0, milliExact: true, scale: pick(rng, 30, 45, 60, 80, 100)}
	obj := &appsv1.StatefulSet{}
	g.fill(reflect.ValueOf(obj).Elem(), "", 0)
	switch rng.Intn(4) {
	case 0:
		obj.Kind, obj.APIVersion = "", ""
	case 1:
		obj.Kind, obj.APIVersion = "StatefulSet", "apps/v1"
	case 2:
		obj.Kind, obj.APIVersion = "StatefulSet", "apps.pingcap.com/v1"
	default:
		obj.Kind, obj.APIVersion = "StatefulSet", ""
	}
	obj.Name = name
	obj.Namespace = "default"
	// the update strategy in all its shapes, including the one without a type but with a block
	switch weighted(rng, 30, 10, 10, 10, 15, 10, 15) {
	case 0:
	case 1:
		obj.Spec.UpdateStrategy = appsv1.StatefulSetUpdateStrategy{}
	case 2:
		obj.Spec.UpdateStrategy = appsv1.StatefulSetUpdateStrategy{Type: appsv1.RollingUpdateStatefulSetStrategyType}
	case 3:
		obj.Spec.UpdateStrategy = appsv1.StatefulSetUpdateStrategy{Type: appsv1.RollingUpdateStatefulSetStrategyType, RollingUpdate: &appsv1.RollingUpdateStatefulSetStrategy{}}
	case 4:
		p := int32(rng.Intn(4))
		obj.Spec.UpdateStrategy = appsv1.StatefulSetUpdateStrategy{Type: appsv1.RollingUpdateStatefulSetStrategyType, RollingUpdate: &appsv1.RollingUpdateStatefulSetStrategy{Partition: &p}}
	case 5:
		obj.Spec.UpdateStrategy = appsv1.StatefulSetUpdateStrategy{Type: appsv1.OnDeleteStatefulSetStrategyType}
	default:
		p := int32(rng.Intn(4))
		obj.Spec.UpdateStrategy = appsv1.StatefulSetUpdateStrategy{RollingUpdate: &appsv1.RollingUpdateStatefulSetStrategy{Partition: &p}}
	}
	return obj
}

func genCodec(rng *rand.Rand, n int, emit func(string)) {
	for i := 0; i < n; {
		k := 1 + weighted(rng, 70, 15, 10, 5)
		parts := make([]string, 0, k)
		ok := true
		names := rng.Perm(len(nameStrings))
		for j := 0; j < k; j++ {
			obj := genBuiltinObject(rng, nameStrings[names[j]])
			if j > 0 { // list companions are kept small
				obj.Spec.Template.Spec.Containers = nil
				obj.Spec.Template.Spec.InitContainers = nil
				obj.Spec.Template.Spec.EphemeralContainers = nil
				obj.Spec.Template.Spec.Volumes = nil
			}
			if j == 0 && rng.Intn(4) == 0 { // an already defaulted object
				if a, err := helper.FromBuiltinStatefulSet(obj); err == nil {
					asv1.SetObjectDefaults_StatefulSet(a)
					if b, err := helper.ToBuiltinStatefulSet(a); err == nil {
						b.Spec.MinReadySeconds, b.Spec.Ordinals, b.Spec.PersistentVolumeClaimRetentionPolicy = obj.Spec.MinReadySeconds, obj.Spec.Ordinals, obj.Spec.PersistentVolumeClaimRetentionPolicy
						b.Status.AvailableReplicas = obj.Status.AvailableReplicas
						obj = b
					}
				}
			}
			s, good := caseJSON(obj)
			if !good {
				ok = false
				break
			}
			parts = append(parts, s)
		}
		if !ok {
			continue
		}
		emp := 0
		if rng.Intn(3) == 0 {
			emp = 1 + rng.Intn(1<<30)
		}
		emit(fmt.Sprintf("%d|%s", emp, strings.Join(parts, "|")))
		i++
	}
}
