package main

import (
	"context"
	"encoding/json"
	"fmt"
	"math/rand"
	"reflect"
	"sort"
	"strconv"
	"strings"

	kubeapps "k8s.io/api/apps/v1"
	v1 "k8s.io/api/core/v1"
	apierrors "k8s.io/apimachinery/pkg/api/errors"
	"k8s.io/apimachinery/pkg/api/meta"
	"k8s.io/apimachinery/pkg/api/resource"
	metav1 "k8s.io/apimachinery/pkg/apis/meta/v1"
	"k8s.io/apimachinery/pkg/labels"
	"k8s.io/apimachinery/pkg/runtime"
	"k8s.io/apimachinery/pkg/runtime/schema"
	"k8s.io/apimachinery/pkg/types"
	kubefake "k8s.io/client-go/kubernetes/fake"
	ktesting "k8s.io/client-go/testing"

	apps "github.com/pingcap/advanced-statefulset/client/apis/apps/v1"
	"github.com/pingcap/advanced-statefulset/client/apis/apps/v1/helper"
	asfake "github.com/pingcap/advanced-statefulset/client/client/clientset/versioned/fake"
)

// Engine "upgrade": the real helper.Upgrade against a kube fake clientset and an Advanced StatefulSet fake clientset,
// every API call recorded and (by call index within a run) fault-injected; the same fake API state is kept across the
// runs of one case, the caller re-submits the same built-in object each time.
//
//	case: name|st|sel|spec|revs|as|plan
//	  name  name of the built-in StatefulSet (namespace is fixed)
//	  st    1/0  the built-in object is (still) stored in the API
//	  sel   N (nil selector) | <ml>#<exprs>   ml = k:v,k:v   exprs = key:op:v1+v2,...  op I(n) O(NotIn) E(xists) D(oesNotExist)
//	        X(unknown operator)
//	  spec  <s>:<t>   identifiers of the built-in object's spec (replicas = s, image tag s) and status (all counters = t)
//	  revs  name~labels;...   labels = k:v,k:v | ! (nil map) ; key M is the upgrade marker key ; a trailing `^` on the name = owned by the set
//	  as    - (absent) | <meta>:<s>:<t>  a pre-existing Advanced StatefulSet of the same name (meta 0 = metadata copied from the built-in
//	        object, 1 = its own metadata)
//	  plan  runs separated by `;` ; one run = faults separated by `,` ; fault = <call index>:<kind> ; kind I(nternal 500) C(onflict)
//	        N(otFound) A(lreadyExists) T(imeout), with a trailing `+` the call is executed and THEN answers the error (lost
//	        response) ; X = the process is killed right before that call.  An empty run is fault free.
//	obs : runs=<out>><entry>,<entry>;...  final=<st>:<asd>:<revs> pods=same|changed claims=same|changed ref=<st>:<asd>:<revs> refout=<out>
//	  out   ok | err.<I|C|N|A|T|other> | panic | crash
//	  entry verb:res:name  (res crev | sts | asts | pods | pvc | <other>), for a delete additionally :<policy> and, for the built-in set,
//	        :<asd>:<revs> = the stored state at the instant the delete is issued
//	  asd   - | m<meta>s<spec>t<status>e<spec equal to the built-in spec as JSON><status equal>
//	  revs  name~labels/...   labels = k.v+k.v (sorted) | !
func init() {
	engines["upgrade"] = &Engine{Gen: genUpgrade, Enum: enumUpgrade, Run: runUpgrade}
}

const (
	upNS     = "ns"
	upMarker = helper.UpgradeToAdvancedStatefulSetAnn
)

type upExpr struct {
	key, op string
	vals    []string
}

type upRev struct {
	name   string
	nilMap bool
	labels [][2]string
	owned  bool
}

type upFault struct {
	idx     int
	kind    string // I C N A T X
	applied bool
}

type upCase struct {
	name   string
	st     bool
	selNil bool
	ml     [][2]string
	exprs  []upExpr
	s, t   int
	revs   []upRev
	asPre  bool
	asMeta int
	asS    int
	asT    int
	plan   [][]upFault
}

func fmtPairs(ps [][2]string, kv, sep string) string {
	var out []string
	for _, p := range ps {
		out = append(out, p[0]+kv+p[1])
	}
	return strings.Join(out, sep)
}

func (c *upCase) line() string {
	sel := "N"
	if !c.selNil {
		var es []string
		for _, e := range c.exprs {
			es = append(es, e.key+":"+e.op+":"+strings.Join(e.vals, "+"))
		}
		sel = fmtPairs(c.ml, ":", ",") + "#" + strings.Join(es, ",")
	}
	var rs []string
	for _, r := range c.revs {
		n := r.name
		if r.owned {
			n += "^"
		}
		if r.nilMap {
			rs = append(rs, n+"~!")
		} else {
			rs = append(rs, n+"~"+fmtPairs(r.labels, ":", ","))
		}
	}
	as := "-"
	if c.asPre {
		as = fmt.Sprintf("%d:%d:%d", c.asMeta, c.asS, c.asT)
	}
	var runs []string
	for _, run := range c.plan {
		var fs []string
		for _, f := range run {
			k := f.kind
			if f.applied {
				k += "+"
			}
			fs = append(fs, fmt.Sprintf("%d:%s", f.idx, k))
		}
		runs = append(runs, strings.Join(fs, ","))
	}
	return strings.Join([]string{c.name, b2s(c.st), sel, fmt.Sprintf("%d:%d", c.s, c.t), strings.Join(rs, ";"), as, strings.Join(runs, ";")}, "|")
}

func parsePairs(s, kv, sep string) [][2]string {
	if s == "" {
		return nil
	}
	var out [][2]string
	for _, t := range strings.Split(s, sep) {
		p := strings.SplitN(t, kv, 2)
		if len(p) != 2 {
			panic("bad pair " + t)
		}
		out = append(out, [2]string{p[0], p[1]})
	}
	return out
}

func parseUpCase(line string) (*upCase, error) {
	f := strings.Split(line, "|")
	if len(f) != 7 {
		return nil, fmt.Errorf("want 7 fields")
	}
	c := &upCase{name: f[0], st: f[1] == "1"}
	if f[2] == "N" {
		c.selNil = true
	} else {
		p := strings.SplitN(f[2], "#", 2)
		if len(p) != 2 {
			return nil, fmt.Errorf("bad selector")
		}
		c.ml = parsePairs(p[0], ":", ",")
		if p[1] != "" {
			for _, t := range strings.Split(p[1], ",") {
				q := strings.Split(t, ":")
				if len(q) != 3 {
					return nil, fmt.Errorf("bad expr")
				}
				e := upExpr{key: q[0], op: q[1]}
				if q[2] != "" {
					e.vals = strings.Split(q[2], "+")
				}
				c.exprs = append(c.exprs, e)
			}
		}
	}
	st := strings.Split(f[3], ":")
	if len(st) != 2 {
		return nil, fmt.Errorf("bad spec")
	}
	c.s, c.t = atoi(st[0]), atoi(st[1])
	if f[4] != "" {
		for _, t := range strings.Split(f[4], ";") {
			p := strings.SplitN(t, "~", 2)
			if len(p) != 2 {
				return nil, fmt.Errorf("bad rev")
			}
			r := upRev{name: p[0]}
			if strings.HasSuffix(r.name, "^") {
				r.owned = true
				r.name = strings.TrimSuffix(r.name, "^")
			}
			if p[1] == "!" {
				r.nilMap = true
			} else {
				r.labels = parsePairs(p[1], ":", ",")
			}
			c.revs = append(c.revs, r)
		}
	}
	if f[5] != "-" {
		p := strings.Split(f[5], ":")
		if len(p) != 3 {
			return nil, fmt.Errorf("bad as")
		}
		c.asPre, c.asMeta, c.asS, c.asT = true, atoi(p[0]), atoi(p[1]), atoi(p[2])
	}
	for _, run := range strings.Split(f[6], ";") {
		var fs []upFault
		if run != "" {
			for _, t := range strings.Split(run, ",") {
				p := strings.Split(t, ":")
				if len(p) != 2 || p[1] == "" {
					return nil, fmt.Errorf("bad fault")
				}
				ft := upFault{idx: atoi(p[0]), kind: p[1][:1], applied: strings.HasSuffix(p[1], "+")}
				fs = append(fs, ft)
			}
		}
		c.plan = append(c.plan, fs)
	}
	return c, nil
}

// ---------------------------------------------------------------- objects

func upKey(k string) string {
	if k == "M" {
		return upMarker
	}
	return k
}

func upKeyBack(k string) string {
	if k == upMarker {
		return "M"
	}
	return k
}

func (c *upCase) selector() *metav1.LabelSelector {
	if c.selNil {
		return nil
	}
	sel := &metav1.LabelSelector{}
	if len(c.ml) > 0 {
		sel.MatchLabels = map[string]string{}
		for _, p := range c.ml {
			sel.MatchLabels[upKey(p[0])] = p[1]
		}
	}
	for _, e := range c.exprs {
		op := metav1.LabelSelectorOperator("Bogus")
		switch e.op {
		case "I":
			op = metav1.LabelSelectorOpIn
		case "O":
			op = metav1.LabelSelectorOpNotIn
		case "E":
			op = metav1.LabelSelectorOpExists
		case "D":
			op = metav1.LabelSelectorOpDoesNotExist
		}
		sel.MatchExpressions = append(sel.MatchExpressions, metav1.LabelSelectorRequirement{Key: upKey(e.key), Operator: op, Values: append([]string(nil), e.vals...)})
	}
	return sel
}

// builtinSet builds a built-in StatefulSet whose spec is identified by s and whose status is identified by t.
func upBuiltinSet(name, origin string, sel *metav1.LabelSelector, s, t int) *kubeapps.StatefulSet {
	r := int32(s)
	tl := map[string]string{"tpl": "1"}
	if sel != nil {
		for k, v := range sel.MatchLabels {
			tl[k] = v
		}
	}
	set := &kubeapps.StatefulSet{
		TypeMeta:   metav1.TypeMeta{Kind: "StatefulSet", APIVersion: "apps/v1"},
		ObjectMeta: metav1.ObjectMeta{Name: name, Namespace: upNS, UID: types.UID("uid-" + origin), ResourceVersion: "7", Generation: 3, Labels: map[string]string{"origin": origin}, Annotations: map[string]string{"note": origin}},
		Spec: kubeapps.StatefulSetSpec{
			Replicas:    &r,
			Selector:    sel,
			ServiceName: "svc",
			Template: v1.PodTemplateSpec{
				ObjectMeta: metav1.ObjectMeta{Labels: tl},
				Spec:       v1.PodSpec{Containers: []v1.Container{{Name: "c", Image: "img:" + strconv.Itoa(s)}}},
			},
			VolumeClaimTemplates: []v1.PersistentVolumeClaim{{
				ObjectMeta: metav1.ObjectMeta{Name: "data"},
				Spec:       v1.PersistentVolumeClaimSpec{AccessModes: []v1.PersistentVolumeAccessMode{v1.ReadWriteOnce}, Resources: v1.ResourceRequirements{Requests: v1.ResourceList{v1.ResourceStorage: resource.MustParse("1Gi")}}},
			}},
			PodManagementPolicy: kubeapps.OrderedReadyPodManagement,
			UpdateStrategy:      kubeapps.StatefulSetUpdateStrategy{Type: kubeapps.RollingUpdateStatefulSetStrategyType},
		},
	}
	if t != 0 {
		cc := int32(t)
		set.Status = kubeapps.StatefulSetStatus{ObservedGeneration: int64(t), Replicas: int32(t), ReadyReplicas: int32(t), CurrentReplicas: int32(t), UpdatedReplicas: int32(t),
			CurrentRevision: name + "-rev" + strconv.Itoa(t), UpdateRevision: name + "-rev" + strconv.Itoa(t), CollisionCount: &cc}
	}
	return set
}

// toAdvanced converts by JSON, independently of the helper under test.
func upToAdvanced(set *kubeapps.StatefulSet) *apps.StatefulSet {
	data, err := json.Marshal(set)
	if err != nil {
		panic(err)
	}
	out := &apps.StatefulSet{}
	if err := json.Unmarshal(data, out); err != nil {
		panic(err)
	}
	out.APIVersion = apps.SchemeGroupVersion.String()
	return out
}

func upJSONTree(v interface{}) interface{} {
	data, err := json.Marshal(v)
	if err != nil {
		return "marshal-error"
	}
	var t interface{}
	_ = json.Unmarshal(data, &t)
	return t
}

func (c *upCase) revision(r upRev, i int, owner *kubeapps.StatefulSet) *kubeapps.ControllerRevision {
	rev := &kubeapps.ControllerRevision{
		ObjectMeta: metav1.ObjectMeta{Name: r.name, Namespace: upNS, UID: "rev-uid"},
		Revision:   int64(i + 1),
		Data:       runtime.RawExtension{Raw: []byte(`{"spec":{"template":{"$patch":"replace"}}}`)},
	}
	if !r.nilMap {
		rev.Labels = map[string]string{}
		for _, p := range r.labels {
			rev.Labels[upKey(p[0])] = p[1]
		}
	}
	if r.owned {
		tr := true
		rev.OwnerReferences = []metav1.OwnerReference{{APIVersion: "apps/v1", Kind: "StatefulSet", Name: owner.Name, UID: owner.UID, Controller: &tr, BlockOwnerDeletion: &tr}}
	}
	return rev
}

// ---------------------------------------------------------------- the fake API world

var (
	gvrCrev = schema.GroupVersionResource{Group: "apps", Version: "v1", Resource: "controllerrevisions"}
	gvkCrev = schema.GroupVersionKind{Group: "apps", Version: "v1", Kind: "ControllerRevision"}
	gvrSts  = schema.GroupVersionResource{Group: "apps", Version: "v1", Resource: "statefulsets"}
	gvrAsts = apps.SchemeGroupVersion.WithResource("statefulsets")
	gvrPods = schema.GroupVersionResource{Version: "v1", Resource: "pods"}
	gvkPods = schema.GroupVersionKind{Version: "v1", Kind: "Pod"}
	gvrPvc  = schema.GroupVersionResource{Version: "v1", Resource: "persistentvolumeclaims"}
	gvkPvc  = schema.GroupVersionKind{Version: "v1", Kind: "PersistentVolumeClaim"}
)

type upCrash struct{}

type upRun struct {
	faults []upFault
	next   int
	log    []string
}

type upWorld struct {
	c      *upCase
	kube   *kubefake.Clientset
	as     *asfake.Clientset
	want   *kubeapps.StatefulSet // the object the caller submits
	cur    *upRun
	pods0  string
	claim0 string
}

func upErr(kind string) error {
	switch kind {
	case "I":
		return apierrors.NewInternalError(fmt.Errorf("injected"))
	case "C":
		return apierrors.NewConflict(schema.GroupResource{Group: "apps", Resource: "x"}, "x", fmt.Errorf("injected"))
	case "N":
		return apierrors.NewNotFound(schema.GroupResource{Group: "apps", Resource: "x"}, "x")
	case "A":
		return apierrors.NewAlreadyExists(schema.GroupResource{Group: "apps", Resource: "x"}, "x")
	case "T":
		return apierrors.NewTimeoutError("injected", 1)
	}
	return fmt.Errorf("injected %s", kind)
}

func upErrKind(err error) string {
	switch {
	case err == nil:
		return "ok"
	case apierrors.IsInternalError(err):
		return "err.I"
	case apierrors.IsConflict(err):
		return "err.C"
	case apierrors.IsNotFound(err):
		return "err.N"
	case apierrors.IsAlreadyExists(err):
		return "err.A"
	case apierrors.IsTimeout(err):
		return "err.T"
	}
	return "err.other"
}

func upRes(gvr schema.GroupVersionResource) string {
	switch {
	case gvr.Resource == "controllerrevisions":
		return "crev"
	case gvr.Resource == "statefulsets" && gvr.Group == "apps":
		return "sts"
	case gvr.Resource == "statefulsets" && gvr.Group == apps.SchemeGroupVersion.Group:
		return "asts"
	case gvr.Resource == "pods":
		return "pods"
	case gvr.Resource == "persistentvolumeclaims":
		return "pvc"
	}
	return sanitizeTok(gvr.Resource)
}

func sanitizeTok(s string) string {
	return strings.NewReplacer(" ", "_", ",", "_", ";", "_", ":", "_", ">", "_", "=", "_", "\t", "_").Replace(s)
}

// the semantics of the Advanced StatefulSet resource (a CRD with the status subresource enabled, manifests/crd.v1.yaml):
// create drops the submitted status, update keeps the stored status, update of /status changes only the status.
func (w *upWorld) asReact(action ktesting.Action) (bool, runtime.Object, error) {
	tr := w.as.Tracker()
	if action.GetResource() != gvrAsts {
		return ktesting.ObjectReaction(tr)(action)
	}
	switch a := action.(type) {
	case ktesting.CreateActionImpl:
		obj := a.GetObject().(*apps.StatefulSet).DeepCopy()
		obj.Status = apps.StatefulSetStatus{}
		if err := tr.Create(gvrAsts, obj, a.GetNamespace()); err != nil {
			return true, nil, err
		}
		out, err := tr.Get(gvrAsts, a.GetNamespace(), obj.Name)
		return true, out, err
	case ktesting.UpdateActionImpl:
		obj := a.GetObject().(*apps.StatefulSet).DeepCopy()
		old, err := tr.Get(gvrAsts, a.GetNamespace(), obj.Name)
		if err != nil {
			return true, nil, err
		}
		stored := old.(*apps.StatefulSet)
		if a.GetSubresource() == "status" {
			n := stored.DeepCopy()
			n.Status = obj.Status
			obj = n
		} else if a.GetSubresource() == "" {
			obj.Status = stored.Status
		} else {
			return true, nil, fmt.Errorf("subresource %s not served", a.GetSubresource())
		}
		if err := tr.Update(gvrAsts, obj, a.GetNamespace()); err != nil {
			return true, nil, err
		}
		out, err := tr.Get(gvrAsts, a.GetNamespace(), obj.Name)
		return true, out, err
	}
	return ktesting.ObjectReaction(tr)(action)
}

func (w *upWorld) entry(action ktesting.Action) string {
	verb := action.GetVerb()
	if action.GetSubresource() != "" {
		verb = action.GetSubresource()
	}
	name := ""
	switch a := action.(type) {
	case ktesting.GetActionImpl:
		name = a.GetName()
	case ktesting.DeleteActionImpl:
		name = a.GetName()
	case ktesting.PatchActionImpl:
		name = a.GetName()
	case ktesting.CreateActionImpl:
		if m, err := meta.Accessor(a.GetObject()); err == nil {
			name = m.GetName()
		}
	case ktesting.UpdateActionImpl:
		if m, err := meta.Accessor(a.GetObject()); err == nil {
			name = m.GetName()
		}
	}
	res := upRes(action.GetResource())
	e := sanitizeTok(verb) + ":" + res + ":" + sanitizeTok(name)
	if d, ok := action.(ktesting.DeleteActionImpl); ok {
		pol := "nil"
		if p := d.GetDeleteOptions().PropagationPolicy; p != nil {
			pol = sanitizeTok(string(*p))
		}
		e += ":" + pol
		if res == "sts" {
			e += ":" + w.asDigest() + ":" + w.revDigest()
		}
	}
	return e
}

// react is the single reactor of both clientsets: record, inject, execute.
func (w *upWorld) react(native func(ktesting.Action) (bool, runtime.Object, error)) ktesting.ReactionFunc {
	return func(action ktesting.Action) (bool, runtime.Object, error) {
		run := w.cur
		if run == nil { // harness-side access outside a run
			return native(action)
		}
		idx := run.next
		var hit *upFault
		for i := range run.faults {
			if run.faults[i].idx == idx {
				hit = &run.faults[i]
				break
			}
		}
		if hit != nil && hit.kind == "X" {
			panic(upCrash{})
		}
		run.next++
		run.log = append(run.log, w.entry(action))
		if hit != nil {
			if hit.applied && action.GetVerb() != "get" && action.GetVerb() != "list" {
				_, _, _ = native(action)
			}
			return true, nil, upErr(hit.kind)
		}
		if ca, ok := action.(ktesting.CreateAction); ok && action.GetVerb() == "create" {
			// the storage layer refuses a create that carries a resourceVersion (the fake tracker would take it)
			if m, ok := ca.GetObject().(metav1.Object); ok && m.GetResourceVersion() != "" {
				return true, nil, apierrors.NewBadRequest("resourceVersion should not be set on objects to be created")
			}
		}
		return native(action)
	}
}

func labelDigest(m map[string]string) string {
	if m == nil {
		return "!"
	}
	var ks []string
	for k := range m {
		ks = append(ks, k)
	}
	sort.Slice(ks, func(i, j int) bool { return upKeyBack(ks[i]) < upKeyBack(ks[j]) })
	var out []string
	for _, k := range ks {
		out = append(out, sanitizeTok(upKeyBack(k))+"."+sanitizeTok(m[k]))
	}
	return strings.Join(out, "+")
}

func (w *upWorld) revDigest() string {
	obj, err := w.kube.Tracker().List(gvrCrev, gvkCrev, upNS)
	if err != nil {
		return "list-error"
	}
	items := obj.(*kubeapps.ControllerRevisionList).Items
	sort.Slice(items, func(i, j int) bool { return items[i].Name < items[j].Name })
	var out []string
	for _, r := range items {
		out = append(out, r.Name+"~"+labelDigest(r.Labels))
	}
	return strings.Join(out, "/")
}

func (w *upWorld) asDigest() string {
	obj, err := w.as.Tracker().Get(gvrAsts, upNS, w.c.name)
	if err != nil {
		return "-"
	}
	a := obj.(*apps.StatefulSet)
	m := 9
	switch a.Labels["origin"] {
	case "builtin":
		m = 0
	case "pre":
		m = 1
	}
	s := -1
	if a.Spec.Replicas != nil {
		s = int(*a.Spec.Replicas)
	}
	// "equal" = equal as JSON to the built-in object's spec / status read through the Advanced StatefulSet schema
	ref := upToAdvanced(w.want)
	se := reflect.DeepEqual(upJSONTree(a.Spec), upJSONTree(ref.Spec))
	te := reflect.DeepEqual(upJSONTree(a.Status), upJSONTree(ref.Status))
	return fmt.Sprintf("m%ds%dt%de%s%s", m, s, a.Status.Replicas, b2s(se), b2s(te))
}

func (w *upWorld) digest() string {
	st := "1"
	if _, err := w.kube.Tracker().Get(gvrSts, upNS, w.c.name); err != nil {
		st = "0"
	}
	return st + ":" + w.asDigest() + ":" + w.revDigest()
}

func (w *upWorld) dump(gvr schema.GroupVersionResource, gvk schema.GroupVersionKind) string {
	obj, err := w.kube.Tracker().List(gvr, gvk, upNS)
	if err != nil {
		return "list-error"
	}
	data, _ := json.Marshal(obj)
	return string(data)
}

func newUpWorld(c *upCase) *upWorld {
	w := &upWorld{c: c}
	w.want = upBuiltinSet(c.name, "builtin", c.selector(), c.s, c.t)
	var kobjs []runtime.Object
	if c.st {
		kobjs = append(kobjs, w.want.DeepCopy())
	}
	for i, r := range c.revs {
		kobjs = append(kobjs, c.revision(r, i, w.want))
	}
	tr := true
	for i := 0; i < 2; i++ {
		kobjs = append(kobjs, &v1.Pod{
			ObjectMeta: metav1.ObjectMeta{Name: fmt.Sprintf("%s-%d", c.name, i), Namespace: upNS, Labels: w.want.Spec.Template.Labels,
				OwnerReferences: []metav1.OwnerReference{{APIVersion: "apps/v1", Kind: "StatefulSet", Name: c.name, UID: w.want.UID, Controller: &tr, BlockOwnerDeletion: &tr}}},
			Spec:   w.want.Spec.Template.Spec,
			Status: v1.PodStatus{Phase: v1.PodRunning},
		})
	}
	kobjs = append(kobjs, &v1.PersistentVolumeClaim{ObjectMeta: metav1.ObjectMeta{Name: "data-" + c.name + "-0", Namespace: upNS, Labels: w.want.Spec.Template.Labels}})
	w.kube = kubefake.NewSimpleClientset(kobjs...)
	var aobjs []runtime.Object
	if c.asPre {
		origin := "pre"
		if c.asMeta == 0 {
			origin = "builtin"
		}
		pre := upBuiltinSet(c.name, origin, c.selector(), c.asS, c.asT)
		aobjs = append(aobjs, upToAdvanced(pre))
	}
	w.as = asfake.NewSimpleClientset(aobjs...)
	w.kube.PrependReactor("*", "*", w.react(ktesting.ObjectReaction(w.kube.Tracker())))
	w.as.PrependReactor("*", "*", w.react(w.asReact))
	w.pods0 = w.dump(gvrPods, gvkPods)
	w.claim0 = w.dump(gvrPvc, gvkPvc)
	return w
}

// one run of the real helper; returns the outcome token and the panic text (if any)
func (w *upWorld) run(faults []upFault) (out string, site string) {
	w.cur = &upRun{faults: faults}
	defer func() {
		if r := recover(); r != nil {
			if _, ok := r.(upCrash); ok {
				out = "crash"
			} else {
				out, site = "panic", sanitize(fmt.Sprint(r))
			}
		}
	}()
	res, err := helper.Upgrade(context.Background(), w.kube, w.as, w.want.DeepCopy())
	out = upErrKind(err)
	if err == nil && res == nil {
		out = "ok-nil"
	}
	return out, ""
}

func runUpgrade(line string) string {
	c, err := parseUpCase(line)
	if err != nil {
		return "bad-case"
	}
	names := map[string]bool{}
	for _, r := range c.revs {
		if names[r.name] || r.name == "" {
			return "bad-case"
		}
		names[r.name] = true
	}
	w := newUpWorld(c)
	var runs []string
	site := ""
	for _, faults := range c.plan {
		out, s := w.run(faults)
		if s != "" && site == "" {
			site = s
		}
		runs = append(runs, out+">"+strings.Join(w.cur.log, ","))
		w.cur = nil
	}
	pods, claims := "same", "same"
	if w.dump(gvrPods, gvkPods) != w.pods0 {
		pods = "changed"
	}
	if w.dump(gvrPvc, gvkPvc) != w.claim0 {
		claims = "changed"
	}
	ref := newUpWorld(c)
	refout, _ := ref.run(nil)
	ref.cur = nil
	obs := fmt.Sprintf("runs=%s final=%s pods=%s claims=%s ref=%s refout=%s", strings.Join(runs, ";"), w.digest(), pods, claims, ref.digest(), refout)
	if site != "" {
		obs += " site=" + site
	}
	return obs
}

// ---------------------------------------------------------------- generator

// harness-side selector evaluation (apimachinery's own), used only to aim faults at call indexes that exist
func (c *upCase) matching() int {
	sel, err := metav1.LabelSelectorAsSelector(c.selector())
	if err != nil {
		return 0
	}
	if c.selNil {
		return len(c.revs)
	}
	n := 0
	for _, r := range c.revs {
		m := labels.Set{}
		for _, p := range r.labels {
			m[upKey(p[0])] = p[1]
		}
		if sel.Matches(m) {
			n++
		}
	}
	return n
}

type upSelShape struct {
	ml    [][2]string
	exprs []upExpr
}

var upSelShapes = []upSelShape{
	{ml: [][2]string{{"a", "x"}}},
	{ml: [][2]string{{"a", "x"}, {"b", "y"}}},
	{ml: [][2]string{{"a", "x"}}, exprs: []upExpr{{"t", "I", []string{"p", "q"}}}},
	{ml: [][2]string{{"a", "x"}}, exprs: []upExpr{{"t", "E", nil}}},
	{ml: [][2]string{{"a", "x"}}, exprs: []upExpr{{"c", "O", []string{"z"}}}},
	{ml: [][2]string{{"a", "x"}, {"b", "y"}}, exprs: []upExpr{{"c", "D", nil}, {"t", "I", []string{"p"}}}},
	{exprs: []upExpr{{"a", "I", []string{"x"}}}},
	{exprs: []upExpr{{"a", "E", nil}, {"t", "I", []string{"p", "q"}}}},
	{exprs: []upExpr{{"c", "O", []string{"z"}}}},
	{exprs: []upExpr{{"c", "D", nil}}},
	// flag labels: the value is the empty string (legal, e.g. pingcap.com/tikv: "")
	{ml: [][2]string{{"flag", ""}}},
	{ml: [][2]string{{"a", "x"}, {"flag", ""}}},
	{ml: [][2]string{{"flag", ""}}, exprs: []upExpr{{"t", "I", []string{"p", ""}}}},
}

// malformed / outside apps/v1 validation
var upBadShapes = []upSelShape{
	{}, // empty selector: selects everything
	{ml: [][2]string{{"a", "x"}}, exprs: []upExpr{{"t", "I", nil}}},           // In without values: conversion error
	{ml: [][2]string{{"a", "x"}}, exprs: []upExpr{{"t", "X", nil}}},           // unknown operator
	{ml: [][2]string{{"a", "x"}, {"M", "web"}}},                               // the marker key itself is a selector label
	{ml: [][2]string{{"a", "x"}}, exprs: []upExpr{{"a", "O", []string{"x"}}}}, // contradictory
}

func genRevLabels(rng *rand.Rand, c *upCase, class int) (bool, [][2]string) {
	// the template labels; "flag" is a flag label (empty value)
	tpl := [][2]string{{"a", "x"}, {"b", "y"}, {"flag", ""}, {"t", "p"}}
	switch class {
	case 0: // revision of this set: the template labels
		return false, tpl
	case 1: // same, plus a label of its own
		return false, [][2]string{{"a", "x"}, {"b", "y"}, {"flag", ""}, {"h", "1"}, {"t", "q"}}
	case 2: // a foreign revision
		return false, [][2]string{{"a", "q"}, {"b", "y"}}
	case 3: // relabelled by an earlier (partial) run
		return false, [][2]string{{"M", c.name}, {"t", "p"}}
	case 4: // relabelled for another set
		return false, [][2]string{{"M", "other"}, {"t", "p"}}
	case 5: // marker present but still carrying the selector labels
		return false, [][2]string{{"M", pick(rng, c.name, "other")}, {"a", "x"}, {"b", "y"}, {"t", "p"}}
	case 6: // a label that negative expressions look at
		return false, [][2]string{{"a", "x"}, {"b", "y"}, {"c", pick(rng, "z", "w")}, {"t", "p"}}
	case 7:
		return false, nil // empty, non-nil map
	default:
		return true, nil // nil map
	}
}

func genUpCase(rng *rand.Rand) *upCase {
	name := pick(rng, "web", "web", "web", "db")
	if rng.Intn(25) == 0 { // around and beyond the 63 bytes a label VALUE may have (the marker carries the set's name): 62 .. 65, 100, 253
		name = strings.Repeat("n", pick(rng, 62, 63, 64, 65, 100, 253))
	}
	c := &upCase{name: name, st: rng.Intn(10) != 0, s: 1 + rng.Intn(3), t: rng.Intn(4)}
	bad := rng.Intn(12) == 0
	switch {
	case bad && rng.Intn(5) == 0:
		c.selNil = true
	case bad:
		sh := pick(rng, upBadShapes...)
		c.ml, c.exprs = sh.ml, sh.exprs
	default:
		sh := pick(rng, upSelShapes...)
		c.ml, c.exprs = sh.ml, sh.exprs
	}
	nrev := weighted(rng, 1, 2, 3, 4, 2, 1)
	for i := 0; i < nrev; i++ {
		class := weighted(rng, 8, 4, 3, 4, 1, 2, 3, 1, 0)
		if bad || rng.Intn(40) == 0 {
			class = weighted(rng, 4, 2, 2, 2, 1, 1, 2, 2, 3)
		}
		nilMap, ls := genRevLabels(rng, c, class)
		c.revs = append(c.revs, upRev{name: fmt.Sprintf("%s-r%d", c.name, i), nilMap: nilMap, labels: ls, owned: rng.Intn(3) != 0})
	}
	switch weighted(rng, 6, 2, 2) {
	case 1:
		c.asPre, c.asMeta, c.asS, c.asT = true, rng.Intn(2), c.s, pick(rng, c.t, 0)
	case 2:
		c.asPre, c.asMeta, c.asS, c.asT = true, rng.Intn(2), 1+rng.Intn(3), rng.Intn(4)
	}
	calls := 1 + c.matching() + 4
	kinds := []string{"I", "C", "N", "A", "T"}
	genFault := func() upFault {
		f := upFault{idx: rng.Intn(calls + 1)}
		if rng.Intn(5) == 0 {
			f.kind = "X"
		} else {
			f.kind = pick(rng, kinds...)
			f.applied = rng.Intn(3) == 0
		}
		return f
	}
	nruns := weighted(rng, 1, 6, 3, 1) // faulty runs before the last one
	for i := 0; i < nruns; i++ {
		nf := weighted(rng, 0, 8, 2, 1)
		var fs []upFault
		seen := map[int]bool{}
		for j := 0; j < nf; j++ {
			f := genFault()
			if !seen[f.idx] {
				seen[f.idx] = true
				fs = append(fs, f)
			}
		}
		sort.Slice(fs, func(i, j int) bool { return fs[i].idx < fs[j].idx })
		c.plan = append(c.plan, fs)
	}
	if rng.Intn(10) == 0 && nruns > 0 {
		// leave the last run faulty
	} else {
		c.plan = append(c.plan, nil)
		if rng.Intn(6) == 0 {
			c.plan = append(c.plan, nil) // idempotence of a fault-free run on its own final state
		}
	}
	return c
}

func genUpgrade(rng *rand.Rand, n int, emit func(string)) {
	for i := 0; i < n; i++ {
		emit(genUpCase(rng).line())
	}
}

// enumeration: scope "single" = every call index x every injection (5 kinds, executed or not, crash) on a grid of shapes,
// followed by a fault-free run; scope "pairs" = the same in the first AND in the second run, followed by a fault-free run.
func enumUpgrade(scope string, emit func(string)) {
	type pop struct{ classes []int }
	pops := []pop{{nil}, {[]int{0}}, {[]int{0, 2, 1}}, {[]int{3, 0, 6, 2, 5}}}
	sels := []int{0, 2, 5, 6, 8}
	type asv struct {
		pre     bool
		m, s, t int
	}
	rng := rand.New(rand.NewSource(7))
	injections := []upFault{{kind: "I"}, {kind: "C"}, {kind: "N"}, {kind: "A"}, {kind: "T"}, {kind: "I", applied: true}, {kind: "C", applied: true},
		{kind: "N", applied: true}, {kind: "A", applied: true}, {kind: "T", applied: true}, {kind: "X"}}
	if scope == "pairs" {
		sels = []int{0, 5, 8}
		pops = []pop{{[]int{0}}, {[]int{0, 2, 1}}}
		injections = []upFault{{kind: "I"}, {kind: "N"}, {kind: "A"}, {kind: "T", applied: true}, {kind: "N", applied: true}, {kind: "X"}}
	}
	for _, si := range sels {
		for _, p := range pops {
			for _, a := range []asv{{}, {true, 1, 2, 0}, {true, 1, 1, 2}} {
				for _, st := range []bool{true, false} {
					if !st && scope == "pairs" {
						continue
					}
					base := upCase{name: "web", st: st, s: 2, t: 2, ml: upSelShapes[si].ml, exprs: upSelShapes[si].exprs, asPre: a.pre, asMeta: a.m, asS: a.s, asT: a.t}
					for i, cl := range p.classes {
						nilMap, ls := genRevLabels(rng, &base, cl)
						base.revs = append(base.revs, upRev{name: fmt.Sprintf("web-r%d", i), nilMap: nilMap, labels: ls, owned: i%2 == 0})
					}
					calls := 1 + base.matching() + 4
					for idx := 0; idx < calls; idx++ {
						for _, inj := range injections {
							f := inj
							f.idx = idx
							if scope != "pairs" {
								c := base
								c.plan = [][]upFault{{f}, nil}
								emit(c.line())
								continue
							}
							for idx2 := 0; idx2 < calls; idx2++ {
								for _, inj2 := range injections {
									g := inj2
									g.idx = idx2
									c := base
									c.plan = [][]upFault{{f}, {g}, nil}
									emit(c.line())
								}
							}
						}
					}
				}
			}
		}
	}
}
