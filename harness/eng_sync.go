package main

import (
	"encoding/json"
	"fmt"
	"math/rand"
	"reflect"
	"sort"
	"strconv"
	"strings"
	"sync"
	"sync/atomic"
	"time"

	kubeapps "k8s.io/api/apps/v1"
	v1 "k8s.io/api/core/v1"
	apierrors "k8s.io/apimachinery/pkg/api/errors"
	metav1 "k8s.io/apimachinery/pkg/apis/meta/v1"
	"k8s.io/apimachinery/pkg/labels"
	"k8s.io/apimachinery/pkg/runtime"
	"k8s.io/apimachinery/pkg/runtime/schema"
	"k8s.io/apimachinery/pkg/types"
	"k8s.io/apimachinery/pkg/util/sets"
	kubefake "k8s.io/client-go/kubernetes/fake"
	corelisters "k8s.io/client-go/listers/core/v1"
	k8stesting "k8s.io/client-go/testing"
	"k8s.io/client-go/tools/cache"
	"k8s.io/client-go/tools/record"

	apps "github.com/pingcap/advanced-statefulset/client/apis/apps/v1"
	"github.com/pingcap/advanced-statefulset/client/apis/apps/v1/helper"
	pcfake "github.com/pingcap/advanced-statefulset/client/client/clientset/versioned/fake"
	appslisters "github.com/pingcap/advanced-statefulset/client/client/listers/apps/v1"
	sts "github.com/pingcap/advanced-statefulset/pkg/controller/statefulset"
)

// Engine "sync": StatefulSetController.sync (stateful_set.go) with the real pod control, the real status updater and the
// real revision handling, against fake clientsets with a recording, fault-injecting reactor and hand-built listers.
//
//	case: paused|selOk|r|slots|pol|strat|ru|del|gen|stored|cc|lim|tmpl|fuid|fdel|store|pods|names|faults[|claims]
//	  claims (optional)  <ordinals whose claim is in the PVC cache and the API>:<ordinals whose claim is in the API only>; the set then
//	                     has one claim template; such cases are judged by the monitors only (the sync model has no claims)
//	  paused 0 absent | 1 "true" | 2 "True" (not the pause value)      selOk 1 matchLabels | 0 selector does not convert | 2 empty selector (matches everything)
//	  stored replicas,ready,current,updated,currentRev,updateRev,observedGen   cc nil|<int> (status.collisionCount)   lim revisionHistoryLimit
//	  tmpl  identifier of the current pod template      fuid 1 same uid | 0 other uid | 2 gone from the API     fdel fresh object carries a deletion timestamp
//	  store name:number:ctime:data:hashlabel:owner:sel:marker;...      hashlabel "-" absent, owner s|o|n
//	  pods  name:ord:member:phase:ready:term:rev:idOk:owner:sel;...    in lister order
//	  names data:cc=name:hashnum,...      the names the real hash function gives (template, collision count)
//	  faults key@occ@kind;...             key as in the log, kind conflict|notfound|exists|invalid|other|timeout
//	obs : log=<calls in order> status=<written|-> cc=<written collision count|-> revs=<name:number:owner:sel:marker:data;...> out=ok|err|panic mut=0|1 creates=<name@revision,...>
func init() {
	engines["sync"] = &Engine{Gen: genSync, Run: runSync}
}

const syUID = types.UID("uid-self")

type syRev struct {
	name         string
	number, ctim int
	data, hash   string
	owner        string
	sel, marker  bool
}

type syPod struct {
	name        string
	ord         int
	member      bool
	phase       string
	ready, term bool
	rev         string
	idOk        bool
	owner       string
	sel         bool
}

type syFault struct {
	key  string
	occ  int
	kind string
}

type syCase struct {
	paused int
	selOk  bool
	selAll bool // the selector is {} and matches every pod and revision of the namespace, label-less ones included
	// claims mode (optional 20th field "cache ordinals:api-only ordinals"): the set has one claim template "data"; claims exist for
	// the listed ordinals in the PVC cache + API, or in the API only (a cache that lags). Judged by the monitors only.
	claims   bool
	pvcCache []int
	pvcAPI   []int
	r        int
	slots    []int
	pol      string
	strat    string
	ru       string
	del      bool
	gen      int
	stored   [7]string
	cc       string
	lim      int
	tmpl     string
	fuid     int
	fdel     bool
	store    []syRev
	pods     []syPod
	names    string
	faults   []syFault
}

func (c *syCase) line() string {
	var rs, ps, fs []string
	for _, r := range c.store {
		rs = append(rs, fmt.Sprintf("%s:%d:%d:%s:%s:%s:%s:%s", r.name, r.number, r.ctim, r.data, r.hash, r.owner, b2s(r.sel), b2s(r.marker)))
	}
	for _, p := range c.pods {
		ps = append(ps, fmt.Sprintf("%s:%d:%s:%s:%s:%s:%s:%s:%s:%s", p.name, p.ord, b2s(p.member), p.phase, b2s(p.ready), b2s(p.term), p.rev, b2s(p.idOk), p.owner, b2s(p.sel)))
	}
	for _, f := range c.faults {
		fs = append(fs, fmt.Sprintf("%s@%d@%s", f.key, f.occ, f.kind))
	}
	selField := b2s(c.selOk)
	if c.selAll {
		selField = "2"
	}
	tail := ""
	if c.claims {
		tail = "|" + joinInts(c.pvcCache) + ":" + joinInts(c.pvcAPI)
	}
	return strings.Join([]string{strconv.Itoa(c.paused), selField, strconv.Itoa(c.r), joinInts(c.slots), c.pol, c.strat, c.ru, b2s(c.del), strconv.Itoa(c.gen),
		strings.Join(c.stored[:], ","), c.cc, strconv.Itoa(c.lim), c.tmpl, strconv.Itoa(c.fuid), b2s(c.fdel), strings.Join(rs, ";"), strings.Join(ps, ";"), c.names, strings.Join(fs, ";")}, "|") + tail
}

func parseSyCase(line string) (*syCase, error) {
	f := strings.Split(line, "|")
	if len(f) != 19 && len(f) != 20 {
		return nil, fmt.Errorf("want 19 or 20 fields, got %d", len(f))
	}
	c := &syCase{paused: atoi(f[0]), selOk: f[1] != "0", selAll: f[1] == "2", r: atoi(f[2]), slots: parseInts(f[3]), pol: f[4], strat: f[5], ru: f[6], del: f[7] == "1", gen: atoi(f[8]),
		cc: f[10], lim: atoi(f[11]), tmpl: f[12], fuid: atoi(f[13]), fdel: f[14] == "1", names: f[17]}
	st := strings.Split(f[9], ",")
	if len(st) != 7 {
		return nil, fmt.Errorf("stored status wants 7 fields")
	}
	copy(c.stored[:], st)
	if len(f) == 20 {
		q := strings.Split(f[19], ":")
		if len(q) != 2 {
			return nil, fmt.Errorf("bad claims field %q", f[19])
		}
		c.claims, c.pvcCache, c.pvcAPI = true, parseInts(q[0]), parseInts(q[1])
	}
	if f[15] != "" {
		for _, t := range strings.Split(f[15], ";") {
			q := strings.Split(t, ":")
			if len(q) != 8 {
				return nil, fmt.Errorf("bad revision %q", t)
			}
			c.store = append(c.store, syRev{name: q[0], number: atoi(q[1]), ctim: atoi(q[2]), data: q[3], hash: q[4], owner: q[5], sel: q[6] == "1", marker: q[7] == "1"})
		}
	}
	if f[16] != "" {
		for _, t := range strings.Split(f[16], ";") {
			q := strings.Split(t, ":")
			if len(q) != 10 {
				return nil, fmt.Errorf("bad pod %q", t)
			}
			c.pods = append(c.pods, syPod{name: q[0], ord: atoi(q[1]), member: q[2] == "1", phase: q[3], ready: q[4] == "1", term: q[5] == "1", rev: q[6], idOk: q[7] == "1", owner: q[8], sel: q[9] == "1"})
		}
	}
	if f[18] != "" {
		for _, t := range strings.Split(f[18], ";") {
			q := strings.Split(t, "@")
			if len(q) != 3 {
				return nil, fmt.Errorf("bad fault %q", t)
			}
			c.faults = append(c.faults, syFault{key: q[0], occ: atoi(q[1]), kind: q[2]})
		}
	}
	return c, nil
}

// ---- world ----

type orderedPodLister struct{ pods []*v1.Pod }

func (l *orderedPodLister) List(sel labels.Selector) ([]*v1.Pod, error) {
	var out []*v1.Pod
	for _, p := range l.pods {
		if sel.Matches(labels.Set(p.Labels)) {
			out = append(out, p)
		}
	}
	return out, nil
}
func (l *orderedPodLister) Pods(ns string) corelisters.PodNamespaceLister {
	return &orderedPodNsLister{l, ns}
}

type orderedPodNsLister struct {
	l  *orderedPodLister
	ns string
}

func (n *orderedPodNsLister) List(sel labels.Selector) ([]*v1.Pod, error) {
	var out []*v1.Pod
	for _, p := range n.l.pods {
		if p.Namespace == n.ns && sel.Matches(labels.Set(p.Labels)) {
			out = append(out, p)
		}
	}
	return out, nil
}
func (n *orderedPodNsLister) Get(name string) (*v1.Pod, error) {
	for _, p := range n.l.pods {
		if p.Namespace == n.ns && p.Name == name {
			return p, nil
		}
	}
	return nil, apierrors.NewNotFound(schema.GroupResource{Resource: "pods"}, name)
}

const syElsewhere = "elsewhere"

// contentChecks judges WHAT a write carries (the log only says which call was made): the body and type of adoption / release
// patches, the owner reference and identity of created objects, delete options, the subresource of the status write. Each
// failed check is a clause name; the driver reports them as monitor failures.
func (w *syWorld) contentChecks(a k8stesting.Action) (bad []string) {
	defer func() {
		if r := recover(); r != nil {
			bad = append(bad, "C10.writes.unreadable")
		}
	}()
	fail := func(clause string, ok bool) {
		if !ok {
			bad = append(bad, clause)
		}
	}
	isTrue := func(b *bool) bool { return b != nil && *b }
	ownerOK := func(refs []metav1.OwnerReference) bool {
		n := 0
		for _, r := range refs {
			if r.UID == syUID {
				n++
				if r.APIVersion != "apps.pingcap.com/v1" || r.Kind != "StatefulSet" || r.Name != rcSetName || !isTrue(r.Controller) || !isTrue(r.BlockOwnerDeletion) {
					return false
				}
			}
		}
		return n == 1
	}
	res, verb := a.GetResource().Resource, a.GetVerb()
	switch {
	case verb == "patch" && (res == "pods" || res == "controllerrevisions"):
		pa := a.(k8stesting.PatchAction)
		fail("C10.patchtype", pa.GetPatchType() == types.StrategicMergePatchType)
		var body struct {
			Metadata struct {
				UID             string                   `json:"uid"`
				OwnerReferences []map[string]interface{} `json:"ownerReferences"`
				Finalizers      []string                 `json:"finalizers"`
			} `json:"metadata"`
			Spec   map[string]interface{} `json:"spec"`
			Status map[string]interface{} `json:"status"`
		}
		if err := json.Unmarshal(pa.GetPatch(), &body); err != nil {
			return append(bad, "C10.patchbody")
		}
		// the precondition: the patch names the uid of the object it was computed for
		var want types.UID
		if res == "pods" {
			if obj, err := w.kube.Tracker().Get(podsGVR, a.GetNamespace(), pa.GetName()); err == nil {
				want = obj.(*v1.Pod).UID
			}
		} else if obj, err := w.kube.Tracker().Get(syRevsGVR, a.GetNamespace(), pa.GetName()); err == nil {
			want = obj.(*kubeapps.ControllerRevision).UID
		}
		fail("C10.patchuid", want == "" || body.Metadata.UID == string(want))
		fail("C10.patchscope", body.Spec == nil && body.Status == nil && len(body.Metadata.Finalizers) == 0 && len(body.Metadata.OwnerReferences) == 1)
		if len(body.Metadata.OwnerReferences) == 1 {
			r := body.Metadata.OwnerReferences[0]
			if r["$patch"] == "delete" { // release: exactly the set's own reference goes
				fail("C10.releasebody", r["uid"] == string(syUID) && len(r) == 2)
			} else { // adoption: a controller reference to the set by uid
				fail("C10.adoptbody", r["uid"] == string(syUID) && r["apiVersion"] == "apps.pingcap.com/v1" && r["kind"] == "StatefulSet" &&
					r["name"] == rcSetName && r["controller"] == true && r["blockOwnerDeletion"] == true)
			}
		}
	case verb == "create" && res == "pods":
		if p, ok := a.(k8stesting.CreateAction).GetObject().(*v1.Pod); ok {
			_, ord := specParentAndOrdinal(p.Name)
			fail("C06.createdowner", ownerOK(p.OwnerReferences) && len(p.OwnerReferences) == 1)
			fail("C06.createdidentity", ord >= 0 && p.Namespace == rcNS && p.Labels[apps.StatefulSetPodNameLabel] == p.Name && p.Spec.Hostname == p.Name &&
				p.Spec.Subdomain == "svc" && p.GenerateName == rcSetName+"-" && p.ResourceVersion == "" && p.UID == "" && p.DeletionTimestamp == nil && len(p.Finalizers) == 0)
		}
	case verb == "update" && res == "pods":
		if p, ok := a.(k8stesting.UpdateAction).GetObject().(*v1.Pod); ok {
			// an identity / storage repair keeps everything else the controller's (cached) copy of the pod carried
			for _, c := range w.cpods {
				if c.Namespace == a.GetNamespace() && c.UID == p.UID {
					fail("C06.updatekeeps", reflect.DeepEqual(c.OwnerReferences, p.OwnerReferences) && c.Labels[kubeapps.StatefulSetRevisionLabel] == p.Labels[kubeapps.StatefulSetRevisionLabel] &&
						reflect.DeepEqual(c.Status, p.Status) && reflect.DeepEqual(c.Spec.Containers, p.Spec.Containers) && reflect.DeepEqual(c.Annotations, p.Annotations))
				}
			}
		}
	case verb == "create" && res == "controllerrevisions":
		if r, ok := a.(k8stesting.CreateAction).GetObject().(*kubeapps.ControllerRevision); ok {
			fail("C08.revowner", ownerOK(r.OwnerReferences) && len(r.OwnerReferences) == 1 && (r.Namespace == rcNS || r.Namespace == "") && a.GetNamespace() == rcNS && r.ResourceVersion == "" && r.UID == "")
		}
	case verb == "update" && res == "controllerrevisions":
		if r, ok := a.(k8stesting.UpdateAction).GetObject().(*kubeapps.ControllerRevision); ok {
			// renumbering / label sync never touches what a revision records or who owns it
			if cur, err := w.kube.Tracker().Get(syRevsGVR, a.GetNamespace(), r.Name); err == nil {
				c := cur.(*kubeapps.ControllerRevision)
				fail("C08.revupdatekeeps", string(c.Data.Raw) == string(r.Data.Raw) && reflect.DeepEqual(c.OwnerReferences, r.OwnerReferences) && c.UID == r.UID)
			}
		}
	case verb == "delete" && (res == "pods" || res == "controllerrevisions"):
		if d, ok := a.(interface{ GetDeleteOptions() metav1.DeleteOptions }); ok {
			o := d.GetDeleteOptions()
			clause := "C03.deleteoptions"
			if res == "controllerrevisions" {
				clause = "C13.deleteoptions"
			}
			fail(clause, o.GracePeriodSeconds == nil && o.PropagationPolicy == nil && o.OrphanDependents == nil && len(o.DryRun) == 0 &&
				(o.Preconditions == nil || (o.Preconditions.UID == nil && o.Preconditions.ResourceVersion == nil)))
		}
	case verb == "update" && res == "statefulsets":
		fail("C10.setwrite", a.GetSubresource() == "status")
		if s, ok := a.(k8stesting.UpdateAction).GetObject().(*apps.StatefulSet); ok && w.cached != nil {
			fail("C12.statusobject", s.Name == rcSetName && s.Namespace == rcNS && s.UID == w.cached.UID && s.Generation == w.cached.Generation)
		}
	}
	return bad
}

// syCrash is the sentinel the reactor panics with to model the controller process dying at an API call.
type syCrash struct{ at string }

type syWorld struct {
	mu         sync.Mutex
	log        []string
	count      map[string]int
	faults     map[string]string
	written    *apps.StatefulSetStatus
	wbad       []string  // content checks a write of this sync failed (clause names), see contentChecks
	creates    []string  // name@revision-label of every pod create issued
	stAttempts []string  // the status carried by every status-write attempt of this sync, failed ones included
	created    []*v1.Pod // the pod objects submitted by the creates of this sync
	kube       *kubefake.Clientset
	pc         *pcfake.Clientset
	ctl        *sts.StatefulSetController
	cached     *apps.StatefulSet
	cpods      []*v1.Pod
	gone       bool // the set no longer exists in the API: a status write answers NotFound
	setIdx     cache.Indexer
	podLister  *orderedPodLister
	inPrelude  bool // an earlier reconcile on the same controller: not logged, never faulted
	// graceful: a pod delete only stamps a deletion timestamp (the world engine removes the pod at its next settle)
	graceful bool
}

func shortRes(r string) string {
	switch r {
	case "pods":
		return "pod"
	case "persistentvolumeclaims":
		return "pvc"
	case "controllerrevisions":
		return "rev"
	case "statefulsets":
		return "set"
	}
	return r
}

func actionKey(a k8stesting.Action) string {
	res := shortRes(a.GetResource().Resource)
	verb := a.GetVerb()
	name := ""
	switch verb {
	case "get":
		name = a.(k8stesting.GetAction).GetName()
	case "delete":
		name = a.(k8stesting.DeleteAction).GetName()
	case "patch":
		name = a.(k8stesting.PatchAction).GetName()
	case "create":
		if m, ok := a.(k8stesting.CreateAction).GetObject().(metav1.Object); ok {
			name = m.GetName()
		}
	case "update":
		if m, ok := a.(k8stesting.UpdateAction).GetObject().(metav1.Object); ok {
			name = m.GetName()
		}
	}
	if ns := a.GetNamespace(); ns != rcNS {
		// a call that leaves the set's namespace (a list over all namespaces, a write to a bystander) is visible as such
		if verb == "list" {
			return "list:" + res + "s@" + ns
		}
		name = ns + "/" + name
	}
	switch {
	case verb == "list":
		return "list:" + res + "s"
	case res == "set" && verb == "get":
		return "get:set"
	case res == "set" && verb == "update" && a.GetSubresource() == "status":
		return "updatestatus"
	}
	if a.GetSubresource() != "" {
		verb = verb + "/" + a.GetSubresource()
	}
	return verb + ":" + res + ":" + name
}

func errOfKind(kind string, a k8stesting.Action, key string) error {
	gr := schema.GroupResource{Group: a.GetResource().Group, Resource: a.GetResource().Resource}
	switch kind {
	case "conflict", "conflictgone":
		return apierrors.NewConflict(gr, key, fmt.Errorf("injected"))
	case "notfound":
		return apierrors.NewNotFound(gr, key)
	case "exists":
		return apierrors.NewAlreadyExists(gr, key)
	case "invalid":
		return apierrors.NewInvalid(schema.GroupKind{Group: gr.Group, Kind: "X"}, key, nil)
	case "timeout":
		return apierrors.NewTimeoutError("injected", 1)
	}
	return apierrors.NewInternalError(fmt.Errorf("injected"))
}

func (w *syWorld) react(a k8stesting.Action) (bool, runtime.Object, error) {
	if a.GetResource().Resource == "events" {
		return true, nil, nil
	}
	if w.inPrelude {
		return false, nil, nil
	}
	if a.GetNamespace() == "" && (a.GetVerb() == "get" || a.GetVerb() == "update") && a.GetResource().Resource == "controllerrevisions" {
		// a get / update of a namespaced object with an empty namespace and name never leaves the REST client
		return true, &kubeapps.ControllerRevision{}, apierrors.NewBadRequest("resource name may not be empty")
	}
	key := actionKey(a)
	bads := w.contentChecks(a)
	w.mu.Lock()
	for _, b := range bads {
		dup := false
		for _, x := range w.wbad {
			dup = dup || x == b
		}
		if !dup {
			w.wbad = append(w.wbad, b)
		}
	}
	occ := w.count[key]
	w.count[key]++
	w.log = append(w.log, key)
	kind, bad := w.faults[fmt.Sprintf("%s@%d", key, occ)]
	if a.GetVerb() == "create" && a.GetResource().Resource == "pods" {
		if p, ok := a.(k8stesting.CreateAction).GetObject().(*v1.Pod); ok {
			w.creates = append(w.creates, p.Name+"@"+p.Labels[kubeapps.StatefulSetRevisionLabel])
			w.created = append(w.created, p.DeepCopy())
		}
	}
	w.mu.Unlock()
	if key == "updatestatus" {
		if s, ok := a.(k8stesting.UpdateAction).GetObject().(*apps.StatefulSet); ok {
			w.mu.Lock()
			w.stAttempts = append(w.stAttempts, fmtStatus(&s.Status))
			w.mu.Unlock()
		}
	}
	if bad {
		if kind == "crash" {
			panic(syCrash{key}) // the process dies right before this call reaches the API
		}
		if kind == "conflictgone" && w.setIdx != nil {
			// the write is refused with a conflict and, by the time the controller looks, the set has left the informer cache
			// (deleted or re-created while it was being reconciled)
			for _, o := range w.setIdx.List() {
				_ = w.setIdx.Delete(o)
			}
		}
		if kind == "conflictrest" {
			// the REST client hands back an EMPTY object next to an error, never nil (`result = &v1.ControllerRevision{}` ...
			// `.Into(result)`); the fake clientset returns nil. updateControllerRevision looks at that object.
			return true, &kubeapps.ControllerRevision{}, errOfKind("conflict", a, key)
		}
		return true, nil, errOfKind(kind, a, key)
	}
	if w.graceful && a.GetVerb() == "delete" && a.GetResource().Resource == "pods" {
		name := a.(k8stesting.DeleteAction).GetName()
		obj, err := w.kube.Tracker().Get(podsGVR, rcNS, name)
		if err != nil {
			return true, nil, err
		}
		pod := obj.(*v1.Pod).DeepCopy()
		if pod.Status.Phase == v1.PodFailed || pod.Status.Phase == v1.PodSucceeded {
			return false, nil, nil // the API server deletes a terminated pod immediately (grace period 0)
		}
		if pod.DeletionTimestamp == nil {
			t := metav1.NewTime(syTime0)
			pod.DeletionTimestamp = &t
			_ = w.kube.Tracker().Update(podsGVR, pod, rcNS)
		}
		return true, nil, nil
	}
	if key == "updatestatus" && !w.gone {
		if s, ok := a.(k8stesting.UpdateAction).GetObject().(*apps.StatefulSet); ok {
			w.written = s.Status.DeepCopy()
		}
	}
	return false, nil, nil
}

var syTime0 = time.Date(2020, 1, 1, 0, 0, 0, 0, time.UTC)

// syDeletionTime: a deletion timestamp is a deletion timestamp whatever the clocks say: long past, or (clock skew between the API
// server and the controller) still ahead of the controller's clock
func syDeletionTime(c *syCase) metav1.Time {
	if (c.gen+c.r)%2 == 1 {
		return metav1.NewTime(time.Date(2099, 1, 1, 0, 0, 0, 0, time.UTC))
	}
	return metav1.NewTime(syTime0)
}

func syOwnerRefs(owner string) []metav1.OwnerReference {
	t := true
	self := metav1.OwnerReference{APIVersion: "apps.pingcap.com/v1", Kind: "StatefulSet", Name: rcSetName, UID: syUID, Controller: &t, BlockOwnerDeletion: &t}
	other := metav1.OwnerReference{APIVersion: "apps.pingcap.com/v1", Kind: "StatefulSet", Name: rcSetName, UID: "uid-other", Controller: &t, BlockOwnerDeletion: &t}
	// a reference that is not a controller reference (a third party's bookkeeping, what orphaning by another owner leaves behind):
	// it decides nothing — ownership is the controller reference alone
	extra := metav1.OwnerReference{APIVersion: "example.com/v1", Kind: "Backup", Name: "nightly", UID: "uid-extra"}
	switch owner {
	case "s":
		return []metav1.OwnerReference{self}
	case "o":
		return []metav1.OwnerReference{other}
	case "S": // controlled by the set, the foreign non-controller reference listed first
		return []metav1.OwnerReference{extra, self}
	case "O":
		return []metav1.OwnerReference{extra, other}
	case "N": // an orphan that still carries a non-controller reference
		return []metav1.OwnerReference{extra}
	}
	return nil
}

func syClaim(ord int) *v1.PersistentVolumeClaim {
	return &v1.PersistentVolumeClaim{ObjectMeta: metav1.ObjectMeta{Name: fmt.Sprintf("data-%s-%d", rcSetName, ord), Namespace: rcNS,
		Labels: map[string]string{"app": rcSetName}}}
}

func syPatchOf(c *syCase, data string) []byte {
	switch data {
	case "S": // JSON that the strategic merge itself refuses (unknown directive)
		return []byte("{\"spec\":{\"template\":{\"$patch\":\"bogus\"}}}")
	case "R": // a stored revision whose data is JSON (the API server insists on that) but the patched object does not decode into a StatefulSet: applying it is an error
		return []byte("{\"spec\":{\"template\":{\"$patch\":\"replace\",\"spec\":{\"containers\":\"oops\"}}}}")
	}
	s := baseSet(rcSetName, int32(c.r), "img-"+data)
	if !c.claims {
		s.Spec.VolumeClaimTemplates = nil
		s.Spec.Template.Spec.Containers[0].VolumeMounts = nil
	}
	p, err := sts.VerifGetPatch(s)
	if err != nil {
		panic(err)
	}
	return p
}

func syHashName(c *syCase, data string, cc int) (name string, label string) {
	rev := &kubeapps.ControllerRevision{Data: runtime.RawExtension{Raw: syPatchOf(c, data)}}
	probe := int32(cc)
	h := sts.VerifHashControllerRevision(rev, &probe)
	return sts.VerifControllerRevisionName(rcSetName, h), h
}

func syNames(c *syCase, cc0 int) string {
	var out []string
	for k := cc0; k < cc0+6; k++ {
		n, h := syHashName(c, c.tmpl, k)
		hn := "-"
		if v, err := strconv.ParseInt(h, 10, 32); err == nil {
			hn = strconv.FormatInt(v, 10)
		}
		out = append(out, fmt.Sprintf("%s:%d=%s:%s", c.tmpl, k, n, hn))
	}
	return strings.Join(out, ",")
}

func (c *syCase) cc0() int {
	if c.cc == "nil" {
		return 0
	}
	return atoi(c.cc)
}

func buildSyWorld(c *syCase) *syWorld {
	w := &syWorld{count: map[string]int{}, faults: map[string]string{}, gone: c.fuid == 2}
	for _, f := range c.faults {
		if _, dup := w.faults[fmt.Sprintf("%s@%d", f.key, f.occ)]; !dup { // first entry wins
			w.faults[fmt.Sprintf("%s@%d", f.key, f.occ)] = f.kind
		}
	}
	// the cached set
	set := baseSet(rcSetName, int32(c.r), "img-"+c.tmpl)
	set.UID = syUID
	if !c.claims {
		set.Spec.VolumeClaimTemplates = nil
		set.Spec.Template.Spec.Containers[0].VolumeMounts = nil
	}
	set.Generation = int64(c.gen)
	set.Spec.PodManagementPolicy = policyOf(c.pol)
	set.Spec.UpdateStrategy = strategyOf(c.strat, c.ru)
	lim := int32(c.lim)
	set.Spec.RevisionHistoryLimit = &lim
	set.Annotations = map[string]string{}
	if len(c.slots) > 0 {
		s := sets.NewInt32()
		for _, x := range c.slots {
			s.Insert(int32(x))
		}
		if err := helper.SetDeleteSlots(set, s); err != nil {
			panic(err)
		}
	}
	switch c.paused {
	case 1:
		set.Annotations[helper.PausedReconcileAnn] = "true"
	case 2:
		set.Annotations[helper.PausedReconcileAnn] = "True"
	}
	if c.selAll {
		set.Spec.Selector = &metav1.LabelSelector{}
	}
	if !c.selOk {
		set.Spec.Selector = &metav1.LabelSelector{MatchExpressions: []metav1.LabelSelectorRequirement{{Key: "app", Operator: "Bogus", Values: []string{"x"}}}}
	}
	if c.del {
		t := syDeletionTime(c)
		set.DeletionTimestamp = &t
	}
	set.Status = apps.StatefulSetStatus{
		Replicas: int32(atoi(c.stored[0])), ReadyReplicas: int32(atoi(c.stored[1])), CurrentReplicas: int32(atoi(c.stored[2])),
		UpdatedReplicas: int32(atoi(c.stored[3])), CurrentRevision: c.stored[4], UpdateRevision: c.stored[5], ObservedGeneration: int64(atoi(c.stored[6])),
	}
	if c.cc != "nil" {
		v := int32(atoi(c.cc))
		set.Status.CollisionCount = &v
	}
	w.cached = set
	// the API copy
	var pcObjs []runtime.Object
	if c.fuid != 2 {
		fresh := set.DeepCopy()
		if c.fuid == 0 {
			fresh.UID = "uid-new"
		}
		fresh.DeletionTimestamp = nil
		if c.fdel {
			t := syDeletionTime(c)
			fresh.DeletionTimestamp = &t
		}
		pcObjs = append(pcObjs, fresh)
	}
	w.pc = pcfake.NewSimpleClientset()
	// revisions
	var kubeObjs []runtime.Object
	for _, r := range c.store {
		rev := &kubeapps.ControllerRevision{
			ObjectMeta: metav1.ObjectMeta{Name: r.name, Namespace: rcNS, UID: types.UID("rev-" + r.name), Labels: map[string]string{}, Annotations: staleRevAnnotations(r.name),
				CreationTimestamp: metav1.NewTime(syTime0.Add(time.Duration(r.ctim) * time.Hour)), OwnerReferences: syOwnerRefs(r.owner)},
			Data:     runtime.RawExtension{Raw: syPatchOf(c, r.data)},
			Revision: int64(r.number),
		}
		if r.sel && !c.selAll {
			rev.Labels["app"] = rcSetName
		}
		if r.marker {
			rev.Labels[helper.UpgradeToAdvancedStatefulSetAnn] = rcSetName
		}
		if r.hash != "-" {
			rev.Labels["controller.kubernetes.io/hash"] = r.hash
		}
		kubeObjs = append(kubeObjs, rev)
	}
	// pods: cache and API hold the same objects
	okSet := set.DeepCopy() // never the cached object itself: building a pod writes the selector's labels into the claim templates' label maps
	if !c.selOk {
		okSet.Spec.Selector = &metav1.LabelSelector{MatchLabels: map[string]string{"app": rcSetName}}
	}
	for _, p := range c.pods {
		ord := p.ord
		if ord < 0 {
			ord = 0
		}
		pod := sts.VerifNewStatefulSetPod(okSet, ord)
		pod.Name = p.name
		pod.UID = types.UID("pod-" + p.name)
		pod.OwnerReferences = syOwnerRefs(p.owner)
		pod.Labels = map[string]string{}
		if p.sel && !c.selAll {
			pod.Labels["app"] = rcSetName
		}
		if p.idOk {
			pod.Labels[apps.StatefulSetPodNameLabel] = p.name
		} else if len(p.name)%2 == 0 && p.ord >= 0 {
			// the identity is not in order: no pod-name label at all, or one that names ANOTHER ordinal's pod (a copied manifest)
			pod.Labels[apps.StatefulSetPodNameLabel] = fmt.Sprintf("%s-%d", rcSetName, p.ord+1)
		}
		if p.rev != "" {
			pod.Labels[kubeapps.StatefulSetRevisionLabel] = p.rev
		}
		if len(pod.Labels) == 0 {
			pod.Labels = nil // a pod without any label (only a selector that matches everything selects it)
		}
		pod.Status.Phase = phaseOf(p.phase)
		if p.ready {
			pod.Status.Conditions = []v1.PodCondition{{Type: v1.PodReady, Status: v1.ConditionTrue}}
		}
		if p.term {
			t := metav1.NewTime(syTime0)
			pod.DeletionTimestamp = &t
		}
		w.cpods = append(w.cpods, pod)
		kubeObjs = append(kubeObjs, pod.DeepCopy())
	}
	for _, o := range append(append([]int(nil), c.pvcCache...), c.pvcAPI...) {
		kubeObjs = append(kubeObjs, syClaim(o))
	}
	// bystanders in another namespace, in the API and in the caches: a same-named set's pods (one orphan, one owned by that set)
	// with matching labels and canonical names, and an orphan revision with matching labels and the upgrade marker. Nothing of
	// the set under test may ever read past its namespace or touch them.
	for i, owner := range []string{"n", "o"} {
		pod := sts.VerifNewStatefulSetPod(okSet, i)
		pod.Namespace, pod.UID = syElsewhere, types.UID(fmt.Sprintf("pod-elsewhere-%d", i))
		pod.OwnerReferences = syOwnerRefs(owner)
		pod.Labels = map[string]string{"app": rcSetName, apps.StatefulSetPodNameLabel: pod.Name}
		pod.Status.Phase = v1.PodRunning
		pod.Status.Conditions = []v1.PodCondition{{Type: v1.PodReady, Status: v1.ConditionTrue}}
		w.cpods = append(w.cpods, pod)
		kubeObjs = append(kubeObjs, pod.DeepCopy())
	}
	kubeObjs = append(kubeObjs, &kubeapps.ControllerRevision{
		ObjectMeta: metav1.ObjectMeta{Name: rcSetName + "-elsewhere", Namespace: syElsewhere, UID: "rev-elsewhere",
			Labels: map[string]string{"app": rcSetName, helper.UpgradeToAdvancedStatefulSetAnn: rcSetName}},
		Data: runtime.RawExtension{Raw: syPatchOf(c, c.tmpl)}, Revision: 1})
	// The clients start EMPTY: the controller first lives through an earlier reconcile of a set of the same namespace and name
	// (prelude), then the API and the caches are replaced by the case's world. A controller keeps nothing between reconciles
	// that may matter, so the measured sync must not notice.
	w.kube = kubefake.NewSimpleClientset()
	w.kube.PrependReactor("*", "*", w.react)
	w.pc.PrependReactor("*", "*", w.react)
	setIdx := cache.NewIndexer(cache.MetaNamespaceKeyFunc, cache.Indexers{cache.NamespaceIndex: cache.MetaNamespaceIndexFunc})
	w.setIdx = setIdx
	pvcIdx := cache.NewIndexer(cache.MetaNamespaceKeyFunc, cache.Indexers{cache.NamespaceIndex: cache.MetaNamespaceIndexFunc})
	w.podLister = &orderedPodLister{}
	w.ctl = sts.VerifNewController(w.kube, w.pc, appslisters.NewStatefulSetLister(setIdx), w.podLister,
		corelisters.NewPersistentVolumeClaimLister(pvcIdx), record.NewFakeRecorder(10000))
	w.prelude(c, set)
	for _, o := range pcObjs {
		_ = w.pc.Tracker().Add(o)
	}
	for _, o := range kubeObjs {
		_ = w.kube.Tracker().Add(o)
	}
	_ = setIdx.Add(set)
	for _, o := range c.pvcCache {
		_ = pvcIdx.Add(syClaim(o))
	}
	w.podLister.pods = w.cpods
	return w
}

// prelude: one reconcile of an earlier incarnation, on the same controller object, then everything it left is wiped.
// Variant A (even cases): the same set (same uid and generation) before it was edited - not paused, not being deleted, one
// replica, no orphan in sight, its history holding one revision. Variant B (odd cases): a predecessor that was deleted and
// re-created under the same name - another uid, a higher generation, another selector and template.
func (w *syWorld) prelude(c *syCase, set *apps.StatefulSet) {
	w.inPrelude = true
	defer func() { w.inPrelude = false }()
	old := baseSet(rcSetName, 1, "img-"+c.tmpl)
	old.UID, old.Generation = set.UID, set.Generation
	old.Spec.VolumeClaimTemplates, old.Spec.Template.Spec.Containers[0].VolumeMounts = set.Spec.VolumeClaimTemplates, set.Spec.Template.Spec.Containers[0].VolumeMounts
	lim := int32(c.lim)
	old.Spec.RevisionHistoryLimit = &lim
	part := int32(0)
	old.Spec.UpdateStrategy = apps.StatefulSetUpdateStrategy{Type: apps.RollingUpdateStatefulSetStrategyType, RollingUpdate: &apps.RollingUpdateStatefulSetStrategy{Partition: &part}}
	if (c.gen+c.r+len(c.pods))%2 == 1 {
		old.UID, old.Generation = "uid-predecessor", set.Generation+5
		old.Spec.Selector = &metav1.LabelSelector{MatchLabels: map[string]string{"app": "predecessor"}}
		old.Spec.Template.Labels = map[string]string{"app": "predecessor"}
		old.Spec.Template.Spec.Containers[0].Image = "img-predecessor"
		old.Annotations = map[string]string{helper.DeleteSlotsAnn: "[0]"}
	}
	_ = w.pc.Tracker().Add(old.DeepCopy())
	_ = w.setIdx.Add(old)
	func() {
		defer func() { _ = recover() }()
		_ = w.ctl.VerifSync(rcNS + "/" + rcSetName)
		// in one case of four also a reconcile that finds the set gone (usually the delete and the re-create, or the edit, reach
		// the controller as ONE queue entry and no reconcile runs in between)
		if (c.gen+2*c.r+len(c.store))%4 == 0 {
			_ = w.setIdx.Delete(old)
			_ = w.ctl.VerifSync(rcNS + "/" + rcSetName)
		}
	}()
	// wipe
	_ = w.setIdx.Delete(old)
	_ = w.pc.Tracker().Delete(setsGVR, rcNS, rcSetName)
	for _, ns := range []string{rcNS, syElsewhere} {
		if l, err := w.kube.Tracker().List(podsGVR, podsGVK, ns); err == nil {
			for _, p := range l.(*v1.PodList).Items {
				_ = w.kube.Tracker().Delete(podsGVR, ns, p.Name)
			}
		}
		if l, err := w.kube.Tracker().List(syRevsGVR, syRevsGVK, ns); err == nil {
			for _, r := range l.(*kubeapps.ControllerRevisionList).Items {
				_ = w.kube.Tracker().Delete(syRevsGVR, ns, r.Name)
			}
		}
		if l, err := w.kube.Tracker().List(syPvcGVR, syPvcGVK, ns); err == nil {
			for _, q := range l.(*v1.PersistentVolumeClaimList).Items {
				_ = w.kube.Tracker().Delete(syPvcGVR, ns, q.Name)
			}
		}
	}
}

var (
	syRevsGVR = schema.GroupVersionResource{Group: "apps", Version: "v1", Resource: "controllerrevisions"}
	syRevsGVK = schema.GroupVersionKind{Group: "apps", Version: "v1", Kind: "ControllerRevision"}
	syPvcGVR  = schema.GroupVersionResource{Version: "v1", Resource: "persistentvolumeclaims"}
	syPvcGVK  = schema.GroupVersionKind{Version: "v1", Kind: "PersistentVolumeClaim"}
)

// tplBad counts the created pods whose template (image) is not the one recorded by the revision their label names.
func (w *syWorld) tplBad(c *syCase) int {
	bad := 0
	for _, p := range w.created {
		obj, err := w.kube.Tracker().Get(schema.GroupVersionResource{Group: "apps", Version: "v1", Resource: "controllerrevisions"}, rcNS, p.Labels[kubeapps.StatefulSetRevisionLabel])
		if err != nil {
			continue
		}
		rev, ok := obj.(*kubeapps.ControllerRevision)
		if !ok {
			continue
		}
		for _, d := range []string{"A", "B", "X", "Y"} {
			if string(rev.Data.Raw) == string(syPatchOf(c, d)) {
				if len(p.Spec.Containers) != 1 || p.Spec.Containers[0].Image != "img-"+d {
					bad++
				}
			}
		}
	}
	return bad
}

func (w *syWorld) finalRevs(c *syCase) string {
	dataOf := func(raw []byte) string {
		for _, d := range []string{"A", "B", "X", "Y", "R", "S"} {
			if string(raw) == string(syPatchOf(c, d)) {
				return d
			}
		}
		return "?"
	}
	objs, err := w.kube.Tracker().List(schema.GroupVersionResource{Group: "apps", Version: "v1", Resource: "controllerrevisions"},
		schema.GroupVersionKind{Group: "apps", Version: "v1", Kind: "ControllerRevision"}, rcNS)
	if err != nil {
		return "err"
	}
	l, ok := objs.(*kubeapps.ControllerRevisionList)
	if !ok {
		return "err"
	}
	var out []string
	for i := range l.Items {
		r := &l.Items[i]
		owner := "n"
		if ref := metav1.GetControllerOf(r); ref != nil {
			if ref.UID == syUID {
				owner = "s"
			} else {
				owner = "o"
			}
		}
		_, mk := r.Labels[helper.UpgradeToAdvancedStatefulSetAnn]
		out = append(out, fmt.Sprintf("%s:%d:%s:%s:%s:%s", r.Name, r.Revision, owner, b2s(c.selAll || r.Labels["app"] == rcSetName), b2s(mk), dataOf(r.Data.Raw)))
	}
	sort.Strings(out)
	return strings.Join(out, ";")
}

func runSyncCase(c *syCase) (obs string, log []string) {
	productionCrashSemantics()
	w := buildSyWorld(c)
	before := w.cached.DeepCopy()
	var podsBefore []*v1.Pod
	for _, p := range w.cpods {
		podsBefore = append(podsBefore, p.DeepCopy())
	}
	out := "ok"
	site := ""
	func() {
		defer func() {
			if r := recover(); r != nil {
				out = "panic"
				site = sanitize(fmt.Sprint(r))
			}
		}()
		if err := w.ctl.VerifSync(rcNS + "/" + rcSetName); err != nil {
			out = "err"
		}
	}()
	mut := !reflect.DeepEqual(before, w.cached)
	for i, p := range w.cpods {
		if !reflect.DeepEqual(podsBefore[i], p) {
			mut = true
		}
	}
	st, cc := "-", "-"
	if w.written != nil {
		st = fmtStatus(w.written)
		if w.written.CollisionCount != nil {
			cc = fmt.Sprint(*w.written.CollisionCount)
		} else {
			cc = "nil"
		}
	}
	// every attempt of one status write must carry the same status: a retry re-submits what the reconcile computed
	stvar := false
	for _, a := range w.stAttempts {
		if a != w.stAttempts[0] {
			stvar = true
		}
	}
	obs = fmt.Sprintf("log=%s status=%s cc=%s revs=%s out=%s mut=%s creates=%s stvar=%s", strings.Join(w.log, ","), st, cc, w.finalRevs(c), out, b2s(mut), strings.Join(w.creates, ","), b2s(stvar)) + fmt.Sprintf(" tplbad=%d wbad=%s", w.tplBad(c), strings.Join(w.wbad, ","))
	if site != "" {
		obs += " site=" + strings.ReplaceAll(site, " ", "_")
	}
	return obs, w.log
}

func runSync(line string) string {
	c, err := parseSyCase(line)
	if err != nil {
		return "bad-case " + err.Error()
	}
	// harness-side sanity: the name shapes in the case are what the names denote (read independently of the repository's parser)
	for _, p := range c.pods {
		parent, ord := specParentAndOrdinal(p.name)
		if (parent == rcSetName) != p.member || (p.member && ord != p.ord) {
			return fmt.Sprintf("bad-case name %q parses to (%q,%d)", p.name, parent, ord)
		}
	}
	if c.names != syNames(c, c.cc0()) {
		return "bad-case names table differs from the real hash function: " + syNames(c, c.cc0())
	}
	obs, _ := runSyncCase(c)
	return obs
}

// ---- generation ----

func genSyPod(rng *rand.Rand, c *syCase, ord int, revNames []string) syPod {
	k := rcPodClasses[weighted(rng, func() []int {
		ws := make([]int, len(rcPodClasses))
		for i, x := range rcPodClasses {
			ws[i] = x.w
		}
		ws[0] += 40
		return ws
	}()...)]
	p := syPod{ord: ord, member: true, phase: k.phase, ready: k.ready, term: k.term, idOk: rng.Intn(20) != 0, sel: rng.Intn(8) != 0}
	if p.phase == "N" {
		p.phase = "P" // a stored pod always has a phase
	}
	p.rev = pick(rng, revNames...)
	if rng.Intn(15) == 0 {
		p.rev = pick(rng, "", "garbage")
	}
	p.owner = pick(rng, "s", "s", "s", "s", "s", "s", "s", "n", "n", "o")
	if rng.Intn(12) == 0 {
		p.owner = strings.ToUpper(p.owner)
	}
	switch weighted(rng, 88, 3, 3, 3, 3) {
	case 0:
		p.name = fmt.Sprintf("%s-%d", rcSetName, ord)
	case 1:
		p.name = fmt.Sprintf("%s-0%d", rcSetName, ord)
		p.idOk = false
	case 2:
		p.name = rcSetName + "-99999999999"
		p.ord = -1
		p.idOk = false
	case 3:
		p.name = fmt.Sprintf("%sx-%d", rcSetName, ord)
		p.member = false
		p.idOk = false
	default:
		p.name = pick(rng, rcSetName+"-", rcSetName, "lonely") + pick(rng, "", "a")
		if rng.Intn(3) == 0 {
			// a neighbour whose set's name extends this set's name at a dash (web-1-0 is pod 0 of web-1, not of web), and names
			// that are nothing but a number
			p.name = pick(rng, fmt.Sprintf("%s-1-%d", rcSetName, ord), fmt.Sprintf("%s-replica-%d", rcSetName, ord), fmt.Sprintf("%s-0-%d", rcSetName, ord), "2024", "0", "7")
		}
		p.member = false
		p.ord = -1
		p.idOk = false
	}
	return p
}

func genSyCase(rng *rand.Rand) *syCase {
	c := &syCase{selOk: true, fuid: 1}
	c.r = weighted(rng, 8, 16, 22, 22, 16, 10)
	if rng.Intn(15) == 0 { // ordinals with two digits
		c.r = 8 + rng.Intn(6)
	}
	nslots := weighted(rng, 45, 30, 15, 10)
	seen := map[int]bool{}
	for i := 0; i < nslots; i++ {
		s := rng.Intn(c.r + nslots + 2)
		if rng.Intn(12) == 0 {
			s = -1
		}
		if !seen[s] {
			seen[s] = true
			c.slots = append(c.slots, s)
		}
	}
	c.pol = pick(rng, "O", "O", "P", "P", "X")
	c.strat = pick(rng, "R", "R", "R", "D", "E")
	bound := c.r + nslots
	switch weighted(rng, 30, 5, 5, 30, 20, 10) {
	case 0:
		c.ru = "none"
	case 1:
		c.ru = "nil"
	case 2:
		c.ru = "-1"
	case 3:
		c.ru = "0"
	case 4:
		c.ru = fmt.Sprint(rng.Intn(bound + 1))
	default:
		c.ru = fmt.Sprint(bound + rng.Intn(2))
	}
	c.paused = weighted(rng, 92, 5, 3)
	if rng.Intn(40) == 0 {
		c.selOk = false
	}
	c.selAll = c.selOk && rng.Intn(12) == 0
	if rng.Intn(7) == 0 {
		// claims mode: a claim template, a PVC cache that may lag behind the API
		c.claims = true
		seenC := map[int]bool{}
		for o := 0; o < c.r+nslots+1; o++ {
			switch weighted(rng, 50, 30, 20) {
			case 1:
				c.pvcCache = append(c.pvcCache, o)
				seenC[o] = true
			case 2:
				c.pvcAPI = append(c.pvcAPI, o)
			}
		}
	}
	c.del = rng.Intn(10) == 0
	c.fuid = pick(rng, 1, 1, 1, 1, 1, 1, 1, 1, 0, 2)
	c.fdel = c.del && rng.Intn(3) != 0 || rng.Intn(12) == 0
	c.gen = 1 + rng.Intn(4)
	c.lim = pick(rng, 0, 0, 1, 1, 2, 3, 10)
	c.tmpl = pick(rng, "A", "B")
	c.cc = pick(rng, "nil", "nil", "0", "1", "2")
	cc0 := c.cc0()
	c.names = syNames(c, cc0)
	// revisions
	nrev := weighted(rng, 10, 20, 25, 25, 15, 5)
	datas := []string{c.tmpl, "X", "Y"}
	corrupt := rng.Intn(40) == 0 // a history holding revisions whose data cannot be applied (judged by the monitors only)
	used := map[string]bool{}
	numOff := pick(rng, 0, 0, 0, 0, 0, 6, 7, 96) // now and then the numbers straddle a power of ten (8..11, 97..100)
	for i := 0; i < nrev; i++ {
		r := syRev{number: numOff + 1 + rng.Intn(4), ctim: rng.Intn(3), sel: rng.Intn(6) != 0, marker: rng.Intn(5) == 0}
		r.data = datas[weighted(rng, 45, 35, 20)]
		if corrupt && rng.Intn(2) == 0 {
			r.data = pick(rng, "R", "S")
		}
		r.owner = pick(rng, "s", "s", "s", "s", "s", "s", "n", "n", "n", "o", "o")
		if rng.Intn(8) == 0 { // the same ownership with a non-controller reference next to it
			r.owner = strings.ToUpper(r.owner)
		}
		collisionLabel := ""
		properName, properHash := syHashName(c, r.data, pick(rng, 0, 0, 0, cc0))
		switch weighted(rng, 55, 25, 20) {
		case 0:
			r.name = properName
		case 1:
			r.name = fmt.Sprintf("%s-old%d", rcSetName, i)
		default: // engineered collision: the name the controller will probe, holding possibly different data
			var h string
			r.name, h = syHashName(c, c.tmpl, cc0+rng.Intn(2))
			if rng.Intn(2) == 0 {
				collisionLabel = h // a true hash collision: same name AND same hash label as the wanted revision, other data
			}
		}
		if used[r.name] {
			r.name = fmt.Sprintf("%s-dup%d", rcSetName, i)
		}
		used[r.name] = true
		switch weighted(rng, 70, 12, 10, 8) {
		case 0:
			r.hash = properHash
		case 1:
			r.hash = "-"
		case 2:
			r.hash = pick(rng, "7", "8")
		default:
			r.hash = "notanumber"
		}
		if collisionLabel != "" {
			r.hash = collisionLabel
		}
		if !r.sel && !r.marker && rng.Intn(2) == 0 {
			r.marker = true
		}
		c.store = append(c.store, r)
	}
	if c.selAll {
		for i := range c.store {
			c.store[i].sel = true
		}
	}
	sort.Slice(c.store, func(i, j int) bool { return c.store[i].name < c.store[j].name })
	revNames := []string{}
	for _, r := range c.store {
		revNames = append(revNames, r.name)
	}
	n0, _ := syHashName(c, c.tmpl, cc0)
	revNames = append(revNames, n0, n0)
	// stored status
	c.stored = [7]string{fmt.Sprint(rng.Intn(6)), fmt.Sprint(rng.Intn(6)), fmt.Sprint(rng.Intn(bound + 2)), fmt.Sprint(rng.Intn(6)),
		pick(rng, append(revNames, "", "gone")...), pick(rng, append(revNames, "")...), fmt.Sprint(pick(rng, c.gen, c.gen, c.gen-1, 0))}
	// pods
	for o := 0; o < bound+2; o++ {
		if rng.Intn(3) == 0 {
			continue
		}
		c.pods = append(c.pods, genSyPod(rng, c, o, revNames))
	}
	if rng.Intn(60) == 0 { // a take-over: several dozen matching orphans with canonical names, all to be adopted in one pass
		crowd := 33 + rng.Intn(12)
		c.pods = nil
		for o := 0; o < crowd; o++ {
			p := genSyPod(rng, c, o, revNames)
			p.name, p.ord, p.member, p.owner, p.sel, p.term = fmt.Sprintf("%s-%d", rcSetName, o), o, true, "n", true, false
			c.pods = append(c.pods, p)
		}
	}
	if rng.Intn(25) == 0 { // a zero-padded name whose number has an 8 or 9 in it or two digits: decimal, whatever it looks like
		o := pick(rng, 8, 9, 10, 12, 17)
		p := genSyPod(rng, c, o, revNames)
		p.ord = o
		p.name, p.member, p.idOk = fmt.Sprintf("%s-0%d", rcSetName, o), true, false
		taken := false // two condemned pods at one ordinal: Go's sort is not stable, the order of their deletes is not defined
		for _, q := range c.pods {
			taken = taken || q.ord == o
		}
		if !taken {
			c.pods = append(c.pods, p)
		}
	}
	if rng.Intn(40) == 0 { // a far-away pod, up to the largest ordinal a pod name can carry
		c.pods = append(c.pods, genSyPod(rng, c, pick(rng, 2147483647, 2147483646, 1000000), revNames))
	}
	if c.selAll {
		for i := range c.pods {
			c.pods[i].sel = true
			if rng.Intn(3) == 0 { // no label at all
				c.pods[i].idOk, c.pods[i].rev = false, ""
			}
		}
	}
	rng.Shuffle(len(c.pods), func(i, j int) { c.pods[i], c.pods[j] = c.pods[j], c.pods[i] })
	// no two pods with the same name
	names := map[string]bool{}
	var ps []syPod
	for _, p := range c.pods {
		if !names[p.name] {
			names[p.name] = true
			ps = append(ps, p)
		}
	}
	c.pods = ps
	return c
}

func genSync(rng *rand.Rand, n int, emit func(string)) {
	kinds := []string{"conflict", "notfound", "exists", "invalid", "other", "timeout"}
	for i := 0; i < n; i++ {
		c := genSyCase(rng)
		if rng.Intn(3) == 0 {
			// dry run to learn which calls occur, then place one or two faults on calls that actually happen
			log := dryRunSync(c)
			if len(log) > 0 {
				nf := 1 + rng.Intn(2)
				for k := 0; k < nf; k++ {
					j := rng.Intn(len(log))
					occ := 0
					for _, e := range log[:j] {
						if e == log[j] {
							occ++
						}
					}
					if occ > 0 && (strings.HasPrefix(log[j], "delete:pod:") || strings.HasPrefix(log[j], "create:pod:")) {
						// the second delete / create of one name in one sync (Parallel with the legacy boundary): the
						// reconcile model keys pod-control faults by (verb, ordinal) only, so it cannot place this one
						continue
					}
					f := syFault{key: log[j], occ: occ, kind: pick(rng, kinds...)}
					if f.key == "updatestatus" && f.kind == "conflict" && rng.Intn(2) == 0 {
						f.kind = "conflictgone"
					}
					if strings.HasPrefix(f.key, "update:rev:") && f.kind == "conflict" && rng.Intn(2) == 0 {
						f.kind = "conflictrest" // judged by the monitors only
					}
					c.faults = append(c.faults, f)
					if f.kind == "conflictrest" {
						continue
					}
					if f.kind == "conflict" && rng.Intn(2) == 0 { // a burst of conflicts on one call
						for b := 1; b <= 1+rng.Intn(4); b++ {
							c.faults = append(c.faults, syFault{key: f.key, occ: occ + b, kind: "conflict"})
						}
					}
				}
			}
		}
		emit(c.line())
	}
}

// dryRunSync: the generators learn from a plain run which calls a case makes (to place faults on calls that happen). Code under
// test that spins for ever must not hang the generator: the dry run gets a wall-clock limit, and after one miss no further dry
// run is attempted (the cases are then emitted without faults; the measured runs have their own watchdog).
func dryRunSync(c *syCase) []string {
	if atomic.LoadInt32(&timeouts) > 0 {
		return nil
	}
	done := make(chan []string, 1)
	go func() {
		defer func() {
			if r := recover(); r != nil {
				done <- nil
			}
		}()
		_, log := runSyncCase(c)
		done <- log
	}()
	select {
	case log := <-done:
		return log
	case <-time.After(caseTimeLimit):
		atomic.AddInt32(&timeouts, 1)
		return nil
	}
}
