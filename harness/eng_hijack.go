package main

import (
	"context"
	"encoding/json"
	"errors"
	"fmt"
	"math/rand"
	"reflect"
	"sort"
	"strings"

	appsv1 "k8s.io/api/apps/v1"
	apiequality "k8s.io/apimachinery/pkg/api/equality"
	apierrors "k8s.io/apimachinery/pkg/api/errors"
	metav1 "k8s.io/apimachinery/pkg/apis/meta/v1"
	"k8s.io/apimachinery/pkg/runtime"
	"k8s.io/apimachinery/pkg/runtime/schema"
	"k8s.io/apimachinery/pkg/types"
	"k8s.io/apimachinery/pkg/util/validation/field"
	"k8s.io/apimachinery/pkg/watch"
	appsapplyv1 "k8s.io/client-go/applyconfigurations/apps/v1"
	kubefake "k8s.io/client-go/kubernetes/fake"
	clientsetappsv1 "k8s.io/client-go/kubernetes/typed/apps/v1"
	clienttesting "k8s.io/client-go/testing"

	asv1 "github.com/pingcap/advanced-statefulset/client/apis/apps/v1"
	"github.com/pingcap/advanced-statefulset/client/apis/apps/v1/helper"
	asapplyv1 "github.com/pingcap/advanced-statefulset/client/client/applyconfiguration/apps/v1"
	asfake "github.com/pingcap/advanced-statefulset/client/client/clientset/versioned/fake"
	asclientsetv1 "github.com/pingcap/advanced-statefulset/client/client/clientset/versioned/typed/apps/v1"
)

// Engine "hijack": every verb of the hijack client (client/apis/apps/v1/helper/hijack.go) is the Advanced client's verb wrapped
// in the two conversions. The engine drives a script of verbs against a fake Advanced clientset that
//   - injects a typed API error into a chosen step (a reactor in front of the object tracker),
//   - emulates server-side apply (the patch body is decoded and stored) and DeleteCollection (the tracker has neither),
//   - is decorated by a recorder, so that the harness knows what the INNER client was asked and what it answered,
// and compares, step by step, what the hijack client hands back with what the inner client answered.
//
//	case: <k>|<ops>|<json of an apps/v1 StatefulSet>
//	      k   = number of other sets already stored in the namespace (0..3)
//	      ops = comma separated steps  <verb>[!<kind>[+]]
//	            verb: c create, g get, u update, s updatestatus, l list, pm / pj / ps patch (merge / json / strategic),
//	                  pt merge patch on the status subresource, a apply, as applystatus, d delete, dc deletecollection, w watch
//	            !kind: the inner client fails this step with nf | conflict | exists | invalid | timeout | other;
//	                  a trailing + : the failing inner call hands back an empty object next to the error (as a REST client does)
//	obs : ac=<ok|nil|err>:<apiVersion>:<arrive 0/1>:<clean 0/1>   FromBuiltinStatefulSetApplyConfiguration of the object's configuration
//	      acx=...                                                   the same with the built-in-only fields forced in
//	      s<i>=<verb>:<inner>:<calls>:<sent 0/1>:<ret>:<err>        one token per step
//	          inner = ok | nf | conflict | exists | invalid | timeout | other | none (the inner client was not called)
//	          calls = the inner calls seen during the step, joined by + ( - when none)
//	          sent  = the (last) inner call carried what the hijack verb was given (name; patch type, bytes, subresource; the
//	                  Advanced apiVersion and every set value for objects / apply configurations)
//	          ret   = nil | obj,<apiVersion>,<eq> | list,<apiVersion>,<item apiVersions>,<n inner>,<m returned>,<order>,<eq>,<meta>
//	                  | w (a watch) | - (verbs without a result)
//	                  eq: semantically equal to the built-in equivalent (computed by the harness) of what the inner client answered
//	          err   = none | <class>,<same 0/1>    same: errors.Is(returned error, the inner client's error)
func init() {
	engines["hijack"] = &Engine{Gen: genHijack, Enum: enumHijack, Run: runHijack}
}

// ---------------------------------------------------------------- recorder around the inner (Advanced) clientset

type hjCall struct {
	what string // create, update, update/status, get, list, delete, deletecollection, watch, patch.<type>[/sub]
	name string
	obj  interface{} // what the inner client answered (*asv1.StatefulSet, *asv1.StatefulSetList, watch.Interface or nil)
	err  error
	sent *asv1.StatefulSet                        // create / update / updatestatus
	cfg  *asapplyv1.StatefulSetApplyConfiguration // apply / applystatus
	data []byte                                   // patch
}

type hjRecClientset struct {
	*asfake.Clientset
	log *[]hjCall
}

func (c *hjRecClientset) AppsV1() asclientsetv1.AppsV1Interface {
	return &hjRecApps{c.Clientset.AppsV1(), c.log}
}

type hjRecApps struct {
	asclientsetv1.AppsV1Interface
	log *[]hjCall
}

func (a *hjRecApps) StatefulSets(ns string) asclientsetv1.StatefulSetInterface {
	return &hjRecSts{a.AppsV1Interface.StatefulSets(ns), a.log}
}

type hjRecSts struct {
	asclientsetv1.StatefulSetInterface
	log *[]hjCall
}

func hjObj(o *asv1.StatefulSet) interface{} {
	if o == nil {
		return nil
	}
	return o
}

func (s *hjRecSts) Create(ctx context.Context, o *asv1.StatefulSet, opts metav1.CreateOptions) (*asv1.StatefulSet, error) {
	sent := o.DeepCopy()
	r, err := s.StatefulSetInterface.Create(ctx, o, opts)
	*s.log = append(*s.log, hjCall{what: "create", name: sent.Name, obj: hjObj(r), err: err, sent: sent})
	return r, err
}

func (s *hjRecSts) Update(ctx context.Context, o *asv1.StatefulSet, opts metav1.UpdateOptions) (*asv1.StatefulSet, error) {
	sent := o.DeepCopy()
	r, err := s.StatefulSetInterface.Update(ctx, o, opts)
	*s.log = append(*s.log, hjCall{what: "update", name: sent.Name, obj: hjObj(r), err: err, sent: sent})
	return r, err
}

func (s *hjRecSts) UpdateStatus(ctx context.Context, o *asv1.StatefulSet, opts metav1.UpdateOptions) (*asv1.StatefulSet, error) {
	sent := o.DeepCopy()
	r, err := s.StatefulSetInterface.UpdateStatus(ctx, o, opts)
	*s.log = append(*s.log, hjCall{what: "update/status", name: sent.Name, obj: hjObj(r), err: err, sent: sent})
	return r, err
}

func (s *hjRecSts) Delete(ctx context.Context, name string, opts metav1.DeleteOptions) error {
	err := s.StatefulSetInterface.Delete(ctx, name, opts)
	*s.log = append(*s.log, hjCall{what: "delete", name: name, err: err})
	return err
}

func (s *hjRecSts) DeleteCollection(ctx context.Context, opts metav1.DeleteOptions, lo metav1.ListOptions) error {
	err := s.StatefulSetInterface.DeleteCollection(ctx, opts, lo)
	*s.log = append(*s.log, hjCall{what: "deletecollection", err: err})
	return err
}

func (s *hjRecSts) Get(ctx context.Context, name string, opts metav1.GetOptions) (*asv1.StatefulSet, error) {
	r, err := s.StatefulSetInterface.Get(ctx, name, opts)
	*s.log = append(*s.log, hjCall{what: "get", name: name, obj: hjObj(r), err: err})
	return r, err
}

func (s *hjRecSts) List(ctx context.Context, opts metav1.ListOptions) (*asv1.StatefulSetList, error) {
	r, err := s.StatefulSetInterface.List(ctx, opts)
	c := hjCall{what: "list", err: err}
	if r != nil {
		c.obj = r.DeepCopy()
	}
	*s.log = append(*s.log, c)
	return r, err
}

func (s *hjRecSts) Watch(ctx context.Context, opts metav1.ListOptions) (watch.Interface, error) {
	r, err := s.StatefulSetInterface.Watch(ctx, opts)
	c := hjCall{what: "watch", err: err}
	if r != nil {
		c.obj = r
	}
	*s.log = append(*s.log, c)
	return r, err
}

func hjPatchName(pt types.PatchType) string {
	switch pt {
	case types.MergePatchType:
		return "merge"
	case types.JSONPatchType:
		return "json"
	case types.StrategicMergePatchType:
		return "strategic"
	case types.ApplyPatchType:
		return "apply"
	}
	return "unknown"
}

func (s *hjRecSts) Patch(ctx context.Context, name string, pt types.PatchType, data []byte, opts metav1.PatchOptions, sub ...string) (*asv1.StatefulSet, error) {
	r, err := s.StatefulSetInterface.Patch(ctx, name, pt, data, opts, sub...)
	what := "patch." + hjPatchName(pt)
	if len(sub) > 0 {
		what += "/" + strings.Join(sub, "/")
	}
	*s.log = append(*s.log, hjCall{what: what, name: name, obj: hjObj(r), err: err, data: append([]byte(nil), data...)})
	return r, err
}

func hjCfgName(c *asapplyv1.StatefulSetApplyConfiguration) string {
	if c == nil || c.ObjectMetaApplyConfiguration == nil || c.Name == nil {
		return ""
	}
	return *c.Name
}

func (s *hjRecSts) Apply(ctx context.Context, c *asapplyv1.StatefulSetApplyConfiguration, opts metav1.ApplyOptions) (*asv1.StatefulSet, error) {
	r, err := s.StatefulSetInterface.Apply(ctx, c, opts)
	*s.log = append(*s.log, hjCall{what: "patch.apply", name: hjCfgName(c), obj: hjObj(r), err: err, cfg: c})
	return r, err
}

func (s *hjRecSts) ApplyStatus(ctx context.Context, c *asapplyv1.StatefulSetApplyConfiguration, opts metav1.ApplyOptions) (*asv1.StatefulSet, error) {
	r, err := s.StatefulSetInterface.ApplyStatus(ctx, c, opts)
	*s.log = append(*s.log, hjCall{what: "patch.apply/status", name: hjCfgName(c), obj: hjObj(r), err: err, cfg: c})
	return r, err
}

// ---------------------------------------------------------------- typed errors

var hjKinds = []string{"nf", "conflict", "exists", "invalid", "timeout", "other"}

func hjMakeErr(kind, name string) error {
	gr := schema.GroupResource{Group: "apps.pingcap.com", Resource: "statefulsets"}
	switch kind {
	case "nf":
		return apierrors.NewNotFound(gr, name)
	case "conflict":
		return apierrors.NewConflict(gr, name, errors.New("the object has been modified; please apply your changes to the latest version and try again"))
	case "exists":
		return apierrors.NewAlreadyExists(gr, name)
	case "invalid":
		return apierrors.NewInvalid(schema.GroupKind{Group: "apps.pingcap.com", Kind: "StatefulSet"}, name,
			field.ErrorList{field.Invalid(field.NewPath("spec", "replicas"), -1, "must be greater than or equal to 0")})
	case "timeout":
		return apierrors.NewTimeoutError("request did not complete within the allotted timeout", 1)
	}
	return errors.New("boom: connection refused")
}

func hjClass(err error) string {
	switch {
	case err == nil:
		return "none"
	case apierrors.IsNotFound(err):
		return "nf"
	case apierrors.IsConflict(err):
		return "conflict"
	case apierrors.IsAlreadyExists(err):
		return "exists"
	case apierrors.IsInvalid(err):
		return "invalid"
	case apierrors.IsTimeout(err), apierrors.IsServerTimeout(err):
		return "timeout"
	}
	return "other"
}

// ---------------------------------------------------------------- harness-side expectations (independent of the helpers)

// hjWantBuiltin: the built-in equivalent of an Advanced object, through a generic JSON tree
func hjWantBuiltin(a *asv1.StatefulSet) *appsv1.StatefulSet {
	b, err := json.Marshal(a)
	if err != nil {
		return nil
	}
	var m map[string]interface{}
	d := json.NewDecoder(strings.NewReader(string(b)))
	d.UseNumber()
	if err := d.Decode(&m); err != nil || m == nil {
		return nil
	}
	m["apiVersion"] = "apps/v1"
	b2, err := json.Marshal(m)
	if err != nil {
		return nil
	}
	out := &appsv1.StatefulSet{}
	if err := json.Unmarshal(b2, out); err != nil {
		return nil
	}
	return out
}

func hjEqObj(inner *asv1.StatefulSet, got *appsv1.StatefulSet) bool {
	want := hjWantBuiltin(inner)
	return want != nil && got != nil && apiequality.Semantic.DeepEqual(want, got)
}

// hjSetValuesKept: every value set in the built-in object `given` (restricted to what the Advanced type models) is present
// in the Advanced object the inner client was handed
func hjSetValuesKept(given *appsv1.StatefulSet, sent *asv1.StatefulSet) bool {
	want := modelledPart(given)
	want.APIVersion = ""
	got := hjWantBuiltin(sent)
	if got == nil {
		return false
	}
	got.APIVersion = ""
	ta, _ := jsonTree(want)
	tb, _ := jsonTree(got)
	lost := map[string]bool{}
	lostPaths(ta, tb, "", lost)
	return len(lost) == 0
}

func hjTree(x interface{}) interface{} {
	b, err := json.Marshal(x)
	if err != nil {
		return nil
	}
	var t interface{}
	d := json.NewDecoder(strings.NewReader(string(b)))
	d.UseNumber()
	if d.Decode(&t) != nil {
		return nil
	}
	return t
}

var hjMarshalerT = reflect.TypeOf((*json.Marshaler)(nil)).Elem()

// hjPrune keeps of a JSON tree what the Go type t has a JSON key for (struct fields by tag, recursively through pointers,
// slices and maps; types with their own marshaler and non-struct types are kept whole)
func hjPrune(tree interface{}, t reflect.Type) interface{} {
	for t.Kind() == reflect.Ptr {
		t = t.Elem()
	}
	if t.Implements(hjMarshalerT) || reflect.PtrTo(t).Implements(hjMarshalerT) {
		return tree
	}
	switch t.Kind() {
	case reflect.Struct:
		m, ok := tree.(map[string]interface{})
		if !ok {
			return tree
		}
		out := map[string]interface{}{}
		var walk func(t reflect.Type)
		walk = func(t reflect.Type) {
			for i := 0; i < t.NumField(); i++ {
				f := t.Field(i)
				tag := strings.Split(f.Tag.Get("json"), ",")
				ft := f.Type
				for ft.Kind() == reflect.Ptr {
					ft = ft.Elem()
				}
				if f.Anonymous && tag[0] == "" && ft.Kind() == reflect.Struct {
					walk(ft)
					continue
				}
				key := tag[0]
				if key == "-" || !f.IsExported() {
					continue
				}
				if key == "" {
					key = f.Name
				}
				if v, ok := m[key]; ok {
					out[key] = hjPrune(v, f.Type)
				}
			}
		}
		walk(t)
		return out
	case reflect.Slice:
		l, ok := tree.([]interface{})
		if !ok {
			return tree
		}
		out := make([]interface{}, len(l))
		for i := range l {
			out[i] = hjPrune(l[i], t.Elem())
		}
		return out
	case reflect.Map:
		m, ok := tree.(map[string]interface{})
		if !ok {
			return tree
		}
		out := map[string]interface{}{}
		for k, v := range m {
			out[k] = hjPrune(v, t.Elem())
		}
		return out
	}
	return tree
}

func hjEmptyLeaf(x interface{}) bool {
	switch v := x.(type) {
	case nil:
		return true
	case string:
		return v == ""
	case bool:
		return !v
	case json.Number:
		return v.String() == "0"
	case map[string]interface{}:
		for _, y := range v {
			if !hjEmptyLeaf(y) {
				return false
			}
		}
		return true
	case []interface{}:
		return len(v) == 0
	}
	return false
}

// hjInvented: paths of a at which a non-empty value sits that b does not have (or has differently)
func hjInvented(a, b interface{}, path string, out map[string]bool) {
	if hjEmptyLeaf(a) {
		return
	}
	switch av := a.(type) {
	case map[string]interface{}:
		bv, _ := b.(map[string]interface{})
		for k, x := range av {
			var y interface{}
			if bv != nil {
				y = bv[k]
			}
			hjInvented(x, y, join(path, k), out)
		}
	case []interface{}:
		bv, ok := b.([]interface{})
		if !ok || len(bv) != len(av) {
			out[path] = true
			return
		}
		for i := range av {
			hjInvented(av[i], bv[i], join(path, "*"), out)
		}
	default:
		if !reflect.DeepEqual(a, b) {
			out[path] = true
		}
	}
}

var hjASCfgT = reflect.TypeOf(asapplyv1.StatefulSetApplyConfiguration{})

// hjCfgArrived: (arrive) every value of the built-in configuration that the Advanced configuration type has a place for is
// in the Advanced configuration; (clean) the Advanced configuration holds no non-empty value the built-in one does not
func hjCfgArrived(cfg *appsapplyv1.StatefulSetApplyConfiguration, got *asapplyv1.StatefulSetApplyConfiguration) (arrive, clean bool) {
	ta, tb := hjTree(cfg), hjTree(got)
	ma, ok1 := ta.(map[string]interface{})
	mb, ok2 := tb.(map[string]interface{})
	if !ok1 || !ok2 {
		return false, false
	}
	delete(ma, "apiVersion")
	delete(mb, "apiVersion")
	lost := map[string]bool{}
	lostPaths(hjPrune(ma, hjASCfgT), mb, "", lost)
	inv := map[string]bool{}
	hjInvented(mb, ma, "", inv)
	return len(lost) == 0, len(inv) == 0
}

// hjCfgOf: the apply configuration that states every field of the object
func hjCfgOf(o *appsv1.StatefulSet) *appsapplyv1.StatefulSetApplyConfiguration {
	b, err := json.Marshal(o)
	if err != nil {
		return nil
	}
	cfg := &appsapplyv1.StatefulSetApplyConfiguration{}
	if err := json.Unmarshal(b, cfg); err != nil {
		return nil
	}
	cfg.WithName(o.Name).WithNamespace(o.Namespace).WithKind("StatefulSet").WithAPIVersion("apps/v1")
	return cfg
}

func hjConvToken(cfg *appsapplyv1.StatefulSetApplyConfiguration) (tok string) {
	defer func() {
		if r := recover(); r != nil {
			tok = "panic:-:0:0"
		}
	}()
	got, err := helper.FromBuiltinStatefulSetApplyConfiguration(cfg)
	if err != nil {
		return "err:-:0:0"
	}
	if got == nil {
		return "nil:-:0:0"
	}
	av := "-"
	if got.APIVersion != nil {
		av = *got.APIVersion
	}
	arrive, clean := hjCfgArrived(cfg, got)
	return fmt.Sprintf("ok:%s:%s:%s", av, b2s(arrive), b2s(clean))
}

// ---------------------------------------------------------------- the run

type hjStep struct {
	verb, kind string
	withObj    bool
}

var hjVerbs = map[string]bool{"c": true, "g": true, "u": true, "s": true, "l": true, "pm": true, "pj": true, "ps": true, "pt": true,
	"a": true, "as": true, "d": true, "dc": true, "w": true}

func hjParseOps(s string) ([]hjStep, bool) {
	if s == "" {
		return nil, true
	}
	var out []hjStep
	for _, t := range strings.Split(s, ",") {
		st := hjStep{}
		if i := strings.Index(t, "!"); i >= 0 {
			st.verb, st.kind = t[:i], t[i+1:]
			if strings.HasSuffix(st.kind, "+") {
				st.kind, st.withObj = st.kind[:len(st.kind)-1], true
			}
			okKind := false
			for _, k := range hjKinds {
				okKind = okKind || k == st.kind
			}
			if !okKind {
				return nil, false
			}
		} else {
			st.verb = t
		}
		if !hjVerbs[st.verb] {
			return nil, false
		}
		out = append(out, st)
	}
	return out, true
}

func runHijack(line string) (obs string) {
	f := strings.SplitN(line, "|", 3)
	if len(f) != 3 {
		return "bad-case"
	}
	steps, ok := hjParseOps(f[1])
	if !ok || len(f[0]) != 1 || f[0][0] < '0' || f[0][0] > '3' || strings.Contains(f[2], "|") || !strings.HasPrefix(f[2], "{") {
		return "bad-case"
	}
	k := int(f[0][0] - '0')
	o := decodeBuiltin(f[2], 0)
	if o == nil {
		return "bad-case"
	}
	const ns = "default"
	gvr := asv1.SchemeGroupVersion.WithResource("statefulsets")
	gvk := asv1.SchemeGroupVersion.WithKind("StatefulSet")
	ctx := context.TODO()

	// the inner clientset: k companions stored, fault / apply / deletecollection / list reactor in front of the tracker
	var comps []runtime.Object
	for i := 0; i < k; i++ {
		r := int32(i)
		comps = append(comps, &asv1.StatefulSet{TypeMeta: metav1.TypeMeta{Kind: "StatefulSet", APIVersion: "apps.pingcap.com/v1"},
			ObjectMeta: metav1.ObjectMeta{Name: fmt.Sprintf("zz-comp-%d", i), Namespace: ns, Labels: map[string]string{"comp": fmt.Sprint(i)}},
			Spec:       asv1.StatefulSetSpec{Replicas: &r, ServiceName: "comp"}, Status: asv1.StatefulSetStatus{Replicas: r}})
	}
	asc := asfake.NewSimpleClientset(comps...)
	tracker := asc.Tracker()
	// what a server adds to every write: a fresh resourceVersion, a uid and a generation (so that the answer of the inner
	// client is never just the object it was sent)
	objReaction := clienttesting.ObjectReaction(tracker)
	writes := 0
	stamp := func(obj runtime.Object, err error) runtime.Object {
		st, ok := obj.(*asv1.StatefulSet)
		if err != nil || !ok || st == nil {
			return obj
		}
		writes++
		out := st.DeepCopy()
		out.ResourceVersion = fmt.Sprintf("rv-%d", 1000+writes)
		out.Generation = int64(writes)
		if out.UID == "" {
			out.UID = types.UID("uid-" + out.Name)
		}
		if uerr := tracker.Update(gvr, out, ns); uerr != nil {
			return obj
		}
		return out
	}
	var fault *hjStep // armed for the first inner call of the current step
	var faultErr error
	asc.PrependReactor("*", "statefulsets", func(a clienttesting.Action) (bool, runtime.Object, error) {
		if fault != nil {
			st := fault
			fault = nil
			faultErr = hjMakeErr(st.kind, o.Name)
			if st.withObj {
				if a.GetVerb() == "list" {
					return true, &asv1.StatefulSetList{}, faultErr
				}
				return true, &asv1.StatefulSet{}, faultErr
			}
			return true, nil, faultErr
		}
		switch act := a.(type) {
		case clienttesting.CreateActionImpl, clienttesting.UpdateActionImpl:
			_, obj, err := objReaction(a)
			return true, stamp(obj, err), err
		case clienttesting.ListActionImpl:
			obj, err := tracker.List(gvr, gvk, ns)
			if l, ok := obj.(*asv1.StatefulSetList); ok && err == nil {
				sort.Slice(l.Items, func(i, j int) bool { return l.Items[i].Name < l.Items[j].Name })
				l.ResourceVersion, l.Continue = "42", "tok"
			}
			return true, obj, err
		case clienttesting.DeleteCollectionActionImpl:
			obj, err := tracker.List(gvr, gvk, ns)
			if err != nil {
				return true, nil, err
			}
			for _, it := range obj.(*asv1.StatefulSetList).Items {
				if err := tracker.Delete(gvr, ns, it.Name); err != nil {
					return true, nil, err
				}
			}
			return true, nil, nil
		case clienttesting.PatchActionImpl:
			if act.GetPatchType() != types.ApplyPatchType {
				_, obj, err := objReaction(a)
				return true, stamp(obj, err), err
			}
			// server-side apply, emulated: the body is the whole intent of the (only) field manager
			in := &asv1.StatefulSet{}
			if err := json.Unmarshal(act.GetPatch(), in); err != nil {
				return true, nil, apierrors.NewBadRequest("apply body does not decode into an Advanced StatefulSet: " + err.Error())
			}
			in.Name, in.Namespace = act.GetName(), ns
			old, gerr := tracker.Get(gvr, ns, act.GetName())
			if act.GetSubresource() == "status" {
				if gerr != nil {
					return true, nil, gerr
				}
				upd := old.(*asv1.StatefulSet).DeepCopy()
				upd.Status = in.Status
				in = upd
			}
			var err error
			if gerr != nil {
				err = tracker.Create(gvr, in, ns)
			} else {
				err = tracker.Update(gvr, in, ns)
			}
			if err != nil {
				return true, nil, err
			}
			obj, err := tracker.Get(gvr, ns, act.GetName())
			return true, stamp(obj, err), err
		}
		return false, nil, nil
	})
	asc.PrependWatchReactor("statefulsets", func(a clienttesting.Action) (bool, watch.Interface, error) {
		if fault != nil {
			st := fault
			fault = nil
			faultErr = hjMakeErr(st.kind, o.Name)
			// always next to a live watch: a relay started over a nil source would take the process down with it
			return true, watch.NewFake(), faultErr
		}
		return false, nil, nil
	})
	var log []hjCall
	var hc clientsetappsv1.StatefulSetInterface = helper.NewHijackClient(kubefake.NewSimpleClientset(), &hjRecClientset{asc, &log}).AppsV1().StatefulSets(ns)

	cfg := hjCfgOf(o)
	if cfg == nil {
		return "bad-case"
	}
	var toks []string
	toks = append(toks, "ac="+hjConvToken(cfg))
	{
		cx := hjCfgOf(o)
		if cx.Spec == nil {
			cx.Spec = appsapplyv1.StatefulSetSpec()
		}
		if cx.Status == nil {
			cx.Status = appsapplyv1.StatefulSetStatus()
		}
		cx.Spec.WithMinReadySeconds(5).WithOrdinals(appsapplyv1.StatefulSetOrdinals().WithStart(1)).
			WithPersistentVolumeClaimRetentionPolicy(appsapplyv1.StatefulSetPersistentVolumeClaimRetentionPolicy().WithWhenDeleted(appsv1.DeletePersistentVolumeClaimRetentionPolicyType))
		cx.Status.WithAvailableReplicas(1)
		toks = append(toks, "acx="+hjConvToken(cx))
	}

	for i, st := range steps {
		toks = append(toks, fmt.Sprintf("s%d=%s", i, hjRunStep(ctx, hc, &log, o, cfg, i, st, &fault, &faultErr)))
	}
	return strings.Join(toks, " ")
}

func hjRunStep(ctx context.Context, hc clientsetappsv1.StatefulSetInterface, log *[]hjCall, o *appsv1.StatefulSet,
	cfg *appsapplyv1.StatefulSetApplyConfiguration, i int, st hjStep, fault **hjStep, faultErr *error) (tok string) {
	*log = (*log)[:0]
	*fault, *faultErr = nil, nil
	if st.kind != "" {
		s := st
		*fault = &s
	}
	defer func() {
		if r := recover(); r != nil {
			tok = st.verb + ":panic:-:0:nil:none"
		}
	}()
	n := int32(i + 2)
	var (
		retObj  *appsv1.StatefulSet
		retList *appsv1.StatefulSetList
		retW    watch.Interface
		err     error
		given   *appsv1.StatefulSet // what a write verb was handed
		pt      types.PatchType
		data    []byte
		sub     []string
		kindRet = "obj"
	)
	switch st.verb {
	case "c":
		given = o.DeepCopy()
		retObj, err = hc.Create(ctx, given.DeepCopy(), metav1.CreateOptions{})
	case "u":
		given = o.DeepCopy()
		given.Spec.Replicas = &n
		if given.Labels == nil {
			given.Labels = map[string]string{}
		}
		given.Labels["hj-step"] = fmt.Sprint(i)
		retObj, err = hc.Update(ctx, given.DeepCopy(), metav1.UpdateOptions{})
	case "s":
		given = o.DeepCopy()
		given.Status.Replicas = n
		given.Status.CurrentRevision = fmt.Sprintf("rev-%d", i)
		retObj, err = hc.UpdateStatus(ctx, given.DeepCopy(), metav1.UpdateOptions{})
	case "g":
		retObj, err = hc.Get(ctx, o.Name, metav1.GetOptions{})
	case "l":
		kindRet = "list"
		retList, err = hc.List(ctx, metav1.ListOptions{})
	case "pm":
		pt, data = types.MergePatchType, []byte(fmt.Sprintf(`{"spec":{"replicas":%d}}`, n))
		retObj, err = hc.Patch(ctx, o.Name, pt, data, metav1.PatchOptions{})
	case "pj":
		pt, data = types.JSONPatchType, []byte(fmt.Sprintf(`[{"op":"replace","path":"/spec/serviceName","value":"svc-%d"}]`, i))
		retObj, err = hc.Patch(ctx, o.Name, pt, data, metav1.PatchOptions{})
	case "ps":
		pt, data = types.StrategicMergePatchType, []byte(fmt.Sprintf(`{"metadata":{"labels":{"hj-patched":"v%d"}},"spec":{"replicas":%d}}`, i, n))
		retObj, err = hc.Patch(ctx, o.Name, pt, data, metav1.PatchOptions{})
	case "pt":
		pt, data, sub = types.MergePatchType, []byte(fmt.Sprintf(`{"status":{"replicas":%d}}`, n)), []string{"status"}
		retObj, err = hc.Patch(ctx, o.Name, pt, data, metav1.PatchOptions{}, sub...)
	case "a":
		retObj, err = hc.Apply(ctx, cfg, metav1.ApplyOptions{FieldManager: "hj", Force: true})
	case "as":
		retObj, err = hc.ApplyStatus(ctx, cfg, metav1.ApplyOptions{FieldManager: "hj", Force: true})
	case "d":
		kindRet = "-"
		err = hc.Delete(ctx, o.Name, metav1.DeleteOptions{})
	case "dc":
		kindRet = "-"
		err = hc.DeleteCollection(ctx, metav1.DeleteOptions{}, metav1.ListOptions{})
	case "w":
		kindRet = "w"
		retW, err = hc.Watch(ctx, metav1.ListOptions{})
	}

	// what the inner client saw and answered
	inner, calls, sent := "none", "-", false
	var last *hjCall
	if len(*log) > 0 {
		names := make([]string, len(*log))
		for j := range *log {
			names[j] = (*log)[j].what
		}
		calls = strings.Join(names, "+")
		last = &(*log)[len(*log)-1]
		inner = hjClass(last.err)
		if last.err == nil {
			inner = "ok"
		}
		switch st.verb {
		case "c", "u", "s":
			sent = last.sent != nil && last.sent.APIVersion == "apps.pingcap.com/v1" && last.sent.Name == o.Name &&
				last.sent.Namespace == o.Namespace && hjSetValuesKept(given, last.sent)
		case "g", "d":
			sent = last.name == o.Name
		case "l", "dc", "w":
			sent = true
		case "pm", "pj", "ps", "pt":
			sent = last.name == o.Name && string(last.data) == string(data)
		case "a", "as":
			if last.cfg != nil && last.cfg.APIVersion != nil && *last.cfg.APIVersion == "apps.pingcap.com/v1" && last.name == o.Name {
				arrive, clean := hjCfgArrived(cfg, last.cfg)
				sent = arrive && clean
			}
		}
	}

	// what the hijack client handed back
	ret := "nil"
	switch kindRet {
	case "obj":
		if retObj != nil {
			eq := false
			if last != nil {
				if in, ok := last.obj.(*asv1.StatefulSet); ok && in != nil {
					eq = hjEqObj(in, retObj)
				}
			}
			ret = fmt.Sprintf("obj,%s,%s", dashIfEmpty(retObj.APIVersion), b2s(eq))
		}
	case "list":
		if retList != nil {
			nIn, order, eq, meta := -1, false, false, false
			vers := map[string]bool{}
			for j := range retList.Items {
				vers[retList.Items[j].APIVersion] = true
			}
			vs := make([]string, 0, len(vers))
			for v := range vers {
				vs = append(vs, dashIfEmpty(v))
			}
			sort.Strings(vs)
			if last != nil {
				if in, ok := last.obj.(*asv1.StatefulSetList); ok && in != nil {
					nIn = len(in.Items)
					order, eq = len(in.Items) == len(retList.Items), len(in.Items) == len(retList.Items)
					for j := 0; j < len(in.Items) && j < len(retList.Items); j++ {
						if in.Items[j].Name != retList.Items[j].Name {
							order = false
						}
						if !hjEqObj(&in.Items[j], &retList.Items[j]) {
							eq = false
						}
					}
					meta = in.ResourceVersion == retList.ResourceVersion && in.Continue == retList.Continue
				}
			}
			ret = fmt.Sprintf("list,%s,%s,%d,%d,%s,%s,%s", dashIfEmpty(retList.APIVersion), strings.Join(vs, "+"), nIn, len(retList.Items), b2s(order), b2s(eq), b2s(meta))
		}
	case "w":
		if retW != nil {
			ret = "w"
			retW.Stop()
		}
		if last != nil {
			if in, ok := last.obj.(watch.Interface); ok && in != nil {
				in.Stop()
			}
		}
	case "-":
		ret = "-"
	}
	e := "none"
	if err != nil {
		same := last != nil && last.err != nil && errors.Is(err, last.err)
		e = hjClass(err) + "," + b2s(same)
	}
	return fmt.Sprintf("%s:%s:%s:%s:%s:%s", st.verb, inner, calls, b2s(sent), ret, e)
}

func dashIfEmpty(s string) string {
	if s == "" {
		return "-"
	}
	return s
}

// ---------------------------------------------------------------- generator

var hjScript = []string{"c", "g", "u", "s", "g", "l", "pm", "pj", "ps", "pt", "a", "as", "g", "d", "g", "dc", "l", "w"}
var hjAllVerbs = []string{"c", "g", "u", "s", "l", "pm", "pj", "ps", "pt", "a", "as", "d", "dc", "w"}

func hjFaulted(rng *rand.Rand, v string) string {
	s := v + "!" + hjKinds[rng.Intn(len(hjKinds))]
	if rng.Intn(2) == 0 {
		s += "+"
	}
	return s
}

func genHijack(rng *rand.Rand, n int, emit func(string)) {
	for i := 0; i < n; {
		obj := genBuiltinObject(rng, nameStrings[rng.Intn(len(nameStrings))])
		if rng.Intn(3) != 0 { // most objects small: the verbs are the subject here, the codec engine has the rich objects
			obj.Spec.Template.Spec.InitContainers = nil
			obj.Spec.Template.Spec.EphemeralContainers = nil
			obj.Spec.Template.Spec.Volumes = nil
			if len(obj.Spec.Template.Spec.Containers) > 1 {
				obj.Spec.Template.Spec.Containers = obj.Spec.Template.Spec.Containers[:1]
			}
		}
		s, good := caseJSON(obj)
		if !good {
			continue
		}
		var ops []string
		switch weighted(rng, 35, 35, 30) {
		case 0: // the whole script, 0-3 faults
			ops = append(ops, hjScript...)
			for f := weighted(rng, 20, 40, 25, 15); f > 0; f-- {
				j := rng.Intn(len(ops))
				if !strings.Contains(ops[j], "!") {
					ops[j] = hjFaulted(rng, ops[j])
				}
			}
		case 1: // a random walk over the verbs, faults at one step in four
			for l := 3 + rng.Intn(12); l > 0; l-- {
				v := hjAllVerbs[rng.Intn(len(hjAllVerbs))]
				if rng.Intn(4) == 0 {
					v = hjFaulted(rng, v)
				}
				ops = append(ops, v)
			}
		default: // every verb once in a random order after an optional create: natural NotFound / AlreadyExists answers
			if rng.Intn(2) == 0 {
				ops = append(ops, "c")
			}
			for _, j := range rng.Perm(len(hjAllVerbs)) {
				v := hjAllVerbs[j]
				if rng.Intn(6) == 0 {
					v = hjFaulted(rng, v)
				}
				ops = append(ops, v)
			}
		}
		emit(fmt.Sprintf("%d|%s|%s", rng.Intn(4), strings.Join(ops, ","), s))
		i++
	}
}

// enumHijack "single": the script with every single fault (step x kind x with / without an object), on a small fixed object,
// after a create and on an empty store
func enumHijack(scope string, emit func(string)) {
	if scope != "single" {
		return
	}
	three := int32(3)
	obj := &appsv1.StatefulSet{TypeMeta: metav1.TypeMeta{Kind: "StatefulSet", APIVersion: "apps/v1"},
		ObjectMeta: metav1.ObjectMeta{Name: "web", Namespace: "default", Labels: map[string]string{"app": "web"}},
		Spec: appsv1.StatefulSetSpec{Replicas: &three, ServiceName: "web", Selector: &metav1.LabelSelector{MatchLabels: map[string]string{"app": "web"}}},
		Status: appsv1.StatefulSetStatus{Replicas: 2, CurrentRevision: "web-1"}}
	s, _ := caseJSON(obj)
	for _, prefix := range [][]string{{"c"}, {}} {
		for _, v := range hjAllVerbs {
			for _, kind := range hjKinds {
				for _, plus := range []string{"", "+"} {
					ops := append(append([]string{}, prefix...), v+"!"+kind+plus, v, "g")
					emit(fmt.Sprintf("%d|%s|%s", len(kind)%4, strings.Join(ops, ","), s))
				}
			}
		}
	}
	emit(fmt.Sprintf("2|%s|%s", strings.Join(hjScript, ","), s))
}
