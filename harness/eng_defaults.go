package main

import (
	"context"
	"encoding/json"
	"fmt"
	"math/big"
	"math/rand"
	"reflect"
	"sort"
	"strconv"
	"strings"

	corev1 "k8s.io/api/core/v1"
	apiequality "k8s.io/apimachinery/pkg/api/equality"
	"k8s.io/apimachinery/pkg/api/resource"
	metav1 "k8s.io/apimachinery/pkg/apis/meta/v1"
	kubefake "k8s.io/client-go/kubernetes/fake"

	asv1 "github.com/pingcap/advanced-statefulset/client/apis/apps/v1"
	"github.com/pingcap/advanced-statefulset/client/apis/apps/v1/helper"
	asfake "github.com/pingcap/advanced-statefulset/client/client/clientset/versioned/fake"
)

// Engine "defaults": client-side defaulting of the Advanced StatefulSet type.
//
//	case: <emp>|<json of an apps.pingcap.com/v1 StatefulSet>
//	      emp = 0 | seed: nil slices / maps of the decoded object are replaced by empty non-nil ones (coin flips from seed)
//	obs : idem=<0/1>        JSON and Semantic.DeepEqual of the object after one pass == after two passes
//	      chg=<paths>       JSON paths (array indices and resource names as *) at which the first pass changed or added something
//	      lost=<paths>      JSON paths at which the first pass removed or changed a value that was set (a quantity rounded up to
//	                        10^-3 does not count)
//	      v1=<view>         the defaulting view (every field a defaulter reads or writes) after one pass
//	      hjdef=<0/1>       the spec stored by hijack Create == the spec after one pass of SetObjectDefaults_StatefulSet
//	      tpl=<0/1>         hijack Get -> hijack Update of what was read: pod template (JSON) unchanged
//	      resub=<0/1>       ... and the whole object unchanged (Semantic.DeepEqual)
//	      first=<same|changed>  recorded, not judged: object stored undefaulted (as kubectl would), first hijack Get+Update: template
//	      err=<none|...>
func init() {
	engines["defaults"] = &Engine{Gen: genDefaults, Run: runDefaults}
}

// ---------------------------------------------------------------- the defaulting view, printed canonically

func optI32(p *int32) string {
	if p == nil {
		return "~"
	}
	return strconv.Itoa(int(*p))
}

func optI64(p *int64) string {
	if p == nil {
		return "~"
	}
	return strconv.FormatInt(*p, 10)
}

func optS(p *string) string {
	if p == nil {
		return "~"
	}
	return "[" + *p + "]"
}

func optB(p *bool) string {
	if p == nil {
		return "~"
	}
	return b2s(*p)
}

// nanoUnits prints a quantity as an exact integer number of 10^-9 units
func nanoUnits(q resource.Quantity) string {
	d := q.AsDec()
	u := new(big.Int).Set(d.UnscaledBig())
	sc := int(d.Scale()) // value = u * 10^-sc
	e := 9 - sc
	if e >= 0 {
		u.Mul(u, new(big.Int).Exp(big.NewInt(10), big.NewInt(int64(e)), nil))
	} else {
		den := new(big.Int).Exp(big.NewInt(10), big.NewInt(int64(-e)), nil)
		r := new(big.Int)
		u.QuoRem(u, den, r)
		if r.Sign() != 0 {
			return "inexact"
		}
	}
	return u.String()
}

func viewResList(l corev1.ResourceList) string {
	keys := make([]string, 0, len(l))
	for k := range l {
		keys = append(keys, string(k))
	}
	sort.Strings(keys)
	out := make([]string, len(keys))
	for i, k := range keys {
		out[i] = k + "=" + nanoUnits(l[corev1.ResourceName(k)])
	}
	return "{" + strings.Join(out, ",") + "}"
}

func viewHTTP(h *corev1.HTTPGetAction) string {
	if h == nil {
		return "~"
	}
	return "h(" + h.Path + ";" + string(h.Scheme) + ")"
}

func viewProbe(p *corev1.Probe) string {
	if p == nil {
		return "~"
	}
	return fmt.Sprintf("p(%d;%d;%d;%d;%s)", p.TimeoutSeconds, p.PeriodSeconds, p.SuccessThreshold, p.FailureThreshold, viewHTTP(p.ProbeHandler.HTTPGet))
}

func viewHandler(h *corev1.LifecycleHandler) string {
	if h == nil {
		return "~"
	}
	return viewHTTP(h.HTTPGet)
}

func viewFieldRef(f *corev1.ObjectFieldSelector) string {
	if f == nil {
		return "~"
	}
	return "[" + f.APIVersion + "]"
}

func viewContainer(c *corev1.Container) string {
	ports := make([]string, len(c.Ports))
	for i, p := range c.Ports {
		ports[i] = fmt.Sprintf("%d:%d:%s", p.HostPort, p.ContainerPort, p.Protocol)
	}
	envs := make([]string, len(c.Env))
	for i, e := range c.Env {
		if e.ValueFrom == nil {
			envs[i] = "~"
		} else {
			envs[i] = viewFieldRef(e.ValueFrom.FieldRef)
		}
	}
	post, pre := "~", "~"
	if c.Lifecycle != nil {
		post, pre = viewHandler(c.Lifecycle.PostStart), viewHandler(c.Lifecycle.PreStop)
	}
	return fmt.Sprintf("c(%s;%s;%s;%s;%s;%s;%s;%s;%s;%s;%s;%s;%s)", c.Image, c.ImagePullPolicy, c.TerminationMessagePath, c.TerminationMessagePolicy,
		strings.Join(ports, ","), strings.Join(envs, ","), viewResList(c.Resources.Limits), viewResList(c.Resources.Requests),
		viewProbe(c.LivenessProbe), viewProbe(c.ReadinessProbe), viewProbe(c.StartupProbe), post, pre)
}

func viewItems(items []corev1.DownwardAPIVolumeFile) string {
	out := make([]string, len(items))
	for i, it := range items {
		out[i] = viewFieldRef(it.FieldRef)
	}
	return strings.Join(out, ",")
}

var modelledSources = map[string]bool{"EmptyDir": true, "HostPath": true, "Secret": true, "ISCSI": true, "RBD": true, "DownwardAPI": true, "ConfigMap": true,
	"AzureDisk": true, "Projected": true, "ScaleIO": true}

func viewVolume(v *corev1.Volume) string {
	other := false
	sv := reflect.ValueOf(v.VolumeSource)
	for i := 0; i < sv.NumField(); i++ {
		if !modelledSources[sv.Type().Field(i).Name] && !sv.Field(i).IsNil() {
			other = true
		}
	}
	s := v.VolumeSource
	f := make([]string, 0, 12)
	f = append(f, b2s(other), b2s(s.EmptyDir != nil))
	if s.HostPath == nil {
		f = append(f, "~")
	} else {
		t := "~"
		if s.HostPath.Type != nil {
			t = "[" + string(*s.HostPath.Type) + "]"
		}
		f = append(f, "hp("+t+")")
	}
	if s.Secret == nil {
		f = append(f, "~")
	} else {
		f = append(f, "se("+optI32(s.Secret.DefaultMode)+")")
	}
	if s.ISCSI == nil {
		f = append(f, "~")
	} else {
		f = append(f, "is("+s.ISCSI.ISCSIInterface+")")
	}
	if s.RBD == nil {
		f = append(f, "~")
	} else {
		f = append(f, "rbd("+s.RBD.RBDPool+";"+s.RBD.RadosUser+";"+s.RBD.Keyring+")")
	}
	if s.DownwardAPI == nil {
		f = append(f, "~")
	} else {
		f = append(f, "dw("+optI32(s.DownwardAPI.DefaultMode)+";"+viewItems(s.DownwardAPI.Items)+")")
	}
	if s.ConfigMap == nil {
		f = append(f, "~")
	} else {
		f = append(f, "cm("+optI32(s.ConfigMap.DefaultMode)+")")
	}
	if a := s.AzureDisk; a == nil {
		f = append(f, "~")
	} else {
		cm, k := "~", "~"
		if a.CachingMode != nil {
			cm = "[" + string(*a.CachingMode) + "]"
		}
		if a.Kind != nil {
			k = "[" + string(*a.Kind) + "]"
		}
		f = append(f, "az("+cm+";"+k+";"+optS(a.FSType)+";"+optB(a.ReadOnly)+")")
	}
	if p := s.Projected; p == nil {
		f = append(f, "~")
	} else {
		srcs := make([]string, len(p.Sources))
		for i, src := range p.Sources {
			d, t := "~", "~"
			if src.DownwardAPI != nil {
				d = "[" + viewItems(src.DownwardAPI.Items) + "]"
			}
			if src.ServiceAccountToken != nil {
				t = "[" + optI64(src.ServiceAccountToken.ExpirationSeconds) + "]"
			}
			srcs[i] = d + "/" + t
		}
		f = append(f, "pr("+optI32(p.DefaultMode)+";"+strings.Join(srcs, ",")+")")
	}
	if s.ScaleIO == nil {
		f = append(f, "~")
	} else {
		f = append(f, "sio("+s.ScaleIO.StorageMode+";"+s.ScaleIO.FSType+")")
	}
	return "v(" + strings.Join(f, ";") + ")"
}

func defaultsView(o *asv1.StatefulSet) string {
	var b strings.Builder
	sp := &o.Spec
	ru := "~"
	if sp.UpdateStrategy.RollingUpdate != nil {
		ru = "[" + optI32(sp.UpdateStrategy.RollingUpdate.Partition) + "]"
	}
	fmt.Fprintf(&b, "set(%s;%s;%s;%s;%s)", sp.PodManagementPolicy, sp.UpdateStrategy.Type, ru, optI32(sp.Replicas), optI32(sp.RevisionHistoryLimit))
	ps := &sp.Template.Spec
	fmt.Fprintf(&b, "pod(%s;%s;%s;%s;%s;%s)", ps.DNSPolicy, ps.RestartPolicy, ps.SchedulerName, b2s(ps.HostNetwork), b2s(ps.SecurityContext != nil), optI64(ps.TerminationGracePeriodSeconds))
	vs := make([]string, len(ps.Volumes))
	for i := range ps.Volumes {
		vs[i] = viewVolume(&ps.Volumes[i])
	}
	fmt.Fprintf(&b, "vols(%s)", strings.Join(vs, ""))
	cs := make([]string, len(ps.InitContainers))
	for i := range ps.InitContainers {
		cs[i] = viewContainer(&ps.InitContainers[i])
	}
	fmt.Fprintf(&b, "init(%s)", strings.Join(cs, ""))
	cs = make([]string, len(ps.Containers))
	for i := range ps.Containers {
		cs[i] = viewContainer(&ps.Containers[i])
	}
	fmt.Fprintf(&b, "ctrs(%s)", strings.Join(cs, ""))
	cs = make([]string, len(ps.EphemeralContainers))
	for i := range ps.EphemeralContainers {
		cs[i] = viewContainer((*corev1.Container)(&ps.EphemeralContainers[i].EphemeralContainerCommon))
	}
	fmt.Fprintf(&b, "eph(%s)", strings.Join(cs, ""))
	fmt.Fprintf(&b, "ovh(%s)", viewResList(ps.Overhead))
	cl := make([]string, len(sp.VolumeClaimTemplates))
	for i := range sp.VolumeClaimTemplates {
		c := &sp.VolumeClaimTemplates[i]
		cl[i] = fmt.Sprintf("k(%s;%s;%s;%s)", c.Status.Phase, viewResList(c.Spec.Resources.Limits), viewResList(c.Spec.Resources.Requests), viewResList(c.Status.Capacity))
	}
	fmt.Fprintf(&b, "claims(%s)", strings.Join(cl, ""))
	return b.String()
}

// ---------------------------------------------------------------- JSON tree difference as path patterns

var resourceMapKeys = map[string]bool{"limits": true, "requests": true, "overhead": true, "capacity": true}

func jsonDiffPaths(a, b interface{}, path string, parentKey string, out map[string]bool) {
	switch av := a.(type) {
	case map[string]interface{}:
		bv, ok := b.(map[string]interface{})
		if !ok {
			out[path] = true
			return
		}
		for k, x := range av {
			seg := k
			if resourceMapKeys[parentKey] {
				seg = "*"
			}
			y, ok := bv[k]
			if !ok {
				out[join(path, seg)] = true
				continue
			}
			jsonDiffPaths(x, y, join(path, seg), k, out)
		}
		for k := range bv {
			if _, ok := av[k]; !ok {
				seg := k
				if resourceMapKeys[parentKey] {
					seg = "*"
				}
				out[join(path, seg)] = true
			}
		}
	case []interface{}:
		bv, ok := b.([]interface{})
		if !ok || len(av) != len(bv) {
			out[path] = true
			return
		}
		for i := range av {
			jsonDiffPaths(av[i], bv[i], join(path, "*"), "", out)
		}
	default:
		if !reflect.DeepEqual(a, b) {
			out[path] = true
		}
	}
}

func join(p, s string) string {
	if p == "" {
		return s
	}
	return p + "." + s
}

func jsonTree(obj interface{}) (interface{}, []byte) {
	b, err := json.Marshal(obj)
	if err != nil {
		return nil, nil
	}
	var x interface{}
	d := json.NewDecoder(strings.NewReader(string(b)))
	d.UseNumber()
	_ = d.Decode(&x)
	return x, b
}

// shortPath abbreviates the two long prefixes
func shortPath(p string) string {
	if strings.HasPrefix(p, "spec.template.spec.") {
		return "pod." + p[len("spec.template.spec."):]
	}
	if strings.HasPrefix(p, "spec.volumeClaimTemplates.*.") {
		return "claim." + p[len("spec.volumeClaimTemplates.*."):]
	}
	return p
}

func sortedPathKeys(m map[string]bool) []string {
	out := make([]string, 0, len(m))
	for k := range m {
		out = append(out, k)
	}
	sort.Strings(out)
	return out
}

// ---------------------------------------------------------------- run

func decodeAS(f []string) (*asv1.StatefulSet, string) {
	obj := &asv1.StatefulSet{}
	if err := json.Unmarshal([]byte(f[1]), obj); err != nil {
		return nil, "bad-case"
	}
	if emp := atoi(f[0]); emp != 0 {
		emptyNils(reflect.ValueOf(obj), rand.New(rand.NewSource(int64(emp))))
	}
	if obj.Name == "" {
		obj.Name = "x"
	}
	obj.Namespace = "default"
	return obj, ""
}

func runDefaults(line string) (obs string) {
	f := strings.SplitN(line, "|", 2)
	if len(f) != 2 {
		return "bad-case"
	}
	obj, bad := decodeAS(f)
	if obj == nil {
		return bad
	}
	defer func() {
		if r := recover(); r != nil {
			obs = "out=panic site=" + strings.ReplaceAll(sanitize(fmt.Sprint(r)), " ", "_")
		}
	}()
	t0, _ := jsonTree(obj)
	o1 := obj.DeepCopy()
	asv1.SetObjectDefaults_StatefulSet(o1)
	t1, j1 := jsonTree(o1)
	o2 := o1.DeepCopy()
	asv1.SetObjectDefaults_StatefulSet(o2)
	_, j2 := jsonTree(o2)
	// a second pass in place on the very same object as well (no copy in between)
	o3 := obj.DeepCopy()
	asv1.SetObjectDefaults_StatefulSet(o3)
	asv1.SetObjectDefaults_StatefulSet(o3)
	_, j3 := jsonTree(o3)
	idem := string(j1) == string(j2) && string(j1) == string(j3) && apiequality.Semantic.DeepEqual(o1, o2)
	chg := map[string]bool{}
	jsonDiffPaths(t0, t1, "", "", chg)
	lost := map[string]bool{}
	lostPaths(t0, t1, "", lost)

	errs := []string{}
	note := func(where string, err error) bool {
		if err != nil {
			errs = append(errs, where)
			return true
		}
		return false
	}
	ctx := context.TODO()
	hjdef, tpl, resub, first := false, false, false, "err"
	// written through the hijack client, read back, re-submitted
	{
		asc := asfake.NewSimpleClientset()
		hc := helper.NewHijackClient(kubefake.NewSimpleClientset(), asc).AppsV1().StatefulSets("default")
		builtin, err := helper.ToBuiltinStatefulSet(obj)
		if !note("to-builtin", err) {
			_, err = hc.Create(ctx, builtin, metav1.CreateOptions{})
			if !note("create", err) {
				stored, err := asc.AppsV1().StatefulSets("default").Get(ctx, obj.Name, metav1.GetOptions{})
				if !note("as-get", err) {
					_, a := jsonTree(stored.Spec)
					_, b := jsonTree(o1.Spec)
					hjdef = string(a) == string(b)
				}
				got, err := hc.Get(ctx, obj.Name, metav1.GetOptions{})
				if !note("get", err) {
					_, err = hc.Update(ctx, got.DeepCopy(), metav1.UpdateOptions{})
					if !note("update", err) {
						got2, err := hc.Get(ctx, obj.Name, metav1.GetOptions{})
						if !note("get2", err) {
							_, a := jsonTree(got.Spec.Template)
							_, b := jsonTree(got2.Spec.Template)
							tpl = string(a) == string(b)
							resub = apiequality.Semantic.DeepEqual(got, got2)
						}
					}
				}
			}
		}
	}
	// recorded, not judged: stored undefaulted (the CRD keeps the template opaque), then first Get + Update through the hijack client
	{
		asc := asfake.NewSimpleClientset()
		hc := helper.NewHijackClient(kubefake.NewSimpleClientset(), asc).AppsV1().StatefulSets("default")
		_, err := asc.AppsV1().StatefulSets("default").Create(ctx, obj.DeepCopy(), metav1.CreateOptions{})
		if !note("as-create", err) {
			got, err := hc.Get(ctx, obj.Name, metav1.GetOptions{})
			if !note("first-get", err) {
				_, err = hc.Update(ctx, got, metav1.UpdateOptions{})
				if !note("first-update", err) {
					stored, err := asc.AppsV1().StatefulSets("default").Get(ctx, obj.Name, metav1.GetOptions{})
					if !note("first-as-get", err) {
						_, a := jsonTree(obj.Spec.Template)
						_, b := jsonTree(stored.Spec.Template)
						if string(a) == string(b) {
							first = "same"
						} else {
							first = "changed"
						}
					}
				}
			}
		}
	}
	e := "none"
	if len(errs) > 0 {
		e = strings.Join(errs, ",")
	}
	paths := sortedPathKeys(chg)
	for i, p := range paths {
		paths[i] = shortPath(p)
	}
	sort.Strings(paths)
	return fmt.Sprintf("idem=%s chg=%s lost=%s v1=%s hjdef=%s tpl=%s resub=%s first=%s err=%s", b2s(idem), strings.Join(paths, ","), strings.Join(sortedPathKeys(lost), ","), defaultsView(o1),
		b2s(hjdef), b2s(tpl), b2s(resub), first, e)
}

// ---------------------------------------------------------------- generator

func genASObject(rng *rand.Rand, rich bool) *asv1.StatefulSet {
	g := &objGen{rng: rng, rich: rich, scale: pick(rng, 35, 55, 55, 75, 100)}
	obj := &asv1.StatefulSet{}
	g.fill(reflect.ValueOf(obj).Elem(), "", 0)
	obj.Kind, obj.APIVersion = "StatefulSet", "apps.pingcap.com/v1"
	obj.Name = pick(rng, nameStrings...)
	obj.Namespace = "default"
	// the five shapes of the update strategy, plus the sixth (no type, block with a partition)
	switch weighted(rng, 40, 10, 10, 10, 10, 10, 10) {
	case 0: // as generated
	case 1:
		obj.Spec.UpdateStrategy = asv1.StatefulSetUpdateStrategy{}
	case 2:
		obj.Spec.UpdateStrategy = asv1.StatefulSetUpdateStrategy{Type: asv1.RollingUpdateStatefulSetStrategyType}
	case 3:
		obj.Spec.UpdateStrategy = asv1.StatefulSetUpdateStrategy{Type: asv1.RollingUpdateStatefulSetStrategyType, RollingUpdate: &asv1.RollingUpdateStatefulSetStrategy{}}
	case 4:
		p := int32(rng.Intn(4))
		obj.Spec.UpdateStrategy = asv1.StatefulSetUpdateStrategy{Type: asv1.RollingUpdateStatefulSetStrategyType, RollingUpdate: &asv1.RollingUpdateStatefulSetStrategy{Partition: &p}}
	case 5:
		obj.Spec.UpdateStrategy = asv1.StatefulSetUpdateStrategy{Type: asv1.OnDeleteStatefulSetStrategyType}
	default:
		p := int32(rng.Intn(4))
		obj.Spec.UpdateStrategy = asv1.StatefulSetUpdateStrategy{RollingUpdate: &asv1.RollingUpdateStatefulSetStrategy{Partition: &p}}
	}
	return obj
}

func genDefaults(rng *rand.Rand, n int, emit func(string)) {
	for i := 0; i < n; {
		obj := genASObject(rng, rng.Intn(4) == 0)
		if rng.Intn(5) == 0 { // already defaulted input
			asv1.SetObjectDefaults_StatefulSet(obj)
		}
		s, ok := caseJSON(obj)
		if !ok {
			continue
		}
		emp := 0
		if rng.Intn(3) == 0 {
			emp = 1 + rng.Intn(1<<30)
		}
		emit(fmt.Sprintf("%d|%s", emp, s))
		i++
	}
}
