package main

import (
	"bytes"
	"fmt"
	"math/rand"
	"runtime"
	"sort"
	"strconv"
	"strings"
	"sync"

	utilruntime "k8s.io/apimachinery/pkg/util/runtime"
)

// Panics that client-go swallows. `retry.RetryOnConflict` runs its function under `runtime.HandleCrash`, which re-panics only
// when `ReallyCrash` is set (the production default, where such a panic kills the controller). The engines run with
// ReallyCrash=false so that one case cannot take the harness down, and record every panic that passes through HandleCrash,
// attributed to the goroutine (= the case) it happened on.
var (
	swallowedOnce   sync.Once
	swallowedPanics sync.Map // goroutine id -> panic message
)

func goID() uint64 {
	var buf [64]byte
	n := runtime.Stack(buf[:], false)
	f := bytes.Fields(buf[:n])
	if len(f) < 2 {
		return 0
	}
	id, _ := strconv.ParseUint(string(f[1]), 10, 64)
	return id
}

// watchSwallowedPanics installs the recorder (once) and clears the slate of the calling goroutine.
func watchSwallowedPanics() {
	swallowedOnce.Do(func() {
		utilruntime.ReallyCrash = false
		utilruntime.PanicHandlers = append(utilruntime.PanicHandlers, func(r interface{}) {
			swallowedPanics.Store(goID(), fmt.Sprint(r))
		})
	})
	swallowedPanics.Delete(goID())
}

// swallowedPanic reports a panic recorded on the calling goroutine since watchSwallowedPanics.
func swallowedPanic() (string, bool) {
	if v, ok := swallowedPanics.LoadAndDelete(goID()); ok {
		return v.(string), true
	}
	return "", false
}

func sanitize(s string) string {
	r := strings.NewReplacer("\n", " ", "\t", " ", "=>", "->", "|", "/")
	s = r.Replace(s)
	if len(s) > 160 {
		s = s[:160]
	}
	return s
}

func joinInts(xs []int) string {
	ss := make([]string, len(xs))
	for i, x := range xs {
		ss[i] = strconv.Itoa(x)
	}
	return strings.Join(ss, ",")
}

func joinInt32s(xs []int32) string {
	ss := make([]string, len(xs))
	for i, x := range xs {
		ss[i] = strconv.Itoa(int(x))
	}
	return strings.Join(ss, ",")
}

func parseInts(s string) []int {
	if s == "" {
		return nil
	}
	var out []int
	for _, t := range strings.Split(s, ",") {
		v, err := strconv.Atoi(t)
		if err != nil {
			panic(fmt.Sprintf("bad int %q", t))
		}
		out = append(out, v)
	}
	return out
}

func sortedInt32(xs []int32) []int32 {
	out := append([]int32(nil), xs...)
	sort.Slice(out, func(i, j int) bool { return out[i] < out[j] })
	return out
}

func atoi(s string) int {
	v, err := strconv.Atoi(s)
	if err != nil {
		panic(fmt.Sprintf("bad int %q", s))
	}
	return v
}

func b2s(b bool) string {
	if b {
		return "1"
	}
	return "0"
}

func pick[T any](rng *rand.Rand, xs ...T) T { return xs[rng.Intn(len(xs))] }

// weighted picks index i with probability w[i]/sum(w).
func weighted(rng *rand.Rand, w ...int) int {
	t := 0
	for _, x := range w {
		t += x
	}
	r := rng.Intn(t)
	for i, x := range w {
		if r < x {
			return i
		}
		r -= x
	}
	return len(w) - 1
}

func hexEnc(s string) string {
	const h = "0123456789abcdef"
	var b strings.Builder
	for i := 0; i < len(s); i++ {
		b.WriteByte(h[s[i]>>4])
		b.WriteByte(h[s[i]&15])
	}
	return b.String()
}

func hexDec(s string) string {
	var b strings.Builder
	for i := 0; i+1 < len(s); i += 2 {
		v, err := strconv.ParseUint(s[i:i+2], 16, 8)
		if err != nil {
			panic("bad hex")
		}
		b.WriteByte(byte(v))
	}
	return b.String()
}

// desiredSet computes the first r non-negative integers that are not slots, independently of the code under test
// (used by generators and by harness-side classification only).
func desiredSet(r int, slots []int) map[int]bool {
	isSlot := map[int]bool{}
	for _, s := range slots {
		isSlot[s] = true
	}
	d := map[int]bool{}
	for n := 0; len(d) < r; n++ {
		if !isSlot[n] {
			d[n] = true
		}
	}
	return d
}
