package main

import (
	"fmt"
	"math/rand"
	"sort"
	"strconv"
	"strings"
	"sync"

	"github.com/pingcap/advanced-statefulset/client/apis/apps/v1/helper"
	utilruntime "k8s.io/apimachinery/pkg/util/runtime"
)

// Panics inside client-go's retry helpers. `retry.RetryOnConflict` runs its function under `runtime.HandleCrash`, which
// re-panics only when `ReallyCrash` is set — the production default, where such a panic kills the controller. The sync and
// world engines run everything on the worker goroutine of the case, so they keep the production setting and recover the
// re-raised panic themselves (with ReallyCrash=false the panic would be swallowed and the retry helper would report success).
var reallyCrashOnce sync.Once

func productionCrashSemantics() {
	reallyCrashOnce.Do(func() { utilruntime.ReallyCrash = true })
}

func sanitize(s string) string {
	r := strings.NewReplacer("\n", " ", "\t", " ", "=>", "->", "|", "/")
	s = r.Replace(s)
	if len(s) > 160 {
		s = s[:160]
	}
	return s
}

func joinInts(xs []int) string {
	ss := make([]string, len(xs))
	for i, x := range xs {
		ss[i] = strconv.Itoa(x)
	}
	return strings.Join(ss, ",")
}

func joinInt32s(xs []int32) string {
	ss := make([]string, len(xs))
	for i, x := range xs {
		ss[i] = strconv.Itoa(int(x))
	}
	return strings.Join(ss, ",")
}

func parseInts(s string) []int {
	if s == "" {
		return nil
	}
	var out []int
	for _, t := range strings.Split(s, ",") {
		v, err := strconv.Atoi(t)
		if err != nil {
			panic(fmt.Sprintf("bad int %q", t))
		}
		out = append(out, v)
	}
	return out
}

func sortedInt32(xs []int32) []int32 {
	out := append([]int32(nil), xs...)
	sort.Slice(out, func(i, j int) bool { return out[i] < out[j] })
	return out
}

func atoi(s string) int {
	v, err := strconv.Atoi(s)
	if err != nil {
		panic(fmt.Sprintf("bad int %q", s))
	}
	return v
}

func b2s(b bool) string {
	if b {
		return "1"
	}
	return "0"
}

func pick[T any](rng *rand.Rand, xs ...T) T { return xs[rng.Intn(len(xs))] }

// weighted picks index i with probability w[i]/sum(w).
func weighted(rng *rand.Rand, w ...int) int {
	t := 0
	for _, x := range w {
		t += x
	}
	r := rng.Intn(t)
	for i, x := range w {
		if r < x {
			return i
		}
		r -= x
	}
	return len(w) - 1
}

func hexEnc(s string) string {
	const h = "0123456789abcdef"
	var b strings.Builder
	for i := 0; i < len(s); i++ {
		b.WriteByte(h[s[i]>>4])
		b.WriteByte(h[s[i]&15])
	}
	return b.String()
}

func hexDec(s string) string {
	var b strings.Builder
	for i := 0; i+1 < len(s); i += 2 {
		v, err := strconv.ParseUint(s[i:i+2], 16, 8)
		if err != nil {
			panic("bad hex")
		}
		b.WriteByte(byte(v))
	}
	return b.String()
}

// desiredSet computes the first r non-negative integers that are not slots, independently of the code under test
// (used by generators and by harness-side classification only).
func desiredSet(r int, slots []int) map[int]bool {
	isSlot := map[int]bool{}
	for _, s := range slots {
		isSlot[s] = true
	}
	d := map[int]bool{}
	for n := 0; len(d) < r; n++ {
		if !isSlot[n] {
			d[n] = true
		}
	}
	return d
}


// staleRevAnnotations: the annotations a ControllerRevision recorded at an earlier time carries. newRevision copies the set's
// annotations of that moment onto the revision and nothing refreshes them, so a stored revision usually holds an outdated
// delete-slots value (and possibly an old pause flag). The controller must not read them back.
func staleRevAnnotations(name string) map[string]string {
	h := 0
	for _, ch := range name {
		h = h*31 + int(ch)
	}
	if h < 0 {
		h = -h
	}
	slots := []string{"[0]", "[1,2]", "[0,1,2,3]", "[2]", "[1]", "[0,3,5]"}[h%6]
	a := map[string]string{helper.DeleteSlotsAnn: slots, "example.com/recorded": "earlier"}
	if h%5 == 0 {
		a[helper.DeleteSlotsAnn] = "oops"
	}
	return a
}


// specParentAndOrdinal reads a pod name the way the property does, independently of the repository's parser: the name is
// <parent>-<decimal digits>, the digits denote an int32 ordinal; anything else has no ordinal (-1).
func specParentAndOrdinal(name string) (string, int) {
	i := strings.LastIndex(name, "-")
	if i < 0 || i == len(name)-1 {
		return "", -1
	}
	digits := name[i+1:]
	for _, ch := range digits {
		if ch < '0' || ch > '9' {
			return "", -1
		}
	}
	n, err := strconv.ParseInt(digits, 10, 32)
	if err != nil {
		return name[:i], -1
	}
	return name[:i], int(n)
}
