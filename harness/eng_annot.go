package main

import (
	"fmt"
	"math/rand"
	"sort"
	"strconv"
	"strings"

	appsv1 "k8s.io/api/apps/v1"
	metav1 "k8s.io/apimachinery/pkg/apis/meta/v1"
	"k8s.io/apimachinery/pkg/util/sets"

	asv1 "github.com/pingcap/advanced-statefulset/client/apis/apps/v1"
	"github.com/pingcap/advanced-statefulset/client/apis/apps/v1/helper"
)

// Engine "annot": the annotation helpers (delete-slots set / add / get, paused-reconcile set / get) as an operation
// sequence over one annotation map.
//
//	case: <obj>|<init>|<ops>
//	      obj  = meta | as | builtin          (which metav1.Object carries the map)
//	      init = nil | map:<key>:<hex value>,...          (keys over [a-zA-Z0-9-], unique)
//	      ops  = op;op;...   S:<ints> | Sn (nil set) | A:<ints> | An | G | P1 | P0 | Q
//	obs : s0=<state> s1=<ret>~<state> ... [out=panic site=..]
//	      state = <slots read back by GetDeleteSlots>~<paused read back>~<map is nil>~<key:hex,... sorted by key>
//	      ret   = ok | err (S, A, P) ; the returned set (G) ; 0/1 (Q)
func init() {
	engines["annot"] = &Engine{Gen: genAnnot, Enum: enumAnnot, Run: runAnnot}
}

func annotState(obj metav1.Object) string {
	ann := obj.GetAnnotations()
	keys := make([]string, 0, len(ann))
	for k := range ann {
		keys = append(keys, k)
	}
	sort.Strings(keys)
	ents := make([]string, len(keys))
	for i, k := range keys {
		ents[i] = k + ":" + hexEnc(ann[k])
	}
	return fmt.Sprintf("%s~%s~%s~%s", joinInt32s(helper.GetDeleteSlots(obj).List()), b2s(helper.GetPausedReconcile(obj)), b2s(ann == nil), strings.Join(ents, ","))
}

func parseSlotSet(s string) sets.Int32 {
	set := sets.NewInt32()
	for _, v := range parseInts(s) {
		set.Insert(int32(v))
	}
	return set
}

func runAnnot(line string) (obs string) {
	f := strings.Split(line, "|")
	if len(f) != 3 {
		return "bad-case"
	}
	var obj metav1.Object
	switch f[0] {
	case "meta":
		obj = &metav1.ObjectMeta{}
	case "as":
		obj = &asv1.StatefulSet{}
	case "builtin":
		obj = &appsv1.StatefulSet{}
	default:
		return "bad-case"
	}
	if f[1] != "nil" {
		if !strings.HasPrefix(f[1], "map:") {
			return "bad-case"
		}
		m := map[string]string{}
		if body := f[1][4:]; body != "" {
			for _, e := range strings.Split(body, ",") {
				kv := strings.SplitN(e, ":", 2)
				if len(kv) != 2 {
					return "bad-case"
				}
				m[kv[0]] = hexDec(kv[1])
			}
		}
		obj.SetAnnotations(m)
	}
	var out []string
	out = append(out, "s0="+annotState(obj))
	defer func() {
		if r := recover(); r != nil {
			obs = strings.Join(out, " ") + " out=panic site=" + strings.ReplaceAll(sanitize(fmt.Sprint(r)), " ", "_")
		}
	}()
	if f[2] != "" {
		for i, op := range strings.Split(f[2], ";") {
			ret := ""
			switch {
			case op == "Sn":
				ret = errStr(helper.SetDeleteSlots(obj, nil))
			case strings.HasPrefix(op, "S:"):
				ret = errStr(helper.SetDeleteSlots(obj, parseSlotSet(op[2:])))
			case op == "An":
				ret = errStr(helper.AddDeleteSlots(obj, nil))
			case strings.HasPrefix(op, "A:"):
				ret = errStr(helper.AddDeleteSlots(obj, parseSlotSet(op[2:])))
			case op == "G":
				ret = joinInt32s(helper.GetDeleteSlots(obj).List())
			case op == "P1":
				helper.SetPausedReconcile(obj, true)
				ret = "ok"
			case op == "P0":
				helper.SetPausedReconcile(obj, false)
				ret = "ok"
			case op == "Q":
				ret = b2s(helper.GetPausedReconcile(obj))
			default:
				return "bad-case"
			}
			out = append(out, fmt.Sprintf("s%d=%s~%s", i+1, ret, annotState(obj)))
		}
	}
	return strings.Join(out, " ")
}

func errStr(err error) string {
	if err != nil {
		return "err"
	}
	return "ok"
}

// near misses are derived from the helper's own constants: the key as a suffix, as a prefix, group-qualified, in another case
var annotOtherKeys = []string{"other", "a", "b", "delete-slots2", "Delete-Slots", "delete-slot", "paused-reconcile2", "Paused-Reconcile", "paused", "pingcap-com-x", "z",
	"backup.example.com/" + helper.DeleteSlotsAnn, "no-" + helper.DeleteSlotsAnn, "apps.pingcap.com/" + helper.DeleteSlotsAnn, helper.DeleteSlotsAnn + "/x", " " + helper.DeleteSlotsAnn,
	"was-" + helper.PausedReconcileAnn, "apps.pingcap.com/" + helper.PausedReconcileAnn, helper.PausedReconcileAnn + ".old", "x" + helper.PausedReconcileAnn}

func genSlotInts(rng *rand.Rand) string {
	n := weighted(rng, 12, 20, 25, 20, 10, 8, 5)
	xs := make([]string, 0, n)
	for i := 0; i < n; i++ {
		var v int64
		switch weighted(rng, 55, 12, 10, 13, 10) {
		case 0:
			v = int64(rng.Intn(8))
		case 1:
			v = int64(rng.Intn(2000))
		case 2:
			v = -int64(1 + rng.Intn(5))
		case 3:
			v = pick(rng, int64(2147483647), int64(-2147483648), int64(2147483646), int64(-2147483647), int64(1<<30), int64(-(1 << 30)))
		default:
			v = int64(int32(rng.Uint32()))
		}
		if len(xs) > 0 && rng.Intn(6) == 0 { // duplicate
			xs = append(xs, xs[rng.Intn(len(xs))])
		} else {
			xs = append(xs, strconv.FormatInt(v, 10))
		}
	}
	return strings.Join(xs, ",")
}

var annotSlotGarbage = []string{"", " ", "null", "[", "[]", "[ ]", "[1,]", "{}", "\"1\"", "[\"1\"]", "[1.5]", "[1e2]", "[01]", "[2147483648]", "[-2147483649]", "[1,null,2]", "[null]",
	"[1]x", "1,2", "true", "[ 1 , 2 ]", "[3,3,3]", "[-0]", "[2147483647,-2147483648]", "\xff", "[1,\"a\",3]", "[1,2"}

var annotPauseValues = []string{"true", "false", "True", "TRUE", "1", "", " true", "true ", "t", "yes", "\"true\""}

func genAnnotInit(rng *rand.Rand) string {
	switch weighted(rng, 15, 8, 77) {
	case 0:
		return "nil"
	case 1:
		return "map:"
	}
	var ents []string
	used := map[string]bool{}
	for i, n := 0, rng.Intn(4); i < n; i++ {
		k := pick(rng, annotOtherKeys...)
		if used[k] {
			continue
		}
		used[k] = true
		v := pick(rng, "x", "", "[1,2]", "true", "some value", "\xe4\xb8\xad", "a=b c")
		ents = append(ents, k+":"+hexEnc(v))
	}
	switch weighted(rng, 35, 35, 12, 18) {
	case 0:
	case 1:
		ents = append(ents, helper.DeleteSlotsAnn+":"+hexEnc("["+genSlotInts(rng)+"]"))
	case 2:
		ents = append(ents, helper.DeleteSlotsAnn+":"+hexEnc(genValidArray(rng, 5, true)))
	default:
		if rng.Intn(2) == 0 {
			ents = append(ents, helper.DeleteSlotsAnn+":"+hexEnc(pick(rng, annotSlotGarbage...)))
		} else {
			ents = append(ents, helper.DeleteSlotsAnn+":"+hexEnc(genMalformed(rng, 5)))
		}
	}
	switch weighted(rng, 55, 25, 20) {
	case 0:
	case 1:
		ents = append(ents, helper.PausedReconcileAnn+":"+hexEnc("true"))
	default:
		ents = append(ents, helper.PausedReconcileAnn+":"+hexEnc(pick(rng, annotPauseValues...)))
	}
	rng.Shuffle(len(ents), func(i, j int) { ents[i], ents[j] = ents[j], ents[i] })
	return "map:" + strings.Join(ents, ",")
}

func genAnnotOp(rng *rand.Rand) string {
	switch weighted(rng, 26, 4, 4, 24, 3, 3, 10, 10, 8, 8) {
	case 0:
		return "S:" + genSlotInts(rng)
	case 1:
		return "S:"
	case 2:
		return "Sn"
	case 3:
		return "A:" + genSlotInts(rng)
	case 4:
		return "A:"
	case 5:
		return "An"
	case 6:
		return "G"
	case 7:
		return "P1"
	case 8:
		return "P0"
	default:
		return "Q"
	}
}

func genAnnot(rng *rand.Rand, n int, emit func(string)) {
	for i := 0; i < n; i++ {
		k := 1 + weighted(rng, 10, 20, 20, 15, 10, 10, 8, 7)
		ops := make([]string, k)
		for j := range ops {
			ops[j] = genAnnotOp(rng)
		}
		emit(pick(rng, "meta", "meta", "as", "builtin") + "|" + genAnnotInit(rng) + "|" + strings.Join(ops, ";"))
	}
}

// enumAnnot: every initial map out of a small family x every op sequence of length <= 2 over a small op alphabet.
func enumAnnot(scope string, emit func(string)) {
	ds, pr := helper.DeleteSlotsAnn, helper.PausedReconcileAnn
	inits := []string{"nil", "map:", "map:other:" + hexEnc("x"),
		"map:" + ds + ":" + hexEnc("[1,3]"), "map:" + ds + ":" + hexEnc("[1,3]") + ",other:" + hexEnc("x"),
		"map:" + ds + ":" + hexEnc("garbage"), "map:" + ds + ":" + hexEnc("[]") + "," + pr + ":" + hexEnc("true"),
		"map:" + pr + ":" + hexEnc("true"), "map:" + pr + ":" + hexEnc("false") + ",other:" + hexEnc("x"),
		"map:" + ds + ":" + hexEnc("[2147483647,-2147483648]") + "," + pr + ":" + hexEnc("True")}
	ops := []string{"S:", "Sn", "S:0", "S:3,1", "S:-2147483648,2147483647", "A:", "An", "A:1", "A:2,0", "G", "P1", "P0", "Q"}
	for _, in := range inits {
		for _, a := range ops {
			emit("meta|" + in + "|" + a)
			for _, b := range ops {
				emit("meta|" + in + "|" + a + ";" + b)
			}
		}
	}
}
