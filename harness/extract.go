package main

import (
	"bytes"
	"fmt"
	"go/ast"
	"go/parser"
	"go/printer"
	"go/token"
	"os"
	"path/filepath"
	"sort"
	"strings"

	"sigs.k8s.io/yaml"
)

// Fact extractors: tiny translators from /repo's sources to Lean definitions under lean/Asts/Gen (regenerated on every run).

func repoRoot() string {
	if r := os.Getenv("VERIF_REPO"); r != "" {
		return r
	}
	return "/repo"
}

var anchorDirs = []string{
	"pkg/controller/statefulset",
	"pkg/third_party/k8s",
	"client/apis/apps/v1/helper",
}

func leanStr(s string) string {
	s = strings.ReplaceAll(s, "\\", "\\\\")
	s = strings.ReplaceAll(s, "\"", "\\\"")
	s = strings.ReplaceAll(s, "\n", " ")
	s = strings.ReplaceAll(s, "\t", " ")
	return "\"" + s + "\""
}

func extractMain(args []string) int {
	switch args[0] {
	case "Sites":
		return extractSites()
	case "Crd":
		return extractCrd()
	case "Defaulters":
		return extractDefaulters()
	case "Schema":
		return extractSchema()
	}
	fmt.Fprintln(os.Stderr, "extract: unknown fact file", args[0])
	return 2
}

func exprText(fset *token.FileSet, e ast.Node) string {
	var b bytes.Buffer
	printer.Fprint(&b, fset, e)
	return strings.Join(strings.Fields(b.String()), " ")
}

type writeSite struct{ file, fn, resource, verb string }
type panicSite struct{ file, fn, kind, expr string }

var writeVerbs = map[string]bool{"Create": true, "Update": true, "UpdateStatus": true, "Patch": true, "Delete": true, "DeleteCollection": true}
var resources = map[string]bool{"Pods": true, "PersistentVolumeClaims": true, "ControllerRevisions": true, "StatefulSets": true, "Events": true}

func extractSites() int {
	fset := token.NewFileSet()
	var ws []writeSite
	var ps []panicSite
	// static call edges inside one directory (package): bare function / method name -> bare names it calls
	calls := map[string]map[string]map[string]bool{}
	for _, d := range anchorDirs {
		dir := filepath.Join(repoRoot(), d)
		ents, err := os.ReadDir(dir)
		if err != nil {
			fmt.Fprintln(os.Stderr, err)
			return 1
		}
		for _, e := range ents {
			n := e.Name()
			if !strings.HasSuffix(n, ".go") || strings.HasSuffix(n, "_test.go") || strings.HasPrefix(n, "zz_verif") {
				continue
			}
			f, err := parser.ParseFile(fset, filepath.Join(dir, n), nil, 0)
			if err != nil {
				fmt.Fprintln(os.Stderr, err)
				return 1
			}
			rel := d + "/" + n
			for _, decl := range f.Decls {
				fd, ok := decl.(*ast.FuncDecl)
				if !ok || fd.Body == nil {
					continue
				}
				fn := fd.Name.Name
				if calls[d] == nil {
					calls[d] = map[string]map[string]bool{}
				}
				if calls[d][fd.Name.Name] == nil {
					calls[d][fd.Name.Name] = map[string]bool{}
				}
				bare := fd.Name.Name
				ast.Inspect(fd.Body, func(nd ast.Node) bool {
					if c, ok := nd.(*ast.CallExpr); ok {
						switch f := c.Fun.(type) {
						case *ast.Ident:
							calls[d][bare][f.Name] = true
						case *ast.SelectorExpr:
							calls[d][bare][f.Sel.Name] = true
						}
					}
					return true
				})
				if fd.Recv != nil && len(fd.Recv.List) > 0 {
					fn = strings.TrimPrefix(exprText(fset, fd.Recv.List[0].Type), "*") + "." + fn
				}
				// index variables of enclosing `for i := range X` loops: X[i] is safe
				safeIdx := map[string]bool{}
				ast.Inspect(fd.Body, func(nd ast.Node) bool {
					if rs, ok := nd.(*ast.RangeStmt); ok && rs.Key != nil {
						safeIdx[exprText(fset, rs.X)+"["+exprText(fset, rs.Key)+"]"] = true
					}
					return true
				})
				// type assertions used in the two-value form
				okAssert := map[ast.Expr]bool{}
				ast.Inspect(fd.Body, func(nd ast.Node) bool {
					if as, ok := nd.(*ast.AssignStmt); ok && len(as.Lhs) == 2 && len(as.Rhs) == 1 {
						if ta, ok := as.Rhs[0].(*ast.TypeAssertExpr); ok {
							okAssert[ta] = true
						}
					}
					if ts, ok := nd.(*ast.TypeSwitchStmt); ok {
						ast.Inspect(ts.Assign, func(m ast.Node) bool {
							if ta, ok := m.(*ast.TypeAssertExpr); ok {
								okAssert[ta] = true
							}
							return true
						})
					}
					return true
				})
				ast.Inspect(fd.Body, func(nd ast.Node) bool {
					switch x := nd.(type) {
					case *ast.CallExpr:
						if sel, ok := x.Fun.(*ast.SelectorExpr); ok {
							if writeVerbs[sel.Sel.Name] {
								if inner, ok := sel.X.(*ast.CallExpr); ok {
									if isel, ok := inner.Fun.(*ast.SelectorExpr); ok && resources[isel.Sel.Name] {
										ws = append(ws, writeSite{rel, fn, isel.Sel.Name, sel.Sel.Name})
									}
								}
							}
							if sel.Sel.Name == "EncodeOrDie" {
								ps = append(ps, panicSite{rel, fn, "encodeOrDie", exprText(fset, x.Fun)})
							}
						}
						if id, ok := x.Fun.(*ast.Ident); ok && id.Name == "panic" {
							ps = append(ps, panicSite{rel, fn, "panic", exprText(fset, x)})
						}
					case *ast.StarExpr:
						// a dereference (not a type expression): operand is a selector or identifier in expression position
						if _, ok := x.X.(*ast.SelectorExpr); ok {
							t := exprText(fset, x)
							if !strings.Contains(t, "v1.") && !strings.Contains(t, "apps.") && !strings.Contains(t, "metav1.") {
								ps = append(ps, panicSite{rel, fn, "deref", t})
							}
						} else if id, ok := x.X.(*ast.Ident); ok && id.Obj != nil && id.Obj.Kind == ast.Var {
							ps = append(ps, panicSite{rel, fn, "deref", exprText(fset, x)})
						}
					case *ast.IndexExpr:
						if _, lit := x.Index.(*ast.BasicLit); lit {
							// constant string keys are map reads; constant ints are recorded
							if x.Index.(*ast.BasicLit).Kind == token.STRING {
								return true
							}
						}
						t := exprText(fset, x)
						if safeIdx[t] {
							return true
						}
						ps = append(ps, panicSite{rel, fn, "index", t})
					case *ast.SliceExpr:
						ps = append(ps, panicSite{rel, fn, "slice", exprText(fset, x)})
					case *ast.TypeAssertExpr:
						if x.Type != nil && !okAssert[x] {
							ps = append(ps, panicSite{rel, fn, "assert", exprText(fset, x)})
						}
					}
					return true
				})
			}
		}
	}
	sort.Slice(ws, func(i, j int) bool { return fmt.Sprint(ws[i]) < fmt.Sprint(ws[j]) })
	sort.Slice(ps, func(i, j int) bool { return fmt.Sprint(ps[i]) < fmt.Sprint(ps[j]) })
	var b strings.Builder
	b.WriteString("/- GENERATED by `harness extract Sites` from /repo's sources on every check run. Do not edit. -/\nnamespace Asts.Gen\n\n")
	b.WriteString("/-- every client write call site `X(...).Verb(...)` in the anchor packages: (file, function, resource, verb) -/\n")
	b.WriteString("def writeSites : List (String × String × String × String) := [\n")
	for i, w := range ws {
		sep := ","
		if i == len(ws)-1 {
			sep = ""
		}
		fmt.Fprintf(&b, "  (%s, %s, %s, %s)%s\n", leanStr(w.file), leanStr(w.fn), leanStr(w.resource), leanStr(w.verb), sep)
	}
	b.WriteString("]\n\n")
	// write kinds reachable from the migration helper `Upgrade` through static calls inside its package (an over-approximation:
	// a call `x.Name(...)` counts as a call of every function or method `Name` of the package), deduplicated and sorted
	const upDir = "client/apis/apps/v1/helper"
	reach := map[string]bool{"Upgrade": true}
	work := []string{"Upgrade"}
	for len(work) > 0 {
		f := work[len(work)-1]
		work = work[:len(work)-1]
		for g := range calls[upDir][f] {
			if _, defined := calls[upDir][g]; defined && !reach[g] {
				reach[g] = true
				work = append(work, g)
			}
		}
	}
	kinds := map[string]bool{}
	for _, w := range ws {
		bare := w.fn
		if i := strings.LastIndex(bare, "."); i >= 0 {
			bare = bare[i+1:]
		}
		if strings.HasPrefix(w.file, upDir+"/") && reach[bare] {
			kinds[leanStr(w.resource)+", "+leanStr(w.verb)] = true
		}
	}
	var ks []string
	for k := range kinds {
		ks = append(ks, k)
	}
	sort.Strings(ks)
	b.WriteString("/-- (resource, verb) of the client write call sites in `Upgrade` and in every function of its package that it can reach by static calls; deduplicated, sorted -/\n")
	b.WriteString("def upgradeWriteKinds : List (String × String) := [")
	for i, k := range ks {
		if i > 0 {
			b.WriteString(", ")
		}
		b.WriteString("(" + k + ")")
	}
	b.WriteString("]\n\n")
	b.WriteString("/-- every syntactically panic-capable site in the anchor packages: (file, function, kind, expression text) -/\n")
	b.WriteString("def panicSites : List (String × String × String × String) := [\n")
	// dedupe identical entries (same expression twice in one function counts once)
	var uniq []panicSite
	for i, p := range ps {
		if i == 0 || p != ps[i-1] {
			uniq = append(uniq, p)
		}
	}
	for i, p := range uniq {
		sep := ","
		if i == len(uniq)-1 {
			sep = ""
		}
		fmt.Fprintf(&b, "  (%s, %s, %s, %s)%s\n", leanStr(p.file), leanStr(p.fn), leanStr(p.kind), leanStr(p.expr), sep)
	}
	b.WriteString("]\n\nend Asts.Gen\n")
	fmt.Print(b.String())
	return 0
}

func extractCrd() int {
	raw, err := os.ReadFile(filepath.Join(repoRoot(), "manifests", "crd.v1.yaml"))
	if err != nil {
		fmt.Fprintln(os.Stderr, err)
		return 1
	}
	var doc map[string]interface{}
	if err := yaml.Unmarshal(raw, &doc); err != nil {
		fmt.Fprintln(os.Stderr, err)
		return 1
	}
	get := func(m interface{}, keys ...string) interface{} {
		cur := m
		for _, k := range keys {
			mm, ok := cur.(map[string]interface{})
			if !ok {
				return nil
			}
			cur = mm[k]
		}
		return cur
	}
	versions, _ := get(doc, "spec", "versions").([]interface{})
	var b strings.Builder
	b.WriteString("/- GENERATED by `harness extract Crd` from /repo/manifests/crd.v1.yaml on every check run. Do not edit. -/\nnamespace Asts.Gen\n\n")
	b.WriteString("/-- per served version: (version, storage?, required spec fields, spec fields as (name, type, minimum, default, preserve-unknown-fields), status opaque?) -/\n")
	b.WriteString("def crdVersions : List (String × Bool × List String × List (String × String × Option Int × Option Int × Bool) × Bool) := [\n")
	for vi, v := range versions {
		name, _ := get(v, "name").(string)
		storage, _ := get(v, "storage").(bool)
		spec := get(v, "schema", "openAPIV3Schema", "properties", "spec")
		var req []string
		if rs, ok := get(spec, "required").([]interface{}); ok {
			for _, r := range rs {
				req = append(req, leanStr(fmt.Sprint(r)))
			}
		}
		props, _ := get(spec, "properties").(map[string]interface{})
		var names []string
		for k := range props {
			names = append(names, k)
		}
		sort.Strings(names)
		var fields []string
		for _, k := range names {
			p := props[k]
			typ, _ := get(p, "type").(string)
			optInt := func(x interface{}) string {
				switch t := x.(type) {
				case float64:
					return fmt.Sprintf("some (%d)", int64(t))
				case int64:
					return fmt.Sprintf("some (%d)", t)
				}
				return "none"
			}
			pres, _ := get(p, "x-kubernetes-preserve-unknown-fields").(bool)
			fields = append(fields, fmt.Sprintf("(%s, %s, %s, %s, %v)", leanStr(k), leanStr(typ), optInt(get(p, "minimum")), optInt(get(p, "default")), pres))
		}
		statusOpaque, _ := get(v, "schema", "openAPIV3Schema", "properties", "status", "x-kubernetes-preserve-unknown-fields").(bool)
		sep := ","
		if vi == len(versions)-1 {
			sep = ""
		}
		fmt.Fprintf(&b, "  (%s, %v, [%s], [%s], %v)%s\n", leanStr(name), storage, strings.Join(req, ", "), strings.Join(fields, ", "), statusOpaque, sep)
	}
	b.WriteString("]\n\nend Asts.Gen\n")
	fmt.Print(b.String())
	return 0
}

func extractDefaulters() int {
	fset := token.NewFileSet()
	path := filepath.Join(repoRoot(), "client/apis/apps/v1/zz_generated.defaults.go")
	f, err := parser.ParseFile(fset, path, nil, 0)
	if err != nil {
		fmt.Fprintln(os.Stderr, err)
		return 1
	}
	funcs := map[string]*ast.FuncDecl{}
	for _, d := range f.Decls {
		if fd, ok := d.(*ast.FuncDecl); ok {
			funcs[fd.Name.Name] = fd
		}
	}
	seen := map[string]bool{}
	var order []string
	var walk func(name string)
	walk = func(name string) {
		fd := funcs[name]
		if fd == nil || fd.Body == nil {
			return
		}
		ast.Inspect(fd.Body, func(n ast.Node) bool {
			if c, ok := n.(*ast.CallExpr); ok {
				t := exprText(fset, c.Fun)
				if strings.Contains(t, "SetDefaults_") || strings.Contains(t, "SetObjectDefaults_") {
					if !seen[t] {
						seen[t] = true
						order = append(order, t)
					}
					walk(strings.TrimPrefix(t, "corev1."))
				}
			}
			return true
		})
	}
	walk("SetObjectDefaults_StatefulSet")
	sort.Strings(order)
	var b strings.Builder
	b.WriteString("/- GENERATED by `harness extract Defaulters` from client/apis/apps/v1/zz_generated.defaults.go. Do not edit. -/\nnamespace Asts.Gen\n\n")
	b.WriteString("/-- defaulting functions called (transitively) from `SetObjectDefaults_StatefulSet` -/\ndef defaulters : List String := [\n")
	for i, o := range order {
		sep := ","
		if i == len(order)-1 {
			sep = ""
		}
		fmt.Fprintf(&b, "  %s%s\n", leanStr(o), sep)
	}
	b.WriteString("]\n\nend Asts.Gen\n")
	fmt.Print(b.String())
	return 0
}
