package main

import (
	"fmt"
	"math/rand"
	"strings"

	kubeapps "k8s.io/api/apps/v1"
	v1 "k8s.io/api/core/v1"
	apierrors "k8s.io/apimachinery/pkg/api/errors"
	metav1 "k8s.io/apimachinery/pkg/apis/meta/v1"
	"k8s.io/apimachinery/pkg/runtime/schema"
	"k8s.io/apimachinery/pkg/util/sets"
	"k8s.io/client-go/tools/record"

	apps "github.com/pingcap/advanced-statefulset/client/apis/apps/v1"
	"github.com/pingcap/advanced-statefulset/client/apis/apps/v1/helper"
	sts "github.com/pingcap/advanced-statefulset/pkg/controller/statefulset"
)

// Engine "reconcile": defaultStatefulSetControl.updateStatefulSet + updateStatefulSetStatus with a recording pod control
// and a recording status updater.
//
//	case: r|slots|pol|strat|ru|cur|upd|del|gen|stored|pods|faults
//	  pol   P Parallel | O OrderedReady | X junk | E empty
//	  strat R RollingUpdate | D OnDelete | X junk | E empty
//	  ru    none (no rollingUpdate block) | nil (block without partition) | <int>
//	  stored  replicas,ready,current,updated,currentRev,updateRev,observedGen   (set.Status as cached)
//	  pods  ord:phase:ready:term:rev:idOk:stOk;...     phase N(one) P R S F U ; ord -1 = name that does not parse
//	  faults verb:ord[:kind];...    verb 0 create 1 delete 2 update 3 status-write; kind exists|conflict|notfound|timeout|invalid (typed API error)
//	obs : acts=<create:o:rev|delete:o:id|update:o,...> status=<rep,ready,cur,upd,curRev,updRev,gen|-> written=<...|-> out=ok|err|panic tplbad=<creates built from another template than their revision label names>
func init() {
	engines["reconcile"] = &Engine{Gen: genReconcile, Enum: enumReconcile, Run: runReconcile}
}

type rcPod struct {
	ord         int
	phase       string
	ready, term bool
	rev         string
	idOk, stOk  bool
}

type rcCase struct {
	r        int
	slots    []int
	pol      string
	strat    string
	ru       string
	cur, upd string
	del      bool
	gen      int
	stored   [7]string
	pods     []rcPod
	faults   map[string]bool
	kinds    map[string]string // error kind per fault (default: a plain error)
}

func (c *rcCase) line() string {
	var ps []string
	for _, p := range c.pods {
		ps = append(ps, fmt.Sprintf("%d:%s:%s:%s:%s:%s:%s", p.ord, p.phase, b2s(p.ready), b2s(p.term), p.rev, b2s(p.idOk), b2s(p.stOk)))
	}
	var fs []string
	for _, k := range sortedKeys(c.faults) {
		if kind := c.kinds[k]; kind != "" {
			k += ":" + kind
		}
		fs = append(fs, k)
	}
	return fmt.Sprintf("%d|%s|%s|%s|%s|%s|%s|%s|%d|%s|%s|%s", c.r, joinInts(c.slots), c.pol, c.strat, c.ru, c.cur, c.upd,
		b2s(c.del), c.gen, strings.Join(c.stored[:], ","), strings.Join(ps, ";"), strings.Join(fs, ";"))
}

func sortedKeys(m map[string]bool) []string {
	var ks []string
	for k := range m {
		ks = append(ks, k)
	}
	for i := 1; i < len(ks); i++ {
		for j := i; j > 0 && ks[j] < ks[j-1]; j-- {
			ks[j], ks[j-1] = ks[j-1], ks[j]
		}
	}
	return ks
}

func parseRcCase(line string) (*rcCase, error) {
	f := strings.Split(line, "|")
	if len(f) != 12 {
		return nil, fmt.Errorf("want 12 fields, got %d", len(f))
	}
	c := &rcCase{r: atoi(f[0]), slots: parseInts(f[1]), pol: f[2], strat: f[3], ru: f[4], cur: f[5], upd: f[6], del: f[7] == "1", gen: atoi(f[8]), faults: map[string]bool{}, kinds: map[string]string{}}
	st := strings.Split(f[9], ",")
	if len(st) != 7 {
		return nil, fmt.Errorf("stored status wants 7 fields")
	}
	copy(c.stored[:], st)
	if f[10] != "" {
		for _, t := range strings.Split(f[10], ";") {
			q := strings.Split(t, ":")
			if len(q) != 7 {
				return nil, fmt.Errorf("bad pod %q", t)
			}
			c.pods = append(c.pods, rcPod{ord: atoi(q[0]), phase: q[1], ready: q[2] == "1", term: q[3] == "1", rev: q[4], idOk: q[5] == "1", stOk: q[6] == "1"})
		}
	}
	if f[11] != "" {
		for _, t := range strings.Split(f[11], ";") {
			q := strings.Split(t, ":")
			if len(q) == 3 { // verb:ord:kind — the kind of API error the pod control returns
				c.faults[q[0]+":"+q[1]] = true
				c.kinds[q[0]+":"+q[1]] = q[2]
			} else {
				c.faults[t] = true
			}
		}
	}
	return c, nil
}

const rcSetName = "web"
const rcNS = "ns"

func policyOf(s string) apps.PodManagementPolicyType {
	switch s {
	case "P":
		return apps.ParallelPodManagement
	case "O":
		return apps.OrderedReadyPodManagement
	case "X":
		return "Junk"
	}
	return ""
}

func strategyOf(s, ru string) apps.StatefulSetUpdateStrategy {
	var u apps.StatefulSetUpdateStrategy
	switch s {
	case "R":
		u.Type = apps.RollingUpdateStatefulSetStrategyType
	case "D":
		u.Type = apps.OnDeleteStatefulSetStrategyType
	case "X":
		u.Type = "Junk"
	}
	switch ru {
	case "none":
	case "nil":
		u.RollingUpdate = &apps.RollingUpdateStatefulSetStrategy{}
	default:
		p := int32(atoi(ru))
		u.RollingUpdate = &apps.RollingUpdateStatefulSetStrategy{Partition: &p}
	}
	return u
}

func baseSet(name string, replicas int32, image string) *apps.StatefulSet {
	lim := int32(10)
	return &apps.StatefulSet{
		TypeMeta:   metav1.TypeMeta{Kind: "StatefulSet", APIVersion: "apps.pingcap.com/v1"},
		ObjectMeta: metav1.ObjectMeta{Name: name, Namespace: rcNS, UID: "uid-" + "self"},
		Spec: apps.StatefulSetSpec{
			Replicas:             &replicas,
			Selector:             &metav1.LabelSelector{MatchLabels: map[string]string{"app": name}},
			ServiceName:          "svc",
			RevisionHistoryLimit: &lim,
			Template: v1.PodTemplateSpec{
				ObjectMeta: metav1.ObjectMeta{Labels: map[string]string{"app": name}},
				Spec: v1.PodSpec{Containers: []v1.Container{{Name: "c", Image: image,
					VolumeMounts: []v1.VolumeMount{{Name: "data", MountPath: "/data"}}}}},
			},
			// the claim template carries labels of its own: getPersistentVolumeClaims adds the selector's labels to (a copy of) that map
			VolumeClaimTemplates: []v1.PersistentVolumeClaim{{ObjectMeta: metav1.ObjectMeta{Name: "data", Namespace: "tmpl-ns", Labels: map[string]string{"tier": "data"}}}},
		},
	}
}

func phaseOf(s string) v1.PodPhase {
	switch s {
	case "P":
		return v1.PodPending
	case "R":
		return v1.PodRunning
	case "S":
		return v1.PodSucceeded
	case "F":
		return v1.PodFailed
	case "U":
		return v1.PodUnknown
	}
	return ""
}

func mkRevision(set *apps.StatefulSet, name string) *kubeapps.ControllerRevision {
	c := set.DeepCopy()
	c.Spec.Template.Spec.Containers[0].Image = "img-" + name
	rev, err := sts.VerifNewRevision(c, 1, nil)
	if err != nil {
		panic(err)
	}
	rev.Name = name
	rev.Namespace = set.Namespace
	rev.Annotations = staleRevAnnotations(name)
	return rev
}

func mkPod(set *apps.StatefulSet, p rcPod) *v1.Pod {
	ord := p.ord
	if ord < 0 {
		ord = 0
	}
	pod := sts.VerifNewStatefulSetPod(set, ord)
	if p.ord < 0 {
		pod.Name = set.Name + "-99999999999"
	}
	if p.rev != "" {
		pod.Labels[kubeapps.StatefulSetRevisionLabel] = p.rev
	}
	if !p.idOk {
		delete(pod.Labels, apps.StatefulSetPodNameLabel)
	}
	if !p.stOk {
		pod.Spec.Volumes = nil
	}
	pod.Status.Phase = phaseOf(p.phase)
	if p.ready {
		pod.Status.Conditions = []v1.PodCondition{{Type: v1.PodReady, Status: v1.ConditionTrue}}
	}
	if p.term {
		now := metav1.Now()
		pod.DeletionTimestamp = &now
	}
	return pod
}

type recPodControl struct {
	idBad  int // creates whose pod does not carry the identity / storage of its ordinal at the moment of the create call
	tplBad int // creates whose pod template is not the one recorded by the revision its label names
	acts   []string
	faults map[string]bool
	kinds  map[string]string
	ids    map[*v1.Pod]int
}

// fail returns the injected error for a faulted call: a typed API error when the fault names a kind.
func (r *recPodControl) fail(key, what string) error {
	gr := schema.GroupResource{Resource: "pods"}
	switch r.kinds[key] {
	case "exists":
		return apierrors.NewAlreadyExists(gr, what)
	case "conflict":
		return apierrors.NewConflict(gr, what, fmt.Errorf("injected"))
	case "notfound":
		return apierrors.NewNotFound(gr, what)
	case "timeout":
		return apierrors.NewTimeoutError("injected", 1)
	case "invalid":
		return apierrors.NewInvalid(schema.GroupKind{Kind: "Pod"}, what, nil)
	}
	return fmt.Errorf("injected %s failure", what)
}

// the ordinal a pod's NAME denotes, read independently of the repository's own parser
func ordOfName(pod *v1.Pod) int { _, o := specParentAndOrdinal(pod.Name); return o }

func (r *recPodControl) CreateStatefulPod(set *apps.StatefulSet, pod *v1.Pod) error {
	o := ordOfName(pod)
	r.acts = append(r.acts, fmt.Sprintf("create:%d:%s", o, pod.Labels[kubeapps.StatefulSetRevisionLabel]))
	// the revision named X records the template with image img-X (mkRevision): the pod must be built from it
	// (a phase-less pod object of the snapshot that the reconcile re-submits is the harness's own object: not judged)
	if _, snapshot := r.ids[pod]; !snapshot {
		if len(pod.Spec.Containers) != 1 || pod.Spec.Containers[0].Image != "img-"+pod.Labels[kubeapps.StatefulSetRevisionLabel] {
			r.tplBad++
		}
	}
	// C06 at the moment of the create call: name, hostname, subdomain, pod-name label, and a volume bound to claim
	// <template>-<set>-<ordinal> for every claim template (judged by the real predicates plus the two immutable fields)
	if _, snapshot := r.ids[pod]; !snapshot {
		if !sts.VerifIdentityMatches(set, pod) || !sts.VerifStorageMatches(set, pod) || pod.Spec.Hostname != pod.Name || pod.Spec.Subdomain != set.Spec.ServiceName {
			r.idBad++
		}
	}
	if k := fmt.Sprintf("0:%d", o); r.faults[k] {
		return r.fail(k, "create")
	}
	return nil
}

func (r *recPodControl) UpdateStatefulPod(set *apps.StatefulSet, pod *v1.Pod) error {
	o := ordOfName(pod)
	r.acts = append(r.acts, fmt.Sprintf("update:%d", o))
	if k := fmt.Sprintf("2:%d", o); r.faults[k] {
		return r.fail(k, "update")
	}
	return nil
}

func (r *recPodControl) DeleteStatefulPod(set *apps.StatefulSet, pod *v1.Pod) error {
	o := ordOfName(pod)
	id := "f"
	if i, ok := r.ids[pod]; ok {
		id = fmt.Sprint(i)
	}
	r.acts = append(r.acts, fmt.Sprintf("delete:%d:%s", o, id))
	if k := fmt.Sprintf("1:%d", o); r.faults[k] {
		return r.fail(k, "delete")
	}
	return nil
}

type recStatusUpdater struct {
	written *apps.StatefulSetStatus
	fail    bool
}

func (u *recStatusUpdater) UpdateStatefulSetStatus(set *apps.StatefulSet, status *apps.StatefulSetStatus) error {
	c := status.DeepCopy()
	u.written = c
	if u.fail {
		return fmt.Errorf("injected status failure")
	}
	return nil
}

func fmtStatus(s *apps.StatefulSetStatus) string {
	if s == nil {
		return "-"
	}
	return fmt.Sprintf("%d,%d,%d,%d,%s,%s,%d", s.Replicas, s.ReadyReplicas, s.CurrentReplicas, s.UpdatedReplicas, s.CurrentRevision, s.UpdateRevision, s.ObservedGeneration)
}

func (c *rcCase) buildSet() *apps.StatefulSet {
	set := baseSet(rcSetName, int32(c.r), "img-"+c.upd)
	// three volumes of the pod's own (reconcile engine only): pods built from one decoded template must not share this array
	set.Spec.Template.Spec.Volumes = []v1.Volume{{Name: "scratch", VolumeSource: v1.VolumeSource{EmptyDir: &v1.EmptyDirVolumeSource{}}},
		{Name: "cache", VolumeSource: v1.VolumeSource{EmptyDir: &v1.EmptyDirVolumeSource{}}},
		{Name: "tmp", VolumeSource: v1.VolumeSource{EmptyDir: &v1.EmptyDirVolumeSource{}}}}
	set.Generation = int64(c.gen)
	set.Spec.PodManagementPolicy = policyOf(c.pol)
	set.Spec.UpdateStrategy = strategyOf(c.strat, c.ru)
	if len(c.slots) > 0 {
		s := sets.NewInt32()
		for _, x := range c.slots {
			s.Insert(int32(x))
		}
		set.Annotations = map[string]string{}
		if err := helper.SetDeleteSlots(set, s); err != nil {
			panic(err)
		}
	}
	if c.del {
		now := metav1.Now()
		set.DeletionTimestamp = &now
	}
	set.Status = apps.StatefulSetStatus{
		Replicas: int32(atoi(c.stored[0])), ReadyReplicas: int32(atoi(c.stored[1])), CurrentReplicas: int32(atoi(c.stored[2])),
		UpdatedReplicas: int32(atoi(c.stored[3])), CurrentRevision: c.stored[4], UpdateRevision: c.stored[5], ObservedGeneration: int64(atoi(c.stored[6])),
	}
	return set
}

func runReconcile(line string) string {
	c, err := parseRcCase(line)
	if err != nil {
		return "bad-case " + err.Error()
	}
	set := c.buildSet()
	cur := mkRevision(set, c.cur)
	upd := cur
	if c.upd != c.cur {
		upd = mkRevision(set, c.upd)
	}
	pc := &recPodControl{faults: c.faults, kinds: c.kinds, ids: map[*v1.Pod]int{}}
	var pods []*v1.Pod
	for i, p := range c.pods {
		pod := mkPod(set, p)
		pods = append(pods, pod)
		pc.ids[pod] = i
	}
	su := &recStatusUpdater{fail: c.faults["3:0"]}
	ctl := sts.VerifNewControl(pc, su, nil, record.NewFakeRecorder(1000))
	var status *apps.StatefulSetStatus
	out := "ok"
	site := ""
	func() {
		defer func() {
			if r := recover(); r != nil {
				out = "panic"
				site = sanitize(fmt.Sprint(r))
			}
		}()
		var e error
		status, e = ctl.UpdateStatefulSetCore(set, cur, upd, 0, pods)
		if e != nil {
			out = "err"
			return
		}
		if e = ctl.UpdateStatefulSetStatus(set, status); e != nil {
			out = "err"
		}
	}()
	stS := fmtStatus(status)
	if out == "panic" {
		stS = "-"
	}
	res := fmt.Sprintf("acts=%s status=%s written=%s out=%s tplbad=%d idbad=%d", strings.Join(pc.acts, ","), stS, fmtStatus(su.written), out, pc.tplBad, pc.idBad)
	if site != "" {
		res += " site=" + strings.ReplaceAll(site, " ", "_")
	}
	return res
}

// ---- generation ----

var rcPodClasses = []struct {
	w           int
	phase       string
	ready, term bool
	revKind     int // 0 upd 1 cur 2 third 3 empty
}{
	{30, "R", true, false, 0}, {16, "R", true, false, 1}, {5, "R", true, false, 2}, {2, "R", true, false, 3},
	{5, "P", false, false, 0}, {3, "P", false, false, 1}, {4, "R", false, false, 0}, {2, "R", false, false, 1},
	{4, "R", true, true, 0}, {3, "R", true, true, 1}, {2, "R", false, true, 2},
	{4, "F", false, false, 0}, {3, "F", false, false, 1}, {2, "F", false, true, 1}, {1, "F", false, true, 0},
	{2, "S", false, false, 0}, {1, "S", false, false, 2}, {1, "U", false, false, 0}, {1, "N", false, false, 0}, {1, "P", true, false, 0},
}

func genPodClass(rng *rand.Rand, ord int, cur, upd string, healthyBias int) rcPod {
	ws := make([]int, len(rcPodClasses))
	for i, c := range rcPodClasses {
		ws[i] = c.w
	}
	ws[0] += healthyBias
	k := rcPodClasses[weighted(rng, ws...)]
	rev := upd
	switch k.revKind {
	case 1:
		rev = cur
	case 2:
		rev = "C"
	case 3:
		rev = ""
	}
	p := rcPod{ord: ord, phase: k.phase, ready: k.ready, term: k.term, rev: rev, idOk: true, stOk: true}
	if rng.Intn(25) == 0 {
		p.idOk = false
	}
	if rng.Intn(25) == 0 {
		p.stOk = false
	}
	return p
}

func genRcCase(rng *rand.Rand) *rcCase {
	c := &rcCase{faults: map[string]bool{}, kinds: map[string]string{}}
	c.r = weighted(rng, 6, 12, 18, 22, 18, 12, 8)
	switch rng.Intn(60) {
	case 0, 1, 2, 3, 4: // ordinals with two digits (names sort differently as strings, parse differently in another base)
		c.r = 8 + rng.Intn(10)
	case 5: // and with three
		c.r = 95 + rng.Intn(10)
	}
	// slots
	nslots := weighted(rng, 30, 30, 20, 12, 8)
	if rng.Intn(80) == 0 { // a long slot list (more than 64, more than 100 entries)
		nslots = pick(rng, 65, 66, 70, 101, 130)
	}
	seen := map[int]bool{}
	for i := 0; i < nslots; i++ {
		var s int
		switch weighted(rng, 70, 15, 10, 5) {
		case 0:
			s = rng.Intn(c.r + nslots + 1)
		case 1:
			s = c.r + nslots + rng.Intn(4)
		case 2:
			s = -1 - rng.Intn(2)
		default:
			s = pick(rng, 2147483647, -2147483648, 100)
		}
		if !seen[s] {
			seen[s] = true
			c.slots = append(c.slots, s)
		}
	}
	c.pol = pick(rng, "O", "O", "O", "P", "P", "P", "X", "E")
	c.strat = pick(rng, "R", "R", "R", "R", "R", "D", "D", "X", "E")
	bound := c.r + nslots
	switch weighted(rng, 25, 6, 5, 20, 30, 8, 6) {
	case 0:
		c.ru = "none"
	case 1:
		c.ru = "nil"
	case 2:
		c.ru = fmt.Sprint(-1 - rng.Intn(3))
	case 3:
		c.ru = "0"
	case 4:
		c.ru = fmt.Sprint(rng.Intn(bound + 1))
	case 5:
		c.ru = fmt.Sprint(bound)
	default:
		c.ru = fmt.Sprint(bound + 1 + rng.Intn(3))
	}
	c.cur, c.upd = "A", "B"
	if rng.Intn(4) == 0 {
		c.upd = "A"
	}
	c.del = rng.Intn(14) == 0
	c.gen = 1 + rng.Intn(5)
	// pods: profile
	profile := weighted(rng, 40, 35, 25)
	maxOrd := bound + 2
	for o := 0; o < maxOrd; o++ {
		var p rcPod
		switch profile {
		case 0: // mess
			if rng.Intn(4) == 0 {
				continue
			}
			p = genPodClass(rng, o, c.cur, c.upd, 0)
		case 1: // near steady state at upd, few disturbances
			if rng.Intn(12) == 0 {
				continue
			}
			p = genPodClass(rng, o, c.cur, c.upd, 400)
		default: // mid rollout: high ordinals at upd, low at cur
			if rng.Intn(15) == 0 {
				continue
			}
			p = genPodClass(rng, o, c.cur, c.upd, 300)
			if p.rev == c.upd && o < bound/2+rng.Intn(2) {
				p.rev = c.cur
			}
		}
		// condemned region: fewer pods
		if (o >= bound || seen[o]) && profile != 0 && rng.Intn(2) == 0 {
			continue
		}
		c.pods = append(c.pods, p)
	}
	if rng.Intn(30) == 0 {
		p := genPodClass(rng, -1, c.cur, c.upd, 0)
		p.idOk, p.stOk = false, false
		c.pods = append(c.pods, p)
	}
	if rng.Intn(40) == 0 { // a far-away pod, up to the largest ordinal a pod name can carry (once the sentinel of the unhealthy scan)
		c.pods = append(c.pods, genPodClass(rng, pick(rng, 2147483647, 2147483647, 2147483646, 1000000), c.cur, c.upd, 0))
	}
	if rng.Intn(40) == 0 && len(c.pods) > 0 { // duplicate ordinal, only inside the desired set (Go's sort of condemned pods is not stable)
		q := c.pods[rng.Intn(len(c.pods))]
		if desiredSet(c.r, c.slots)[q.ord] {
			p := genPodClass(rng, q.ord, c.cur, c.upd, 0)
			c.pods = append(c.pods, p)
		}
	}
	rng.Shuffle(len(c.pods), func(i, j int) { c.pods[i], c.pods[j] = c.pods[j], c.pods[i] })
	// stored status: mostly what a census would give, sometimes stale
	live := len(c.pods)
	c.stored = [7]string{fmt.Sprint(live), fmt.Sprint(rng.Intn(live + 1)), fmt.Sprint(rng.Intn(bound + 2)), fmt.Sprint(rng.Intn(live + 1)),
		pick(rng, c.cur, c.cur, c.cur, "", "Z"), pick(rng, c.upd, c.upd, ""), fmt.Sprint(pick(rng, c.gen, c.gen, c.gen-1, 0, c.gen+1))}
	// faults
	if rng.Intn(7) == 0 {
		n := 1 + rng.Intn(2)
		for i := 0; i < n; i++ {
			k := fmt.Sprintf("%d:%d", rng.Intn(3), rng.Intn(maxOrd+1))
			c.faults[k] = true
			if rng.Intn(2) == 0 { // a typed API error: the reconcile must treat every kind alike
				c.kinds[k] = pick(rng, "exists", "conflict", "notfound", "timeout", "invalid")
			}
		}
	}
	if rng.Intn(25) == 0 {
		c.faults["3:0"] = true
	}
	return c
}

func genReconcile(rng *rand.Rand, n int, emit func(string)) {
	for i := 0; i < n; i++ {
		emit(genRcCase(rng).line())
	}
}

// enumReconcile enumerates every snapshot over a small scope:
// r <= 3, slots subset of {0,1,2}, ordinals 0..3, eight pod classes, both policies, rolling/OnDelete, three partition settings,
// two revision pairs, two legacy boundaries. scope "neg" adds slot -1 to the universe; scope "small" halves the class list.
func enumReconcile(scope string, emit func(string)) {
	universe := []int{0, 1, 2}
	if scope == "neg" {
		universe = []int{-1, 0, 1, 2}
	}
	type cls struct {
		present     bool
		phase       string
		ready, term bool
		rev         string
	}
	classes := []cls{{}, {true, "R", true, false, "A"}, {true, "R", true, false, "B"}, {true, "P", false, false, "A"},
		{true, "R", true, true, "A"}, {true, "F", false, false, "A"}, {true, "F", false, true, "B"}, {true, "R", true, false, "C"}}
	if scope == "small" {
		classes = classes[:5]
	}
	for r := 0; r <= 3; r++ {
		for mask := 0; mask < 1<<len(universe); mask++ {
			var slots []int
			for i, u := range universe {
				if mask&(1<<i) != 0 {
					slots = append(slots, u)
				}
			}
			for _, pol := range []string{"O", "P"} {
				for _, strat := range []string{"R", "D"} {
					for _, ru := range []string{"none", "0", "2"} {
						for _, cu := range [][2]string{{"A", "A"}, {"A", "B"}} {
							for _, scr := range []int{0, 2} {
								n := len(classes)
								for code := 0; code < n*n*n*n; code++ {
									c := &rcCase{r: r, slots: slots, pol: pol, strat: strat, ru: ru, cur: cu[0], upd: cu[1], gen: 1, faults: map[string]bool{}, kinds: map[string]string{}}
									c.stored = [7]string{"0", "0", fmt.Sprint(scr), "0", cu[0], cu[1], "1"}
									x := code
									for o := 0; o < 4; o++ {
										k := classes[x%n]
										x /= n
										if k.present {
											c.pods = append(c.pods, rcPod{ord: o, phase: k.phase, ready: k.ready, term: k.term, rev: k.rev, idOk: true, stOk: true})
										}
									}
									emit(c.line())
								}
							}
						}
					}
				}
			}
		}
	}
}
