package main

import (
	"errors"
	"fmt"
	"math/rand"
	"sort"
	"strconv"
	"strings"
	"sync"
	"time"

	kubeapps "k8s.io/api/apps/v1"
	v1 "k8s.io/api/core/v1"
	metav1 "k8s.io/apimachinery/pkg/apis/meta/v1"
	"k8s.io/apimachinery/pkg/types"
	utilruntime "k8s.io/apimachinery/pkg/util/runtime"
	kubeinformers "k8s.io/client-go/informers"
	coreinformers "k8s.io/client-go/informers/core/v1"
	kubefake "k8s.io/client-go/kubernetes/fake"
	corelisters "k8s.io/client-go/listers/core/v1"
	"k8s.io/client-go/tools/cache"
	"k8s.io/client-go/tools/record"
	"k8s.io/client-go/util/workqueue"

	apps "github.com/pingcap/advanced-statefulset/client/apis/apps/v1"
	"github.com/pingcap/advanced-statefulset/client/apis/apps/v1/helper"
	pcfake "github.com/pingcap/advanced-statefulset/client/client/clientset/versioned/fake"
	pcinformers "github.com/pingcap/advanced-statefulset/client/client/informers/externalversions"
	pcappsinformers "github.com/pingcap/advanced-statefulset/client/client/informers/externalversions/apps/v1"
	pcapplisters "github.com/pingcap/advanced-statefulset/client/client/listers/apps/v1"
	sts "github.com/pingcap/advanced-statefulset/pkg/controller/statefulset"
)

// Engine "events": the informer event handlers that NewStatefulSetController registers (captured at registration, so the
// wiring itself is exercised), the set lister expansion they use, and the worker (processNextWorkItem) over a real
// rate-limiting work queue with a zero-delay exponential limiter and a call-recording wrapper.
//
// handler case:  H|sets|ev|ns|curLabels|curOwners|curRV|curTerm|oldLabels|oldOwners|oldRV|oldTerm
//
//	sets    ns/name:uid:sel;...   the set informer's cache.  sel: N nil selector | B unknown operator | V operator In without
//	        values | I matchLabels with an invalid value | M<k=v,...> matchLabels (M alone = the empty selector)
//	ev      add | upd | del | tomb (DeletedFinalStateUnknown{pod}) | tombbad (tombstone wrapping a non-pod) | delbad (neither)
//	        | sadd:ns/name | supd:ns/name:<mask 0..63: 1 status.replicas changed, 2 old paused, 4 new paused, 8 generation moved, 16 spec.replicas changed, 32 delete-slots changed> | sdel:ns/name | stomb:ns/name (set delete as a tombstone)
//	labels  ~ (nil map) | k=v,k=v (empty = empty map)
//	owners  K/name/uid/c/x,...   K: S StatefulSet | R ReplicaSet | s statefulset ; c: controller flag n nil | f false | t true ;
//	        x: 0 apiVersion apps.pingcap.com/v1 | 1 apiVersion apps/v1 (only reflect.DeepEqual sees it)
//	obs     keys=<sorted distinct keys in the queue> adds=<sorted multiset of queue.Add calls> out=ok|panic
//
// worker case:   W|sets|script
//
//	sets    ns/name:shape;...   shape: o in the cache, reconciles | p in the cache, paused | b in the cache, selector does not
//	        convert | x not in the cache
//	script  e<i> (an event for set i: update, or delete when it is not in the cache) | s | f | r  (run the worker once; the fake
//	        control answers: s success, f UpdateStatefulSet fails, r ListRevisions fails)
//	obs     steps=<tok;...> out=ok|panic     tok: q<len> | idle (queue empty, worker not called) |
//	        p:<key>:<queue calls joined by +>:<NumRequeues(key) afterwards>:<Len afterwards>
func init() {
	e := &Engine{Gen: genEvents, Enum: enumEvents, Run: runEvents}
	engines["events"] = e
	// same Go engine; the Lean driver runs the model of the lister as it is on the pinned tree (error on the first
	// unconvertible selector) instead of the intended one
	engines["events-pinned"] = e
}

// ---------------------------------------------------------------- fixture

type capInformer struct {
	cache.SharedIndexInformer
	handlers []cache.ResourceEventHandler
}

func (c *capInformer) AddEventHandler(h cache.ResourceEventHandler) (cache.ResourceEventHandlerRegistration, error) {
	c.handlers = append(c.handlers, h)
	return c.SharedIndexInformer.AddEventHandler(h)
}

type capPodInformer struct {
	coreinformers.PodInformer
	inf *capInformer
}

func (c *capPodInformer) Informer() cache.SharedIndexInformer { return c.inf }

type capSetInformer struct {
	pcappsinformers.StatefulSetInformer
	inf *capInformer
}

func (c *capSetInformer) Informer() cache.SharedIndexInformer { return c.inf }

// scriptedControl answers the next reconcile as scripted.
type scriptedControl struct{ next string }

func (c *scriptedControl) UpdateStatefulSet(set *apps.StatefulSet, pods []*v1.Pod) error {
	if c.next == "f" {
		return errors.New("scripted UpdateStatefulSet failure")
	}
	return nil
}

func (c *scriptedControl) ListRevisions(set *apps.StatefulSet) ([]*kubeapps.ControllerRevision, error) {
	if c.next == "r" {
		return nil, errors.New("scripted ListRevisions failure")
	}
	return nil, nil
}

func (c *scriptedControl) AdoptOrphanRevisions(set *apps.StatefulSet, revisions []*kubeapps.ControllerRevision) error {
	return nil
}

// recQueue records the calls the controller makes on its queue and passes them to a real rate-limiting queue.
type recQueue struct {
	workqueue.RateLimitingInterface
	mu    sync.Mutex
	adds  []string
	calls []string
	cur   interface{}
}

func (q *recQueue) rec(name string, item interface{}) {
	q.mu.Lock()
	defer q.mu.Unlock()
	if q.cur != nil && item != q.cur {
		name += "!"
	}
	q.calls = append(q.calls, name)
}

func (q *recQueue) Add(item interface{}) {
	q.mu.Lock()
	q.adds = append(q.adds, fmt.Sprint(item))
	q.mu.Unlock()
	q.rec("add", item)
	q.RateLimitingInterface.Add(item)
}

func (q *recQueue) AddAfter(item interface{}, d time.Duration) {
	q.rec("addafter", item)
	q.RateLimitingInterface.AddAfter(item, d)
}

func (q *recQueue) AddRateLimited(item interface{}) {
	q.rec("arl", item)
	q.RateLimitingInterface.AddRateLimited(item)
}

func (q *recQueue) Forget(item interface{}) {
	q.rec("forget", item)
	q.RateLimitingInterface.Forget(item)
}

func (q *recQueue) Done(item interface{}) {
	q.rec("done", item)
	q.RateLimitingInterface.Done(item)
}

func (q *recQueue) Get() (interface{}, bool) {
	item, quit := q.RateLimitingInterface.Get()
	q.mu.Lock()
	q.cur = item
	q.calls = append(q.calls, "get")
	q.mu.Unlock()
	return item, quit
}

type evFixture struct {
	ssc    *sts.StatefulSetController
	podH   cache.ResourceEventHandler
	setH   cache.ResourceEventHandler
	setIdx cache.Indexer
	ctl    *scriptedControl
	wiring string
}

var evOnce sync.Once

func newEvFixture() *evFixture {
	evOnce.Do(func() {
		// harness configuration, not code under test: HandleError's default handlers log and then sleep to stay under
		// 1000 errors per second process-wide, which would serialise the engine
		utilruntime.ErrorHandlers = []func(error){}
	})
	kube := kubefake.NewSimpleClientset()
	pc := pcfake.NewSimpleClientset()
	kf := kubeinformers.NewSharedInformerFactory(kube, 0)
	pf := pcinformers.NewSharedInformerFactory(pc, 0)
	podInf := &capPodInformer{PodInformer: kf.Core().V1().Pods()}
	podInf.inf = &capInformer{SharedIndexInformer: podInf.PodInformer.Informer()}
	setInf := &capSetInformer{StatefulSetInformer: pf.Apps().V1().StatefulSets()}
	setInf.inf = &capInformer{SharedIndexInformer: setInf.StatefulSetInformer.Informer()}
	ssc := sts.NewStatefulSetController(podInf, setInf, kf.Core().V1().PersistentVolumeClaims(), kf.Apps().V1().ControllerRevisions(), kube, pc)
	ssc.VerifQueue().ShutDown() // the engine installs a fresh queue per case
	fx := &evFixture{ssc: ssc, setIdx: setInf.inf.GetIndexer(), ctl: &scriptedControl{}}
	ssc.VerifSetControl(fx.ctl)
	if len(podInf.inf.handlers) != 1 || len(setInf.inf.handlers) != 1 {
		fx.wiring = fmt.Sprintf("handlers-registered-pod=%d-set=%d", len(podInf.inf.handlers), len(setInf.inf.handlers))
		return fx
	}
	fx.podH, fx.setH = podInf.inf.handlers[0], setInf.inf.handlers[0]
	return fx
}

var evPool = sync.Pool{New: func() interface{} { return newEvFixture() }}

// ---------------------------------------------------------------- case objects

const (
	evKindSet = "StatefulSet"
)

func evLabels(s string) map[string]string {
	if s == "~" {
		return nil
	}
	m := map[string]string{}
	if s == "" {
		return m
	}
	for _, kv := range strings.Split(s, ",") {
		k, v, ok := strings.Cut(kv, "=")
		if !ok {
			panic("bad label " + kv)
		}
		m[k] = v
	}
	return m
}

func evSelector(s string) *metav1.LabelSelector {
	switch s[0] {
	case 'N':
		return nil
	case 'B':
		return &metav1.LabelSelector{MatchLabels: map[string]string{"k": "x"}, MatchExpressions: []metav1.LabelSelectorRequirement{{Key: "k", Operator: "Bogus", Values: []string{"x"}}}}
	case 'V':
		return &metav1.LabelSelector{MatchExpressions: []metav1.LabelSelectorRequirement{{Key: "k", Operator: metav1.LabelSelectorOpIn}}}
	case 'I':
		return &metav1.LabelSelector{MatchLabels: map[string]string{"k": "not a label value"}}
	case 'M':
		return &metav1.LabelSelector{MatchLabels: evLabels(s[1:])} // "M" alone: a non-nil selector with an empty map
	}
	panic("bad selector " + s)
}

func evSplitKey(s string) (string, string) {
	ns, name, ok := strings.Cut(s, "/")
	if !ok {
		panic("bad key " + s)
	}
	return ns, name
}

func evSet(ns, name, uid string) *apps.StatefulSet {
	return &apps.StatefulSet{
		TypeMeta:   metav1.TypeMeta{Kind: "StatefulSet", APIVersion: "apps.pingcap.com/v1"},
		ObjectMeta: metav1.ObjectMeta{Namespace: ns, Name: name, UID: types.UID(uid)},
	}
}

func evOwners(s string) []metav1.OwnerReference {
	if s == "" {
		return nil
	}
	var out []metav1.OwnerReference
	for _, t := range strings.Split(s, ",") {
		f := strings.Split(t, "/")
		if len(f) != 5 {
			panic("bad owner " + t)
		}
		ref := metav1.OwnerReference{Name: f[1], UID: types.UID(f[2])}
		switch f[0] {
		case "S":
			ref.Kind = "StatefulSet"
		case "R":
			ref.Kind = "ReplicaSet"
		case "s":
			ref.Kind = "statefulset"
		default:
			panic("bad owner kind " + f[0])
		}
		switch f[3] {
		case "n":
		case "f":
			b := false
			ref.Controller = &b
		case "t":
			b := true
			ref.Controller = &b
		default:
			panic("bad controller flag " + f[3])
		}
		switch f[4] {
		case "0":
			ref.APIVersion = "apps.pingcap.com/v1"
		case "1":
			ref.APIVersion = "apps/v1"
		default:
			panic("bad owner variant " + f[4])
		}
		out = append(out, ref)
	}
	return out
}

func evPod(ns, labels, owners, rv, term string) *v1.Pod {
	p := &v1.Pod{ObjectMeta: metav1.ObjectMeta{Namespace: ns, Name: "web-0", Labels: evLabels(labels), OwnerReferences: evOwners(owners), ResourceVersion: rv}}
	if term == "1" {
		t := metav1.NewTime(time.Unix(1700000000, 0))
		p.DeletionTimestamp = &t
	} else if term != "0" {
		panic("bad term " + term)
	}
	return p
}

// ---------------------------------------------------------------- run

func runEvents(line string) (obs string) {
	fx := evPool.Get().(*evFixture)
	defer evPool.Put(fx)
	if fx.wiring != "" {
		return "out=wiring:" + fx.wiring
	}
	q := &recQueue{RateLimitingInterface: workqueue.NewRateLimitingQueue(workqueue.NewItemExponentialFailureRateLimiter(0, 0))}
	fx.ssc.VerifSetQueue(q)
	defer q.ShutDown()
	defer func() {
		if r := recover(); r != nil {
			if s, ok := r.(string); ok && strings.HasPrefix(s, "bad ") {
				obs = "bad-case"
				return
			}
			obs = "out=panic site=" + sanitize(fmt.Sprint(r))
		}
	}()
	f := strings.Split(line, "|")
	switch {
	case f[0] == "H" && len(f) == 12:
		return runEventsHandler(fx, q, f)
	case f[0] == "W" && len(f) == 3:
		return runEventsWorker(fx, q, f)
	case f[0] == "R" && len(f) == 4:
		return runEventsLoop(f)
	}
	return "bad-case"
}

// countingControl counts the distinct sets whose reconcile reached the control.
type countingControl struct {
	mu   sync.Mutex
	seen map[string]bool
}

func (c *countingControl) UpdateStatefulSet(set *apps.StatefulSet, pods []*v1.Pod) error {
	c.mu.Lock()
	c.seen[set.Namespace+"/"+set.Name] = true
	c.mu.Unlock()
	return nil
}
func (c *countingControl) ListRevisions(set *apps.StatefulSet) ([]*kubeapps.ControllerRevision, error) {
	return nil, nil
}
func (c *countingControl) AdoptOrphanRevisions(set *apps.StatefulSet, revisions []*kubeapps.ControllerRevision) error {
	return nil
}
func (c *countingControl) count() int {
	c.mu.Lock()
	defer c.mu.Unlock()
	return len(c.seen)
}

// runEventsLoop: the controller's own Run loop.  case R|workers|before|after: `before` sets are enqueued before Run is
// called, `after` more once it is running; every one of them must reach the control, Run must keep running until the stop
// channel is closed, return after that, and leave the queue shut down.
//
//	obs  seen=<sets reconciled> early=<Run returned before stop 0/1> returned=<Run returned after stop 0/1> shutdown=<queue shut down 0/1> out=ok
func runEventsLoop(f []string) string {
	workers, before, after := atoi(f[1]), atoi(f[2]), atoi(f[3])
	if workers < 1 || workers > 8 || before < 0 || after < 0 || before+after > 64 {
		panic("bad run case")
	}
	kube, pc := kubefake.NewSimpleClientset(), pcfake.NewSimpleClientset()
	setIdx := cache.NewIndexer(cache.MetaNamespaceKeyFunc, cache.Indexers{cache.NamespaceIndex: cache.MetaNamespaceIndexFunc})
	podIdx := cache.NewIndexer(cache.MetaNamespaceKeyFunc, cache.Indexers{cache.NamespaceIndex: cache.MetaNamespaceIndexFunc})
	pvcIdx := cache.NewIndexer(cache.MetaNamespaceKeyFunc, cache.Indexers{cache.NamespaceIndex: cache.MetaNamespaceIndexFunc})
	var sets []*apps.StatefulSet
	for i := 0; i < before+after; i++ {
		set := evSet("n1", fmt.Sprintf("r%02d", i), fmt.Sprintf("u-r%02d", i))
		set.Spec.Selector = evSelector("Mk=x")
		sets = append(sets, set)
		_ = setIdx.Add(set)
	}
	ssc := sts.VerifNewController(kube, pc, pcapplisters.NewStatefulSetLister(setIdx), corelisters.NewPodLister(podIdx),
		corelisters.NewPersistentVolumeClaimLister(pvcIdx), record.NewFakeRecorder(1000))
	ctl := &countingControl{seen: map[string]bool{}}
	ssc.VerifSetControl(ctl)
	for _, s := range sets[:before] {
		ssc.VerifEnqueueStatefulSet(s)
	}
	stop := make(chan struct{})
	done := make(chan struct{})
	go func() {
		defer close(done)
		ssc.Run(workers, stop)
	}()
	waitFor := func(n int) {
		deadline := time.Now().Add(20 * time.Second)
		for ctl.count() < n && time.Now().Before(deadline) {
			select {
			case <-done: // Run is gone: whatever its workers still do, give them a moment and stop waiting
				time.Sleep(300 * time.Millisecond)
				return
			default:
			}
			time.Sleep(2 * time.Millisecond)
		}
	}
	waitFor(before)
	for _, s := range sets[before:] {
		ssc.VerifEnqueueStatefulSet(s)
	}
	waitFor(before + after)
	early := false
	select {
	case <-done:
		early = true
	case <-time.After(30 * time.Millisecond):
	}
	seen := ctl.count()
	close(stop)
	returned := false
	select {
	case <-done:
		returned = true
	case <-time.After(20 * time.Second):
	}
	return fmt.Sprintf("seen=%d early=%s returned=%s shutdown=%s out=ok", seen, b2s(early), b2s(returned), b2s(ssc.VerifQueue().ShuttingDown()))
}

func runEventsHandler(fx *evFixture, q *recQueue, f []string) string {
	var objs []interface{}
	if f[1] != "" {
		for _, t := range strings.Split(f[1], ";") {
			p := strings.SplitN(t, ":", 3)
			if len(p) != 3 || p[2] == "" {
				panic("bad set " + t)
			}
			ns, name := evSplitKey(p[0])
			set := evSet(ns, name, p[1])
			set.Spec.Selector = evSelector(p[2])
			objs = append(objs, set)
		}
	}
	if err := fx.setIdx.Replace(objs, "1"); err != nil {
		panic(err)
	}
	ns := f[3]
	ev := strings.Split(f[2], ":")
	switch ev[0] {
	case "add":
		fx.podH.OnAdd(evPod(ns, f[4], f[5], f[6], f[7]), false)
	case "upd":
		fx.podH.OnUpdate(evPod(ns, f[8], f[9], f[10], f[11]), evPod(ns, f[4], f[5], f[6], f[7]))
	case "del":
		fx.podH.OnDelete(evPod(ns, f[4], f[5], f[6], f[7]))
	case "tomb":
		fx.podH.OnDelete(cache.DeletedFinalStateUnknown{Key: ns + "/web-0", Obj: evPod(ns, f[4], f[5], f[6], f[7])})
	case "tombbad":
		fx.podH.OnDelete(cache.DeletedFinalStateUnknown{Key: ns + "/web-0", Obj: &v1.Service{ObjectMeta: metav1.ObjectMeta{Namespace: ns, Name: "web-0"}}})
	case "delbad":
		fx.podH.OnDelete(&v1.Service{ObjectMeta: metav1.ObjectMeta{Namespace: ns, Name: "web-0"}})
	case "sadd", "sdel", "stomb", "supd":
		if len(ev) < 2 {
			panic("bad event " + f[2])
		}
		sns, sname := evSplitKey(ev[1])
		set := evSet(sns, sname, "u-ev")
		switch ev[0] {
		case "sadd":
			fx.setH.OnAdd(set, false)
		case "sdel":
			fx.setH.OnDelete(set)
		case "stomb":
			fx.setH.OnDelete(cache.DeletedFinalStateUnknown{Key: ev[1], Obj: set})
		case "supd":
			if len(ev) != 3 {
				panic("bad event " + f[2])
			}
			old := evSet(sns, sname, "u-ev")
			// the shapes of the update, a bit mask: 1 status.replicas changed, 2 the OLD object carries the pause annotation,
			// 4 the NEW one does, 8 the generation moved, 16 spec.replicas changed, 32 the delete-slots annotation changed
			// (every one of them is "a change to a set": the key must be enqueued whatever the mask)
			m, err := strconv.Atoi(ev[2])
			if err != nil || m < 0 || m > 63 || strconv.Itoa(m) != ev[2] {
				panic("bad event " + f[2])
			}
			if m&1 != 0 {
				old.Status.Replicas, set.Status.Replicas = 1, 2
			}
			if m&2 != 0 {
				old.Annotations = map[string]string{helper.PausedReconcileAnn: "true"}
			}
			if m&4 != 0 {
				set.Annotations = map[string]string{helper.PausedReconcileAnn: "true"}
			}
			old.Generation, set.Generation = 3, 3
			old.Status.ObservedGeneration, set.Status.ObservedGeneration = 3, 3
			if m&8 != 0 {
				set.Generation = 4
			}
			if m&16 != 0 {
				two, five := int32(2), int32(5)
				old.Spec.Replicas, set.Spec.Replicas = &two, &five
			}
			if m&32 != 0 {
				if set.Annotations == nil {
					set.Annotations = map[string]string{}
				}
				set.Annotations[helper.DeleteSlotsAnn] = "[1]"
			}
			old.ResourceVersion, set.ResourceVersion = "7", "8"
			fx.setH.OnUpdate(old, set)
		}
	default:
		panic("bad event " + f[2])
	}
	// what is in the queue now
	var keys []string
	for q.Len() > 0 {
		item, _ := q.RateLimitingInterface.Get()
		keys = append(keys, fmt.Sprint(item))
		q.RateLimitingInterface.Done(item)
	}
	sort.Strings(keys)
	adds := append([]string(nil), q.adds...)
	sort.Strings(adds)
	return "keys=" + strings.Join(keys, ",") + " adds=" + strings.Join(adds, ",") + " out=ok"
}

func runEventsWorker(fx *evFixture, q *recQueue, f []string) string {
	type wset struct {
		ns, name string
		inCache  bool
	}
	var sets []wset
	var objs []interface{}
	if f[1] != "" {
		for _, t := range strings.Split(f[1], ";") {
			p := strings.Split(t, ":")
			if len(p) != 2 {
				panic("bad set " + t)
			}
			ns, name := evSplitKey(p[0])
			set := evSet(ns, name, "u-"+name)
			set.Spec.Selector = evSelector("Mk=x")
			w := wset{ns, name, true}
			switch p[1] {
			case "o":
			case "p":
				helper.SetPausedReconcile(set, true)
			case "b":
				set.Spec.Selector = evSelector("B")
			case "x":
				w.inCache = false
			default:
				panic("bad shape " + p[1])
			}
			sets = append(sets, w)
			if w.inCache {
				objs = append(objs, set)
			}
		}
	}
	if err := fx.setIdx.Replace(objs, "1"); err != nil {
		panic(err)
	}
	var toks []string
	if f[2] != "" {
		for _, op := range strings.Split(f[2], ",") {
			switch {
			case strings.HasPrefix(op, "e"):
				i, err := strconv.Atoi(op[1:])
				if err != nil || i < 0 || i >= len(sets) {
					panic("bad op " + op)
				}
				set := evSet(sets[i].ns, sets[i].name, "u-"+sets[i].name)
				if sets[i].inCache {
					fx.setH.OnUpdate(set, set)
				} else {
					fx.setH.OnDelete(set)
				}
				toks = append(toks, "q"+strconv.Itoa(q.Len()))
			case op == "s" || op == "f" || op == "r":
				if q.Len() == 0 {
					toks = append(toks, "idle")
					continue
				}
				fx.ctl.next = op
				q.calls, q.cur = nil, nil
				if !fx.ssc.VerifProcessNextWorkItem() {
					// false makes worker() return: with the queue still open that worker goroutine is gone for good
					q.calls = append(q.calls, "workerexit")
				}
				key := fmt.Sprint(q.cur)
				toks = append(toks, fmt.Sprintf("p:%s:%s:%d:%d", key, strings.Join(q.calls, "+"), q.NumRequeues(q.cur), q.Len()))
				q.cur = nil
			default:
				panic("bad op " + op)
			}
		}
	}
	return "steps=" + strings.Join(toks, ";") + " out=ok"
}

// ---------------------------------------------------------------- generators

type evGenSet struct{ ns, name, uid, sel string }

func (s evGenSet) String() string { return s.ns + "/" + s.name + ":" + s.uid + ":" + s.sel }

var (
	evSelPool    = []string{"Mk=x", "Mk=x", "Mk=x", "Mk=y", "Ml=x", "Mk=x,l=x", "M", "N", "B", "V", "I"}
	evLabelPool  = []string{"k=x", "k=x", "k=x", "k=x,l=x", "k=y", "l=x", "k=x,l=y", "", "~"}
	evNamePool   = []string{"a", "b", "c", "d"}
	evOwnerKinds = []string{"S", "S", "S", "S", "S", "S", "S", "S", "R", "s"}
)

func genEvSets(rng *rand.Rand) []evGenSet {
	n := weighted(rng, 4, 30, 36, 30)
	var out []evGenSet
	seen := map[string]bool{}
	if rng.Intn(15) == 0 {
		// a crowd: 11 .. 24 sets in one namespace, most of them with one and the same selector (every one of them must be woken by a
		// matching orphan, however many there are)
		crowd := 11 + rng.Intn(14)
		common := pick(rng, evSelPool...)
		for i := 0; i < crowd; i++ {
			s := evGenSet{ns: "n1", name: fmt.Sprintf("m%02d", i), uid: "u" + strconv.Itoa(1+rng.Intn(3)), sel: common}
			if rng.Intn(6) == 0 {
				s.sel = pick(rng, evSelPool...)
			}
			out = append(out, s)
		}
		return out
	}
	for len(out) < n {
		s := evGenSet{ns: "n1", name: pick(rng, evNamePool...), uid: "u" + strconv.Itoa(1+rng.Intn(3)), sel: pick(rng, evSelPool...)}
		if rng.Intn(8) == 0 {
			s.ns = "n2"
		}
		if seen[s.ns+"/"+s.name] {
			continue
		}
		seen[s.ns+"/"+s.name] = true
		out = append(out, s)
	}
	return out
}

// genEvOwners draws an owner-reference list aimed at the cached sets.
func genEvOwners(rng *rand.Rand, sets []evGenSet) string {
	one := func(ctrl string) string {
		kind := pick(rng, evOwnerKinds...)
		name, uid := pick(rng, evNamePool...), "u"+strconv.Itoa(1+rng.Intn(3))
		if len(sets) > 0 && rng.Intn(10) < 8 {
			s := sets[rng.Intn(len(sets))]
			name, uid = s.name, s.uid
			if rng.Intn(6) == 0 {
				uid = "u9" // stale
			}
		}
		return fmt.Sprintf("%s/%s/%s/%s/%d", kind, name, uid, ctrl, weighted(rng, 5, 1))
	}
	switch weighted(rng, 30, 45, 6, 6, 7, 6) {
	case 0:
		return ""
	case 1:
		return one("t")
	case 2:
		return one("f")
	case 3:
		return one("n")
	case 4:
		return one(pick(rng, "n", "f")) + "," + one("t")
	default:
		return one("t") + "," + one("t")
	}
}

func genEvHandler(rng *rand.Rand) string {
	sets := genEvSets(rng)
	var ss []string
	for _, s := range sets {
		ss = append(ss, s.String())
	}
	ns := "n1"
	if rng.Intn(12) == 0 {
		ns = "n2"
	}
	ev := ""
	switch weighted(rng, 30, 34, 12, 12, 2, 2, 8) {
	case 0:
		ev = "add"
	case 1:
		ev = "upd"
	case 2:
		ev = "del"
	case 3:
		ev = "tomb"
	case 4:
		ev = "tombbad"
	case 5:
		ev = "delbad"
	default:
		key := pick(rng, "n1", "n1", "n2") + "/" + pick(rng, evNamePool...)
		switch rng.Intn(4) {
		case 0:
			ev = "sadd:" + key
		case 1:
			ev = "supd:" + key + ":" + strconv.Itoa(rng.Intn(64))
		case 2:
			ev = "sdel:" + key
		default:
			ev = "stomb:" + key
		}
	}
	cl, co := pick(rng, evLabelPool...), genEvOwners(rng, sets)
	ct := b2s(rng.Intn(5) == 0)
	crv := pick(rng, "1", "2", "2", "2", "2")
	ol, oo, ot := cl, co, ct
	if rng.Intn(2) == 0 {
		ol = pick(rng, evLabelPool...)
	}
	if rng.Intn(2) == 0 {
		oo = genEvOwners(rng, sets)
	}
	if rng.Intn(4) == 0 {
		ot = b2s(rng.Intn(2) == 0)
	}
	if ev != "upd" {
		ol, oo, ot = "~", "", "0"
	}
	return strings.Join([]string{"H", strings.Join(ss, ";"), ev, ns, cl, co, crv, ct, ol, oo, "1", ot}, "|")
}

func genEvWorker(rng *rand.Rand) string {
	n := 1 + weighted(rng, 50, 35, 15)
	var ss []string
	for i := 0; i < n; i++ {
		ss = append(ss, "n1/"+evNamePool[i]+":"+[]string{"o", "p", "b", "x"}[weighted(rng, 70, 10, 10, 10)])
	}
	m := 1 + rng.Intn(14)
	ops := []string{"e0"}
	if rng.Intn(12) == 0 {
		// a long outage: an unbroken run of 16-60 failing reconciles of one set (each must be put back with backoff), then
		// sometimes a success (which must clear the backoff) and another failure
		k := 16 + rng.Intn(45)
		for j := 0; j < k; j++ {
			ops = append(ops, "f")
		}
		if rng.Intn(2) == 0 {
			ops = append(ops, "s", "e0", "f", "f")
		}
		m = len(ops) + rng.Intn(4)
	}
	for len(ops) < m {
		switch weighted(rng, 25, 25, 30, 10) {
		case 0:
			ops = append(ops, "e"+strconv.Itoa(rng.Intn(n)))
		case 1:
			ops = append(ops, "s")
		case 2:
			ops = append(ops, "f")
		default:
			ops = append(ops, "r")
		}
	}
	return "W|" + strings.Join(ss, ";") + "|" + strings.Join(ops, ",")
}

func genEvMalformed(rng *rand.Rand) string {
	return pick(rng, "H|", "W|n1/a:o", "H|n1/a:u1|add|n1|k=x||1|0|~||1|0", "X|1|2", "W|n1/a:q|e0", "H|n1/a:u1:Mk=x|boom|n1|k=x||1|0|~||1|0",
		"W|n1/a:o|e7", "H|n1/a:u1:Mk=x|add|n1|k|S/a/u1/t/0|2|0|~||1|0", "H|n1/a:u1:Mk=x|add|n1|k=x|S/a/u1/t|2|0|~||1|0")
}

func genEvents(rng *rand.Rand, n int, emit func(string)) {
	for i := 0; i < n; i++ {
		if rng.Intn(2500) == 0 { // the controller's own Run loop (wall-clock bound: a few dozen milliseconds each)
			emit(fmt.Sprintf("R|%d|%d|%d", 1+rng.Intn(4), rng.Intn(6), rng.Intn(6)))
			continue
		}
		switch weighted(rng, 84, 15, 1) {
		case 0:
			emit(genEvHandler(rng))
		case 1:
			emit(genEvWorker(rng))
		default:
			emit(genEvMalformed(rng))
		}
	}
}

// enumEvents: the full cross product for one and two cached sets:
//
//	sets   {a} or {a,b} in n1, each selector in {k=x, k=y, empty, nil, unknown operator}
//	pod    owner in {none, set a right uid, set a stale uid, ReplicaSet a, set a without the controller flag, set b right uid (two sets)}
//	       x labels in {k=x, k=y, none} x deletion timestamp
//	event  add, delete, tombstone over every pod; update over every (old pod, new pod) pair x {equal, different} resource versions;
//	       tombstone of a non-pod, non-pod delete, set add / update / delete / delete-as-tombstone for a cached and an uncached set
//
// scope "worker" adds every script of length <= 6 over {event, success, failure} for one set of each shape.
func enumEvents(scope string, emit func(string)) {
	sels := []string{"Mk=x", "Mk=y", "M", "N", "B"}
	labels := []string{"k=x", "k=y", "~"}
	var setCfgs [][]evGenSet
	for _, s1 := range sels {
		setCfgs = append(setCfgs, []evGenSet{{"n1", "a", "u1", s1}})
	}
	if scope != "one" {
		for _, s1 := range sels {
			for _, s2 := range sels {
				setCfgs = append(setCfgs, []evGenSet{{"n1", "a", "u1", s1}, {"n1", "b", "u2", s2}})
			}
		}
	}
	for _, sets := range setCfgs {
		var ss []string
		for _, s := range sets {
			ss = append(ss, s.String())
		}
		setsStr := strings.Join(ss, ";")
		owners := []string{"", "S/a/u1/t/0", "S/a/u9/t/0", "R/a/u1/t/0", "S/a/u1/f/0"}
		if len(sets) == 2 {
			owners = append(owners, "S/b/u2/t/0")
		}
		line := func(ev, cl, co, crv, ct, ol, oo, ot string) {
			emit(strings.Join([]string{"H", setsStr, ev, "n1", cl, co, crv, ct, ol, oo, "1", ot}, "|"))
		}
		for _, co := range owners {
			for _, cl := range labels {
				for _, ct := range []string{"0", "1"} {
					for _, ev := range []string{"add", "del", "tomb"} {
						line(ev, cl, co, "2", ct, "~", "", "0")
					}
					for _, oo := range owners {
						for _, ol := range labels {
							for _, crv := range []string{"1", "2"} {
								line("upd", cl, co, crv, ct, ol, oo, ct)
							}
						}
					}
				}
			}
		}
		line("tombbad", "k=x", "S/a/u1/t/0", "2", "0", "~", "", "0")
		line("delbad", "k=x", "S/a/u1/t/0", "2", "0", "~", "", "0")
		for _, key := range []string{"n1/a", "n1/z"} {
			line("sadd:"+key, "~", "", "2", "0", "~", "", "0")
			for m := 0; m < 64; m++ {
				line("supd:"+key+":"+strconv.Itoa(m), "~", "", "2", "0", "~", "", "0")
			}
			line("sdel:"+key, "~", "", "2", "0", "~", "", "0")
			line("stomb:"+key, "~", "", "2", "0", "~", "", "0")
		}
	}
	// worker scripts
	ops := []string{"e0", "s", "f", "r"}
	var rec func(prefix []string, depth int, shape string)
	rec = func(prefix []string, depth int, shape string) {
		if len(prefix) > 0 {
			emit("W|n1/a:" + shape + "|" + strings.Join(prefix, ","))
		}
		if depth == 0 {
			return
		}
		for _, op := range ops {
			rec(append(append([]string(nil), prefix...), op), depth-1, shape)
		}
	}
	for _, shape := range []string{"o", "p", "b", "x"} {
		rec(nil, 6, shape)
	}
}
