package main

import (
	"encoding/json"
	"math/rand"
	"reflect"
	"strings"
	"time"

	"k8s.io/apimachinery/pkg/api/resource"
	metav1 "k8s.io/apimachinery/pkg/apis/meta/v1"
	"k8s.io/apimachinery/pkg/util/intstr"
)

// objGen fills a Go API object by walking its type with reflection. At every optional position it chooses between
// zero / nil, empty-but-non-nil and populated; leaves come from pools keyed by the Go field name so that the values the
// defaulters test for ("" vs a constant, 0 vs n, image tags, quantities that need rounding) are all frequent.
//
// Values that have no JSON representation are never produced (they are outside the API's value space): times with
// sub-second precision, a non-nil pointer to a zero metav1.Time, a non-nil *FieldsV1 without raw bytes, an IntOrString
// with both arms set. Strings avoid '|', tab, newline, space and the characters encoding/json escapes (<, >, &).
type objGen struct {
	rng *rand.Rand
	// milliExact: only quantities that defaulting leaves alone (no precision finer than 10^-3)
	milliExact bool
	// defaulted-ish objects: prefer non-zero values at positions a defaulter would fill
	rich bool
	// scale (percent) multiplies every populate probability: small, medium and large objects
	scale int
	nodes int
}

var (
	tTime     = reflect.TypeOf(metav1.Time{})
	tMicro    = reflect.TypeOf(metav1.MicroTime{})
	tQuantity = reflect.TypeOf(resource.Quantity{})
	tIntOrStr = reflect.TypeOf(intstr.IntOrString{})
	tFieldsV1 = reflect.TypeOf(metav1.FieldsV1{})
	tDuration = reflect.TypeOf(metav1.Duration{})
)

// fields that are rarely interesting for this property and expensive in bytes: populated with low probability
var dampFields = map[string]bool{
	"Affinity": true, "Tolerations": true, "HostAliases": true, "DNSConfig": true, "ReadinessGates": true, "TopologySpreadConstraints": true,
	"SchedulingGates": true, "ResourceClaims": true, "ImagePullSecrets": true, "OS": true, "ManagedFields": true, "VolumeDevices": true,
	"EnvFrom": true, "Claims": true, "DataSource": true, "DataSourceRef": true, "AllocatedResources": true, "AllocatedResourceStatuses": true,
	"ResizePolicy": true, "WindowsOptions": true, "SELinuxOptions": true, "SeccompProfile": true, "Sysctls": true, "Capabilities": true,
	"Ephemeral": true, "CSI": true, "FlexVolume": true, "Cinder": true, "CephFS": true, "Flocker": true, "FC": true, "AzureFile": true,
	"VsphereVolume": true, "Quobyte": true, "PhotonPersistentDisk": true, "PortworxVolume": true, "StorageOS": true, "Glusterfs": true,
	"GitRepo": true, "AWSElasticBlockStore": true, "GCEPersistentDisk": true, "NFS": true, "GRPC": true, "TCPSocket": true, "Exec": true,
	"HTTPHeaders": true,
}

// fields a defaulter reads or writes (or containers of such): populated with high probability
var boostFields = map[string]bool{
	"Volumes": true, "HostPath": true, "Secret": true, "ISCSI": true, "RBD": true, "DownwardAPI": true, "ConfigMap": true, "AzureDisk": true,
	"Projected": true, "ScaleIO": true, "Items": true, "FieldRef": true, "Sources": true, "ServiceAccountToken": true, "InitContainers": true,
	"Containers": true, "EphemeralContainers": true, "Ports": true, "Env": true, "ValueFrom": true, "Resources": true, "Limits": true,
	"Requests": true, "LivenessProbe": true, "ReadinessProbe": true, "StartupProbe": true, "HTTPGet": true, "Lifecycle": true, "PostStart": true,
	"PreStop": true, "Overhead": true, "VolumeClaimTemplates": true, "Capacity": true, "UpdateStrategy": true, "RollingUpdate": true,
	"Partition": true, "Conditions": true, "Selector": true, "Labels": true, "Annotations": true, "OwnerReferences": true, "Finalizers": true,
}

var stringPools = map[string][]string{
	"Image":                    {"", "nginx", "nginx:latest", "nginx:1.19", "reg.io:5000/team/app", "reg.io:5000/team/app:latest", "reg.io:5000/team/app:v2", "busybox@sha256:0123456789abcdef0123456789abcdef0123456789abcdef0123456789abcdef", "UPPER/Case", "a:", "k8s.gcr.io/pause:3.2", "app:latest@sha256:0123456789abcdef0123456789abcdef0123456789abcdef0123456789abcdef", "localhost/x", "x/y/z:LATEST"},
	"ImagePullPolicy":          {"", "", "Always", "Never", "IfNotPresent"},
	"Protocol":                 {"", "", "TCP", "UDP", "SCTP"},
	"DNSPolicy":                {"", "", "ClusterFirst", "Default", "None"},
	"RestartPolicy":            {"", "", "Always", "OnFailure"},
	"SchedulerName":            {"", "", "default-scheduler", "custom"},
	"TerminationMessagePath":   {"", "", "/dev/termination-log", "/tmp/log"},
	"TerminationMessagePolicy": {"", "", "File", "FallbackToLogsOnError"},
	"Path":                     {"", "", "/", "/healthz"},
	"Scheme":                   {"", "", "HTTP", "HTTPS"},
	"APIVersion":               {"", "", "v1", "apps/v1"},
	"ISCSIInterface":           {"", "", "default", "tcp"},
	"RBDPool":                  {"", "", "rbd", "pool1"},
	"RadosUser":                {"", "", "admin", "u"},
	"Keyring":                  {"", "", "/etc/ceph/keyring", "/k"},
	"StorageMode":              {"", "", "ThinProvisioned", "ThickProvisioned"},
	"FSType":                   {"", "", "xfs", "ext4"},
	"Phase":                    {"", "", "Pending", "Bound"},
	"PodManagementPolicy":      {"", "", "OrderedReady", "Parallel", "Other"},
	"Type":                     {"", "", "RollingUpdate", "OnDelete", "Other", "Directory"},
	"Kind":                     {"", "StatefulSet", "Shared", "Managed"},
	"CachingMode":              {"", "None", "ReadWrite"},
	"Namespace":                {"default"},
	"Operator":                 {"In", "NotIn", "Exists"},
	"Status":                   {"True", "False", "Unknown"},
}

var genericStrings = []string{"", "a", "web", "x-1", "value_1", "app.kubernetes.io/name", "0", "true", "中文", "q\"uote", "back\\slash", "café"}
var nameStrings = []string{"web", "db-0", "a", "x1", "data", "www", "conf"}
var mapKeys = []string{"app", "tier", "k8s.io/x", "delete-slots", "paused-reconcile", "a", "b", "cpu", "memory", "storage", "example.com/gpu"}

var quantityMilli = []string{"0", "1", "2", "100m", "1500m", "250m", "1Gi", "512Mi", "64Ki", "1k", "3M", "2G", "0.5", "1.5", "10", "1e3", "5e-1", "128974848"}
var quantityFine = []string{"100u", "1n", "999999n", "1500u", "0.0001", "0.0005", "1.0001", "2500001n", "1u", "0.1m", "1e-4", "12345n"}

// mutateImage changes one character of an image reference (insert / delete / replace over the reference alphabet)
func (g *objGen) mutateImage(s string) string {
	alphabet := "ab0:/.-_@AZ"
	bs := []byte(s)
	switch g.rng.Intn(3) {
	case 0:
		if len(bs) > 0 {
			i := g.rng.Intn(len(bs))
			bs = append(bs[:i], bs[i+1:]...)
		}
	case 1:
		i := g.rng.Intn(len(bs) + 1)
		bs = append(bs[:i], append([]byte{alphabet[g.rng.Intn(len(alphabet))]}, bs[i:]...)...)
	default:
		if len(bs) > 0 {
			bs[g.rng.Intn(len(bs))] = alphabet[g.rng.Intn(len(alphabet))]
		}
	}
	return string(bs)
}

func (g *objGen) str(field string) string {
	if field == "Image" && g.rng.Intn(4) == 0 {
		return g.mutateImage(pick(g.rng, stringPools["Image"]...))
	}
	if p, ok := stringPools[field]; ok {
		if g.rich {
			for i := 0; i < 4; i++ {
				if s := pick(g.rng, p...); s != "" {
					return s
				}
			}
		}
		return pick(g.rng, p...)
	}
	if field == "Name" || field == "GenerateName" || field == "ServiceName" || strings.HasSuffix(field, "Name") {
		return pick(g.rng, nameStrings...)
	}
	return pick(g.rng, genericStrings...)
}

func (g *objGen) quantity() resource.Quantity {
	s := pick(g.rng, quantityMilli...)
	if !g.milliExact && g.rng.Intn(3) == 0 {
		s = pick(g.rng, quantityFine...)
	}
	if g.rng.Intn(12) == 0 {
		s = "-" + s
	}
	return resource.MustParse(s)
}

func (g *objGen) wholeSecond() metav1.Time {
	return metav1.NewTime(time.Unix(946684800+int64(g.rng.Intn(1000000000)), 0).UTC())
}

func (g *objGen) integer(field string, bits int) int64 {
	switch weighted(g.rng, 30, 40, 15, 10, 5) {
	case 0:
		return 0
	case 1:
		return int64(1 + g.rng.Intn(12))
	case 2:
		return int64(g.rng.Intn(70000))
	case 3:
		return -int64(1 + g.rng.Intn(3))
	default:
		if bits == 32 {
			return pick(g.rng, int64(2147483647), int64(-2147483648))
		}
		return pick(g.rng, int64(1)<<53, int64(9223372036854775807), int64(-9223372036854775808), int64(2147483648))
	}
}

// populate decides whether an optional position (pointer, slice, map, omitempty scalar) is filled.
func (g *objGen) populate(field string, depth int) bool {
	p := 45
	switch {
	case depth <= 2:
		p = 75
	case depth <= 4:
		p = 45
	case depth <= 6:
		p = 32
	default:
		p = 22
	}
	if boostFields[field] {
		p = 62
		if depth <= 3 {
			p = 85
		}
	}
	if dampFields[field] {
		p = 4
	}
	if g.nodes > 900 {
		p = p / 8
	}
	if g.scale > 0 && depth > 1 {
		p = p * g.scale / 100
	}
	return g.rng.Intn(100) < p
}

func (g *objGen) fill(v reflect.Value, field string, depth int) {
	g.nodes++
	t := v.Type()
	switch t {
	case tTime:
		if g.populate(field, depth) {
			v.Set(reflect.ValueOf(g.wholeSecond()))
		}
		return
	case tMicro:
		if g.populate(field, depth) {
			v.Set(reflect.ValueOf(metav1.NewMicroTime(g.wholeSecond().Time)))
		}
		return
	case tQuantity:
		v.Set(reflect.ValueOf(g.quantity()))
		return
	case tIntOrStr:
		if g.rng.Intn(2) == 0 {
			v.Set(reflect.ValueOf(intstr.FromInt(int(g.integer(field, 32)))))
		} else {
			v.Set(reflect.ValueOf(intstr.FromString(pick(g.rng, "http", "80", "metrics", "25%"))))
		}
		return
	case tFieldsV1:
		v.Set(reflect.ValueOf(metav1.FieldsV1{Raw: []byte(pick(g.rng, `{"f:spec":{}}`, `{}`, `{"f:metadata":{"f:labels":{"f:app":{}}}}`))}))
		return
	case tDuration:
		v.Set(reflect.ValueOf(metav1.Duration{Duration: time.Duration(g.rng.Intn(100)) * time.Second}))
		return
	}
	switch t.Kind() {
	case reflect.Bool:
		v.SetBool(g.rng.Intn(2) == 0)
	case reflect.Int, reflect.Int8, reflect.Int16, reflect.Int32, reflect.Int64:
		bits := 64
		if t.Kind() == reflect.Int32 {
			bits = 32
		}
		v.SetInt(g.integer(field, bits))
	case reflect.Uint, reflect.Uint8, reflect.Uint16, reflect.Uint32, reflect.Uint64:
		v.SetUint(uint64(g.rng.Intn(200)))
	case reflect.String:
		v.SetString(g.str(field))
	case reflect.Ptr:
		if t.Elem() == tTime { // a pointer to a zero time has no JSON form
			if g.populate(field, depth) {
				tm := g.wholeSecond()
				v.Set(reflect.ValueOf(&tm))
			}
			return
		}
		if !g.populate(field, depth) {
			return
		}
		p := reflect.New(t.Elem())
		// pointer to a zero scalar is a legitimate, distinct value (e.g. replicas: 0)
		if t.Elem().Kind() == reflect.Struct || g.rng.Intn(4) != 0 {
			g.fill(p.Elem(), field, depth+1)
		}
		v.Set(p)
	case reflect.Slice:
		if t.Elem().Kind() == reflect.Uint8 {
			switch g.rng.Intn(3) {
			case 0:
			case 1:
				v.SetBytes([]byte{})
			default:
				v.SetBytes([]byte(pick(g.rng, "x", "bytes", "\x00\x01")))
			}
			return
		}
		if !g.populate(field, depth) {
			if g.rng.Intn(3) == 0 {
				v.Set(reflect.MakeSlice(t, 0, 0)) // empty, not nil
			}
			return
		}
		n := 1 + weighted(g.rng, 55, 30, 15)
		s := reflect.MakeSlice(t, n, n)
		for i := 0; i < n; i++ {
			g.fill(s.Index(i), field, depth+1)
		}
		v.Set(s)
	case reflect.Map:
		if !g.populate(field, depth) {
			if g.rng.Intn(3) == 0 {
				v.Set(reflect.MakeMap(t))
			}
			return
		}
		m := reflect.MakeMap(t)
		for i, n := 0, 1+g.rng.Intn(3); i < n; i++ {
			k := reflect.New(t.Key()).Elem()
			k.SetString(pick(g.rng, mapKeys...))
			e := reflect.New(t.Elem()).Elem()
			g.fill(e, field, depth+1)
			m.SetMapIndex(k, e)
		}
		v.Set(m)
	case reflect.Struct:
		if t.Name() == "VolumeSource" {
			g.fillVolumeSource(v, depth)
			return
		}
		for i := 0; i < t.NumField(); i++ {
			f := t.Field(i)
			if !f.IsExported() {
				continue
			}
			fv := v.Field(i)
			tag := f.Tag.Get("json")
			optional := strings.Contains(tag, "omitempty")
			switch fv.Kind() {
			case reflect.Ptr, reflect.Slice, reflect.Map, reflect.Struct:
				g.fill(fv, f.Name, depth+boolInt(fv.Kind() == reflect.Struct))
			default:
				if optional && fv.Type() != tTime && fv.Type() != tQuantity && !g.populate(f.Name, depth) {
					continue // leave the zero value
				}
				g.fill(fv, f.Name, depth)
			}
		}
	case reflect.Interface:
		// none in the modelled schema
	}
}

func boolInt(b bool) int {
	if b {
		return 1
	}
	return 0
}

// fillVolumeSource: mostly exactly one source, sometimes none (defaulted to emptyDir) or two
func (g *objGen) fillVolumeSource(v reflect.Value, depth int) {
	t := v.Type()
	var focus, rest []int
	for i := 0; i < t.NumField(); i++ {
		if boostFields[t.Field(i).Name] || t.Field(i).Name == "EmptyDir" {
			focus = append(focus, i)
		} else {
			rest = append(rest, i)
		}
	}
	n := 1
	switch weighted(g.rng, 12, 80, 8) {
	case 0:
		n = 0
	case 2:
		n = 2
	}
	for k := 0; k < n; k++ {
		idx := pick(g.rng, focus...)
		if g.rng.Intn(8) == 0 {
			idx = pick(g.rng, rest...)
		}
		fv := v.Field(idx)
		p := reflect.New(fv.Type().Elem())
		g.fill(p.Elem(), t.Field(idx).Name, depth+1)
		fv.Set(p)
	}
}

// emptyNils replaces nil slices and maps by empty non-nil ones (each with probability 1/2, from its own PRNG), so that a
// case line that is JSON can still put empty-but-non-nil collections in front of the code under test.
func emptyNils(v reflect.Value, rng *rand.Rand) {
	switch v.Kind() {
	case reflect.Ptr:
		if !v.IsNil() {
			emptyNils(v.Elem(), rng)
		}
	case reflect.Struct:
		if v.Type() == tTime || v.Type() == tMicro || v.Type() == tQuantity || v.Type() == tIntOrStr || v.Type() == tFieldsV1 {
			return
		}
		for i := 0; i < v.NumField(); i++ {
			if v.Type().Field(i).IsExported() {
				emptyNils(v.Field(i), rng)
			}
		}
	case reflect.Slice:
		if v.IsNil() {
			if rng.Intn(2) == 0 && v.CanSet() {
				v.Set(reflect.MakeSlice(v.Type(), 0, 0))
			}
			return
		}
		for i := 0; i < v.Len(); i++ {
			emptyNils(v.Index(i), rng)
		}
	case reflect.Map:
		if v.IsNil() && rng.Intn(2) == 0 && v.CanSet() {
			v.Set(reflect.MakeMap(v.Type()))
		}
	}
}

// caseJSON marshals an object for use inside a case line; ok=false when the text cannot be carried by the line protocol.
func caseJSON(obj interface{}) (string, bool) {
	b, err := json.Marshal(obj)
	if err != nil {
		return "", false
	}
	s := string(b)
	if strings.ContainsAny(s, "|\t\n ") || strings.Contains(s, "=>") {
		return "", false
	}
	return s, true
}

// canonJSON re-marshals through interface{} so that object keys are sorted (the model prints JSON the same way).
func canonJSON(b []byte) string {
	var x interface{}
	d := json.NewDecoder(strings.NewReader(string(b)))
	d.UseNumber()
	if err := d.Decode(&x); err != nil {
		return "unparsable"
	}
	out, err := json.Marshal(x)
	if err != nil {
		return "unmarshalable"
	}
	return string(out)
}
