package main

import (
	"errors"
	"fmt"
	"math/rand"
	"sort"
	"strconv"
	"strings"
	"time"

	kubeapps "k8s.io/api/apps/v1"
	v1 "k8s.io/api/core/v1"
	apierrors "k8s.io/apimachinery/pkg/api/errors"
	metav1 "k8s.io/apimachinery/pkg/apis/meta/v1"
	"k8s.io/apimachinery/pkg/labels"
	"k8s.io/apimachinery/pkg/runtime"
	"k8s.io/apimachinery/pkg/runtime/schema"
	"k8s.io/apimachinery/pkg/types"
	kubefake "k8s.io/client-go/kubernetes/fake"
	corelisters "k8s.io/client-go/listers/core/v1"
	clienttesting "k8s.io/client-go/testing"
	"k8s.io/client-go/tools/cache"
	"k8s.io/client-go/tools/record"
	"k8s.io/client-go/util/retry"

	apps "github.com/pingcap/advanced-statefulset/client/apis/apps/v1"
	aslisters "github.com/pingcap/advanced-statefulset/client/client/listers/apps/v1"
	sts "github.com/pingcap/advanced-statefulset/pkg/controller/statefulset"
)

// Engine "podcontrol" (C06): the real realStatefulPodControl (CreateStatefulPod / UpdateStatefulPod / DeleteStatefulPod),
// newVersionedStatefulSetPod, identityMatches, storageMatches and getParentNameAndOrdinal over real strings, against a
// recording, fault-injecting API (a catch-all reactor on the kube fake clientset: the tracker is never reached) and a
// hand-filled PVC informer cache wrapped by a recording, fault-injecting lister.
//
// All free strings are hex. Label maps: `~` = nil map, “ = empty map, else `k=v,k=v`.
//
//	case: steps|set|sel|tmpls|ptmpl|ord|revs|cache|api|faults|pod|fresh
//	  steps  dot-separated: C create (build the pod for <ord> with newVersionedStatefulSetPod, then CreateStatefulPod; the built pod becomes
//	         the current pod) | U UpdateStatefulPod(current pod) | D DeleteStatefulPod(current pod) | S the PVC cache catches up (cache := API claims)
//	  set    name:ns:svc:uid
//	  sel    `!` Spec.Selector == nil | label map (MatchLabels)
//	  tmpls  `;`-separated name:labelmap                      (volumeClaimTemplates, in order, duplicates allowed)
//	  ptmpl  labelmap:vols:hostname:subdomain                 (pod template) vols = `,`-separated name=p<claim> (PVC source) | name=e (emptyDir)
//	  ord    ordinal passed to newVersionedStatefulSetPod (Go int)
//	  revs   strat:ru:currentReplicas:currentRevision:updateRevision   strat R|D|X|E, ru none|nil|<int>
//	  cache  `,`-separated ns=name    claims in the PVC informer cache
//	  api    `,`-separated c:ns:name | p:ns:name   claims / pods existing in the API
//	  faults `,`-separated verb:res:name:occ:kind  verb get(lister)|create|update|delete, res pvc|pod, occ = n-th call of (verb,res,name) in the case,
//	         kind exists|notfound|internal|timeout|conflict
//	  pod    initial current pod `name:ns:labelmap:vols` or empty
//	  fresh  the pod the pod lister holds (same format) or empty
//	obs : per step k (1-based): k.out=ok|err|panic|sync  k.log=<entries|->  and for C/U steps the pod's identity:
//	      k.name k.ns k.host k.sub k.lpod k.lrev k.built k.own k.vols k.parse k.idm k.stm
//	      log entry = verb:res:ns:name:result[:k=v;k=v]  (labels only on claim creates); contiguous runs of claim entries are sorted by claim name
//	      (Go map iteration order), everything else is in call order. vols sorted by name (stable).
func init() {
	engines["podcontrol"] = &Engine{Gen: genPodControl, Run: runPodControl}
	// UpdateStatefulPod retries conflicts through retry.DefaultBackoff (4 steps, 10ms x5 apart). Only the pause is shortened here
	// (the step count, which decides how many attempts are made, is untouched) so that conflict cases do not cost 310ms each.
	retry.DefaultBackoff.Duration = 50 * time.Microsecond
}

const pcBuiltLabel = "verif-built"

type pcKV struct{ k, v string }

type pcMap struct {
	isNil bool
	kv    []pcKV
}

type pcVol struct {
	name  string
	pvc   bool
	claim string
}

type pcTmpl struct {
	name   string
	labels pcMap
}

type pcPod struct {
	name, ns string
	labels   pcMap
	vols     []pcVol
}

type pcFault struct {
	verb, res, name string
	occ             int
	kind            string
}

type pcCase struct {
	steps              []string
	name, ns, svc, uid string
	selNil             bool
	sel                pcMap
	tmpls              []pcTmpl
	ptLabels           pcMap
	ptVols             []pcVol
	ptHost, ptSub      string
	ord                int
	strat, ru          string
	curReplicas        int
	curRev, updRev     string
	cache              [][2]string
	apiClaims, apiPods [][2]string
	faults             []pcFault
	pod, fresh         *pcPod
}

// ---------------------------------------------------------------- encoding

func (m pcMap) enc() string {
	if m.isNil {
		return "~"
	}
	var ps []string
	for _, e := range m.kv {
		ps = append(ps, hexEnc(e.k)+"="+hexEnc(e.v))
	}
	return strings.Join(ps, ",")
}

func pcParseMap(s string) (pcMap, error) {
	if s == "~" {
		return pcMap{isNil: true}, nil
	}
	var m pcMap
	if s == "" {
		return m, nil
	}
	for _, t := range strings.Split(s, ",") {
		q := strings.Split(t, "=")
		if len(q) != 2 {
			return m, fmt.Errorf("bad label %q", t)
		}
		m.kv = append(m.kv, pcKV{hexDec(q[0]), hexDec(q[1])})
	}
	return m, nil
}

func (m pcMap) toGo() map[string]string {
	if m.isNil {
		return nil
	}
	out := map[string]string{}
	for _, e := range m.kv {
		out[e.k] = e.v
	}
	return out
}

func pcEncVols(vs []pcVol) string {
	var ps []string
	for _, v := range vs {
		if v.pvc {
			ps = append(ps, hexEnc(v.name)+"=p"+hexEnc(v.claim))
		} else {
			ps = append(ps, hexEnc(v.name)+"=e")
		}
	}
	return strings.Join(ps, ",")
}

func pcParseVols(s string) ([]pcVol, error) {
	var out []pcVol
	if s == "" {
		return nil, nil
	}
	for _, t := range strings.Split(s, ",") {
		q := strings.Split(t, "=")
		if len(q) != 2 || q[1] == "" {
			return nil, fmt.Errorf("bad volume %q", t)
		}
		switch q[1][0] {
		case 'p':
			out = append(out, pcVol{name: hexDec(q[0]), pvc: true, claim: hexDec(q[1][1:])})
		case 'e':
			out = append(out, pcVol{name: hexDec(q[0])})
		default:
			return nil, fmt.Errorf("bad volume %q", t)
		}
	}
	return out, nil
}

func (p *pcPod) enc() string {
	if p == nil {
		return ""
	}
	return hexEnc(p.name) + ":" + hexEnc(p.ns) + ":" + p.labels.enc() + ":" + pcEncVols(p.vols)
}

func pcParsePod(s string) (*pcPod, error) {
	if s == "" {
		return nil, nil
	}
	q := strings.Split(s, ":")
	if len(q) != 4 {
		return nil, fmt.Errorf("bad pod %q", s)
	}
	m, err := pcParseMap(q[2])
	if err != nil {
		return nil, err
	}
	vs, err := pcParseVols(q[3])
	if err != nil {
		return nil, err
	}
	return &pcPod{name: hexDec(q[0]), ns: hexDec(q[1]), labels: m, vols: vs}, nil
}

func (c *pcCase) line() string {
	sel := "!"
	if !c.selNil {
		sel = c.sel.enc()
	}
	var ts []string
	for _, t := range c.tmpls {
		ts = append(ts, hexEnc(t.name)+":"+t.labels.enc())
	}
	var cs []string
	for _, e := range c.cache {
		cs = append(cs, hexEnc(e[0])+"="+hexEnc(e[1]))
	}
	var as []string
	for _, e := range c.apiClaims {
		as = append(as, "c:"+hexEnc(e[0])+":"+hexEnc(e[1]))
	}
	for _, e := range c.apiPods {
		as = append(as, "p:"+hexEnc(e[0])+":"+hexEnc(e[1]))
	}
	var fs []string
	for _, f := range c.faults {
		fs = append(fs, fmt.Sprintf("%s:%s:%s:%d:%s", f.verb, f.res, hexEnc(f.name), f.occ, f.kind))
	}
	return strings.Join([]string{
		strings.Join(c.steps, "."),
		hexEnc(c.name) + ":" + hexEnc(c.ns) + ":" + hexEnc(c.svc) + ":" + hexEnc(c.uid),
		sel,
		strings.Join(ts, ";"),
		c.ptLabels.enc() + ":" + pcEncVols(c.ptVols) + ":" + hexEnc(c.ptHost) + ":" + hexEnc(c.ptSub),
		strconv.Itoa(c.ord),
		fmt.Sprintf("%s:%s:%d:%s:%s", c.strat, c.ru, c.curReplicas, hexEnc(c.curRev), hexEnc(c.updRev)),
		strings.Join(cs, ","),
		strings.Join(as, ","),
		strings.Join(fs, ","),
		c.pod.enc(),
		c.fresh.enc(),
	}, "|")
}

func parsePcCase(line string) (c *pcCase, err error) {
	defer func() {
		if r := recover(); r != nil {
			c, err = nil, fmt.Errorf("%v", r)
		}
	}()
	f := strings.Split(line, "|")
	if len(f) != 12 {
		return nil, fmt.Errorf("want 12 fields, got %d", len(f))
	}
	c = &pcCase{}
	if f[0] == "" {
		return nil, fmt.Errorf("no steps")
	}
	c.steps = strings.Split(f[0], ".")
	for _, s := range c.steps {
		if s != "C" && s != "U" && s != "D" && s != "S" {
			return nil, fmt.Errorf("bad step %q", s)
		}
	}
	q := strings.Split(f[1], ":")
	if len(q) != 4 {
		return nil, fmt.Errorf("bad set")
	}
	c.name, c.ns, c.svc, c.uid = hexDec(q[0]), hexDec(q[1]), hexDec(q[2]), hexDec(q[3])
	if f[2] == "!" {
		c.selNil = true
	} else if c.sel, err = pcParseMap(f[2]); err != nil {
		return nil, err
	}
	if f[3] != "" {
		for _, t := range strings.Split(f[3], ";") {
			q := strings.Split(t, ":")
			if len(q) != 2 {
				return nil, fmt.Errorf("bad template %q", t)
			}
			m, err := pcParseMap(q[1])
			if err != nil {
				return nil, err
			}
			c.tmpls = append(c.tmpls, pcTmpl{hexDec(q[0]), m})
		}
	}
	q = strings.Split(f[4], ":")
	if len(q) != 4 {
		return nil, fmt.Errorf("bad pod template")
	}
	if c.ptLabels, err = pcParseMap(q[0]); err != nil {
		return nil, err
	}
	if c.ptVols, err = pcParseVols(q[1]); err != nil {
		return nil, err
	}
	c.ptHost, c.ptSub = hexDec(q[2]), hexDec(q[3])
	if c.ord, err = strconv.Atoi(f[5]); err != nil {
		return nil, err
	}
	q = strings.Split(f[6], ":")
	if len(q) != 5 {
		return nil, fmt.Errorf("bad revs")
	}
	c.strat, c.ru = q[0], q[1]
	if c.ru != "none" && c.ru != "nil" {
		if _, err := strconv.Atoi(c.ru); err != nil {
			return nil, err
		}
	}
	if c.curReplicas, err = strconv.Atoi(q[2]); err != nil {
		return nil, err
	}
	c.curRev, c.updRev = hexDec(q[3]), hexDec(q[4])
	if f[7] != "" {
		for _, t := range strings.Split(f[7], ",") {
			q := strings.Split(t, "=")
			if len(q) != 2 {
				return nil, fmt.Errorf("bad cache entry %q", t)
			}
			c.cache = append(c.cache, [2]string{hexDec(q[0]), hexDec(q[1])})
		}
	}
	if f[8] != "" {
		for _, t := range strings.Split(f[8], ",") {
			q := strings.Split(t, ":")
			if len(q) != 3 || (q[0] != "c" && q[0] != "p") {
				return nil, fmt.Errorf("bad api entry %q", t)
			}
			e := [2]string{hexDec(q[1]), hexDec(q[2])}
			if q[0] == "c" {
				c.apiClaims = append(c.apiClaims, e)
			} else {
				c.apiPods = append(c.apiPods, e)
			}
		}
	}
	if f[9] != "" {
		for _, t := range strings.Split(f[9], ",") {
			q := strings.Split(t, ":")
			if len(q) != 5 {
				return nil, fmt.Errorf("bad fault %q", t)
			}
			occ, err := strconv.Atoi(q[3])
			if err != nil {
				return nil, err
			}
			switch q[4] {
			case "exists", "notfound", "internal", "timeout", "conflict":
			default:
				return nil, fmt.Errorf("bad fault kind %q", q[4])
			}
			c.faults = append(c.faults, pcFault{q[0], q[1], hexDec(q[2]), occ, q[4]})
		}
	}
	if c.pod, err = pcParsePod(f[10]); err != nil {
		return nil, err
	}
	if c.fresh, err = pcParsePod(f[11]); err != nil {
		return nil, err
	}
	return c, nil
}

// ---------------------------------------------------------------- the recording, fault-injecting world

type pcEntry struct {
	verb, res, ns, name, result string
	labels                      map[string]string
	hasLabels                   bool
}

type pcWorld struct {
	claims, pods map[[2]string]bool
	counts       map[string]int
	faults       map[string]string
	log          []pcEntry
	cacheIdx     cache.Indexer
}

func (w *pcWorld) fault(verb, res, name string) string {
	k := verb + ":" + res + ":" + name
	w.counts[k]++
	return w.faults[fmt.Sprintf("%s:%d", k, w.counts[k])]
}

func pcErr(kind, res, name string) error {
	gr := schema.GroupResource{Resource: res}
	switch kind {
	case "exists":
		return apierrors.NewAlreadyExists(gr, name)
	case "notfound":
		return apierrors.NewNotFound(gr, name)
	case "timeout":
		return apierrors.NewTimeoutError("injected", 1)
	case "conflict":
		return apierrors.NewConflict(gr, name, errors.New("injected"))
	}
	return apierrors.NewInternalError(errors.New("injected"))
}

func pcRes(r string) string {
	switch r {
	case "persistentvolumeclaims":
		return "pvc"
	case "pods":
		return "pod"
	}
	return r
}

func (w *pcWorld) react(action clienttesting.Action) (bool, runtime.Object, error) {
	verb, res, ns := action.GetVerb(), pcRes(action.GetResource().Resource), action.GetNamespace()
	if action.GetSubresource() != "" {
		res += "/" + action.GetSubresource()
	}
	var obj runtime.Object
	name := ""
	switch verb {
	case "create", "update":
		if a, ok := action.(interface{ GetObject() runtime.Object }); ok {
			obj = a.GetObject()
			if m, ok := obj.(metav1.Object); ok {
				name = m.GetName()
			}
		}
	default:
		if a, ok := action.(interface{ GetName() string }); ok {
			name = a.GetName()
		}
	}
	e := pcEntry{verb: verb, res: res, ns: ns, name: name}
	if verb == "create" && res == "pvc" {
		if m, ok := obj.(metav1.Object); ok {
			e.labels, e.hasLabels = m.GetLabels(), true
		}
	}
	key := [2]string{ns, name}
	store := w.pods
	if res == "pvc" {
		store = w.claims
	}
	kind := w.fault(verb, res, name)
	var err error
	switch {
	case kind != "":
		e.result, err = kind, pcErr(kind, res, name)
	case res != "pvc" && res != "pod":
		e.result = "ok"
	case verb == "create":
		if store[key] {
			e.result, err = "exists", pcErr("exists", res, name)
		} else {
			store[key] = true
			e.result = "ok"
		}
	case verb == "update" || verb == "patch" || verb == "get":
		if !store[key] {
			e.result, err = "notfound", pcErr("notfound", res, name)
		} else {
			e.result = "ok"
		}
	case verb == "delete":
		if !store[key] {
			e.result, err = "notfound", pcErr("notfound", res, name)
		} else {
			delete(store, key)
			e.result = "ok"
		}
	default:
		e.result = "ok"
	}
	w.log = append(w.log, e)
	if err != nil {
		return true, nil, err
	}
	return true, obj, nil
}

type pcPVCLister struct {
	inner corelisters.PersistentVolumeClaimLister
	w     *pcWorld
}

func (l *pcPVCLister) List(sel labels.Selector) ([]*v1.PersistentVolumeClaim, error) {
	return l.inner.List(sel)
}

func (l *pcPVCLister) PersistentVolumeClaims(ns string) corelisters.PersistentVolumeClaimNamespaceLister {
	return &pcPVCNsLister{l.inner.PersistentVolumeClaims(ns), ns, l.w}
}

type pcPVCNsLister struct {
	inner corelisters.PersistentVolumeClaimNamespaceLister
	ns    string
	w     *pcWorld
}

func (l *pcPVCNsLister) List(sel labels.Selector) ([]*v1.PersistentVolumeClaim, error) {
	return l.inner.List(sel)
}

func (l *pcPVCNsLister) Get(name string) (*v1.PersistentVolumeClaim, error) {
	e := pcEntry{verb: "get", res: "pvc", ns: l.ns, name: name}
	if kind := l.w.fault("get", "pvc", name); kind != "" {
		e.result = "internal"
		l.w.log = append(l.w.log, e)
		return nil, errors.New("injected lister failure")
	}
	obj, err := l.inner.Get(name)
	switch {
	case err == nil:
		e.result = "ok"
	case apierrors.IsNotFound(err):
		e.result = "notfound"
	default:
		e.result = "internal"
	}
	l.w.log = append(l.w.log, e)
	return obj, err
}

func pcIndexer() cache.Indexer {
	return cache.NewIndexer(cache.MetaNamespaceKeyFunc, cache.Indexers{cache.NamespaceIndex: cache.MetaNamespaceIndexFunc})
}

// ---------------------------------------------------------------- building the objects

func (c *pcCase) buildSet() *apps.StatefulSet {
	set := &apps.StatefulSet{
		TypeMeta:   metav1.TypeMeta{Kind: "StatefulSet", APIVersion: "apps.pingcap.com/v1"},
		ObjectMeta: metav1.ObjectMeta{Name: c.name, Namespace: c.ns, UID: types.UID(c.uid)},
		Spec: apps.StatefulSetSpec{
			ServiceName: c.svc,
			Template: v1.PodTemplateSpec{
				ObjectMeta: metav1.ObjectMeta{Labels: c.ptLabels.toGo()},
				Spec:       v1.PodSpec{Hostname: c.ptHost, Subdomain: c.ptSub, Containers: []v1.Container{{Name: "c", Image: "img"}}, Volumes: pcGoVols(c.ptVols)},
			},
			UpdateStrategy: strategyOf(c.strat, c.ru),
		},
		Status: apps.StatefulSetStatus{CurrentReplicas: int32(c.curReplicas)},
	}
	if !c.selNil {
		set.Spec.Selector = &metav1.LabelSelector{MatchLabels: c.sel.toGo()}
	}
	for j, t := range c.tmpls {
		tmpl := v1.PersistentVolumeClaim{ObjectMeta: metav1.ObjectMeta{Name: t.name, Labels: t.labels.toGo()}}
		if j%2 == 1 {
			// a template pasted from another namespace's manifest keeps a namespace of its own: claims live in the SET's namespace
			tmpl.Namespace = "tmpl-ns"
		}
		set.Spec.VolumeClaimTemplates = append(set.Spec.VolumeClaimTemplates, tmpl)
	}
	return set
}

func pcGoVols(vs []pcVol) []v1.Volume {
	var out []v1.Volume
	for _, v := range vs {
		if v.pvc {
			out = append(out, v1.Volume{Name: v.name, VolumeSource: v1.VolumeSource{PersistentVolumeClaim: &v1.PersistentVolumeClaimVolumeSource{ClaimName: v.claim}}})
		} else {
			out = append(out, v1.Volume{Name: v.name, VolumeSource: v1.VolumeSource{EmptyDir: &v1.EmptyDirVolumeSource{}}})
		}
	}
	return out
}

func pcGoPod(p *pcPod) *v1.Pod {
	return &v1.Pod{ObjectMeta: metav1.ObjectMeta{Name: p.name, Namespace: p.ns, Labels: p.labels.toGo()}, Spec: v1.PodSpec{Volumes: pcGoVols(p.vols)}}
}

func withMarker(set *apps.StatefulSet, which string) *apps.StatefulSet {
	c := set.DeepCopy()
	if c.Spec.Template.Labels == nil {
		c.Spec.Template.Labels = map[string]string{}
	}
	c.Spec.Template.Labels[pcBuiltLabel] = which
	return c
}

// ---------------------------------------------------------------- observation

func optLabel(m map[string]string, k string) string {
	if v, ok := m[k]; ok {
		return hexEnc(v)
	}
	return "~"
}

func tri(b *bool) string {
	if b == nil {
		return "n"
	}
	return b2s(*b)
}

func dash(s string) string {
	if s == "" {
		return "-"
	}
	return s
}

func pcPodTokens(k int, set *apps.StatefulSet, pod *v1.Pod) string {
	var owns []string
	for _, o := range pod.OwnerReferences {
		owns = append(owns, hexEnc(o.Kind)+"/"+hexEnc(o.Name)+"/"+hexEnc(string(o.UID))+"/"+tri(o.Controller)+"/"+tri(o.BlockOwnerDeletion)+"/"+hexEnc(o.APIVersion))
	}
	type vv struct{ n, s string }
	var vols []vv
	for _, v := range pod.Spec.Volumes {
		s := "e"
		if v.PersistentVolumeClaim != nil {
			s = "p" + hexEnc(v.PersistentVolumeClaim.ClaimName)
		}
		vols = append(vols, vv{hexEnc(v.Name), s})
	}
	// the claim-backed volumes come out of a Go map; the rest follow in template order, and only those can repeat a name
	sort.SliceStable(vols, func(i, j int) bool { return vols[i].n < vols[j].n })
	var vs []string
	for _, v := range vols {
		vs = append(vs, v.n+"="+v.s)
	}
	parent, ord := sts.VerifGetParentNameAndOrdinal(pod)
	built := "~"
	if b, ok := pod.Labels[pcBuiltLabel]; ok {
		built = b
	}
	return fmt.Sprintf(" %d.name=%s %d.ns=%s %d.host=%s %d.sub=%s %d.lpod=%s %d.lrev=%s %d.built=%s %d.own=%s %d.vols=%s %d.parse=%s/%d %d.idm=%s %d.stm=%s",
		k, hexEnc(pod.Name), k, hexEnc(pod.Namespace), k, hexEnc(pod.Spec.Hostname), k, hexEnc(pod.Spec.Subdomain),
		k, optLabel(pod.Labels, apps.StatefulSetPodNameLabel), k, optLabel(pod.Labels, kubeapps.StatefulSetRevisionLabel), k, built,
		k, dash(strings.Join(owns, ";")), k, dash(strings.Join(vs, ",")), k, hexEnc(parent), ord,
		k, b2s(sts.VerifIdentityMatches(set, pod)), k, b2s(sts.VerifStorageMatches(set, pod)))
}

func pcLogString(log []pcEntry) string {
	// sort each contiguous run of claim entries by claim name (stable: a claim's lookup stays before its create)
	for i := 0; i < len(log); {
		if log[i].res != "pvc" {
			i++
			continue
		}
		j := i
		for j < len(log) && log[j].res == "pvc" {
			j++
		}
		run := log[i:j]
		sort.SliceStable(run, func(a, b int) bool { return hexEnc(run[a].name) < hexEnc(run[b].name) })
		i = j
	}
	var out []string
	for _, e := range log {
		s := e.verb + ":" + e.res + ":" + hexEnc(e.ns) + ":" + hexEnc(e.name) + ":" + e.result
		if e.hasLabels {
			var ks []string
			for k := range e.labels {
				ks = append(ks, k)
			}
			sort.Slice(ks, func(a, b int) bool { return hexEnc(ks[a]) < hexEnc(ks[b]) })
			var ps []string
			for _, k := range ks {
				ps = append(ps, hexEnc(k)+"="+hexEnc(e.labels[k]))
			}
			s += ":" + strings.Join(ps, ";")
		}
		out = append(out, s)
	}
	return dash(strings.Join(out, ","))
}

// ---------------------------------------------------------------- run

func runPodControl(line string) string {
	c, err := parsePcCase(line)
	if err != nil {
		return "bad-case"
	}
	w := &pcWorld{claims: map[[2]string]bool{}, pods: map[[2]string]bool{}, counts: map[string]int{}, faults: map[string]string{}, cacheIdx: pcIndexer()}
	for _, e := range c.apiClaims {
		w.claims[e] = true
	}
	for _, e := range c.apiPods {
		w.pods[e] = true
	}
	for _, f := range c.faults {
		if k := fmt.Sprintf("%s:%s:%s:%d", f.verb, f.res, f.name, f.occ); w.faults[k] == "" { // first entry wins
			w.faults[k] = f.kind
		}
	}
	for _, e := range c.cache {
		_ = w.cacheIdx.Add(&v1.PersistentVolumeClaim{ObjectMeta: metav1.ObjectMeta{Namespace: e[0], Name: e[1]}})
	}
	podIdx := pcIndexer()
	if c.fresh != nil {
		_ = podIdx.Add(pcGoPod(c.fresh))
	}
	client := &kubefake.Clientset{}
	client.AddReactor("*", "*", w.react)
	spc := sts.NewRealStatefulPodControl(client, aslisters.NewStatefulSetLister(pcIndexer()), corelisters.NewPodLister(podIdx),
		&pcPVCLister{corelisters.NewPersistentVolumeClaimLister(w.cacheIdx), w}, &record.FakeRecorder{})
	set := c.buildSet()
	curSet, updSet := withMarker(set, "cur"), withMarker(set, "upd")
	var cur *v1.Pod
	if c.pod != nil {
		cur = pcGoPod(c.pod)
	}
	var b strings.Builder
	for i, step := range c.steps {
		k := i + 1
		if (step == "U" || step == "D") && cur == nil {
			return "bad-case"
		}
		w.log = nil
		out, site := "ok", ""
		func() {
			defer func() {
				if r := recover(); r != nil {
					out, site = "panic", sanitize(fmt.Sprint(r))
				}
			}()
			var err error
			switch step {
			case "C":
				pod := sts.VerifNewVersionedStatefulSetPod(curSet, updSet, c.curRev, c.updRev, c.ord)
				cur = pod
				err = spc.CreateStatefulPod(set, pod)
			case "U":
				err = spc.UpdateStatefulPod(set, cur)
			case "D":
				err = spc.DeleteStatefulPod(set, cur)
			case "S":
				for _, o := range w.cacheIdx.List() {
					_ = w.cacheIdx.Delete(o)
				}
				for e := range w.claims {
					_ = w.cacheIdx.Add(&v1.PersistentVolumeClaim{ObjectMeta: metav1.ObjectMeta{Namespace: e[0], Name: e[1]}})
				}
				out = "sync"
			}
			if err != nil {
				out = "err"
			}
		}()
		if i > 0 {
			b.WriteByte(' ')
		}
		fmt.Fprintf(&b, "%d.out=%s", k, out)
		if out == "panic" {
			b.WriteString(" site=" + strings.ReplaceAll(site, " ", "_"))
			break
		}
		if step == "S" {
			continue
		}
		fmt.Fprintf(&b, " %d.log=%s", k, pcLogString(w.log))
		if step == "C" || step == "U" {
			b.WriteString(pcPodTokens(k, set, cur))
		}
	}
	return b.String()
}

// ---------------------------------------------------------------- generator

var pcSetNames = []string{"web", "web", "web", "db", "web-1", "a-0-b", "x-007", "w", "a--1", "web-", "0", "1-2", "web-2147483647", "s-99999999999", "-", "",
	"caf\xc3\xa9", "x\xff", "tidb-cluster-tikv", "-3", "web.v2", "a.b-1",
	// around the 63-byte limit of a DNS label (the pod name, not the hostname, is what the controller owes): 59 .. 64 and 200 bytes
	strings.Repeat("a", 59), strings.Repeat("b", 60), strings.Repeat("c", 61), strings.Repeat("d", 62), strings.Repeat("e", 63), strings.Repeat("f", 64),
	strings.Repeat("long-", 40)}
var pcBadSetNames = []string{"a\nb", "a\nb-3", "x\n", "\n", "a-1\n"}
var pcNamespaces = []string{"ns", "ns", "default", "other", "n-1", "n"}
var pcServices = []string{"svc", "svc", "", "web", "peer-0"}
var pcUIDs = []string{"uid-1", "uid-1", "", "0a1b", "web"}
var pcTmplNames = []string{"data", "data", "log", "www", "data-web", "", "vol", "d-0", "web"}
var pcLabelKeys = []string{"app", "tier", "statefulset.kubernetes.io/pod-name", "controller-revision-hash", "", "k", pcBuiltLabel}
var pcLabelVals = []string{"web", "x", "", "v-1", "db"}
var pcRevs = []string{"web-6d5f", "web-7c9b", "", "rev-1", "web-6d5f"}

func genPcMap(rng *rand.Rand, keys []string) pcMap {
	switch weighted(rng, 25, 15, 40, 20) {
	case 0:
		return pcMap{isNil: true}
	case 1:
		return pcMap{}
	case 2:
		return pcMap{kv: []pcKV{{pick(rng, keys...), pick(rng, pcLabelVals...)}}}
	}
	m := pcMap{}
	seen := map[string]bool{}
	for i := 0; i < 2; i++ {
		k := pick(rng, keys...)
		if seen[k] {
			continue
		}
		seen[k] = true
		m.kv = append(m.kv, pcKV{k, pick(rng, pcLabelVals...)})
	}
	return m
}

func pcPodName(s string, i int) string      { return s + "-" + strconv.Itoa(i) }
func pcClaimName(t, s string, i int) string { return t + "-" + s + "-" + strconv.Itoa(i) }
func distinctTmplNames(ts []pcTmpl) (out []string) {
	seen := map[string]bool{}
	for _, t := range ts {
		if !seen[t.name] {
			seen[t.name] = true
			out = append(out, t.name)
		}
	}
	return
}

func genPcOrd(rng *rand.Rand) int {
	switch weighted(rng, 55, 15, 10, 8, 5, 7) {
	case 0:
		return rng.Intn(6)
	case 1:
		return rng.Intn(1200)
	case 2:
		return pick(rng, 2147483647, 2147483646, 2147483640, 1000000000, 999999999, 65536, 10, 100)
	case 3:
		return 2147483647 - rng.Intn(1000)
	case 4:
		return rng.Intn(1 << 31)
	}
	return pick(rng, -1, -2, -5, -10, 2147483648, 2147483655, 1<<40, -2147483648, 4294967296)
}

func genPodControl(rng *rand.Rand, n int, emit func(string)) {
	for i := 0; i < n; i++ {
		emit(genPcCase(rng).line())
	}
}

func genPcCase(rng *rand.Rand) *pcCase {
	c := &pcCase{}
	c.name = pick(rng, pcSetNames...)
	if rng.Intn(40) == 0 {
		c.name = pick(rng, pcBadSetNames...)
	}
	c.ns, c.svc, c.uid = pick(rng, pcNamespaces...), pick(rng, pcServices...), pick(rng, pcUIDs...)
	if rng.Intn(50) == 0 {
		c.selNil = true
	} else {
		c.sel = genPcMap(rng, []string{"app", "tier", "k", ""})
	}
	nt := weighted(rng, 15, 35, 30, 12, 8)
	for j := 0; j < nt; j++ {
		t := pcTmpl{name: pick(rng, pcTmplNames...), labels: genPcMap(rng, []string{"app", "tier", "k", "own"})}
		if j > 0 && rng.Intn(6) == 0 {
			t.name = c.tmpls[rng.Intn(j)].name
		}
		c.tmpls = append(c.tmpls, t)
	}
	c.ptLabels = genPcMap(rng, pcLabelKeys)
	c.ord = genPcOrd(rng)
	nv := weighted(rng, 40, 35, 20, 5)
	for j := 0; j < nv; j++ {
		v := pcVol{name: pick(rng, "scratch", "cfg", "data", "log", "www", "", "cfg")}
		if len(c.tmpls) > 0 && rng.Intn(3) == 0 {
			v.name = c.tmpls[rng.Intn(len(c.tmpls))].name
		}
		if rng.Intn(2) == 0 {
			v.pvc = true
			v.claim = pick(rng, "shared", "", pcClaimName(v.name, c.name, c.ord), pcClaimName(v.name, c.name, c.ord+1))
		}
		c.ptVols = append(c.ptVols, v)
	}
	if rng.Intn(5) == 0 {
		c.ptHost = pick(rng, "preset", pcPodName(c.name, c.ord+1))
	}
	if rng.Intn(5) == 0 {
		c.ptSub = pick(rng, "presetsub", "svc")
	}
	c.strat = pick(rng, "R", "R", "R", "D", "X", "E")
	switch weighted(rng, 40, 15, 45) {
	case 0:
		c.ru = "none"
	case 1:
		c.ru = "nil"
	default:
		d := pick(rng, 0, 0, 1, 1, 2, -1, 5)
		p := c.ord + d - 1
		if rng.Intn(6) == 0 {
			p = pick(rng, 0, -1, -7, 3)
		}
		if p > 2147483647 {
			p = 2147483647
		}
		if p < -2147483648 {
			p = -2147483648
		}
		c.ru = strconv.Itoa(p)
	}
	c.curReplicas = pick(rng, 0, 1, 3, 2147483647, -1)
	if rng.Intn(2) == 0 && c.ord > -100 && c.ord < 2147483600 {
		c.curReplicas = c.ord + rng.Intn(3) - 1
	}
	c.curRev, c.updRev = pick(rng, pcRevs...), pick(rng, pcRevs...)

	tn := distinctTmplNames(c.tmpls)
	// a namespace other than the set's: sometimes a well-known one, so that a lookup in a fixed wrong namespace finds something
	otherNs := "zz-" + c.ns
	if alt := pick(rng, "default", "ns", "other"); alt != c.ns && rng.Intn(2) == 0 {
		otherNs = alt
	}
	// steps
	switch weighted(rng, 50, 14, 3, 7, 7, 5, 4, 6, 4) {
	case 0:
		c.steps = []string{"C"}
	case 1:
		c.steps = []string{"U"}
	case 2:
		c.steps = []string{"D"}
	case 3:
		c.steps = []string{"C", "D", "C"}
	case 4:
		c.steps = []string{"C", "S", "D", "C"}
	case 5:
		c.steps = []string{"C", "U"}
	case 6:
		c.steps = []string{"U", "U"}
	case 7:
		c.steps = []string{"C", "C"}
	case 8:
		c.steps = []string{"C", "S", "C"}
	}
	// cache / API population: three profiles (fresh ordinal, ordinal that existed before = all claims present, mixed)
	profile := weighted(rng, 40, 25, 35)
	for _, t := range tn {
		cn := pcClaimName(t, c.name, c.ord)
		inCache := profile == 1 || (profile == 2 && rng.Intn(2) == 0)
		if inCache && rng.Intn(12) != 0 {
			c.cache = append(c.cache, [2]string{c.ns, cn})
			if rng.Intn(10) != 0 {
				c.apiClaims = append(c.apiClaims, [2]string{c.ns, cn})
			}
		} else if rng.Intn(7) == 0 {
			c.apiClaims = append(c.apiClaims, [2]string{c.ns, cn}) // exists, cache lags
		}
		if rng.Intn(10) == 0 {
			c.cache = append(c.cache, [2]string{otherNs, cn}) // same name, another namespace
		}
		if rng.Intn(10) == 0 {
			c.cache = append(c.cache, [2]string{c.ns, pcClaimName(t, c.name, c.ord+1)}) // the neighbour's claim
		}
		if rng.Intn(14) == 0 {
			c.apiClaims = append(c.apiClaims, [2]string{otherNs, cn})
		}
	}
	pn := pcPodName(c.name, c.ord)
	hasU := false
	for _, s := range c.steps {
		if s == "U" || s == "D" {
			hasU = true
		}
	}
	if (c.steps[0] == "C" && rng.Intn(10) == 0) || (c.steps[0] != "C" && rng.Intn(8) != 0) {
		c.apiPods = append(c.apiPods, [2]string{c.ns, pn})
	}
	// initial current pod for U / D: the right pod for (set, ord), then broken in chosen ways
	if c.steps[0] != "C" || (hasU && rng.Intn(10) == 0) {
		p := &pcPod{name: pn, ns: c.ns, labels: pcMap{kv: []pcKV{{"app", "web"}, {apps.StatefulSetPodNameLabel, pn}, {kubeapps.StatefulSetRevisionLabel, c.updRev}}}}
		for _, t := range tn {
			p.vols = append(p.vols, pcVol{name: t, pvc: true, claim: pcClaimName(t, c.name, c.ord)})
		}
		p.vols = append(p.vols, pcVol{name: "scratch"})
		for nb := weighted(rng, 25, 50, 25); nb > 0; nb-- {
			switch rng.Intn(11) {
			case 0:
				p.name = pcPodName(c.name, c.ord+1)
			case 1:
				p.name = c.name + "-00" + strconv.Itoa(abs(c.ord))
			case 2:
				p.name = pick(rng, c.name, "other-"+strconv.Itoa(abs(c.ord)), c.name+"-x", c.name+"-99999999999", "")
			case 3:
				p.ns = otherNs
			case 4:
				p.labels = pcMap{isNil: true}
			case 5:
				if len(p.labels.kv) < 2 {
					break
				}
				p.labels.kv[1].v = pick(rng, "", "other", pcPodName(c.name, c.ord+1))
			case 6:
				if len(p.vols) > 1 {
					j := rng.Intn(len(p.vols) - 1)
					p.vols = append(p.vols[:j:j], p.vols[j+1:]...)
				}
			case 7:
				if len(p.vols) > 1 {
					p.vols[rng.Intn(len(p.vols)-1)].claim = pick(rng, "", "shared", pcClaimName("data", c.name, c.ord+1))
				}
			case 8:
				if len(p.vols) > 1 {
					p.vols[rng.Intn(len(p.vols)-1)].pvc = false
				}
			case 9:
				p.vols = append([]pcVol{{name: "extra"}, {name: "scratch", pvc: true, claim: "shared"}}, p.vols...)
			case 10:
				p.vols = nil
			}
		}
		c.pod = p
		if rng.Intn(3) != 0 {
			// the pod the API knows is the one the controller was handed
			c.apiPods = append(c.apiPods, [2]string{p.ns, p.name})
		}
	}
	if hasU && rng.Intn(3) == 0 {
		f := &pcPod{name: pn, ns: c.ns, labels: pcMap{kv: []pcKV{{apps.StatefulSetPodNameLabel, pn}}}}
		for _, t := range tn {
			if rng.Intn(4) != 0 {
				f.vols = append(f.vols, pcVol{name: t, pvc: true, claim: pcClaimName(t, c.name, c.ord)})
			}
		}
		if rng.Intn(4) == 0 {
			f.labels = pcMap{}
		}
		if rng.Intn(8) == 0 {
			f.ns = otherNs
		}
		c.fresh = f
	}
	// faults
	var targets []pcFault
	for _, t := range tn {
		cn := pcClaimName(t, c.name, c.ord)
		targets = append(targets, pcFault{verb: "get", res: "pvc", name: cn, kind: "internal"})
		for _, k := range []string{"exists", "internal", "timeout", "notfound", "conflict"} {
			targets = append(targets, pcFault{verb: "create", res: "pvc", name: cn, kind: k})
		}
	}
	for _, k := range []string{"exists", "exists", "internal", "timeout", "notfound", "conflict"} {
		targets = append(targets, pcFault{verb: "create", res: "pod", name: pn, kind: k})
	}
	if hasU {
		for _, k := range []string{"conflict", "conflict", "conflict", "internal", "notfound", "timeout"} {
			targets = append(targets, pcFault{verb: "update", res: "pod", name: pn, kind: k})
		}
		for _, k := range []string{"internal", "notfound", "conflict"} {
			targets = append(targets, pcFault{verb: "delete", res: "pod", name: pn, kind: k})
		}
	}
	nf := weighted(rng, 50, 32, 12, 6)
	if nf == 3 {
		nf = 3 + rng.Intn(4)
	}
	seen := map[string]bool{}
	for ; nf > 0; nf-- {
		f := pick(rng, targets...)
		f.occ = 1 + weighted(rng, 75, 20, 5)
		if f.verb == "update" && rng.Intn(2) == 0 {
			// a run of conflicts: occurrences 1..m
			m := 1 + rng.Intn(6)
			for o := 1; o <= m; o++ {
				k := fmt.Sprintf("%s:%s:%s:%d", f.verb, f.res, f.name, o)
				if !seen[k] {
					seen[k] = true
					c.faults = append(c.faults, pcFault{f.verb, f.res, f.name, o, "conflict"})
				}
			}
			continue
		}
		k := fmt.Sprintf("%s:%s:%s:%d", f.verb, f.res, f.name, f.occ)
		if seen[k] {
			continue
		}
		seen[k] = true
		c.faults = append(c.faults, f)
	}
	return c
}

func abs(x int) int {
	if x < 0 {
		return -x
	}
	return x
}
