package main

import (
	"fmt"
	"math/rand"
	"sort"
	"strconv"
	"strings"

	apiequality "k8s.io/apimachinery/pkg/api/equality"
	"k8s.io/apimachinery/pkg/util/sets"

	apps "github.com/pingcap/advanced-statefulset/client/apis/apps/v1"
	"github.com/pingcap/advanced-statefulset/client/apis/apps/v1/helper"
)

// Engine "worldedit": the rounds of the world engine with USER EDITS of the set between them (C02 "once the user stops editing",
// C08 "editing only replicas / delete-slots / pause / metadata never changes the update revision; a revert re-uses the earlier
// revision", C11 "while paused no write; un-pausing resumes and converges to the same result").
//
//	case: <budget>#<edits>#<sync case line>
//	  edits  k:<edit>;k:<edit>;...   applied to the API object of the set BEFORE round k's settle (k >= 2, non-decreasing)
//	         r=<n> spec.replicas | s=<slots>, s=- delete-slots annotation set / removed | p=1 / p=0 pause annotation "true" / removed
//	         t=<A|B|X|Y> pod template | u=<partition>, u=none rollingUpdate block | m=<x> an unrelated annotation and label
//	         an edit that changes the spec bumps metadata.generation (as the API server does), the others do not
//	  sync case: as in the world engine (cache = API; fault plan in round 1 only; no crash faults); its names table lists, for the
//	         case's template and for every template of the script, the names the real hash function gives at 8 collision counts
//	obs : n=<rounds run>, per round j: [e<j>=<edits>@<generation>:<replicas>:<slots>:<paused>:<template>:<ru>:<collision count>]
//	      (the set in the API after the edits of round j) s<j>=<the world engine's round observation>, then tb=<...>
//	      The run ends after two silent successful rounds with no edit in or after them, or when the budget is used.
func init() {
	engines["worldedit"] = &Engine{Gen: genWorldEdit, Run: runWorldEdit}
}

type weEdit struct {
	k    int
	kind byte
	arg  string
}

func (e weEdit) String() string { return fmt.Sprintf("%c=%s", e.kind, e.arg) }

func parseWeEdits(s string) ([]weEdit, error) {
	var out []weEdit
	if s == "" {
		return nil, nil
	}
	last := 2
	for _, t := range strings.Split(s, ";") {
		i := strings.Index(t, ":")
		if i < 0 || len(t) < i+4 || t[i+2] != '=' {
			return nil, fmt.Errorf("bad edit %q", t)
		}
		k, err := strconv.Atoi(t[:i])
		if err != nil || k < last {
			return nil, fmt.Errorf("bad edit round in %q", t)
		}
		last = k
		e := weEdit{k: k, kind: t[i+1], arg: t[i+3:]}
		switch e.kind {
		case 'r':
			if _, err := strconv.Atoi(e.arg); err != nil {
				return nil, fmt.Errorf("bad edit %q", t)
			}
		case 's':
			if e.arg != "-" {
				for _, x := range strings.Split(e.arg, ",") {
					if _, err := strconv.Atoi(x); err != nil {
						return nil, fmt.Errorf("bad edit %q", t)
					}
				}
			}
		case 'p':
			if e.arg != "0" && e.arg != "1" {
				return nil, fmt.Errorf("bad edit %q", t)
			}
		case 't':
			if e.arg != "A" && e.arg != "B" && e.arg != "X" && e.arg != "Y" {
				return nil, fmt.Errorf("bad edit %q", t)
			}
		case 'u':
			if e.arg != "none" {
				if _, err := strconv.Atoi(e.arg); err != nil {
					return nil, fmt.Errorf("bad edit %q", t)
				}
			}
		case 'm':
			if e.arg == "" || strings.ContainsAny(e.arg, " +@#|;:=/") {
				return nil, fmt.Errorf("bad edit %q", t)
			}
		default:
			return nil, fmt.Errorf("bad edit %q", t)
		}
		out = append(out, e)
	}
	return out, nil
}

func fmtWeEdits(es []weEdit) string {
	var out []string
	for _, e := range es {
		out = append(out, fmt.Sprintf("%d:%s", e.k, e))
	}
	return strings.Join(out, ";")
}

// weNames: the names table of a worldedit case: 8 collision counts for the case's template, then for every other template of the script
func weNames(c *syCase, es []weEdit) string {
	tmpls := []string{c.tmpl}
	var others []string
	for _, e := range es {
		if e.kind == 't' && e.arg != c.tmpl {
			dup := false
			for _, o := range others {
				dup = dup || o == e.arg
			}
			if !dup {
				others = append(others, e.arg)
			}
		}
	}
	sort.Strings(others)
	tmpls = append(tmpls, others...)
	cc0 := c.cc0()
	var out []string
	for _, t := range tmpls {
		for k := cc0; k < cc0+8; k++ {
			n, h := syHashName(c, t, k)
			hn := "-"
			if v, err := strconv.ParseInt(h, 10, 32); err == nil {
				hn = strconv.FormatInt(v, 10)
			}
			out = append(out, fmt.Sprintf("%s:%d=%s:%s", t, k, n, hn))
		}
	}
	return strings.Join(out, ",")
}

// applyEdit: the user's edit, written to the API object of the set (the caches catch up at the next refresh)
func (w *syWorld) applyEdit(e weEdit) {
	set := w.apiSet()
	if set == nil {
		return
	}
	old := set.DeepCopy()
	if set.Annotations == nil {
		set.Annotations = map[string]string{}
	}
	switch e.kind {
	case 'r':
		v := int32(atoi(e.arg))
		set.Spec.Replicas = &v
	case 's':
		if e.arg == "-" {
			delete(set.Annotations, helper.DeleteSlotsAnn)
		} else {
			s := sets.NewInt32()
			for _, x := range parseInts(e.arg) {
				s.Insert(int32(x))
			}
			if err := helper.SetDeleteSlots(set, s); err != nil {
				panic(err)
			}
		}
	case 'p':
		if e.arg == "1" {
			set.Annotations[helper.PausedReconcileAnn] = "true"
		} else {
			delete(set.Annotations, helper.PausedReconcileAnn)
		}
	case 't':
		set.Spec.Template.Spec.Containers[0].Image = "img-" + e.arg
	case 'u':
		if e.arg == "none" {
			set.Spec.UpdateStrategy.RollingUpdate = nil
		} else {
			p := int32(atoi(e.arg))
			set.Spec.UpdateStrategy.RollingUpdate = &apps.RollingUpdateStatefulSetStrategy{Partition: &p}
		}
	case 'm':
		set.Annotations["example.com/note"] = e.arg
		if set.Labels == nil {
			set.Labels = map[string]string{}
		}
		set.Labels["note"] = e.arg
	}
	if !apiequality.Semantic.DeepEqual(old.Spec, set.Spec) {
		set.Generation++ // the API server bumps the generation when (and only when) the spec changes
	}
	if err := w.pc.Tracker().Update(setsGVR, set, rcNS); err != nil {
		panic(err)
	}
}

// editMark: what the set in the API looks like after the edits of a round
func (w *syWorld) editMark(es []weEdit) string {
	var names []string
	for _, e := range es {
		names = append(names, e.String())
	}
	set := w.apiSet()
	if set == nil {
		return strings.Join(names, "+") + "@gone"
	}
	r := "nil"
	if set.Spec.Replicas != nil {
		r = fmt.Sprint(*set.Spec.Replicas)
	}
	var slots []int
	for _, x := range helper.GetDeleteSlots(set).List() {
		slots = append(slots, int(x))
	}
	tmpl := "?"
	if cs := set.Spec.Template.Spec.Containers; len(cs) == 1 {
		tmpl = strings.TrimPrefix(cs[0].Image, "img-")
	}
	ru := "none"
	if b := set.Spec.UpdateStrategy.RollingUpdate; b != nil {
		ru = "nil"
		if b.Partition != nil {
			ru = fmt.Sprint(*b.Partition)
		}
	}
	cc := "nil"
	if set.Status.CollisionCount != nil {
		cc = fmt.Sprint(*set.Status.CollisionCount)
	}
	return fmt.Sprintf("%s@%d:%s:%s:%s:%s:%s:%s", strings.Join(names, "+"), set.Generation, r, joinInts(slots), b2s(helper.GetPausedReconcile(set)), tmpl, ru, cc)
}

func runWorldEdit(line string) string {
	f := strings.SplitN(line, "#", 3)
	if len(f) != 3 {
		return "bad-case"
	}
	rounds := atoi(f[0])
	edits, err := parseWeEdits(f[1])
	if err != nil {
		return "bad-case " + err.Error()
	}
	c, err := parseSyCase(f[2])
	if err != nil {
		return "bad-case " + err.Error()
	}
	if c.fuid != 1 || c.fdel != c.del || c.claims || strings.Contains(f[2], "@crash") {
		return "bad-case the worldedit engine starts from cache = API, without claims and without crash faults"
	}
	productionCrashSemantics()
	w := buildSyWorld(c)
	w.graceful = true
	var parts []string
	n := 0
	silent := 0
	crashed := false
	for j := 1; j <= rounds; j++ {
		var now []weEdit
		pending := false
		for _, e := range edits {
			if e.k == j {
				now = append(now, e)
			}
			pending = pending || e.k > j
		}
		if len(now) > 0 {
			for _, e := range now {
				w.applyEdit(e)
			}
			parts = append(parts, fmt.Sprintf("e%d=%s", j, w.editMark(now)))
			silent = 0
		}
		part, out, writes := w.worldRound(c, j, &crashed)
		parts = append(parts, part)
		n = j
		if out == "ok" && writes == 0 {
			silent++
		} else {
			silent = 0
		}
		if silent >= 2 && !pending {
			break
		}
	}
	return fmt.Sprintf("n=%d %s tb=%d", n, strings.Join(parts, " "), w.tplBad(c))
}

// ---- generation ----

func weDesired(r int, slots []int) []int {
	d := desiredSet(r, slots)
	var out []int
	for o := range d {
		if d[o] {
			out = append(out, o)
		}
	}
	sort.Ints(out)
	return out
}

func sortedUnique(xs []int) []int {
	seen := map[int]bool{}
	var out []int
	for _, x := range xs {
		if !seen[x] {
			seen[x] = true
			out = append(out, x)
		}
	}
	sort.Ints(out)
	return out
}

func slotsArg(xs []int) string {
	if len(xs) == 0 {
		return "-"
	}
	return joinInts(xs)
}

// genWorldEdit: histories of 1-4 edits over the small worlds of the world engine. A third carry a pause interval (half of those
// nothing but the interval: the shape C11.lossless speaks about), a third a scale-in at a slot followed by the scale-out again,
// the rest template changes and reverts, partition moves, plain scaling and metadata edits.
func genWorldEdit(rng *rand.Rand, n int, emit func(string)) {
	kinds := []string{"conflict", "notfound", "exists", "invalid", "other", "timeout"}
	for i := 0; i < n; i++ {
		c := genWorldCase(rng)
		for c.r > 7 || len(c.pods) > 12 { // small worlds: a history multiplies the number of rounds
			c = genWorldCase(rng)
		}
		if rng.Intn(4) == 0 {
			// one or two failing calls in the first sync
			log := dryRunSync(c)
			for k := 0; k < 1+rng.Intn(2) && len(log) > 0; k++ {
				j := rng.Intn(len(log))
				occ := 0
				for _, e := range log[:j] {
					if e == log[j] {
						occ++
					}
				}
				if occ > 0 && (strings.HasPrefix(log[j], "delete:pod:") || strings.HasPrefix(log[j], "create:pod:")) {
					continue
				}
				dup := false
				for _, f := range c.faults {
					if f.key == log[j] && f.occ == occ {
						dup = true
					}
				}
				if !dup {
					c.faults = append(c.faults, syFault{key: log[j], occ: occ, kind: pick(rng, kinds...)})
				}
			}
		}
		// rounds of the edits: early ones land in the middle of the work the initial world needs, late ones after it has converged
		k := 2 + rng.Intn(3)
		step := func() int {
			k0 := k
			k += weighted(rng, 15, 35, 25, 15, 10)
			return k0
		}
		var es []weEdit
		r, slots := c.r, sortedUnique(c.slots)
		other := "B"
		if c.tmpl == "B" {
			other = "A"
		}
		scaleEdit := func() weEdit {
			nr := r + pick(rng, -2, -1, -1, 1, 1, 2)
			if nr < 0 {
				nr = 0
			}
			if nr > 7 {
				nr = 7
			}
			r = nr
			return weEdit{kind: 'r', arg: fmt.Sprint(nr)}
		}
		switch rng.Intn(3) {
		case 0: // a pause interval
			a := step()
			es = append(es, weEdit{k: a, kind: 'p', arg: "1"})
			if rng.Intn(2) == 0 {
				// edits while paused: nothing of them may show before the pause ends
				for q := 0; q < 1+rng.Intn(2); q++ {
					e := scaleEdit()
					switch rng.Intn(4) {
					case 0:
						e = weEdit{kind: 't', arg: other}
					case 1:
						d := weDesired(r, slots)
						if len(d) > 0 {
							slots = sortedUnique(append(slots, d[rng.Intn(len(d))]))
							e = weEdit{kind: 's', arg: slotsArg(slots)}
						}
					}
					e.k = step()
					if rng.Intn(3) == 0 {
						e.k = a // in the same breath as the pause
					}
					es = append(es, e)
				}
				sort.SliceStable(es, func(x, y int) bool { return es[x].k < es[y].k })
			}
			if rng.Intn(8) != 0 {
				b := step()
				if b <= a {
					b, k = a+1, a+1
				}
				es = append(es, weEdit{k: b, kind: 'p', arg: "0"})
			}
		case 1: // scale in at a slot, later scale out again
			d := weDesired(r, slots)
			if len(d) == 0 {
				es = append(es, weEdit{k: step(), kind: 'r', arg: fmt.Sprint(r + 1)})
				r++
				d = weDesired(r, slots)
			}
			if len(d) > 0 {
				victim := d[rng.Intn(len(d))]
				before := slots
				slots = sortedUnique(append(append([]int(nil), slots...), victim))
				k1 := step()
				es = append(es, weEdit{k: k1, kind: 's', arg: slotsArg(slots)})
				if rng.Intn(2) == 0 { // the way the CLI plugin does it: replicas down by one in the same update
					r--
					es = append(es, weEdit{k: k1, kind: 'r', arg: fmt.Sprint(r)})
				}
				if rng.Intn(5) != 0 {
					k2 := step()
					if rng.Intn(2) == 0 {
						slots = before
					} else {
						slots = nil
					}
					es = append(es, weEdit{k: k2, kind: 's', arg: slotsArg(slots)})
					if rng.Intn(2) == 0 {
						r++
						es = append(es, weEdit{k: k2, kind: 'r', arg: fmt.Sprint(r)})
					}
				}
			}
		default: // templates, partitions, scaling, metadata
			for q := 0; q < 1+rng.Intn(3); q++ {
				switch weighted(rng, 40, 15, 20, 15, 10) {
				case 0:
					es = append(es, weEdit{k: step(), kind: 't', arg: other})
					if rng.Intn(4) != 0 {
						es = append(es, weEdit{k: step(), kind: 't', arg: c.tmpl}) // the revert
					}
					q++
				case 1:
					// a template some stored revision may record (X, Y are the other data of the generated stores)
					es = append(es, weEdit{k: step(), kind: 't', arg: pick(rng, "X", "Y", "X", other)})
				case 2:
					es = append(es, weEdit{k: step(), kind: 'u', arg: pick(rng, "none", "0", "0", "1", "2", fmt.Sprint(r))})
				case 3:
					e := scaleEdit()
					e.k = step()
					es = append(es, e)
				default:
					es = append(es, weEdit{k: step(), kind: 'm', arg: pick(rng, "x", "y", "blue")})
				}
			}
		}
		if rng.Intn(6) == 0 {
			es = append(es, weEdit{k: step(), kind: 'm', arg: pick(rng, "x", "y")})
		}
		if len(es) > 5 {
			es = es[:5]
		}
		sort.SliceStable(es, func(x, y int) bool { return es[x].k < es[y].k })
		c.names = weNames(c, es)
		// budget: the last edit's round + the monitor's bound for the largest world the history can produce + 2
		rmax, smax, last := c.r, len(c.slots), 1
		for _, e := range es {
			if e.kind == 'r' && atoi(e.arg) > rmax {
				rmax = atoi(e.arg)
			}
			if e.kind == 's' && e.arg != "-" && len(strings.Split(e.arg, ",")) > smax {
				smax = len(strings.Split(e.arg, ","))
			}
			last = e.k
		}
		budget := last + 4*(rmax+(len(c.pods)+rmax+smax+1)+smax) + 10
		emit(fmt.Sprintf("%d#%s#%s", budget, fmtWeEdits(es), c.line()))
	}
}
