module verif/harness

go 1.23.2

require (
	github.com/pingcap/advanced-statefulset v0.0.0
	github.com/pingcap/advanced-statefulset/client v0.0.0
	k8s.io/api v0.28.14
	k8s.io/apimachinery v0.28.14
	k8s.io/client-go v0.28.14
	k8s.io/klog/v2 v2.110.1
	sigs.k8s.io/yaml v1.3.0
)

require (
	github.com/beorn7/perks v1.0.1 // indirect
	github.com/blang/semver/v4 v4.0.0 // indirect
	github.com/cespare/xxhash/v2 v2.2.0 // indirect
	github.com/davecgh/go-spew v1.1.1 // indirect
	github.com/distribution/reference v0.6.0 // indirect
	github.com/emicklei/go-restful/v3 v3.9.0 // indirect
	github.com/evanphx/json-patch v4.12.0+incompatible // indirect
	github.com/go-logr/logr v1.3.0 // indirect
	github.com/go-openapi/jsonpointer v0.19.6 // indirect
	github.com/go-openapi/jsonreference v0.20.2 // indirect
	github.com/go-openapi/swag v0.22.3 // indirect
	github.com/gogo/protobuf v1.3.2 // indirect
	github.com/golang/groupcache v0.0.0-20210331224755-41bb18bfe9da // indirect
	github.com/golang/protobuf v1.5.4 // indirect
	github.com/google/gnostic-models v0.6.8 // indirect
	github.com/google/go-cmp v0.5.9 // indirect
	github.com/google/gofuzz v1.2.0 // indirect
	github.com/google/uuid v1.3.0 // indirect
	github.com/josharian/intern v1.0.0 // indirect
	github.com/json-iterator/go v1.1.12 // indirect
	github.com/mailru/easyjson v0.7.7 // indirect
	github.com/matttproud/golang_protobuf_extensions v1.0.4 // indirect
	github.com/modern-go/concurrent v0.0.0-20180306012644-bacd9c7ef1dd // indirect
	github.com/modern-go/reflect2 v1.0.2 // indirect
	github.com/munnerz/goautoneg v0.0.0-20191010083416-a7dc8b61c822 // indirect
	github.com/opencontainers/go-digest v1.0.0 // indirect
	github.com/pkg/errors v0.9.1 // indirect
	github.com/prometheus/client_golang v1.16.0 // indirect
	github.com/prometheus/client_model v0.4.0 // indirect
	github.com/prometheus/common v0.44.0 // indirect
	github.com/prometheus/procfs v0.10.1 // indirect
	github.com/spf13/pflag v1.0.5 // indirect
	golang.org/x/net v0.23.0 // indirect
	golang.org/x/oauth2 v0.8.0 // indirect
	golang.org/x/sys v0.18.0 // indirect
	golang.org/x/term v0.18.0 // indirect
	golang.org/x/text v0.14.0 // indirect
	golang.org/x/time v0.3.0 // indirect
	google.golang.org/protobuf v1.33.0 // indirect
	gopkg.in/inf.v0 v0.9.1 // indirect
	gopkg.in/yaml.v2 v2.4.0 // indirect
	gopkg.in/yaml.v3 v3.0.1 // indirect
	k8s.io/apiserver v0.28.14 // indirect
	k8s.io/component-base v0.28.14 // indirect
	k8s.io/kube-openapi v0.0.0-20230717233707-2695361300d9 // indirect
	k8s.io/utils v0.0.0-20230406110748-d93618cff8a2 // indirect
	sigs.k8s.io/json v0.0.0-20221116044647-bc3834ca7abd // indirect
	sigs.k8s.io/structured-merge-diff/v4 v4.2.3 // indirect
)

replace github.com/pingcap/advanced-statefulset => /repo

replace github.com/pingcap/advanced-statefulset/client => /repo/client
