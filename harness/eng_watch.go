package main

import (
	"bufio"
	"bytes"
	"context"
	"fmt"
	"io"
	"math/rand"
	"os"
	"os/exec"
	"runtime"
	"strconv"
	"strings"
	"sync"
	"sync/atomic"
	"time"

	appsv1 "k8s.io/api/apps/v1"
	corev1 "k8s.io/api/core/v1"
	apiequality "k8s.io/apimachinery/pkg/api/equality"
	metav1 "k8s.io/apimachinery/pkg/apis/meta/v1"
	k8sruntime "k8s.io/apimachinery/pkg/runtime"
	"k8s.io/apimachinery/pkg/types"
	utilruntime "k8s.io/apimachinery/pkg/util/runtime"
	"k8s.io/apimachinery/pkg/watch"
	kubefake "k8s.io/client-go/kubernetes/fake"
	clienttesting "k8s.io/client-go/testing"

	asv1 "github.com/pingcap/advanced-statefulset/client/apis/apps/v1"
	"github.com/pingcap/advanced-statefulset/client/apis/apps/v1/helper"
	asfake "github.com/pingcap/advanced-statefulset/client/client/clientset/versioned/fake"
)

// Engine "watch" (C20): the relay goroutine behind `helper.NewHijackClient(...).AppsV1().StatefulSets(ns).Watch(...)`,
// driven by a script of external actions over a controllable source (an unbuffered channel; its Stop releases a blocked
// sender and then closes the channel, like client-go's StreamWatcher).
//
//	case: comma separated actions
//	        <T><K>  the source offers an event of type T in {A Added, M Modified, D Deleted, B Bookmark, E Error} whose payload
//	                is K in {s *asv1.StatefulSet, t *metav1.Status, o some other object (*corev1.Pod)}; the i-th send action of
//	                the script (0-based, counting dropped ones) carries the identifier i (object name "s<i>", replicas i)
//	        C       the source ends (a blocked send is withdrawn, the channel is closed)
//	        R       the consumer tries to receive from ResultChan()
//	        S       the consumer calls Stop()
//	obs : res=<r1>,<r2>,... relay=alive|gone final=<r> closed=0|1 panic=0|1 [unsettled=<why>] [crashed=1] [site=<panic value>]
//	        send:  taken (the relay received it) | offered (the source is blocked in its send) | dropped (the source is closed or still
//	               blocked in an earlier send: nothing was offered)
//	        C, S:  done | blocked | panic
//	        R:     got:<T><K'><id> | closed | blocked, with K' in {s built-in *appsv1.StatefulSet equal to the expected conversion,
//	               x built-in set that differs from it, a unconverted *asv1.StatefulSet, t Status, o Pod, n nil, ? anything else}
//	        a suffix "+t" on any result: while the relay settled after this action the source's blocked send completed
//	      after every action the engine waits until the relay goroutine is parked (stack scan for the frame
//	      `hijackWatch).receive`: chan receive / chan send / select) or gone. `final` is one more receive attempt made after the
//	      relay's liveness was recorded; `closed` says whether it found the channel closed. `unsettled` appears when the relay did
//	      not come to rest within the timeout (three attempts), `crashed=1` when the code under test killed the worker process.
func init() {
	engines["watch"] = &Engine{Gen: genWatch, Enum: enumWatch, Run: runWatchSupervised, Serve: runWatch, Serial: true}
	engines["watchpinned"] = engines["watch"] // same engine; the Lean driver compares it with the model of the unrepaired relay
}

const (
	watchSettleTimeout = 3 * time.Second
	watchRelayFrame    = "hijackWatch).receive"
	// a goroutine that has not run yet shows only its `go` wrapper (newHijackWatch.gowrap1), so the relay is also recognised by its creator
	watchRelayCreator = "created by github.com/pingcap/advanced-statefulset/client/apis/apps/v1/helper."
	watchSenderFrame  = "watchSendLoop"
)

// ---------------------------------------------------------------- supervisor
//
// The relay runs on a goroutine of the code under test: a panic there that `HandleCrash` does not cover (for instance in a
// deferred call) kills the process and cannot be recovered by the harness. So `run` plays the scripts in a child process
// (`harness watch serve`) and reports the death of that process as an observation of the script that caused it.

type watchChild struct {
	cmd    *exec.Cmd
	in     io.WriteCloser
	out    *bufio.Reader
	errBuf *bytes.Buffer
	served int
}

var watchWorker *watchChild

const (
	watchChildTimeout = 20 * time.Second
	watchChildRecycle = 4000 // cases per child: bounds what mutated code can leave behind
)

func startWatchChild() (*watchChild, error) {
	exe, err := os.Executable()
	if err != nil {
		return nil, err
	}
	c := &watchChild{cmd: exec.Command(exe, "watch", "serve"), errBuf: &bytes.Buffer{}}
	c.cmd.Stderr = c.errBuf
	if c.in, err = c.cmd.StdinPipe(); err != nil {
		return nil, err
	}
	outp, err := c.cmd.StdoutPipe()
	if err != nil {
		return nil, err
	}
	c.out = bufio.NewReaderSize(outp, 1<<16)
	if err = c.cmd.Start(); err != nil {
		return nil, err
	}
	return c, nil
}

func (c *watchChild) kill() {
	c.in.Close()
	_ = c.cmd.Process.Kill()
	_ = c.cmd.Wait()
}

func runWatchSupervised(line string) string {
	if watchWorker != nil && watchWorker.served >= watchChildRecycle {
		watchWorker.kill()
		watchWorker = nil
	}
	if watchWorker == nil {
		c, err := startWatchChild()
		if err != nil {
			return "harness-error:" + sanitize(err.Error())
		}
		watchWorker = c
	}
	c := watchWorker
	c.served++
	type reply struct {
		s   string
		err error
	}
	ch := make(chan reply, 1)
	go func() {
		if _, err := io.WriteString(c.in, line+"\n"); err != nil {
			ch <- reply{"", err}
			return
		}
		s, err := c.out.ReadString('\n')
		ch <- reply{strings.TrimRight(s, "\n"), err}
	}()
	what := "process-died"
	select {
	case r := <-ch:
		if r.err == nil {
			return r.s
		}
	case <-time.After(watchChildTimeout):
		what = "process-hung"
	}
	c.kill()
	watchWorker = nil
	msg := c.errBuf.String()
	if i := strings.IndexByte(msg, '\n'); i >= 0 {
		msg = msg[:i]
	}
	// the process is gone: nothing was received, the relay no longer exists, and a panic did it
	return "res= relay=gone final=closed closed=1 panic=1 crashed=1 site=" + strings.ReplaceAll(sanitize(what+":"+msg), " ", "_")
}

// ---------------------------------------------------------------- controllable source

type ctlSource struct {
	mu     sync.Mutex
	ch     chan watch.Event
	stopCh chan struct{}
	closed bool
	sender *ctlSender // the blocked (or finished, not yet collected) send
}

type ctlSender struct {
	exit chan struct{}
	sent bool // valid after exit is closed
}

func newCtlSource() *ctlSource {
	return &ctlSource{ch: make(chan watch.Event), stopCh: make(chan struct{})}
}

func (s *ctlSource) ResultChan() <-chan watch.Event { return s.ch }

// Stop is what the relay (or the consumer through the relay) calls; it is also how the script ends the source.
func (s *ctlSource) Stop() {
	s.mu.Lock()
	defer s.mu.Unlock()
	if s.closed {
		return
	}
	s.closed = true
	close(s.stopCh)
	if s.sender != nil {
		<-s.sender.exit
	}
	close(s.ch)
}

func (s *ctlSource) isClosed() bool {
	s.mu.Lock()
	defer s.mu.Unlock()
	return s.closed
}

func watchSendLoop(s *ctlSource, snd *ctlSender, ev watch.Event) {
	defer close(snd.exit)
	select {
	case s.ch <- ev:
		snd.sent = true
	case <-s.stopCh:
	}
}

// offer starts the source's send; false when the source cannot offer anything now.
func (s *ctlSource) offer(ev watch.Event) bool {
	s.mu.Lock()
	defer s.mu.Unlock()
	if s.closed || s.sender != nil {
		return false
	}
	s.sender = &ctlSender{exit: make(chan struct{})}
	go watchSendLoop(s, s.sender, ev)
	return true
}

// collect reports (finished, sent) for the outstanding send and forgets it when finished.
func (s *ctlSource) collect() (bool, bool) {
	s.mu.Lock()
	defer s.mu.Unlock()
	if s.sender == nil {
		return false, false
	}
	select {
	case <-s.sender.exit:
		sent := s.sender.sent
		s.sender = nil
		return true, sent
	default:
		return false, false
	}
}

func (s *ctlSource) senderOutstanding() bool {
	s.mu.Lock()
	defer s.mu.Unlock()
	if s.sender == nil {
		return false
	}
	select {
	case <-s.sender.exit:
		return false
	default:
		return true
	}
}

// ---------------------------------------------------------------- goroutine scans

type gInfo struct {
	id    int
	state string
}

var watchStackBuf = make([]byte, 1<<16)

// scanGoroutines returns, per group of alternative markers (separated by "|"), the goroutines whose stack mentions one of them.
func scanGoroutines(frames ...string) [][]gInfo {
	for {
		n := runtime.Stack(watchStackBuf, true)
		if n < len(watchStackBuf) {
			return parseGoroutines(watchStackBuf[:n], frames)
		}
		watchStackBuf = make([]byte, 2*len(watchStackBuf))
	}
}

func parseGoroutines(dump []byte, frames []string) [][]gInfo {
	out := make([][]gInfo, len(frames))
	for _, blk := range bytes.Split(dump, []byte("\n\n")) {
		if !bytes.HasPrefix(blk, []byte("goroutine ")) {
			continue
		}
		nl := bytes.IndexByte(blk, '\n')
		if nl < 0 {
			continue
		}
		for fi, f := range frames {
			hit := false
			for _, alt := range strings.Split(f, "|") {
				hit = hit || bytes.Contains(blk[nl:], []byte(alt))
			}
			if !hit {
				continue
			}
			head := string(blk[len("goroutine "):nl])
			sp := strings.IndexByte(head, ' ')
			if sp < 0 {
				continue
			}
			id, _ := strconv.Atoi(head[:sp])
			st := head[sp+1:]
			st = strings.TrimPrefix(st, "[")
			if i := strings.IndexAny(st, ",]"); i >= 0 {
				st = st[:i]
			}
			out[fi] = append(out[fi], gInfo{id, st})
		}
	}
	return out
}

func parkedState(st string) bool {
	return strings.HasPrefix(st, "chan receive") || strings.HasPrefix(st, "chan send") || strings.HasPrefix(st, "select")
}

// ---------------------------------------------------------------- one case

type watchRun struct {
	src         *ctlSource
	w           watch.Interface
	leftover    map[int]bool // relay goroutines of earlier cases that could not be released
	unsettle    bool
	unsettleWhy string
}

var (
	watchOnce     sync.Once
	watchClient   appsStatefulSetsGetter
	watchCurSrc   *ctlSource
	watchPanicMu  sync.Mutex
	watchPanicked []string
)

type appsStatefulSetsGetter interface {
	Watch(ctx context.Context, opts metav1.ListOptions) (watch.Interface, error)
}

func watchSetup() {
	utilruntime.ReallyCrash = false
	utilruntime.PanicHandlers = []func(interface{}){func(r interface{}) {
		watchPanicMu.Lock()
		watchPanicked = append(watchPanicked, fmt.Sprint(r))
		watchPanicMu.Unlock()
	}}
	as := asfake.NewSimpleClientset()
	as.PrependWatchReactor("statefulsets", func(action clienttesting.Action) (bool, watch.Interface, error) {
		return true, watchCurSrc, nil
	})
	watchClient = helper.NewHijackClient(kubefake.NewSimpleClientset(), as).AppsV1().StatefulSets("ns")
}

// relayState: "" when our relay goroutine is gone.
func (r *watchRun) relayState() (string, bool, string) {
	g := scanGoroutines(watchRelayFrame+"|"+watchRelayCreator, watchSenderFrame)
	relay := ""
	for _, gi := range g[0] {
		if !r.leftover[gi.id] {
			relay = gi.state
		}
	}
	sender := ""
	if len(g[1]) > 0 {
		sender = g[1][0].state
	}
	return relay, len(g[1]) > 0, sender
}

// settle waits until the relay is parked or gone and the source's send (if any) is finished or parked.
func (r *watchRun) settle() (relayAlive bool) {
	deadline := time.Now().Add(watchSettleTimeout)
	for i := 0; ; i++ {
		relay, hasSender, sender := r.relayState()
		outstanding := r.src.senderOutstanding()
		senderQuiet := (!outstanding && !hasSender) || (outstanding && hasSender && parkedState(sender))
		if (relay == "" || parkedState(relay)) && senderQuiet {
			// the two reads (scan, outstanding) are not atomic: confirm with a second identical scan
			relay2, hasSender2, sender2 := r.relayState()
			if relay2 == relay && hasSender2 == hasSender && sender2 == sender && r.src.senderOutstanding() == outstanding {
				return relay != ""
			}
			continue
		}
		if time.Now().After(deadline) {
			r.unsettle = true
			r.unsettleWhy = strings.ReplaceAll(fmt.Sprintf("relay:%s/sender:%v:%s/outstanding:%v/iter:%d", relay, hasSender, sender, outstanding, i), " ", "_")
			return relay != ""
		}
		if i < 200 {
			runtime.Gosched()
		} else {
			time.Sleep(20 * time.Microsecond)
		}
	}
}

func watchEventType(c byte) watch.EventType {
	switch c {
	case 'A':
		return watch.Added
	case 'M':
		return watch.Modified
	case 'D':
		return watch.Deleted
	case 'B':
		return watch.Bookmark
	default:
		return watch.Error
	}
}

func watchTypeChar(t watch.EventType) byte {
	switch t {
	case watch.Added:
		return 'A'
	case watch.Modified:
		return 'M'
	case watch.Deleted:
		return 'D'
	case watch.Bookmark:
		return 'B'
	case watch.Error:
		return 'E'
	}
	return '?'
}

// watchMeta: metadata as an API server hands it out (uid, resource version, creation time, managed fields, owner
// references, finalizers; every third object is being deleted). The relayed object must carry all of it.
func watchMeta(id int) metav1.ObjectMeta {
	t := true
	m := metav1.ObjectMeta{
		Name: "s" + strconv.Itoa(id), Namespace: "ns", Generation: int64(id + 1),
		UID: types.UID("uid-" + strconv.Itoa(id)), ResourceVersion: strconv.Itoa(1000 + id),
		CreationTimestamp: metav1.NewTime(time.Date(2021, 2, 3, 4, 5, id%60, 0, time.UTC)),
		Labels:            map[string]string{"app": "db", "n": strconv.Itoa(id)},
		Annotations:       map[string]string{helper.DeleteSlotsAnn: "[" + strconv.Itoa(id) + "]"},
		OwnerReferences:   []metav1.OwnerReference{{APIVersion: "pingcap.com/v1alpha1", Kind: "TidbCluster", Name: "tc", UID: "uid-tc", Controller: &t}},
		Finalizers:        []string{"example.com/hold"},
		ManagedFields: []metav1.ManagedFieldsEntry{{Manager: "kubectl", Operation: metav1.ManagedFieldsOperationApply, APIVersion: "apps/v1",
			Time: &metav1.Time{Time: time.Date(2021, 2, 3, 4, 5, 6, 0, time.UTC)}, FieldsType: "FieldsV1",
			FieldsV1: &metav1.FieldsV1{Raw: []byte(`{"f:spec":{"f:replicas":{}}}`)}}},
	}
	if id%3 == 2 {
		d := metav1.NewTime(time.Date(2022, 1, 1, 0, 0, 0, 0, time.UTC))
		g := int64(30)
		m.DeletionTimestamp, m.DeletionGracePeriodSeconds = &d, &g
	}
	return m
}

func watchTemplate(id int) corev1.PodTemplateSpec {
	return corev1.PodTemplateSpec{
		ObjectMeta: metav1.ObjectMeta{Labels: map[string]string{"app": "db"}},
		Spec:       corev1.PodSpec{Containers: []corev1.Container{{Name: "c", Image: "img:" + strconv.Itoa(id)}}},
	}
}

func watchAsSet(id int) *asv1.StatefulSet {
	rep := int32(id)
	return &asv1.StatefulSet{
		TypeMeta:   metav1.TypeMeta{Kind: "StatefulSet", APIVersion: asv1.SchemeGroupVersion.String()},
		ObjectMeta: watchMeta(id),
		Spec: asv1.StatefulSetSpec{
			Replicas: &rep, ServiceName: "svc" + strconv.Itoa(id),
			Selector: &metav1.LabelSelector{MatchLabels: map[string]string{"app": "db"}},
			Template: watchTemplate(id), PodManagementPolicy: asv1.ParallelPodManagement,
		},
		Status: asv1.StatefulSetStatus{Replicas: int32(id), ReadyReplicas: int32(id / 2), CurrentRevision: "rev-" + strconv.Itoa(id)},
	}
}

// watchBuiltinSet is written out independently of the conversion under test.
func watchBuiltinSet(id int) *appsv1.StatefulSet {
	rep := int32(id)
	return &appsv1.StatefulSet{
		TypeMeta:   metav1.TypeMeta{Kind: "StatefulSet", APIVersion: "apps/v1"},
		ObjectMeta: watchMeta(id),
		Spec: appsv1.StatefulSetSpec{
			Replicas: &rep, ServiceName: "svc" + strconv.Itoa(id),
			Selector: &metav1.LabelSelector{MatchLabels: map[string]string{"app": "db"}},
			Template: watchTemplate(id), PodManagementPolicy: appsv1.ParallelPodManagement,
		},
		Status: appsv1.StatefulSetStatus{Replicas: int32(id), ReadyReplicas: int32(id / 2), CurrentRevision: "rev-" + strconv.Itoa(id)},
	}
}

func watchPayload(k byte, id int) k8sruntime.Object {
	switch k {
	case 's':
		return watchAsSet(id)
	case 't':
		return &metav1.Status{TypeMeta: metav1.TypeMeta{Kind: "Status", APIVersion: "v1"}, Status: metav1.StatusFailure,
			Message: "s" + strconv.Itoa(id), Reason: metav1.StatusReasonExpired, Code: 410}
	default:
		return &corev1.Pod{ObjectMeta: metav1.ObjectMeta{Name: "s" + strconv.Itoa(id), Namespace: "ns"}}
	}
}

func watchIdOf(name string) string {
	if strings.HasPrefix(name, "s") {
		if _, err := strconv.Atoi(name[1:]); err == nil {
			return name[1:]
		}
	}
	return "?"
}

func watchDescribe(ev watch.Event) string {
	t := string(watchTypeChar(ev.Type))
	switch o := ev.Object.(type) {
	case nil:
		return "got:" + t + "n?"
	case *appsv1.StatefulSet:
		id := watchIdOf(o.Name)
		k := "x"
		if n, err := strconv.Atoi(id); err == nil && apiequality.Semantic.DeepEqual(o, watchBuiltinSet(n)) {
			k = "s"
		}
		return "got:" + t + k + id
	case *asv1.StatefulSet:
		return "got:" + t + "a" + watchIdOf(o.Name)
	case *metav1.Status:
		return "got:" + t + "t" + watchIdOf(o.Message)
	case *corev1.Pod:
		return "got:" + t + "o" + watchIdOf(o.Name)
	}
	return "got:" + t + "??"
}

func (r *watchRun) tryRecv() string {
	select {
	case ev, ok := <-r.w.ResultChan():
		if !ok {
			return "closed"
		}
		return watchDescribe(ev)
	default:
		return "blocked"
	}
}

// watchConcurrently runs f on n goroutines released from a spin barrier and waits for all of them; a panic in any of them is
// re-raised on the caller.
func watchConcurrently(n int, f func()) {
	var ready, goFlag int32
	var wg sync.WaitGroup
	var mu sync.Mutex
	var failure interface{}
	for i := 0; i < n; i++ {
		wg.Add(1)
		go func() {
			defer wg.Done()
			defer func() {
				if r := recover(); r != nil {
					mu.Lock()
					failure = r
					mu.Unlock()
				}
			}()
			atomic.AddInt32(&ready, 1)
			for atomic.LoadInt32(&goFlag) == 0 {
			}
			f()
		}()
	}
	for atomic.LoadInt32(&ready) < int32(n) {
		runtime.Gosched()
	}
	atomic.StoreInt32(&goFlag, 1)
	wg.Wait()
	if failure != nil {
		panic(failure)
	}
}

// guarded runs f on its own goroutine: done | panic | blocked
func watchGuarded(f func()) string {
	res := make(chan string, 1)
	go func() {
		defer func() {
			if p := recover(); p != nil {
				res <- "panic"
				return
			}
			res <- "done"
		}()
		f()
	}()
	select {
	case s := <-res:
		return s
	case <-time.After(watchSettleTimeout):
		return "blocked"
	}
}

// runWatch plays one script. A run in which the relay did not come to rest within the settle timeout (a stalled CPU of the
// machine; observed about once in 10^5 scripts) is played again, at most twice; what is reported then is the last attempt.
func runWatch(line string) string {
	obs, unsettled := runWatchOnce(line)
	for attempt := 0; unsettled && attempt < 2; attempt++ {
		obs, unsettled = runWatchOnce(line)
	}
	return obs
}

func runWatchOnce(line string) (string, bool) {
	watchOnce.Do(watchSetup)
	var acts []string
	if line != "-" {
		acts = strings.Split(line, ",")
	}
	for _, a := range acts {
		ok := a == "C" || a == "R" || a == "S" ||
			(len(a) == 2 && strings.IndexByte("AMDBE", a[0]) >= 0 && strings.IndexByte("sto", a[1]) >= 0)
		if !ok {
			return "bad-case", false
		}
	}
	watchPanicMu.Lock()
	watchPanicked = nil
	watchPanicMu.Unlock()

	r := &watchRun{src: newCtlSource(), leftover: map[int]bool{}}
	for _, gi := range scanGoroutines(watchRelayFrame + "|" + watchRelayCreator)[0] {
		r.leftover[gi.id] = true
	}
	watchCurSrc = r.src
	w, err := watchClient.Watch(context.TODO(), metav1.ListOptions{})
	if err != nil {
		return "watch-error:" + sanitize(err.Error()), false
	}
	r.w = w
	r.settle()

	res := make([]string, 0, len(acts))
	sendID := 0
	for _, a := range acts {
		var out string
		switch {
		case a == "C":
			out = watchGuarded(r.src.Stop)
		case a == "S":
			// the consumer's Stop, issued from four goroutines released together: Stop must be safe to call concurrently
			// (the model's Stop is atomic and idempotent, so this is one Stop to it)
			out = watchGuarded(func() { watchConcurrently(4, r.w.Stop) })
		case a == "R":
			out = r.tryRecv()
		default:
			id := sendID
			sendID++
			if r.src.offer(watch.Event{Type: watchEventType(a[0]), Object: watchPayload(a[1], id)}) {
				out = "offered"
			} else {
				out = "dropped"
			}
		}
		r.settle()
		if fin, sent := r.src.collect(); fin && sent {
			if out == "offered" {
				out = "taken"
			} else {
				out += "+t"
			}
		}
		res = append(res, out)
	}
	alive := r.settle()
	watchPanicMu.Lock()
	panicked := append([]string(nil), watchPanicked...)
	watchPanicMu.Unlock()
	final := r.tryRecv()

	var b strings.Builder
	b.WriteString("res=" + strings.Join(res, ","))
	if alive {
		b.WriteString(" relay=alive")
	} else {
		b.WriteString(" relay=gone")
	}
	b.WriteString(" final=" + final)
	b.WriteString(" closed=" + b2s(final == "closed"))
	b.WriteString(" panic=" + b2s(len(panicked) > 0))
	if r.unsettle {
		b.WriteString(" unsettled=" + r.unsettleWhy)
	}
	if len(panicked) > 0 {
		b.WriteString(" site=" + strings.ReplaceAll(sanitize(panicked[0]), " ", "_"))
	}
	r.cleanup()
	return b.String(), r.unsettle
}

// cleanup releases whatever the case left behind so that goroutines do not accumulate: stop, end the source, drain the result.
func (r *watchRun) cleanup() {
	watchGuarded(r.w.Stop)
	watchGuarded(r.src.Stop)
	deadline := time.Now().Add(watchSettleTimeout)
	for {
		relay, _, _ := r.relayState()
		if relay == "" {
			return
		}
		select {
		case <-r.w.ResultChan():
		default:
		}
		if time.Now().After(deadline) {
			return
		}
		runtime.Gosched()
	}
}

// ---------------------------------------------------------------- generators

var watchTypes = []byte("AMDBE")

func genWatchSend(rng *rand.Rand) string {
	t := watchTypes[weighted(rng, 30, 20, 15, 10, 25)]
	var k byte
	switch t {
	case 'E':
		k = "tso"[weighted(rng, 80, 10, 10)]
	case 'B':
		k = "sot"[weighted(rng, 70, 20, 10)]
	default:
		k = "sto"[weighted(rng, 85, 8, 7)]
	}
	return string([]byte{t, k})
}

func genWatchScript(rng *rand.Rand) string {
	n := 1 + rng.Intn(8)
	acts := make([]string, 0, n)
	switch weighted(rng, 45, 35, 20) {
	case 0: // uniform-ish over the alphabet
		for len(acts) < n {
			wStop, wEnd := 13, 12
			if len(acts) < 2 { // an early Stop or source end makes the rest of the script idle
				wStop, wEnd = 4, 3
			}
			switch weighted(rng, 40, 35, wStop, wEnd) {
			case 0:
				acts = append(acts, genWatchSend(rng))
			case 1:
				acts = append(acts, "R")
			case 2:
				acts = append(acts, "S")
			default:
				acts = append(acts, "C")
			}
		}
	case 1: // a producer/consumer flow that ends with Stop or source end, then a tail
		cut := 1 + rng.Intn(n)
		for len(acts) < cut {
			if len(acts) == 0 && rng.Intn(4) != 0 {
				acts = append(acts, genWatchSend(rng))
				continue
			}
			if rng.Intn(2) == 0 {
				acts = append(acts, genWatchSend(rng))
			} else {
				acts = append(acts, "R")
			}
		}
		if len(acts) < n {
			acts = append(acts, pick(rng, "S", "C", "S"))
		}
		for len(acts) < n {
			acts = append(acts, pick(rng, "R", "R", "S", "C", genWatchSend(rng)))
		}
	default: // error events in the stream
		for len(acts) < n {
			switch weighted(rng, 25, 25, 35, 10, 5) {
			case 0:
				acts = append(acts, pick(rng, "Et", "Et", "Bo", "Bs", "Es", "At", "Mo"))
			case 1:
				acts = append(acts, genWatchSend(rng))
			case 2:
				acts = append(acts, "R")
			case 3:
				acts = append(acts, "S")
			default:
				acts = append(acts, "C")
			}
		}
	}
	return strings.Join(acts, ",")
}

func genWatch(rng *rand.Rand, n int, emit func(string)) {
	for i := 0; i < n; i++ {
		emit(genWatchScript(rng))
	}
}

// enumWatch: every script of length 1..L over {As, Et, Bo, C, R, S}; scope = L ("3", "4", "5"), default 4.
// Scope "<L>x" uses the wider alphabet {As, Ms, Ds, Bs, Et, Bo, C, R, S}.
func enumWatch(scope string, emit func(string)) {
	alpha := []string{"As", "Et", "Bo", "C", "R", "S"}
	if strings.HasSuffix(scope, "x") {
		alpha = []string{"As", "Ms", "Ds", "Bs", "Et", "Bo", "C", "R", "S"}
		scope = strings.TrimSuffix(scope, "x")
	}
	L, err := strconv.Atoi(scope)
	if err != nil || L < 1 {
		L = 4
	}
	var rec func(prefix []string, left int)
	rec = func(prefix []string, left int) {
		if len(prefix) > 0 {
			emit(strings.Join(prefix, ","))
		}
		if left == 0 {
			return
		}
		for _, a := range alpha {
			rec(append(prefix, a), left-1)
		}
	}
	rec(nil, L)
}
