package main

import (
	"fmt"
	"math/rand"
	"sort"
	"strings"

	kubeapps "k8s.io/api/apps/v1"
	v1 "k8s.io/api/core/v1"
	metav1 "k8s.io/apimachinery/pkg/apis/meta/v1"
	"k8s.io/apimachinery/pkg/runtime/schema"
	corelisters "k8s.io/client-go/listers/core/v1"
	"k8s.io/client-go/tools/cache"
	"k8s.io/client-go/tools/record"

	apps "github.com/pingcap/advanced-statefulset/client/apis/apps/v1"
	appslisters "github.com/pingcap/advanced-statefulset/client/client/listers/apps/v1"
	sts "github.com/pingcap/advanced-statefulset/pkg/controller/statefulset"
)

// Engine "world": rounds of (settle; sync) of the real controller on one persistent fake API world.
//
//	settle = the fairness premise of C02 made executable: caches := API, terminating pods vanish, every other pod that is
//	         not Failed/Succeeded becomes Running and Ready. Pod deletes are graceful (a deletion timestamp until settle).
//	case: <rounds>#<sync case line>      (the sync case gives the initial world; its fault plan applies to round 1 only)
//	obs : n=<rounds run> then per round j: s<j>=<out>/<writes>/<pods>/<revs>/<status>, then tb=<created pods built from the wrong template>
//	      pods = name:owner:sel:phase:ready:term:rev:idOk;...   revs = name:number:owner:sel:marker:data;...  (state AFTER the sync of round j)
func init() {
	engines["world"] = &Engine{Gen: genWorld, Run: runWorld}
}

var podsGVR = schema.GroupVersionResource{Version: "v1", Resource: "pods"}
var podsGVK = schema.GroupVersionKind{Version: "v1", Kind: "Pod"}
var setsGVR = schema.GroupVersionResource{Group: "apps.pingcap.com", Version: "v1", Resource: "statefulsets"}

func (w *syWorld) apiPods() []*v1.Pod {
	objs, err := w.kube.Tracker().List(podsGVR, podsGVK, rcNS)
	if err != nil {
		panic(err)
	}
	l := objs.(*v1.PodList)
	var out []*v1.Pod
	for i := range l.Items {
		out = append(out, l.Items[i].DeepCopy())
	}
	sort.Slice(out, func(i, j int) bool { return out[i].Name < out[j].Name })
	return out
}

func (w *syWorld) apiSet() *apps.StatefulSet {
	obj, err := w.pc.Tracker().Get(setsGVR, rcNS, rcSetName)
	if err != nil {
		return nil
	}
	return obj.(*apps.StatefulSet).DeepCopy()
}

// settle: terminating pods vanish; every pod that is not Failed/Succeeded becomes Running and Ready.
func (w *syWorld) settle() {
	for _, p := range w.apiPods() {
		if p.DeletionTimestamp != nil {
			_ = w.kube.Tracker().Delete(podsGVR, rcNS, p.Name)
			continue
		}
		if p.Status.Phase == v1.PodFailed || p.Status.Phase == v1.PodSucceeded {
			continue
		}
		p.Status.Phase = v1.PodRunning
		p.Status.Conditions = []v1.PodCondition{{Type: v1.PodReady, Status: v1.ConditionTrue}}
		_ = w.kube.Tracker().Update(podsGVR, p, rcNS)
	}
}

// refresh: the caches catch up with the API. The controller object lives on from round to round, as the process does (whatever it
// remembers between reconciles stays remembered); only after a crash is it built anew (restart).
func (w *syWorld) refresh(restart bool) {
	set := w.apiSet()
	w.cached = set
	w.cpods = w.apiPods()
	if restart || w.podLister == nil || w.setIdx == nil {
		setIdx := cache.NewIndexer(cache.MetaNamespaceKeyFunc, cache.Indexers{cache.NamespaceIndex: cache.MetaNamespaceIndexFunc})
		w.setIdx = setIdx
		w.podLister = &orderedPodLister{w.cpods}
		pvcIdx := cache.NewIndexer(cache.MetaNamespaceKeyFunc, cache.Indexers{cache.NamespaceIndex: cache.MetaNamespaceIndexFunc})
		w.ctl = sts.VerifNewController(w.kube, w.pc, appslisters.NewStatefulSetLister(setIdx), w.podLister,
			corelisters.NewPersistentVolumeClaimLister(pvcIdx), record.NewFakeRecorder(10000))
	}
	var objs []interface{}
	if set != nil {
		objs = append(objs, set)
	}
	_ = w.setIdx.Replace(objs, "")
	w.podLister.pods = w.cpods
}

func podDigest(p *v1.Pod, selAll bool) string {
	owner := "n"
	if ref := metav1.GetControllerOf(p); ref != nil {
		if ref.UID == syUID {
			owner = "s"
		} else {
			owner = "o"
		}
	}
	ready := false
	for _, c := range p.Status.Conditions {
		if c.Type == v1.PodReady && c.Status == v1.ConditionTrue {
			ready = true
		}
	}
	ph := "N"
	switch p.Status.Phase {
	case v1.PodPending:
		ph = "P"
	case v1.PodRunning:
		ph = "R"
	case v1.PodSucceeded:
		ph = "S"
	case v1.PodFailed:
		ph = "F"
	case v1.PodUnknown:
		ph = "U"
	}
	return fmt.Sprintf("%s:%s:%s:%s:%s:%s:%s:%s", p.Name, owner, b2s(selAll || p.Labels["app"] == rcSetName), ph, b2s(ready), b2s(p.DeletionTimestamp != nil),
		p.Labels[kubeapps.StatefulSetRevisionLabel], b2s(p.Labels[apps.StatefulSetPodNameLabel] == p.Name))
}

// worldRound: one round (settle; refresh; sync) of the world, its observation token `s<j>=...`, the outcome and the number of writes.
// `crashed` says whether the previous round ended in a crash (the controller object is then built anew) and is updated.
func (w *syWorld) worldRound(c *syCase, j int, crashed *bool) (part string, out string, writes int) {
	w.settle()
	w.refresh(*crashed)
	*crashed = false
	w.log = nil
	w.count = map[string]int{}
	if j > 1 {
		w.faults = map[string]string{}
	}
	out = "ok"
	func() {
		defer func() {
			if r := recover(); r != nil {
				if _, isCrash := r.(syCrash); isCrash {
					out = "crash"
					*crashed = true
				} else {
					out = "panic"
				}
			}
		}()
		if err := w.ctl.VerifSync(rcNS + "/" + rcSetName); err != nil {
			out = "err"
		}
	}()
	for _, e := range w.log {
		if !strings.HasPrefix(e, "list:") && !strings.HasPrefix(e, "get:") {
			writes++
		}
	}
	var pd []string
	for _, p := range w.apiPods() {
		pd = append(pd, podDigest(p, c.selAll))
	}
	st := "-"
	if s := w.apiSet(); s != nil {
		st = fmtStatus(&s.Status)
	}
	return fmt.Sprintf("s%d=%s/%d/%s/%s/%s", j, out, writes, strings.Join(pd, ";"), w.finalRevs(c), st), out, writes
}

func runWorld(line string) string {
	i := strings.Index(line, "#")
	if i < 0 {
		return "bad-case"
	}
	rounds := atoi(line[:i])
	c, err := parseSyCase(line[i+1:])
	if err != nil {
		return "bad-case " + err.Error()
	}
	productionCrashSemantics()
	w := buildSyWorld(c)
	w.graceful = true
	var parts []string
	n := 0
	silent := 0
	crashed := false
	for j := 1; j <= rounds; j++ {
		part, out, writes := w.worldRound(c, j, &crashed)
		parts = append(parts, part)
		n = j
		if out == "ok" && writes == 0 {
			silent++
		} else {
			silent = 0
		}
		if silent >= 2 {
			break
		}
	}
	// tb: pods the controller created during the run whose template is not the one recorded by the revision their label names
	return fmt.Sprintf("n=%d %s tb=%d", n, strings.Join(parts, " "), w.tplBad(c))
}

// generation: mostly worlds that satisfy the premises of C02 (valid spec, canonical member pods, nothing squatting on a
// desired name, no Failed pod outside the desired set under OrderedReady), plus a share that does not.
func genWorldCase(rng *rand.Rand) *syCase {
	c := genSyCase(rng)
	hasCorrupt := func(c *syCase) bool {
		for _, r := range c.store {
			if r.data == "R" || r.data == "S" {
				return true
			}
		}
		return false
	}
	for c.claims || hasCorrupt(c) { // the world engine has no claims mode (names and hashes of the case depend on the template) and no unappliable revisions
		c = genSyCase(rng)
	}
	c.fuid, c.fdel = 1, c.del // the world engine starts from cache = API
	// no zero-padded member names over several rounds: the identity repair of such a pod addresses its Update to the canonical
	// name, which the fake API (no uid precondition on Update) lets overwrite ANOTHER pod object; a real API server refuses
	// that write, so what follows is an artefact of the fake (the single-sync engine keeps these names)
	{
		var keep []syPod
		for _, p := range c.pods {
			if p.member && p.ord >= 0 && p.name != fmt.Sprintf("%s-%d", rcSetName, p.ord) {
				continue
			}
			keep = append(keep, p)
		}
		c.pods = keep
	}
	if rng.Intn(5) != 0 {
		c.paused, c.selOk, c.del, c.fuid, c.fdel = 0, true, false, 1, false
		c.pol = pick(rng, "O", "P")
		c.strat = pick(rng, "R", "R", "D")
		if c.ru == "nil" || strings.HasPrefix(c.ru, "-") {
			c.ru = pick(rng, "none", "0", "1")
		}
		var slots []int
		for _, s := range c.slots {
			if s >= 0 {
				slots = append(slots, s)
			}
		}
		c.slots = slots
		d := desiredSet(c.r, c.slots)
		var pods []syPod
		for _, p := range c.pods {
			if !p.member || p.ord < 0 || p.name != fmt.Sprintf("%s-%d", rcSetName, p.ord) {
				continue
			}
			if p.owner == "o" {
				p.owner = "s"
			}
			if p.owner == "O" {
				p.owner = "S"
			}
			p.sel = true
			if c.pol == "O" && (p.phase == "F" || p.phase == "S") && !d[p.ord] {
				p.phase = "R"
				p.ready = true
			}
			pods = append(pods, p)
		}
		c.pods = pods
	}
	return c
}

func genWorld(rng *rand.Rand, n int, emit func(string)) {
	kinds := []string{"conflict", "notfound", "exists", "invalid", "other", "timeout"}
	for i := 0; i < n; i++ {
		c := genWorldCase(rng)
		switch rng.Intn(4) {
		case 0:
			// the process dies at one of the API calls of the first sync (learned from a dry run of one plain sync); the
			// model does not predict the state a crash leaves, so these cases are judged by the monitors only
			log := dryRunSync(c)
			if len(log) > 0 {
				j := rng.Intn(len(log))
				occ := 0
				for _, e := range log[:j] {
					if e == log[j] {
						occ++
					}
				}
				c.faults = []syFault{{key: log[j], occ: occ, kind: "crash"}}
			}
		case 1:
			// one or two failing calls in the first sync
			log := dryRunSync(c)
			for k := 0; k < 1+rng.Intn(2) && len(log) > 0; k++ {
				j := rng.Intn(len(log))
				occ := 0
				for _, e := range log[:j] {
					if e == log[j] {
						occ++
					}
				}
				if occ > 0 && (strings.HasPrefix(log[j], "delete:pod:") || strings.HasPrefix(log[j], "create:pod:")) {
					continue
				}
				dup := false
				for _, f := range c.faults {
					if f.key == log[j] && f.occ == occ {
						dup = true
					}
				}
				if !dup {
					c.faults = append(c.faults, syFault{key: log[j], occ: occ, kind: pick(rng, kinds...)})
				}
			}
		}
		// the budget of rounds is the monitor's own bound (Spec.roundBound + 2), at least the 24 of the small worlds
		budget := 4*(c.r+len(c.pods)+len(c.slots)) + 10
		if budget < 24 {
			budget = 24
		}
		emit(fmt.Sprintf("%d#%s", budget, c.line()))
	}
}
