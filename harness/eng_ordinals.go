package main

import (
	"fmt"
	"math/rand"
	"strconv"
	"strings"

	metav1 "k8s.io/apimachinery/pkg/apis/meta/v1"

	"github.com/pingcap/advanced-statefulset/client/apis/apps/v1/helper"
)

// Engine "ordinals": the client helpers that answer questions about the desired ordinal set.
//
//	case: r|kind|hex(raw)      kind = nil (annotation map nil) | absent (map without the key) | raw (value = raw)
//	obs : slots=<sorted> bound=<n> eff=<sorted> ords=<sorted> ords2=<sorted> max=<n> min=<n> next=<ordinals for r+3, same set object> mut=<slot set modified by the helpers?> alias=<answers for a twin object change after the caller modified the returned sets?>
func init() {
	engines["ordinals"] = &Engine{Gen: genOrdinals, Enum: enumOrdinals, Run: runOrdinals}
}

func runOrdinals(line string) string {
	f := strings.Split(line, "|")
	if len(f) != 3 {
		return "bad-case"
	}
	r := int32(atoi(f[0]))
	obj := &metav1.ObjectMeta{}
	switch f[1] {
	case "nil":
	case "absent":
		obj.Annotations = map[string]string{"other": "x"}
	case "raw":
		obj.Annotations = map[string]string{helper.DeleteSlotsAnn: hexDec(f[2]), "other": "x"}
	default:
		return "bad-case"
	}
	slots := helper.GetDeleteSlots(obj)
	parsed := slots.List()
	bound, eff := helper.GetMaxReplicaCountAndDeleteSlots(r, slots)
	ords := helper.GetPodOrdinals(r, obj)
	ords2 := helper.GetPodOrdinalsFromReplicasAndDeleteSlots(r, slots)
	mx := helper.GetMaxPodOrdinal(r, obj)
	mn := helper.GetMinPodOrdinal(r, obj)
	// the helpers must not modify the set they are given: ask again, with the same set object, for a larger replica count
	next := helper.GetPodOrdinalsFromReplicasAndDeleteSlots(r+3, slots)
	mut := joinInt32s(slots.List()) != joinInt32s(parsed)
	// the sets the helpers return belong to the caller (the usual read-modify-write of a client: get, insert, set): changing
	// them must not change what the helpers answer for another object carrying the same annotation
	ordsBefore, ords2Before, effBefore := joinInt32s(ords.List()), joinInt32s(ords2.List()), joinInt32s(eff.List())
	probe := int32(0)
	for slots.Has(probe) {
		probe++
	}
	slots.Insert(probe)
	eff.Insert(probe)
	ords.Delete(probe)
	ords.Insert(1 << 20)
	ords2.Insert(1 << 20)
	twin := &metav1.ObjectMeta{}
	if obj.Annotations != nil {
		twin.Annotations = map[string]string{}
		for k, v := range obj.Annotations {
			twin.Annotations[k] = v
		}
	}
	slotsT := helper.GetDeleteSlots(twin)
	_, effT := helper.GetMaxReplicaCountAndDeleteSlots(r, slotsT)
	alias := joinInt32s(slotsT.List()) != joinInt32s(parsed) || joinInt32s(effT.List()) != effBefore ||
		joinInt32s(helper.GetPodOrdinals(r, twin).List()) != ordsBefore ||
		joinInt32s(helper.GetPodOrdinalsFromReplicasAndDeleteSlots(r, slotsT).List()) != ordsBefore ||
		helper.GetMaxPodOrdinal(r, twin) != mx || helper.GetMinPodOrdinal(r, twin) != mn
	return fmt.Sprintf("slots=%s bound=%d eff=%s ords=%s ords2=%s max=%d min=%d next=%s mut=%s alias=%s",
		joinInt32s(parsed), bound, effBefore, ordsBefore, ords2Before, mx, mn, joinInt32s(next.List()), b2s(mut), b2s(alias))
}

func ordCase(r int, kind, raw string) string {
	return fmt.Sprintf("%d|%s|%s", r, kind, hexEnc(raw))
}

func genSlotValue(rng *rand.Rand, r int) int64 {
	switch weighted(rng, 50, 20, 8, 4, 3, 3) {
	case 0: // inside or just above the range
		return int64(rng.Intn(r + 4))
	case 1: // above
		return int64(r + rng.Intn(3*r+10))
	case 2: // negative small
		return -int64(1 + rng.Intn(4))
	case 3: // int32 extremes
		return pick(rng, int64(2147483647), int64(-2147483648), int64(2147483646), int64(-2147483647))
	case 4: // just outside int32 (malformed for []int32)
		return pick(rng, int64(2147483648), int64(-2147483649), int64(4294967296), int64(9007199254740993))
	default:
		return int64(rng.Intn(3))
	}
}

func ws(rng *rand.Rand) string {
	if rng.Intn(4) != 0 {
		return ""
	}
	return pick(rng, " ", "\t", "\n", "\r", "  ", " \n ")
}

func genValidArray(rng *rand.Rand, r int, allowBig bool) string {
	n := weighted(rng, 10, 20, 20, 15, 10, 10, 5, 5)
	if rng.Intn(60) == 0 { // a long list: past 64, 100, 128 entries
		n = pick(rng, 64, 65, 66, 100, 101, 129, 300)
	}
	var b strings.Builder
	b.WriteString(ws(rng) + "[" + ws(rng))
	for i := 0; i < n; i++ {
		if i > 0 {
			b.WriteString(ws(rng) + "," + ws(rng))
		}
		v := genSlotValue(rng, r)
		if !allowBig && (v > 2147483647 || v < -2147483648) {
			v = int64(rng.Intn(r + 2))
		}
		if rng.Intn(40) == 0 {
			b.WriteString("null")
		} else if v == 0 && rng.Intn(3) == 0 {
			b.WriteString("-0")
		} else {
			b.WriteString(strconv.FormatInt(v, 10))
		}
	}
	b.WriteString(ws(rng) + "]" + ws(rng))
	return b.String()
}

var malformedFixed = []string{
	"", " ", "null", " null ", "nul", "[", "]", "[]", "[ ]", "[,]", "[1,]", "[,1]", "[1 2]", "[1,,2]", "1", "\"1\"", "{}", "{\"a\":1}",
	"[\"1\"]", "[1,\"2\"]", "[[1]]", "[1,[2]]", "[1.0]", "[1.5]", "[1e2]", "[1E0]", "[0x10]", "[01]", "[+1]", "[-]", "[--1]", "[1_000]",
	"[1]x", "[1]\x00", "[1] ]", "[true]", "[false]", "[null]", "[null,null]", "[1,null,2]", "[-0]", "[00]", "[-01]", "[1]\n", "\xef\xbb\xbf[1]",
	"[١]", "[1,2", "1,2]", "[1;2]", "[ 1 , 2 ]", "[\t1\n,\r2 ]", "[2147483647]", "[2147483648]", "[-2147483648]", "[-2147483649]",
	"[99999999999999999999]", "[1e-1]", "[1.0e0]", "[.5]", "[5.]", "[NaN]", "[Infinity]", "[1]//c", "[1]/**/", "[1,2,3,4,5,6,7,8,9,10]",
	"[0]", "[0,0]", "[3,3,3]", "[-1]", "[-1,-2]", "[-2147483648,0]",
}

func genMalformed(rng *rand.Rand, r int) string {
	if rng.Intn(3) == 0 {
		return pick(rng, malformedFixed...)
	}
	s := genValidArray(rng, r, true)
	// mutate one byte
	if len(s) == 0 {
		return s
	}
	bs := []byte(s)
	switch rng.Intn(5) {
	case 0:
		i := rng.Intn(len(bs))
		bs = append(bs[:i], bs[i+1:]...)
	case 1:
		i := rng.Intn(len(bs) + 1)
		c := pick(rng, byte(','), byte('['), byte(']'), byte('-'), byte('.'), byte('e'), byte('"'), byte('0'), byte(' '), byte('x'), byte('n'))
		bs = append(bs[:i], append([]byte{c}, bs[i:]...)...)
	case 2:
		i := rng.Intn(len(bs))
		bs[i] = pick(rng, byte(','), byte('['), byte(']'), byte('-'), byte('.'), byte('"'), byte('0'), byte('9'), byte(' '), byte('a'))
	case 3:
		bs = bs[:rng.Intn(len(bs))]
	default:
	}
	return string(bs)
}

func genOrdinals(rng *rand.Rand, n int, emit func(string)) {
	for i := 0; i < n; i++ {
		r := 0
		switch weighted(rng, 70, 20, 10) {
		case 0:
			r = rng.Intn(12)
		case 1:
			r = rng.Intn(41)
		default:
			r = rng.Intn(2001)
		}
		switch weighted(rng, 3, 3, 74, 20) {
		case 0:
			emit(ordCase(r, "nil", ""))
		case 1:
			emit(ordCase(r, "absent", ""))
		case 2:
			emit(ordCase(r, "raw", genValidArray(rng, r, false)))
		default:
			emit(ordCase(r, "raw", genMalformed(rng, r)))
		}
	}
}

// enumOrdinals: every r <= 6 times every subset of {-2..9} (plus the three annotation-absent shapes), and the fixed malformed list.
func enumOrdinals(scope string, emit func(string)) {
	universe := []int{-2, -1, 0, 1, 2, 3, 4, 5, 6, 7, 8, 9}
	for r := 0; r <= 6; r++ {
		emit(ordCase(r, "nil", ""))
		emit(ordCase(r, "absent", ""))
		for mask := 0; mask < 1<<len(universe); mask++ {
			var xs []string
			for i, u := range universe {
				if mask&(1<<i) != 0 {
					xs = append(xs, strconv.Itoa(u))
				}
			}
			emit(ordCase(r, "raw", "["+strings.Join(xs, ",")+"]"))
		}
		for _, m := range malformedFixed {
			emit(ordCase(r, "raw", m))
		}
	}
}
