"""Registration of the `patch` engine (byte level of revisions: C18 and the byte half of C08)."""
import json


def register(P):

    def _candidates(node, path, out, limit):
        """paths whose removal gives a smaller JSON tree (one member of an object, one element of an array)"""
        if len(out) >= limit:
            return
        if isinstance(node, dict):
            for k in sorted(node):
                out.append(path + [k])
                _candidates(node[k], path + [k], out, limit)
        elif isinstance(node, list):
            for i in range(len(node)):
                out.append(path + [i])
                _candidates(node[i], path + [i], out, limit)

    def _without(tree, path):
        t = json.loads(json.dumps(tree))
        cur = t
        for p in path[:-1]:
            cur = cur[p]
        del cur[path[-1]]
        return t

    def shrink_patch(case):
        # hex(set)|emptify|hex(templateB) or -|rev|cc|edits : drop an edit, the second template, an emptify op, one member / element of the template
        f = case.split("|")
        if len(f) != 6:
            return []
        out = []

        def put(i, v):
            g = list(f)
            g[i] = v
            out.append("|".join(g))
        edits = [e for e in f[5].split(";") if e]
        for k in range(len(edits)):
            put(5, ";".join(edits[:k] + edits[k + 1:]))
        if f[2] != "-":
            put(2, "-")
        ops = [o for o in f[1].split(",") if o]
        for k in range(len(ops)):
            put(1, ",".join(ops[:k] + ops[k + 1:]))
        if f[1] == "":      # container indices of the emptify ops stay valid only if the template is left alone
            try:
                tree = json.loads(bytes.fromhex(f[0]).decode())
                tmpl = tree.get("spec", {}).get("template", {})
                paths = []
                _candidates(tmpl, ["spec", "template"], paths, 400)
                for p in paths:
                    put(0, json.dumps(_without(tree, p), separators=(",", ":"), ensure_ascii=False).encode().hex())
            except Exception:
                pass
        return out

    PATCH_RULE = ("patch: built-in apps/v1 StatefulSets with generated pod templates (labels / free-form annotations, args, env values with <, >, &, quotes, "
                  "backslashes, control characters, U+2028/9, non-BMP characters; 1-3 containers and 0-2 init containers with image, command / args, ports, env "
                  "(value / fieldRef / resourceFieldRef / configMapKeyRef / secretKeyRef), envFrom, resources with quantities in canonical and non-canonical "
                  "spelling, exec / http / tcp / grpc probes, lifecycle hooks, volume mounts, security context; volumes of ten sources; node selector, "
                  "tolerations, affinity, topology spread, grace period nil / 0 / 30 / other, both service-account fields, host network, DNS policy / config, "
                  "priority, overhead, ...; optional maps and slices nil or empty-but-non-nil; a degenerate stream: empty template, no containers, a label "
                  "named $patch), converted with FromBuiltinStatefulSet; 2-7 non-template edits per case over 20 kinds (replicas, delete-slots, pause, other "
                  "annotations / labels, serviceName, status, generation, resourceVersion, update strategy, pod management policy, history limit, uid, "
                  "finalizer, selector, claim templates, minReadySeconds, owner, deletion / creation timestamp), each applied on its own; a third of the "
                  "cases carry a second template (one-field variant / unrelated / equal / empty) and apply the revision the built-in controller would have "
                  "recorded for the first to a set holding the second and all the edits; revision number 0..12, collision count nil or 0..3, set names up to "
                  "230 bytes. Reference = upstream getPatch / newRevision / HashControllerRevision re-implemented on client-go's scheme. thorough adds the "
                  "enumeration `edits` (6 templates x 20 edit kinds x with / without a second template). non-trivial = every well-formed case; distinct = distinct case line")

    C18_FIELDS = ("out", "patch", "same", "refd", "adopt", "hash", "hashref", "name", "nameref", "revmeta", "restoreref", "matchref")
    C08_FIELDS = ("out", "patch", "edits", "match", "matchb", "rs", "restore", "rest")

    def proj_patch_c18(case, o):
        return [o.get(k) for k in C18_FIELDS]

    def proj_patch_c08(case, o):
        return [o.get(k) for k in C08_FIELDS]

    P["ENGINES"]["patch"] = {"trivial_tags": {"bad"}, "shrink": shrink_patch}

    def feat_bigint(engine, case):
        """the encoded set of a `patch` case holds an integer that float64 cannot represent exactly (|n| > 2^53)"""
        if engine != "patch":
            return False
        f = case.split("|")
        try:
            tree = json.loads(bytes.fromhex(f[0]).decode())
        except Exception:
            return False

        def walk(x):
            if isinstance(x, bool):
                return False
            if isinstance(x, int):
                return abs(x) > 2 ** 53
            if isinstance(x, dict):
                return any(walk(v) for v in x.values())
            if isinstance(x, list):
                return any(walk(v) for v in x)
            return False
        return walk(tree)

    P["FEATURES"]["a template integer above 2^53"] = feat_bigint

    ASSUME_INTS = ("every integer of the encoded set is below 2^53 in absolute value (getPatch goes through map[string]interface{}, i.e. float64; the generator "
                   "keeps integers inside the ranges pod validation and Linux accept; the model's numbers are exact)")

    # worlds as the real Upgrade leaves them (marker revisions, orphaned or still foreign-owned pods and revisions, copied status):
    # same case format, runner and model as the sync engine, its own generator
    P["ENGINES"]["syncmig"] = dict(P["ENGINES"]["sync"])

    def proj_mig(case, o):
        return ([e for e in o.get("log", "").split(",") if ":rev:" in e or ":pod:" in e], o.get("revs"), o.get("out"))

    P["PROPS"]["C18"] = {
        "module": "Asts.Props.C18",
        "extra_modules": ["Asts.Props.Glue2"],
        "runs": [{"engine": "patch", "quick": 3000, "thorough": 40000, "enum_thorough": ["edits"], "proj": proj_patch_c18, "extra_seeds": 1},
                 {"engine": "syncmig", "quick": 3000, "thorough": 40000, "proj": proj_mig, "extra_seeds": 1,
                  "clauses": ["C18.", "C08.store", "C10.", "C11.", "C13.", "C03."]},
                 # the general sync worlds add what the migration generator does not vary: a collision count that moved after
                 # the matching revision was recorded, numeric / absent hash labels, engineered name collisions
                 {"engine": "sync", "quick": 4000, "thorough": 40000, "proj": proj_mig, "extra_seeds": 1, "clauses": ["C18."]},
                 # "the FIRST RECONCILES after a migration": several rounds on one controller, status read back from round to round
                 {"engine": "world", "quick": 1500, "thorough": 20000, "proj": (lambda c, o: o.get("n")), "extra_seeds": 1, "clauses": ["C18."]}],
        "rule": PATCH_RULE,
        "assumptions": [
            "the premise of the reduction theorem — the Advanced codec and the built-in codec encode a set to trees with equal spec.template subtree (one Go "
            "type, corev1.PodTemplateSpec, under one JSON encoder) — is SAMPLED by the engine against a reference built from client-go's apps/v1 scheme, not proved",
            ASSUME_INTS,
            "the migration-flow half (marker revisions found, label-synced, adopted, reused; no pod deleted) is covered by the sync / world engines and the "
            "theorems of C10 / C11 / C13 / C03 / C07; here: byte identity of the data, of the hash for collision counts nil and 0..3, of the name, labels and annotations",
        ],
        "trusted": ["re-implementation of upstream getPatch / newRevision / HashControllerRevision in harness/eng_patch.go (k8s.io/kubernetes is not vendored)"],
    }

    # byte half of C08: a second run of the property with the patch engine
    if "C08" in P["PROPS"]:
        P["PROPS"]["C08"]["runs"].append({"engine": "patch", "quick": 2000, "thorough": 40000, "enum_thorough": ["edits"], "proj": proj_patch_c08, "extra_seeds": 1})
        P["PROPS"]["C08"]["rule"] = P["PROPS"]["C08"].get("rule", "") + " || " + PATCH_RULE
        P["PROPS"]["C08"].setdefault("assumptions", []).extend([ASSUME_INTS, "templates have no member named $patch (a PodTemplateSpec has the members metadata and spec)",
                                                                 "struct -> JSON field mapping of the codec and strategicpatch outside the $patch: replace shape are sampled, not modelled"])
        # the byte-level theorems of C08 live in their own module
        P["PROPS"]["C08"].setdefault("extra_modules", []).append("Asts.Props.C08bytes")
