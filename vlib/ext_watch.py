"""Registration of the `watch` engine family (merged from its builder)."""
import re


def register(P):
    _shrink_lists = P["_shrink_lists"]
    proj_all = P["proj_all"]

    def shrink_watch(case):
        # comma separated actions: drop one action
        acts = case.split(",")
        if len(acts) <= 1:
            return []
        return [",".join(acts[:k] + acts[k + 1:]) for k in range(len(acts))]

    P["ENGINES"]["watch"] = {"trivial_tags": {"idle.open", "idle.stop", "idle.srcend", "bad"}, "shrink": shrink_watch}

    P["ENGINES"]["watchpinned"] = {"trivial_tags": {"idle.open", "idle.stop", "idle.srcend", "bad"}, "shrink": shrink_watch}

    P["PROPS"]["C20"] = {
            "module": "Asts.Props.C20",
            "runs": [
                {"engine": "watch", "quick": 600, "thorough": 20000, "enum_quick": ["4"], "enum_thorough": ["5", "4x"], "proj": proj_all},
            ],
            "rule": "watch: scripts of external actions over {source offers an event of type Added/Modified/Deleted/Bookmark/Error with a StatefulSet, Status or "
                    "other payload; source ends; consumer tries to receive; consumer calls Stop}, played against the real relay goroutine opened through "
                    "NewHijackClient(...).AppsV1().StatefulSets(ns).Watch over an unbuffered controllable source, waiting after each action until the relay is "
                    "parked or gone (goroutine stack scan). Random scripts of length 1..8 in three profiles (uniform, producer/consumer flow ending in Stop or "
                    "source end plus a tail, error-heavy); quick adds every script of length <= 4 over {As, Et, Bo, C, R, S}, thorough every script of length <= 5 "
                    "over that alphabet and of length <= 4 over {As, Ms, Ds, Bs, Et, Bo, C, R, S}. non-trivial = the relay took at least one event; distinct = distinct script",
            "assumptions": ["the Go scheduler and memory model are not modelled: each action of the transition system is atomic and the tie is observational "
                            "(scripted schedules, quiescence detected by goroutine stack scans)",
                            "ToBuiltinStatefulSet does not fail on an object served by the API server (its panic(err) is treated as unreachable; conversion itself is C19)"],
            "trusted": ["controllable watch source and goroutine-state scan in harness/eng_watch.go"],
        }
