"""Registration of the `upgrade` engine family (merged from its builder)."""
import re


def register(P):
    _shrink_lists = P["_shrink_lists"]
    proj_all = P["proj_all"]

    def shrink_upgrade(case):
        # name|st|sel|spec|revs|as|plan : drop a revision, a run, a fault, an expression of the selector, the pre-existing Advanced set
        f = case.split("|")
        if len(f) != 7:
            return []
        out = []

        def put(i, v):
            g = list(f)
            g[i] = v
            out.append("|".join(g))
        revs = [r for r in f[4].split(";") if r]
        for k in range(len(revs)):
            put(4, ";".join(revs[:k] + revs[k + 1:]))
        runs = f[6].split(";")
        if len(runs) > 1:
            for k in range(len(runs)):
                put(6, ";".join(runs[:k] + runs[k + 1:]))
        for k, run in enumerate(runs):
            faults = [x for x in run.split(",") if x]
            for j in range(len(faults)):
                put(6, ";".join(runs[:k] + [",".join(faults[:j] + faults[j + 1:])] + runs[k + 1:]))
        if "#" in f[2]:
            ml, ex = f[2].split("#", 1)
            exs = [e for e in ex.split(",") if e]
            for k in range(len(exs)):
                put(2, ml + "#" + ",".join(exs[:k] + exs[k + 1:]))
        if f[5] != "-":
            put(5, "-")
        return out

    UP_RULE = ("upgrade: the real helper.Upgrade on a kube fake clientset + an Advanced StatefulSet fake clientset (status-subresource semantics), the same stored "
               "state kept across the runs of a case; 15 selector shapes (matchLabels only / + expressions / expressions only, In NotIn Exists DoesNotExist; "
               "malformed stream: nil, empty, unconvertible, marker key as a match label, contradictory), 0-5 revisions over 9 label classes (own, foreign, "
               "already relabelled, relabelled for another set, marker + selector labels, no labels, nil map), built-in set stored or already gone, Advanced set absent / "
               "equal / different spec or status, 1-4 runs with 0-3 injections each at any call index: 500, Conflict, NotFound, AlreadyExists, Timeout, each "
               "either not executed or executed-then-error (lost response), or the process killed before the call; mostly ending with a fault-free run. "
               "quick adds the enumeration `single` (5 selectors x 4 populations x 3 Advanced-set states x stored/gone x every call index x all 11 injections, then a "
               "fault-free run); thorough adds `pairs` (injection in the first AND in the second run). non-trivial = the selector converts; distinct = distinct case line")


    def proj_upgrade(case, o):
        """what the C17 predicates read: outcomes, the deletes (policy + state at that instant), any call on pods/claims, final and reference state"""
        runs = []
        for r in o.get("runs", "").split(";"):
            out, _, entries = r.partition(">")
            keep = [e for e in entries.split(",") if e.startswith("delete:") or ":pods:" in e or ":pvc:" in e]
            runs.append((out, keep))
        return (runs, o.get("final"), o.get("ref"), o.get("refout"), o.get("pods"), o.get("claims"))

    def feat_unlabelled_revision(engine, case):
        """a stored ControllerRevision has no label map at all (the case line writes it `name~!`)"""
        f = case.split("|")
        return engine == "upgrade" and len(f) == 7 and any(r.endswith("~!") for r in f[4].split(";"))


    P["FEATURES"].update({
        "a stored ControllerRevision without labels is selected": feat_unlabelled_revision,
    })

    P["ENGINES"]["upgrade"] = {"trivial_tags": {"bad", "selerr.new.err.nodelete", "selerr.pre.err.nodelete"}, "shrink": shrink_upgrade}

    P["PROPS"]["C17"] = {
            "module": "Asts.Props.C17",
            "runs": [{"engine": "upgrade", "quick": 20000, "thorough": 200000, "enum_quick": ["single"], "enum_thorough": ["single", "pairs"],
                      "proj": proj_upgrade}],
            "rule": UP_RULE,
            "assumptions": [
                "the caller re-submits the same built-in object on every run",
                "object names are unique per namespace; nothing else writes to the namespace during the upgrade",
                "the Advanced StatefulSet resource has the status subresource (manifests/crd.v1.yaml): create drops status, update keeps it, update of /status changes only it",
                "the garbage collector honours orphan propagation (the checks are about the calls issued and the objects stored)",
                "for `rerun succeeds`: the selector is present and converts, and every selected revision has a label map",
            ],
        }
