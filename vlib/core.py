"""Orchestration shared by every property check.

Steps of one check (DESIGN.md section 5):
  1. regenerate the fact files from /repo (Asts/Gen/*.lean) and build the harness from /repo's working tree (-tags verif)
  2. lake build the property's theorem module and the model driver; audit axioms and forbidden tokens
  3. for every engine of the property: corpus + generated (+ enumerated) cases -> real code -> model + monitor
  4. verdict, evidence, replays
"""
import fcntl
import hashlib
import json
import os
import re
import subprocess
import sys
import time

VERIF = os.path.dirname(os.path.dirname(os.path.abspath(__file__)))
REPO = os.environ.get("VERIF_REPO", "/repo")
WORK = os.path.join(VERIF, ".work")
LEAN = os.path.join(VERIF, "lean")
HARNESS_SRC = os.path.join(VERIF, "harness")
HARNESS = os.path.join(WORK, "bin", "harness")
MODEL = os.path.join(LEAN, ".lake", "build", "bin", "asts-model")
ALLOWED_AXIOMS = {"propext", "Classical.choice", "Quot.sound"}
FORBIDDEN = re.compile(r"\b(sorry|admit|native_decide|bv_decide|implemented_by|unsafe)\b|^\s*axiom\s|maxHeartbeats\s+0\b", re.M)

GOENV = dict(os.environ, GOFLAGS="-mod=mod", GOPROXY="off", GOSUMDB="off", GOTOOLCHAIN="local", CGO_ENABLED="0")


def log(*a):
    print(*a, file=sys.stderr, flush=True)


class BuildError(Exception):
    def __init__(self, what, output):
        super().__init__(what)
        self.what = what
        self.output = output


class Lock:
    def __init__(self, name):
        os.makedirs(WORK, exist_ok=True)
        self.path = os.path.join(WORK, name + ".lock")

    def __enter__(self):
        self.f = open(self.path, "w")
        fcntl.flock(self.f, fcntl.LOCK_EX)
        return self

    def __exit__(self, *a):
        fcntl.flock(self.f, fcntl.LOCK_UN)
        self.f.close()


def run(cmd, cwd=None, env=None, inp=None, timeout=3600):
    p = subprocess.run(cmd, cwd=cwd, env=env, input=inp, stdout=subprocess.PIPE, stderr=subprocess.PIPE, timeout=timeout)
    return p.returncode, p.stdout, p.stderr


def strip_comments(src):
    """remove Lean block comments (nested) and line comments"""
    out = []
    i, depth, n = 0, 0, len(src)
    while i < n:
        if src.startswith("/-", i):
            depth += 1
            i += 2
        elif depth and src.startswith("-/", i):
            depth -= 1
            i += 2
        elif depth:
            i += 1
        elif src.startswith("--", i):
            j = src.find("\n", i)
            i = n if j < 0 else j
        else:
            out.append(src[i])
            i += 1
    return "".join(out)


# ---------------------------------------------------------------- builds

def build_harness():
    """go build the harness against /repo's current working tree, hooks on."""
    with Lock("gobuild"):
        os.makedirs(os.path.dirname(HARNESS), exist_ok=True)
        # go.sum of the two repo modules (the harness module replaces both by path)
        sums = set()
        for p in (os.path.join(REPO, "go.sum"), os.path.join(REPO, "client", "go.sum")):
            if os.path.exists(p):
                sums.update(open(p).read().splitlines())
        want = "\n".join(sorted(sums)) + "\n"
        gs = os.path.join(HARNESS_SRC, "go.sum")
        if not os.path.exists(gs) or open(gs).read() != want:
            open(gs, "w").write(want)
        t0 = time.time()
        cmd = ["go", "build", "-tags", "verif", "-o", HARNESS]
        if os.path.realpath(REPO) != "/repo":
            # a repository elsewhere (VERIF_REPO: background sweeps on a snapshot): same module file with the two replace lines redirected
            mod = open(os.path.join(HARNESS_SRC, "go.mod")).read()
            mod = mod.replace("=> /repo/client", "=> " + os.path.join(REPO, "client")).replace("=> /repo\n", "=> " + REPO + "\n")
            modfile = os.path.join(WORK, "go.alt.mod")
            open(modfile, "w").write(mod)
            open(os.path.join(WORK, "go.alt.sum"), "w").write(want)
            cmd += ["-modfile", modfile]
        rc, out, err = run(cmd + ["."], cwd=HARNESS_SRC, env=GOENV, timeout=1800)
        if rc != 0:
            raise BuildError("go build -tags verif (harness against /repo)", (out + err).decode(errors="replace"))
        return time.time() - t0


def regen_facts():
    """regenerate Asts/Gen/*.lean from /repo's sources; returns list of generated files"""
    gen_dir = os.path.join(LEAN, "Asts", "Gen")
    os.makedirs(gen_dir, exist_ok=True)
    made = []
    for what in ("Sites", "Crd", "Defaulters", "Schema"):
        rc, out, err = run([HARNESS, "extract", what], env=dict(GOENV, VERIF_REPO=REPO), timeout=300)
        if rc != 0:
            raise BuildError("fact extraction " + what, (out + err).decode(errors="replace"))
        path = os.path.join(gen_dir, what + ".lean")
        text = out.decode()
        if not os.path.exists(path) or open(path).read() != text:
            open(path, "w").write(text)
        made.append(path)
    return made


def lake_build(targets):
    with Lock("lake"):
        t0 = time.time()
        rc, out, err = run(["lake", "build"] + targets, cwd=LEAN, timeout=7200)
        return rc, (out + err).decode(errors="replace"), time.time() - t0


def theorem_names(module):
    """fully qualified names of the theorems stated in a Props module (the obligations)"""
    path = os.path.join(LEAN, *module.split(".")) + ".lean"
    src = strip_comments(open(path).read())
    stack, names = [], []
    for line in src.split("\n"):
        m = re.match(r"^namespace\s+(\S+)", line)
        if m:
            stack.append(m.group(1))
            continue
        m = re.match(r"^end\s+(\S+)", line)
        if m and stack and stack[-1] == m.group(1):
            stack.pop()
            continue
        m = re.match(r"^(?:@\[[^\]]*\]\s*)?(?:protected\s+)?theorem\s+(\S+)", line)  # private helper lemmas are not obligations
        if m:
            names.append(".".join(stack + [m.group(1)]))
    return names, path


def imported_sources(module, seen=None):
    """transitive closure of Asts.* imports of a module (paths)"""
    seen = seen if seen is not None else {}
    path = os.path.join(LEAN, *module.split(".")) + ".lean"
    if module in seen or not os.path.exists(path):
        return seen
    seen[module] = path
    for m in re.findall(r"^import\s+(Asts\.\S+)", open(path).read(), re.M):
        imported_sources(m, seen)
    return seen


def audit(modules, names, workdir):
    """#print axioms for each theorem; forbidden-token scan of every imported Asts source"""
    if isinstance(modules, str):
        modules = [modules]
    problems = []
    srcs = {}
    for m in modules:
        imported_sources(m, srcs)
    for m, p in srcs.items():
        hit = FORBIDDEN.search(strip_comments(open(p).read()))
        if hit:
            problems.append("forbidden token %r in %s" % (hit.group(0).strip(), m))
    audit_file = os.path.join(workdir, "audit.lean")
    with open(audit_file, "w") as f:
        for m in modules:
            f.write("import %s\n" % m)
        for n in names:
            f.write("#print axioms %s\n" % n)
    with Lock("lake"):
        rc, out, err = run(["lake", "env", "lean", audit_file], cwd=LEAN, timeout=1800)
    text = (out + err).decode(errors="replace")
    axioms = {}
    for m in re.finditer(r"'([^']+)' depends on axioms: \[([^\]]*)\]", text):
        axioms[m.group(1)] = [a.strip() for a in m.group(2).replace("\n", " ").split(",") if a.strip()]
    for m in re.finditer(r"'([^']+)' does not depend on any axioms", text):
        axioms[m.group(1)] = []
    for n in names:
        if n not in axioms:
            problems.append("no axiom report for %s (%s)" % (n, text.strip()[:200]))
        else:
            extra = set(axioms[n]) - ALLOWED_AXIOMS
            if extra:
                problems.append("%s depends on %s" % (n, sorted(extra)))
    if rc != 0:
        problems.append("audit file failed to elaborate: " + text.strip()[:300])
    used = sorted({a for v in axioms.values() for a in v})
    return problems, used, len(srcs)


# ---------------------------------------------------------------- engines

def harness_cases(engine, mode, arg, seed):
    rc, out, err = run([HARNESS, engine, mode, str(arg)], env=dict(GOENV, VERIF_SEED=str(seed)), timeout=3600)
    if rc != 0:
        raise BuildError("harness %s %s" % (engine, mode), err.decode(errors="replace"))
    return [l for l in out.decode().split("\n") if l]


def corpus_cases(engine):
    d = os.path.join(VERIF, "corpus", engine)
    cases = []
    if os.path.isdir(d):
        for fn in sorted(os.listdir(d)):
            for l in open(os.path.join(d, fn)).read().split("\n"):
                if l and not l.startswith("#"):
                    cases.append(l)
    return cases


def serial_fallback(engine, cases, seed, timeout, first_err):
    remaining = list(cases)
    lines = []
    crashes = 0
    while remaining:
        inp = ("\n".join(remaining) + "\n").encode()
        rc, out, err = run([HARNESS, engine, "serve"], env=dict(GOENV, VERIF_SEED=str(seed), GOMEMLIMIT="8GiB"), inp=inp, timeout=timeout)
        outs = out.decode(errors="replace").split("\n")
        if outs and outs[-1] == "":
            outs.pop()
        outs = outs[:len(remaining)]
        lines += [c + " => " + o for c, o in zip(remaining, outs)]
        k = len(outs)
        if k >= len(remaining):
            break
        text = err.decode(errors="replace")
        m = re.search(r"^(fatal error: .*|panic: .*|runtime: .*)$", text, re.M)
        reason = re.sub(r"[^A-Za-z0-9_.:-]+", "_", m.group(1) if m else "exit_%d" % rc)[:120]
        lines.append(remaining[k] + " => harness-fatal:" + reason)
        crashes += 1
        remaining = remaining[k + 1:]
        if crashes > 25:
            raise BuildError("harness %s run: more than 25 fatal crashes" % engine, (first_err + err).decode(errors="replace")[-2000:])
    return lines


def run_engine(engine, cases, seed, timeout=7200):
    """returns list of (case, impl_obs, model_obs, verdict, tag)"""
    if not cases:
        return []
    inp = ("\n".join(cases) + "\n").encode()
    rc, out, err = run([HARNESS, engine, "run"], env=dict(GOENV, VERIF_SEED=str(seed), GOMEMLIMIT="8GiB"), inp=inp, timeout=timeout)
    if rc != 0:
        # a fatal runtime error (concurrent map access, stack exhaustion, deadlock ...) cannot be recovered inside the harness:
        # run the cases again one at a time in one process and attribute each crash to the case that was in flight
        impl_lines = serial_fallback(engine, cases, seed, timeout, err)
    else:
        impl_lines = [l for l in out.decode(errors="replace").split("\n") if l]
    if len(impl_lines) != len(cases):
        raise BuildError("harness %s run" % engine, "expected %d lines, got %d" % (len(cases), len(impl_lines)))
    rc, mout, merr = run([MODEL, engine], inp=("\n".join(impl_lines) + "\n").encode(), timeout=timeout)
    if rc != 0:
        raise BuildError("asts-model %s (exit %d)" % (engine, rc), merr.decode(errors="replace")[-2000:])
    model_lines = [l for l in mout.decode(errors="replace").split("\n") if l]
    if len(model_lines) != len(cases):
        raise BuildError("asts-model %s" % engine, "expected %d lines, got %d; stderr=%s" % (len(cases), len(model_lines), merr.decode(errors="replace")[-500:]))
    res = []
    for il, ml in zip(impl_lines, model_lines):
        case, _, obs = il.partition(" => ")
        parts = ml.split("\t")
        while len(parts) < 3:
            parts.append("")
        res.append((case, obs, parts[0], parts[1], parts[2]))
    return res


def obs_fields(obs):
    d = {}
    for t in obs.split(" "):
        k, eq, v = t.partition("=")
        if eq:
            d[k] = v
    return d


def digest(s):
    return hashlib.sha1(s.encode()).hexdigest()[:10]


def write_json(path, obj):
    os.makedirs(os.path.dirname(path), exist_ok=True)
    tmp = path + ".tmp"
    with open(tmp, "w") as f:
        json.dump(obj, f, indent=1, sort_keys=False)
        f.write("\n")
    os.replace(tmp, path)
