"""Registration of the `worldedit` engine: histories in which the user edits the set between the rounds of a world (C02, C08, C11)."""


def register(P):
    shrink_sync = P["shrink_sync"]

    def shrink_worldedit(case):
        # <budget>#<edits>#<sync case>: drop one edit, move an edit one round earlier, shrink the world
        f = case.split("#", 2)
        if len(f) != 3:
            return []
        out = []
        edits = f[1].split(";") if f[1] else []
        for k in range(len(edits)):
            out.append("#".join([f[0], ";".join(edits[:k] + edits[k + 1:]), f[2]]))
        for k in range(len(edits)):
            r, _, e = edits[k].partition(":")
            if r.isdigit() and int(r) > 2 and (k == 0 or edits[k - 1].partition(":")[0] != r):
                prev = int(edits[k - 1].partition(":")[0]) if k > 0 else 2
                if int(r) - 1 >= prev:
                    out.append("#".join([f[0], ";".join(edits[:k] + ["%d:%s" % (int(r) - 1, e)] + edits[k + 1:]), f[2]]))
        out += ["#".join([f[0], f[1], c]) for c in shrink_sync(f[2])]
        return out

    kinds = ("lossless", "pause", "tmpl", "slots", "scale", "noedit", "other")
    P["ENGINES"]["worldedit"] = {"trivial_tags": {"bad"} | {"outside-premises." + k for k in kinds}, "shrink": shrink_worldedit}

    RULE = ("worldedit: the small worlds of the world engine (cache = API, four fifths inside C02's premises, a quarter with 1-2 failing calls in round 1) "
            "with a script of 1-5 edits of the set by its user, applied to the API object before the settle of chosen rounds (2..~20: in the middle of the work "
            "the initial world needs, and after it has converged): a third carry a pause interval (half of those nothing else: pause, later un-pause; the others "
            "with scaling / template / delete-slots edits made while paused, some never un-paused), a third a scale-in at a slot (with or without replicas-1 in the "
            "same update) later followed by the scale-out, the rest template changes and reverts (to the case's other template, to X / Y which the generated "
            "stores may record), partition moves, plain scaling, metadata edits. Spec edits bump metadata.generation, annotation edits do not. Rounds of "
            "(settle; sync) on ONE controller object run until two silent successful rounds after the last edit (budget: the last edit's round + the monitor's "
            "bound for the largest world of the history + 2). non-trivial = the world the last edit produced is inside C02's premises; distinct = distinct case line")

    def proj_we_all(case, o):
        return sorted(o.items())

    def proj_we_updrev(case, o):
        # per round: the update revision the status names, and the revisions
        ks = sorted((k for k in o if k.startswith("s") and k[1:].isdigit()), key=lambda k: int(k[1:]))
        return [(k, o[k].split("/")[3:]) for k in ks if o[k].count("/") >= 4]

    def proj_we_writes(case, o):
        ks = sorted((k for k in o if k.startswith("s") and k[1:].isdigit()), key=lambda k: int(k[1:]))
        return (o.get("n"), [o[k].split("/")[:2] for k in ks], o.get(ks[-1]) if ks else None)

    def add(pid, prefixes, proj, assumption):
        if pid not in P["PROPS"]:
            return
        spec = P["PROPS"][pid]
        spec["runs"].append({"engine": "worldedit", "quick": 1500, "thorough": 30000, "proj": proj, "extra_seeds": 1, "clauses": prefixes})
        spec["rule"] = spec.get("rule", "") + " || " + RULE
        spec.setdefault("extra_modules", []).append("Asts.Props.WorldEdits")
        spec.setdefault("assumptions", []).append(assumption)

    add("C02", ["C02.afteredits"], proj_we_all,
        "worldedit engine: 'if the user stops editing' is judged from the world the last edit produced (the API state the previous round left, settled, with "
        "the edited spec): the run must end with two silent rounds in the final state of THAT world within its roundBound; theorem "
        "WorldEdits.C02_after_last_edit reduces it to C02_converges on that world (same premises wfWorld and extraMB)")
    add("C08", ["C08.norestart", "C08.revert"], proj_we_updrev,
        "worldedit engine: C08.norestart is judged on rounds preceded by replicas / delete-slots / pause / metadata edits only, once some successful reconcile of "
        "the un-paused set has seen the current template (before that the stored status.updateRevision is whatever the case put there); C08.revert is judged when "
        "a visible revision records the new template with a hash label that does not contradict the one the template gets at the current collision count "
        "(the recorded quirk: the label depends on the collision count)")
    add("C11", ["C11.pausedsilent", "C11.lossless"], proj_we_writes,
        "worldedit engine: C11.lossless compares the run's final state with the model's run of the same case never paused and asks that the work resumes in the "
        "round after the un-pause (rounds <= max(rounds of the reference, a+1) + length of the pause); judged when both runs ended by themselves")
