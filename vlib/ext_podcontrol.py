"""Registration of the `podcontrol` engine family (merged from its builder)."""
import re


def register(P):
    _shrink_lists = P["_shrink_lists"]
    proj_all = P["proj_all"]

    def shrink_podcontrol(case):
        # steps|set|sel|tmpls|ptmpl|ord|revs|cache|api|faults|pod|fresh
        out = _shrink_lists(case, "|", int_fields=(5,), list_fields=((0, "."), (3, ";"), (7, ","), (8, ","), (9, ",")))
        f = case.split("|")
        if len(f) == 12:
            for i in (10, 11):          # drop the initial pod / the pod lister's pod
                if f[i]:
                    g = list(f)
                    g[i] = ""
                    out.append("|".join(g))
            if re.fullmatch(r"-?\d+", f[5]) and abs(int(f[5])) > 16:   # large ordinals: halve
                g = list(f)
                g[5] = str(int(f[5]) // 2)
                out.append("|".join(g))
        return out

    def proj_podcontrol(case, o):
        # everything the engine observes except the panic message
        return sorted((k, v) for k, v in o.items() if k != "site")


    PC_RULE = ("podcontrol: the real realStatefulPodControl + newVersionedStatefulSetPod on a recording, fault-injecting API and a hand-filled PVC informer cache; "
               "step sequences over {create, update, delete, cache catch-up} (C, U, D, C.D.C, C.S.D.C, C.U, U.U, C.C, C.S.C); set names with dashes / trailing -<digits> / "
               "empty / non-UTF-8 bytes / (rarely) newlines; 0-4 claim templates incl. duplicate and empty names, nil / empty / 1-2 entry label maps on templates, selector "
               "(nil selector rarely) and pod template (incl. the labels the controller owns); pod-template volumes that clash with template names; preset hostname / subdomain; "
               "ordinals 0..5, <1200, near and at 2^31-1, random int31, and an out-of-domain stream (negative, >= 2^31); every strategy / rollingUpdate / currentReplicas shape that "
               "decides current vs update revision; claims in cache / in API only / in another namespace / of the neighbour ordinal; 0-6 faults keyed by (verb, resource, name, occurrence) "
               "with kinds exists / notfound / internal / timeout / conflict on claim lookups, claim creates, pod create / update / delete, runs of update conflicts with and without "
               "a fresh copy in the pod lister; update steps start from the right pod broken in 0-2 chosen ways. non-trivial = at least one create or update step; distinct = distinct case line")

    P["ENGINES"]["podcontrol"] = {"trivial_tags": {"bad", "D", "x:D"}, "shrink": shrink_podcontrol}

    P["PROPS"]["C06"] = {
            "module": "Asts.Props.C06",
            "runs": [{"engine": "podcontrol", "quick": 20000, "thorough": 300000, "enum_thorough": [], "proj": proj_podcontrol},
                     # pods as the real reconcile hands them to the pod control (several built from one decoded template in one sync):
                     # identity, claim volumes and template of every created pod, observed at the create call
                     {"engine": "reconcile", "quick": 20000, "thorough": 200000, "enum_thorough": ["small"],
                      "proj": lambda c, o: (o.get("idbad"), o.get("tplbad")), "clauses": ["C06."]},
                     # what the pod writes of a whole sync CARRY (owner reference and identity of created pods, what an identity
                     # update keeps), judged call by call by the sync engine's reactor
                     {"engine": "sync", "quick": 5000, "thorough": 60000, "proj": lambda c, o: o.get("wbad"), "clauses": ["C06."]}],
            "rule": PC_RULE,
            "assumptions": [
                "a claim 'exists' when the PVC informer cache returns it or a create of it succeeded (the controller cannot see a claim deleted out-of-band while the cache still shows it)",
                "ordinals are 0 <= i < 2^31 (int32 replicas / delete-slots); outside that range the name is re-derived from an ordinal that does not parse",
                "name_parses_back needs a set name without a newline (the regexp's '.' does not match one); API object names never contain one; ordinal_parses_back has no such condition",
                "retry.DefaultBackoff.Duration is shortened in the harness (pause only; the number of attempts is the library's)",
            ],
            "trusted": ["fact file Asts/Gen/Sites.lean (go/ast extractor in harness/extract.go) for only_create_on_claims"],
        }
