"""Registration of the `hijack` engine (C19: every verb of the hijack client is the Advanced client's verb wrapped in the conversions)."""


def register(P):
    proj_all = P["proj_all"]

    def shrink_hijack(case):
        # k|ops|json : drop one step, drop a fault (or its `+`), fewer companions
        f = case.split("|", 2)
        if len(f) != 3:
            return []
        out = []
        ops = f[1].split(",") if f[1] else []
        for i in range(len(ops)):
            if len(ops) > 1:
                out.append("|".join([f[0], ",".join(ops[:i] + ops[i + 1:]), f[2]]))
            if ops[i].endswith("+"):
                out.append("|".join([f[0], ",".join(ops[:i] + [ops[i][:-1]] + ops[i + 1:]), f[2]]))
        if f[0].isdigit() and int(f[0]) > 0:
            out.append("|".join([str(int(f[0]) - 1), f[1], f[2]]))
        json_shrinks = P["ENGINES"].get("codec", {}).get("shrink")
        if json_shrinks is not None:
            for c in json_shrinks("0|" + f[2]):
                out.append("|".join([f[0], f[1], c.split("|", 1)[1]]))
        return out

    P["ENGINES"]["hijack"] = {"trivial_tags": {"bad"}, "shrink": shrink_hijack}

    if "C19" in P["PROPS"]:
        spec = P["PROPS"]["C19"]
        spec["runs"].append({"engine": "hijack", "quick": 2500, "thorough": 30000, "enum_quick": ["single"], "enum_thorough": ["single"], "proj": proj_all})
        spec["rule"] = spec.get("rule", "") + (
            " || hijack: scripts of the hijack client's verbs (Create, Get, Update, UpdateStatus, List, Patch as merge / JSON / strategic / status-subresource, "
            "Apply, ApplyStatus, Delete, DeleteCollection, Watch opened and closed) on a generated built-in StatefulSet against a fake Advanced clientset with 0-3 "
            "other sets stored, a reactor that fails a chosen step with NotFound / Conflict / AlreadyExists / Invalid / Timeout / an untyped error (with and without "
            "an empty object next to the error), emulates server-side apply and DeleteCollection, and a recorder around the inner client; three profiles (the whole "
            "script with 0-3 faults, random walks, every verb once in random order: the store's own NotFound / AlreadyExists answers); quick and thorough add the "
            "enumeration `single` (every verb x every error kind x with/without object, on a stored and on a missing object). "
            "non-trivial = every parsable case; distinct = distinct case line")
        spec.setdefault("assumptions", []).extend([
            "hijack engine: 'equal to the built-in equivalent of what the inner client answered' is judged by the harness (apiequality.Semantic.DeepEqual against "
            "its own conversion through a generic JSON tree); the model's result is that equivalent by definition",
            "apply configurations: the conversion FromBuiltinStatefulSetApplyConfiguration is monitored (tokens ac / acx / sent), not modelled "
            "(the two configuration types differ in the pod template: a full PodTemplateSpec on the Advanced side)",
        ])
        spec.setdefault("trusted", []).append("harness/eng_hijack.go: recorder around the inner clientset, fault reactor, emulation of server-side apply and DeleteCollection on the object tracker")
        # the verb-level theorems live in their own module
        spec.setdefault("extra_modules", []).append("Asts.Props.C19hijack")
