"""`./check <Cnn> [--tier quick|thorough] [--seed N] [--replay file]`"""
import argparse
import collections
import json
import os
import sys
import time

from . import core
from .core import log
from . import props as P


def load_known():
    path = os.path.join(core.VERIF, "known_findings.json")
    if not os.path.exists(path):
        return []
    return json.load(open(path))


def match_known(known, pid, engine, clause, case):
    for k in known:
        if k.get("status") != "known" or k.get("property") != pid:
            continue
        sig = k.get("signature", {})
        if sig.get("engine") not in (None, engine):
            continue
        if sig.get("clause") not in (None, clause):
            continue
        feat = sig.get("feature")
        if feat is not None:
            fn = P.FEATURES.get(feat)
            if fn is None or not fn(engine, case):
                continue
        return k
    return None


class Result:
    def __init__(self):
        self.hung = []
        self.evaluations = 0
        self.distinct = set()
        self.distinct_nontrivial = set()
        self.tags = collections.Counter()
        self.proj_mismatch = []      # (engine, case, impl, model)
        self.full_mismatch = 0
        self.full_mismatch_first = None
        self.monitor_fail = []       # (engine, case, impl, model, clause)
        self.samples = []
        self.corpus_cases = 0
        self.exhaustive = False
        self.engine_counts = collections.Counter()


def consume(res, pid, engine, rows, clause_prefixes, proj):
    trivial = P.ENGINES[engine].get("trivial_tags", set())
    for (case, impl, model, verdict, tag) in rows:
        res.evaluations += 1
        res.engine_counts[engine] += 1
        key = engine + " " + case
        res.distinct.add(key)
        res.tags[engine + "." + tag] += 1
        if tag not in trivial:
            res.distinct_nontrivial.add(key)
        if len(res.samples) < 3 and tag not in trivial and res.evaluations % 7 == 1:
            res.samples.append("[%s] %s => %s" % (engine, case, impl))
        if impl.startswith("harness-timeout:no-answer"):
            res.hung.append((engine, case, impl, model))
        if impl != model:
            res.full_mismatch += 1
            if res.full_mismatch_first is None:
                res.full_mismatch_first = {"engine": engine, "case": case, "impl": impl, "model": model}
            if proj is None:
                res.proj_mismatch.append((engine, case, impl, model))
            else:
                try:
                    a, b = proj(case, core.obs_fields(impl)), proj(case, core.obs_fields(model))
                except Exception as e:  # malformed observation: treat as a difference
                    a, b = "impl-unparsable:" + str(e), "model"
                if a != b:
                    res.proj_mismatch.append((engine, case, impl, model))
        if verdict != "ok":
            for clause in verdict.split(","):
                if any(clause.startswith(p) for p in clause_prefixes):
                    res.monitor_fail.append((engine, case, impl, model, clause))


def still_fails(pid, engine, case, clause, seed, prefixes, proj):
    """re-run one case; returns (fails, impl, model)"""
    rows = core.run_engine(engine, [case], seed)
    (c, impl, model, verdict, tag) = rows[0]
    if clause == "correspondence":
        if impl == model:
            return False, impl, model
        if proj is None:
            return True, impl, model
        return proj(c, core.obs_fields(impl)) != proj(c, core.obs_fields(model)), impl, model
    return clause in verdict.split(","), impl, model


def shrink(pid, engine, case, clause, seed, prefixes, proj, budget=12):
    """greedy structural shrink of a case line; candidates are evaluated in batches"""
    cands_of = P.ENGINES[engine].get("shrink")
    if cands_of is None:
        return case
    cur = case
    for _ in range(budget):
        cands = [c for c in cands_of(cur) if c != cur]
        if not cands:
            break
        try:
            rows = core.run_engine(engine, cands, seed)
        except Exception:
            break
        nxt = None
        for (c, impl, model, verdict, tag) in rows:
            if clause == "correspondence":
                bad = impl != model and (proj is None or proj(c, core.obs_fields(impl)) != proj(c, core.obs_fields(model)))
            else:
                bad = clause in verdict.split(",")
            if bad and (nxt is None or len(c) < len(nxt)):
                nxt = c
        if nxt is None:
            break
        cur = nxt
    return cur


def write_replay(pid, engine, seed, kind, clause, case, impl, model, shrunk_from=None, extra=None):
    body = {
        "property_id": pid, "engine": engine, "seed": seed, "kind": kind, "clause": clause,
        "input": case, "impl_observation": impl, "model_observation": model,
    }
    if shrunk_from and shrunk_from != case:
        body["shrunk_from"] = shrunk_from
    if extra:
        body.update(extra)
    name = "%s-%s.json" % (pid, core.digest(engine + clause + case))
    path = os.path.join(core.VERIF, "replays", name)
    body["replay"] = "./check %s --replay replays/%s" % (pid, name)
    core.write_json(path, body)
    return "replays/" + name


def do_replay(pid, path, seed):
    spec = P.PROPS[pid]
    body = json.load(open(path))
    engine = body.get("engine")
    core.build_harness()
    rc, out, _ = core.lake_build(["asts-model"])
    if rc != 0:
        print(out)
        return 2
    if body.get("kind") == "obligation-broken" or not engine:
        print("replay names a proof obligation, re-run ./check %s" % pid)
        return 1
    run = [r for r in spec["runs"] if r["engine"] == engine]
    proj = run[0].get("proj") if run else None
    rows = core.run_engine(engine, [body["input"]], seed)
    (case, impl, model, verdict, tag) = rows[0]
    print("case :", case)
    print("impl :", impl)
    print("model:", model)
    print("monitor:", verdict)
    bad = False
    if body.get("kind") == "monitor-failure":
        bad = body.get("clause") in verdict.split(",")
    else:
        bad = impl != model and (proj is None or proj(case, core.obs_fields(impl)) != proj(case, core.obs_fields(model)))
    print("still failing" if bad else "no longer failing")
    return 1 if bad else 0


def main(argv=None):
    ap = argparse.ArgumentParser()
    ap.add_argument("pid")
    ap.add_argument("--tier", default=os.environ.get("VERIF_TIER", "quick"), choices=["quick", "thorough"])
    ap.add_argument("--seed", type=int, default=int(os.environ.get("VERIF_SEED", "1") or 1))
    ap.add_argument("--replay")
    args = ap.parse_args(argv)
    pid, tier, seed = args.pid, args.tier, args.seed
    if pid not in P.PROPS:
        print("unknown property", pid)
        return 2
    if args.replay:
        return do_replay(pid, args.replay, seed)
    t0 = time.time()
    spec = P.PROPS[pid]
    workdir = os.path.join(core.WORK, pid)
    os.makedirs(workdir, exist_ok=True)
    known = load_known()
    violations = []      # (replay_path, suffix)
    known_lines = []
    notes = []
    build_broken = None

    # 1. harness + facts
    try:
        core.build_harness()
        if spec.get("facts", True):
            core.regen_facts()
    except core.BuildError as e:
        build_broken = ("harness-build", e.what, e.output[-3000:])

    # 2. proof obligations
    module = spec["module"]
    modules = [module] + list(spec.get("extra_modules", []))
    names = []
    for mname in modules:
        names += core.theorem_names(mname)[0]
    obligations = len(names)
    discharged = 0
    axioms_used = []
    n_sources = 0
    checker_cmd = "cd lean && lake build %s asts-model && lake env lean <audit: #print axioms of every theorem of %s>" % (" ".join(modules), ", ".join(modules))
    rc, out, lake_s = core.lake_build(modules + ["asts-model"])
    obligation_problem = None
    if rc != 0:
        obligation_problem = "lake build %s failed:\n%s" % (module, out[-3000:])
    else:
        problems, axioms_used, n_sources = core.audit(modules, names, workdir)
        if problems:
            obligation_problem = "audit: " + "; ".join(problems)
        else:
            discharged = obligations
    if tier == "thorough" and obligation_problem is None:
        with core.Lock("lake"):
            rc2, o2, e2 = core.run(["lake", "env", "leanchecker"] + modules, cwd=core.LEAN, timeout=3600)
        checker_cmd += " && lake env leanchecker " + " ".join(modules)
        if rc2 != 0:
            obligation_problem = "leanchecker rejected %s: %s" % (module, (o2 + e2).decode(errors="replace")[-1000:])
            discharged = 0

    # 3. engines
    res = Result()
    engine_error = None
    if build_broken is None:
        for r in spec["runs"]:
            engine = r["engine"]
            n = r["quick"] if tier == "quick" else r["thorough"]
            prefixes = r.get("clauses", [pid + "."])
            proj = r.get("proj")
            try:
                cases = core.corpus_cases(engine)
                res.corpus_cases += len(cases)
                cases += core.harness_cases(engine, "gen", n, seed)
                if tier == "thorough":
                    for k in range(1, r.get("extra_seeds", 2) + 1):
                        cases += core.harness_cases(engine, "gen", n, seed * 7919 + k)
                    for scope in r.get("enum_thorough", []):
                        cases += core.harness_cases(engine, "enum", scope, seed)
                        res.exhaustive = True
                else:
                    for scope in r.get("enum_quick", []):
                        cases += core.harness_cases(engine, "enum", scope, seed)
                rows = core.run_engine(engine, cases, seed)
                consume(res, pid, engine, rows, prefixes, proj)
            except core.BuildError as e:
                engine_error = (engine, e.what, e.output[-2000:])
                break

    # 4. verdict
    monitor_seen = set()
    if res.hung:
        # the code under test did not answer within the harness's wall-clock limit on this input (a loop that never ends, a call
        # that blocks for ever): reported at once; shrinking and searching would only hang again
        (engine, case, impl, model) = res.hung[0]
        path = write_replay(pid, engine, seed, "monitor-failure", "no-answer", case, impl, model)
        violations.append((path, ""))
        res.monitor_fail = []
        res.proj_mismatch = []
    for (engine, case, impl, model, clause) in res.monitor_fail:
        k = match_known(known, pid, engine, clause, case)
        if k is not None:
            line = "KNOWN-FINDING: property=%s %s" % (pid, k.get("what_fails", clause))
            if line not in known_lines:
                known_lines.append(line)
            continue
        if (engine, clause) in monitor_seen:
            continue
        monitor_seen.add((engine, clause))
        run_spec = [r for r in spec["runs"] if r["engine"] == engine][0]
        small = shrink(pid, engine, case, clause, seed, run_spec.get("clauses", [pid + "."]), run_spec.get("proj"))
        if small != case:
            ok, impl2, model2 = still_fails(pid, engine, small, clause, seed, None, run_spec.get("proj"))
            if ok:
                impl, model = impl2, model2
            else:
                small = case
        if match_known(known, pid, engine, clause, small) is not None:
            continue
        path = write_replay(pid, engine, seed, "monitor-failure", clause, small, impl, model, shrunk_from=case)
        violations.append((path, ""))

    unexplained_break = None
    if not violations:
        if build_broken is not None:
            unexplained_break = ("obligation-broken", {"what": build_broken[1], "output": build_broken[2]})
        elif engine_error is not None:
            unexplained_break = ("correspondence-broken", {"what": "engine %s could not run: %s" % (engine_error[0], engine_error[1]), "output": engine_error[2]})
        elif obligation_problem is not None:
            unexplained_break = ("obligation-broken", {"what": obligation_problem, "theorems": names})
        elif res.proj_mismatch:
            (engine, case, impl, model) = res.proj_mismatch[0]
            run_spec = [r for r in spec["runs"] if r["engine"] == engine][0]
            small = shrink(pid, engine, case, "correspondence", seed, None, run_spec.get("proj"))
            ok, impl2, model2 = still_fails(pid, engine, small, "correspondence", seed, None, run_spec.get("proj"))
            if ok:
                case, impl, model = small, impl2, model2
            unexplained_break = ("correspondence-broken", {"engine": engine, "input": case, "impl_observation": impl, "model_observation": model,
                                                           "projection_mismatches": len(res.proj_mismatch),
                                                           "what": "projection of %s read by %s differs between the real code and the model" % (engine, pid)})
    searched = 0
    if unexplained_break is not None and build_broken is None and engine_error is None:
        # search for a concrete failing input under the monitor: more seeds and the enumerators
        hit = None
        for r in spec["runs"]:
            engine = r["engine"]
            prefixes = r.get("clauses", [pid + "."])
            try:
                cases = []
                for k in range(1, 3):
                    cases += core.harness_cases(engine, "gen", r["quick"], seed * 104729 + k)
                for scope in r.get("enum_search", r.get("enum_thorough", [])):
                    cases += core.harness_cases(engine, "enum", scope, seed)
                rows = core.run_engine(engine, cases, seed)
            except core.BuildError:
                continue
            searched += len(rows)
            for (case, impl, model, verdict, tag) in rows:
                if verdict == "ok":
                    continue
                for clause in verdict.split(","):
                    if any(clause.startswith(p) for p in prefixes) and match_known(known, pid, engine, clause, case) is None:
                        hit = (engine, case, impl, model, clause)
                        break
                if hit:
                    break
            if hit:
                break
        if hit:
            (engine, case, impl, model, clause) = hit
            run_spec = [r for r in spec["runs"] if r["engine"] == engine][0]
            small = shrink(pid, engine, case, clause, seed, None, run_spec.get("proj"))
            ok, impl2, model2 = still_fails(pid, engine, small, clause, seed, None, run_spec.get("proj"))
            if ok:
                case, impl, model = small, impl2, model2
            path = write_replay(pid, engine, seed, "monitor-failure", clause, case, impl, model, extra={"found_by": "search after " + unexplained_break[0]})
            violations.append((path, ""))
            unexplained_break = None
    if unexplained_break is not None:
        kind, extra = unexplained_break
        body = {"property_id": pid, "seed": seed, "kind": kind, "searched_cases": searched}
        body.update(extra)
        name = "%s-%s.json" % (pid, core.digest(kind + json.dumps(extra, sort_keys=True)[:2000]))
        body["replay"] = "./check %s" % pid
        core.write_json(os.path.join(core.VERIF, "replays", name), body)
        violations.append(("replays/" + name, " no-failing-input-found"))

    wall = time.time() - t0
    # 5. evidence
    trusted = ["Lean 4.33 kernel", "axioms used by the property theorems: " + (", ".join(axioms_used) if axioms_used else "none"),
               "hand-written model under lean/Asts/Model tied to /repo by the correspondence engines: " + ", ".join(sorted({r["engine"] for r in spec["runs"]})),
               "Go harness (generators, recording fakes, canonicalisation) in harness/", "compiled driver asts-model (Lean compiler + C toolchain)"]
    trusted += spec.get("trusted", [])
    cov = {
        "obligations": max(obligations, 1), "discharged": discharged,
        "checker_cmd": checker_cmd, "trusted_base": trusted,
        "theorems": names,
        "evaluations": res.evaluations, "distinct_nontrivial": len(res.distinct_nontrivial),
        "distinct_cases": len(res.distinct),
        "rule": spec.get("rule", ""),
        "samples": res.samples or ["(no engine ran)"],
        "branch_histogram": dict(sorted(res.tags.items())),
        "per_engine_evaluations": dict(res.engine_counts),
        "corpus_cases": res.corpus_cases,
        "full_correspondence_mismatches": res.full_mismatch,
        "projection_mismatches": len(res.proj_mismatch),
        "monitor_failures": len(res.monitor_fail),
        "known_findings_reported": len(known_lines),
        "exhaustive": bool(res.exhaustive),
        "lean_sources_audited": n_sources,
    }
    if res.full_mismatch_first and not res.proj_mismatch:
        cov["full_correspondence_first_difference_outside_projection"] = res.full_mismatch_first
    ev = {
        "property_id": pid, "tier": tier, "seed": seed, "level": spec.get("level", "proof"),
        "coverage": cov, "assumptions": spec.get("assumptions", []), "wall_s": round(wall, 2), "violations": len(violations),
    }
    if obligations == 0:
        ev["coverage"]["obligations_note"] = "no theorem stated yet in " + module
    core.write_json(os.path.join(core.VERIF, "evidence", pid + ".json"), ev)

    for l in known_lines:
        print(l)
    for (path, suffix) in violations:
        print("VIOLATION property=%s replay=%s%s" % (pid, path, suffix))
    log("[%s] tier=%s seed=%d evaluations=%d nontrivial=%d obligations=%d/%d proj_mismatch=%d monitor_fail=%d wall=%.1fs" % (
        pid, tier, seed, res.evaluations, len(res.distinct_nontrivial), discharged, obligations, len(res.proj_mismatch), len(res.monitor_fail), wall))
    return 1 if violations else 0


if __name__ == "__main__":
    sys.exit(main())
