"""Registration of the C19 engines `annot`, `codec`, `defaults` (merged from their builder)."""
import json
import re


def register(P):
    _shrink_lists = P["_shrink_lists"]
    proj_all = P["proj_all"]

    def shrink_annot(case):
        # obj|init|ops : drop one op, drop one map entry, drop one slot value of one op
        f = case.split("|")
        if len(f) != 3:
            return []
        out = []
        ops = f[2].split(";") if f[2] else []
        for k in range(len(ops)):
            if len(ops) > 1:
                out.append("|".join([f[0], f[1], ";".join(ops[:k] + ops[k + 1:])]))
            if ops[k][:2] in ("S:", "A:") and ops[k][2:]:
                vals = ops[k][2:].split(",")
                for i in range(len(vals)):
                    g = list(ops)
                    g[k] = ops[k][:2] + ",".join(vals[:i] + vals[i + 1:])
                    out.append("|".join([f[0], f[1], ";".join(g)]))
        if f[1].startswith("map:") and f[1][4:]:
            ents = f[1][4:].split(",")
            for k in range(len(ents)):
                out.append("|".join([f[0], "map:" + ",".join(ents[:k] + ents[k + 1:]), f[2]]))
        if f[0] != "meta":
            out.append("|".join(["meta", f[1], f[2]]))
        return out


    # omitempty positions of a StatefulSet's JSON: deleting one keeps the text a possible json.Marshal output
    _OPTIONAL_PATHS = [
        "metadata.labels", "metadata.annotations", "metadata.ownerReferences", "metadata.finalizers", "metadata.managedFields",
        "metadata.generateName", "metadata.selfLink", "metadata.uid", "metadata.resourceVersion", "metadata.generation",
        "metadata.deletionTimestamp", "metadata.deletionGracePeriodSeconds",
        "status.conditions", "status.collisionCount", "status.currentRevision", "status.updateRevision", "status.observedGeneration",
        "spec.volumeClaimTemplates", "spec.replicas", "spec.revisionHistoryLimit", "spec.podManagementPolicy", "spec.minReadySeconds",
        "spec.persistentVolumeClaimRetentionPolicy", "spec.ordinals", "spec.template.metadata.labels", "spec.template.metadata.annotations",
        "spec.template.metadata.ownerReferences", "spec.template.metadata.finalizers", "spec.template.metadata.managedFields",
    ] + ["spec.template.spec." + k for k in (
        "volumes", "initContainers", "ephemeralContainers", "affinity", "tolerations", "hostAliases", "dnsConfig", "readinessGates",
        "topologySpreadConstraints", "securityContext", "nodeSelector", "imagePullSecrets", "overhead", "schedulingGates", "resourceClaims", "os",
        "hostNetwork", "dnsPolicy", "restartPolicy", "schedulerName", "terminationGracePeriodSeconds", "activeDeadlineSeconds", "priority")]
    _ELEMENT_PATHS = ["spec.template.spec.containers", "spec.template.spec.initContainers", "spec.template.spec.ephemeralContainers",
                      "spec.template.spec.volumes", "spec.volumeClaimTemplates", "status.conditions"]
    _CONTAINER_OPTIONAL = ["ports", "env", "envFrom", "livenessProbe", "readinessProbe", "startupProbe", "lifecycle", "volumeMounts", "volumeDevices",
                           "securityContext", "command", "args", "workingDir", "image", "imagePullPolicy", "terminationMessagePath",
                           "terminationMessagePolicy", "stdin", "stdinOnce", "tty", "resizePolicy", "restartPolicy"]


    def _get(o, path):
        for k in path.split("."):
            if not isinstance(o, dict) or k not in o:
                return None, None, None
            parent, key, o = o, k, o[k]
        return parent, key, o


    def _json_shrinks(text):
        try:
            o = json.loads(text)
        except Exception:
            return []
        out = []

        def emit(x):
            out.append(json.dumps(x, separators=(",", ":"), ensure_ascii=False))
        for p in _OPTIONAL_PATHS:
            parent, key, val = _get(o, p)
            if parent is not None:
                del parent[key]
                emit(o)
                parent[key] = val
        for p in _ELEMENT_PATHS:
            parent, key, val = _get(o, p)
            if isinstance(val, list):
                for i in range(len(val)):
                    parent[key] = val[:i] + val[i + 1:]
                    emit(o)
                parent[key] = val
                if key in ("containers", "initContainers", "ephemeralContainers"):
                    for c in val:
                        if isinstance(c, dict):
                            for ck in _CONTAINER_OPTIONAL:
                                if ck in c:
                                    cv = c.pop(ck)
                                    emit(o)
                                    c[ck] = cv
        return out


    def shrink_json_case(case):
        # emp|json[|json...] : drop list companions, drop the emp perturbation, delete optional parts of the first object
        f = case.split("|")
        if len(f) < 2:
            return []
        out = []
        if len(f) > 2:
            out.append("|".join(f[:-1]))
        if f[0] != "0":
            out.append("|".join(["0"] + f[1:]))
        for t in _json_shrinks(f[1]):
            if "|" not in t and "\t" not in t and " " not in t:
                out.append("|".join([f[0], t] + f[2:]))
        return out



    P["ENGINES"]["annot"] = {"trivial_tags": {"readonly", "bad"}, "shrink": shrink_annot}
    P["ENGINES"]["codec"] = {"trivial_tags": {"bad"}, "shrink": shrink_json_case}
    P["ENGINES"]["defaults"] = {"trivial_tags": {"fixpoint", "bad"}, "shrink": shrink_json_case}

    def feat_strategy_block_without_type(engine, case):
        """first object of a codec/defaults case: updateStrategy has no type but a rollingUpdate block with a non-zero partition"""
        f = case.split("|")
        if len(f) < 2:
            return False
        try:
            us = json.loads(f[1]).get("spec", {}).get("updateStrategy", {})
        except Exception:
            return False
        ru = us.get("rollingUpdate")
        return us.get("type", "") == "" and isinstance(ru, dict) and ru.get("partition") not in (None, 0)


    P["FEATURES"].update({
        "updateStrategy without type but with a rollingUpdate partition != 0": feat_strategy_block_without_type,
    })

    P["PROPS"]["C19"] = {
            "module": "Asts.Props.C19",
            "runs": [
                {"engine": "annot", "quick": 20000, "thorough": 200000, "enum_thorough": ["all"], "proj": proj_all},
                {"engine": "codec", "quick": 4000, "thorough": 15000, "enum_thorough": [], "proj": proj_all},
                {"engine": "defaults", "quick": 6000, "thorough": 25000, "enum_thorough": [], "proj": proj_all},
            ],
            "rule": "annot: op sequences (1-8 ops out of Set / Add / Get delete-slots with nil, empty and non-empty sets, Set / Get paused-reconcile) on a nil map, an empty map or a map "
                    "with unrelated keys, a valid / whitespace-laden / garbage delete-slots value and eleven spellings of the pause value, carried by a bare ObjectMeta, an Advanced or a "
                    "built-in StatefulSet; slot values small, negative, both int32 extremes, uniform over int32, with duplicates; thorough adds every one- and two-op sequence over 13 ops x 10 "
                    "initial maps. non-trivial = the sequence contains a write. || codec: built-in StatefulSets generated by reflection over the Go type (nil / empty / populated at every "
                    "optional position, field-specific value pools, update strategy in seven shapes, one object in four already defaulted), whole-second timestamps, quantities no finer than "
                    "10^-3 (finer ones are rounded by defaulting: defaults engine), 1-4 objects per case for the list, every third case with nil collections replaced by empty ones; JSON of the "
                    "converted object compared with the schema-indexed model on the extracted schemas. || defaults: Advanced StatefulSets generated the same way including quantities down to "
                    "10^-9, image references from a pool plus one-character mutations, one object in five already defaulted. non-trivial = the first pass changes something. distinct = distinct case line",
            "assumptions": [
                "leaf types shared by both APIs (ObjectMeta, PodTemplateSpec, PersistentVolumeClaim, LabelSelector, Time, ListMeta) survive json.Marshal/Unmarshal: sampled by the codec engine, not proved",
                "metav1.Time round-trips at second precision (generated timestamps are whole seconds); values without a JSON form (pointer to a zero Time, *FieldsV1 without raw bytes, IntOrString with both arms) are not generated",
                "slot values passed to Set/AddDeleteSlots are int32 (the type sets.Int32 enforces it)",
                "the case JSON of codec/defaults is json.Marshal output (leaves in canonical form)",
            ],
            "trusted": ["Gen/Schema.lean extractor (harness/extract_schema.go: reflect over the two Go types)", "Gen/Defaulters.lean extractor (go/ast over zz_generated.defaults.go)",
                        "encoding/json, apimachinery Quantity / Time / IntOrString marshalers, client-go fake clientsets (object tracker)"],
        }
