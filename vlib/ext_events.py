"""C16: engine `events` (pod / set event handlers and the worker's requeue arithmetic)."""


def register(P):
    _shrink_lists = P["_shrink_lists"]

    def shrink_events(case):
        # H|sets|ev|ns|curLabels|curOwners|curRV|curTerm|oldLabels|oldOwners|oldRV|oldTerm   or   W|sets|script
        f = case.split("|")
        if f[0] == "H" and len(f) == 12:
            return _shrink_lists(case, "|", list_fields=((1, ";"), (5, ","), (9, ","), (4, ","), (8, ",")))
        if f[0] == "W" and len(f) == 3:
            return _shrink_lists(case, "|", list_fields=((2, ","),))
        return []

    P["ENGINES"]["events"] = {"trivial_tags": {"bad", "upd.samerv", "tomb.notapod", "del.notapod", "worker.noreconcile"}, "shrink": shrink_events}
    # same Go engine, but the Lean driver runs the lister as it was on the pinned tree (error at the first unconvertible
    # selector): `tools/difftool.sh events-pinned N` on the reverse-fix seed shows that nothing else differs
    P["ENGINES"]["events-pinned"] = P["ENGINES"]["events"]

    def _events_bad_selector_neighbour(engine, case):
        """an `events` handler case whose cache holds a set, in the pod's namespace, with a selector that does not convert"""
        f = case.split("|")
        if engine not in ("events", "events-pinned") or f[0] != "H" or len(f) != 12:
            return False
        for t in f[1].split(";"):
            p = t.split(":")
            if len(p) == 3 and p[0].split("/")[0] == f[3] and p[2] in ("B", "V", "I"):
                return True
        return False

    P["FEATURES"]["a cached set in the namespace has an unconvertible selector"] = _events_bad_selector_neighbour

    def proj_events(case, o):
        # what the C16 predicates read: the set of keys in the queue; the worker steps; whether the code panicked
        return (o.get("keys"), o.get("steps"), o.get("out"))

    EV_RULE = ("events: the pod and set handlers captured at registration in NewStatefulSetController, driven with 0-3 cached sets over 2 namespaces (selector: "
               "matchLabels over {k,l}x{x,y}, empty, nil, unknown operator, In without values, invalid value), one event in {add, update, delete, tombstone, tombstone of a "
               "non-pod, non-pod delete, set add/update/delete/delete-as-tombstone}, pod labels (9 shapes incl. nil and empty map), 0-2 owner references "
               "(kind StatefulSet/ReplicaSet/lower-case, cached or unknown name, right or stale uid, controller flag nil/false/true, apiVersion variant), deletion timestamp, "
               "old pod = new pod with labels / owners / deletion timestamp independently redrawn, equal or different resource versions; worker: 1-3 keys of shape "
               "{reconciles, paused, bad selector, not cached}, scripts of <= 14 steps over {set event, success, UpdateStatefulSet error, ListRevisions error} through "
               "processNextWorkItem on a real rate-limiting queue (zero-delay exponential limiter, call-recording wrapper); plus, in both tiers, the exhaustive scope: 1-2 sets x 5 "
               "selector shapes, 5-6 owners x 3 label sets x deletion timestamp, every (old,new) pair x rv equality, and every worker script of length <= 6 for each shape. "
               "non-trivial = not (malformed line, equal resource versions, delete event without a pod, worker script that never reconciles); distinct = distinct case line")

    P["PROPS"]["C16"] = {
        "module": "Asts.Props.C16",
        "runs": [{"engine": "events", "quick": 40000, "thorough": 400000, "enum_quick": ["all"], "enum_thorough": ["all"], "proj": proj_events},
                 # "a reconcile that fails is put back": the error has to reach the worker, i.e. sync must not swallow it
                 {"engine": "sync", "quick": 5000, "thorough": 60000, "proj": lambda c, o: (o.get("out"),), "clauses": ["C16."], "extra_seeds": 1}],
        "rule": EV_RULE,
        "assumptions": ["the set informer's cache holds at most one set per namespace/name (its indexer is keyed by it)",
                        "the old and the new object of an update event are in the same namespace",
                        "selectors are nil, unconvertible, or matchLabels lists (matchExpressions that convert are not generated)",
                        "the work queue and rate limiter are client-go's; only the calls made on them and NumRequeues are observed"],
    }
