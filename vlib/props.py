"""Registry: engines (trivial tags, shrinkers) and properties (theorem module, engine runs, projections)."""
import re


# ---------------------------------------------------------------- shrinkers

def _shrink_lists(case, sep_fields="|", int_fields=(), list_fields=()):
    """candidates: drop one element of a list field, or move an int field one step toward 0"""
    f = case.split(sep_fields)
    out = []
    for i, seps in list_fields:
        if i >= len(f) or f[i] == "":
            continue
        for sep in seps:
            parts = f[i].split(sep)
            if len(parts) >= 1 and f[i] != "":
                for k in range(len(parts)):
                    g = list(f)
                    g[i] = sep.join(parts[:k] + parts[k + 1:])
                    out.append(sep_fields.join(g))
                break
    for i in int_fields:
        if i < len(f) and re.fullmatch(r"-?\d+", f[i]) and int(f[i]) != 0:
            g = list(f)
            v = int(f[i])
            g[i] = str(v - 1 if v > 0 else v + 1)
            out.append(sep_fields.join(g))
    return out


def shrink_reconcile(case):
    # r|slots|pol|strat|ru|cur|upd|del|gen|stored|pods|faults
    return _shrink_lists(case, "|", int_fields=(0,), list_fields=((1, ","), (10, ";"), (11, ";")))


def shrink_sync(case):
    # paused|selOk|r|slots|pol|strat|ru|del|gen|stored|cc|lim|tmpl|fuid|fdel|store|pods|names|faults
    return _shrink_lists(case, "|", int_fields=(2,), list_fields=((3, ","), (15, ";"), (16, ";"), (18, ";")))


def shrink_world(case):
    head, _, rest = case.partition("#")
    return [head + "#" + c for c in shrink_sync(rest)]


# ---------------------------------------------------------------- engines

ENGINES = {
    "ordinals": {"trivial_tags": {"noann", "empty", "bad"}},
    "reconcile": {"trivial_tags": {"noop.par", "noop.mono", "deleting", "bad"}, "shrink": shrink_reconcile},
    "sync": {"trivial_tags": {"paused", "badselector", "ok", "err", "bad"}, "shrink": shrink_sync},
    "world": {"trivial_tags": {"outside-premises", "bad"}, "shrink": shrink_world},
}


# ---------------------------------------------------------------- projections (what a property's predicate reads)

def acts(o):
    return [a for a in o.get("acts", "").split(",") if a]


def creates(o):
    return [a for a in acts(o) if a.startswith("create:")]


def deletes(o):
    return [a for a in acts(o) if a.startswith("delete:")]


def create_ords(o):
    return [a.split(":")[1] for a in creates(o)]


def proj_all(case, o):
    return sorted(o.items())


# ---------------------------------------------------------------- features (defining feature of a known finding's input)

FEATURES = {}


# ---------------------------------------------------------------- properties

RC_RULE = ("reconcile: random snapshots, r<=6, 0-4 slots (inside / above / negative / int32 extremes), pods over 20 classes (phase x ready x terminating x "
           "revision in {update, current, third, none}) at ordinals 0..bound+1 in three profiles (mess, near-steady, mid-rollout), unparsable names, "
           "duplicate ordinals inside the desired set, four policy strings, four strategy strings, partition in {no block, block without partition, negative, 0, inside, "
           "= bound, beyond}, deleting sets, stale stored status, keyed single/double faults on create/delete/update/status-write; thorough adds the exhaustive "
           "small scope (r<=3, slots subset of {0,1,2}, ordinals 0..3, 8 pod classes, both policies, rolling/OnDelete, 3 partitions, 2 revision pairs, 2 legacy boundaries). "
           "non-trivial = the model's branch tag is not noop/deleting; distinct = distinct case line")


def rc(quick=40000, thorough=400000, proj=None, enum=("small",)):
    return {"engine": "reconcile", "quick": quick, "thorough": thorough, "enum_thorough": list(enum), "proj": proj}


def proj_creates(case, o):
    return creates(o)


def proj_deletes(case, o):
    return deletes(o) + ["out=" + o.get("out", "")]


def proj_create_delete(case, o):
    return [a for a in acts(o) if not a.startswith("update:")]


def proj_status(case, o):
    return (o.get("status"), o.get("written"))


def proj_panic(case, o):
    return o.get("out") == "panic"


SY_RULE = ("sync: random worlds for one set: 0-5 stored ControllerRevisions (proper / arbitrary / engineered-to-collide names, textual / numeric / absent hash "
           "labels, owner in {this set, another controller, nobody}, selector labels and/or upgrade marker, data = current template or others), 0-7 cached pods "
           "(canonical / zero-padded / unparsable / foreign names, owner x label-match x phase x terminating x revision label), cached set vs API copy (same uid / "
           "other uid / gone, deletion timestamp on either), paused, unconvertible selector, history limit 0..3 or 10, collision count, slots, policies, strategies, "
           "partitions; a third of the cases get 1-2 faults (conflict, not-found, already-exists, invalid, server error, timeout; bursts of conflicts) placed on calls "
           "that occur in a dry run. non-trivial = not paused / bad selector and at least one write or a fault; distinct = distinct case line")


def sy(quick=12000, thorough=150000, proj=None):
    return {"engine": "sync", "quick": quick, "thorough": thorough, "proj": proj, "extra_seeds": 1}


def log_entries(o):
    return [e for e in o.get("log", "").split(",") if e]


def proj_sync_revs(case, o):
    return ([e for e in log_entries(o) if ":rev:" in e and not e.startswith("get:")], o.get("revs"), o.get("cc"))


def proj_sync_all(case, o):
    return (log_entries(o), o.get("out"))


def proj_sync_owner(case, o):
    return ([e for e in log_entries(o) if e.startswith("patch:") or e == "get:set" or (":pod:" in e) or (":rev:" in e and not e.startswith("get:")) or ":set:" in e], o.get("mut"))


def proj_sync_c11(case, o):
    f = case.split("|")
    if f[0] == "1" or f[7] == "1" or f[14] == "1":
        return (log_entries(o), o.get("revs"))
    return None


def proj_sync_history(case, o):
    return ([e for e in log_entries(o) if e.startswith("delete:rev:")], sorted(x.split(":")[0] for x in o.get("revs", "").split(";") if x))


WORLD_RULE = ("world: the sync worlds with cache = API as initial states (four fifths inside C02's premises: valid spec, canonical member pods matching the "
              "selector and not foreign-owned, well-formed slots, no Failed/Succeeded pod outside the desired set under OrderedReady), up to 24 rounds of "
              "(settle; sync) on the real controller with graceful pod deletion (terminated pods vanish at once), faults of the plan in round 1 only. "
              "non-trivial = inside the premises; distinct = distinct case line")


def wo(quick=2500, thorough=40000, proj=None):
    return {"engine": "world", "quick": quick, "thorough": thorough, "proj": proj, "extra_seeds": 1}


def proj_world_final(case, o):
    # the last round's pods / status and the number of rounds
    ks = sorted((k for k in o if k.startswith("s") and k[1:].isdigit()), key=lambda k: int(k[1:]))
    return (o.get("n"), o.get(ks[-1]) if ks else None)


def proj_world_all(case, o):
    return sorted(o.items())


def proj_sync_pods(case, o):
    return ([e for e in log_entries(o) if ":pod:" in e and not e.startswith("patch:")], o.get("creates"))


SY_L1 = " || sync: the same predicate re-checked on the calls the REAL pod control issues inside a whole sync (" + SY_RULE + ")"

PROPS = {
    "C02": {"module": "Asts.Props.C02", "extra_modules": ["Asts.Props.EditHistory"],
            "assumptions": ["quiescence (a Final world is silent, stays Final for ever) and invariance of the premises under settle and under a round with ANY fault plan are proved for all worlds. Convergence: C02_converges proves, for every world inside the monitor's premise wfWorld that also satisfies the decidable extraMB, `exists n <= roundBound i, Final (roundsN n i)` — both policies, the legacy-boundary mode (RollingUpdate without a rollingUpdate block), the normalising first rounds (adoption of pods and revisions, creation / renumbering of the update revision) and worlds holding pod objects that are not members of the set (label carriers, foreign pods, non-member orphans) included; the bound is the one the run-time monitor uses. extraMB = hashing premises (hashOkB: a visible revision records the template or the probe walk ends on a free name within |store|+8 probes having passed only revisions that record something else; labelsOkB: no unparsable hash label next to a mismatching parsable one; both NECESSARY: label_mismatch_never_quiet, degenerate_hashing_never_converges, equalRevision_not_transitive_quiet_not_final are proved counterexamples — a listed revision whose hash label was tampered with keeps every sync writing; the real hash makes the name determine the label) + spec.replicas set, storage of every member matches, one member per ordinal (outside these the model never reaches Final) + facts about API objects the model's independent fields do not enforce (pod names and revision names pairwise distinct, no non-member under the canonical name of a desired ordinal) + model encoding (no colon in the set's name; sizes within the id scheme: non-members + members outside the desired set + replicas <= 10^6). All generated wfWorld worlds (4325 of 4325 sampled by the prover) lie inside extraMB; worlds outside it are judged by the monitors only. The theorems named ..._partial are the earlier stages (normal worlds, legacy mode, all-member worlds), kept because the final theorem is built on them",
                            "the fairness premise is the executable `settle` (caches = API, terminating pods gone, every pod that can be is Running and Ready) between reconciles; arbitrary interleavings with lagging caches are not modelled",
                            "premises (wfWorld): valid spec, not paused, not being deleted, well-formed slots, member pods canonically named, matching and not foreign-owned, no Failed/Succeeded pod outside the desired set under OrderedReady, no invisible revision on a probed name; findings of the proof: the eight-probe clause is not inductive (RevProbeFree is), a constant hash function defeats convergence (hashing premise needed)"], "runs": [wo(proj=proj_world_all), sy(quick=4000, proj=proj_sync_all), rc(quick=15000, thorough=150000, proj=lambda c, o: (creates(o), o.get("tplbad")))],
            "rule": WORLD_RULE + " || " + SY_RULE + " || " + RC_RULE},
    "C08": {"module": "Asts.Props.C08", "assumptions": ["headline C08_monitor_true_on_model: names are unique in the revision store (one API namespace; the monitor looks revisions up by name)", "fuel of the collision loop: nameOf template is injective on |store|+1 consecutive collision counts (otherwise the Go loop could spin; stated as fuel_never_exhausted)"], "runs": [sy(proj=proj_sync_revs)], "rule": SY_RULE},
    "C09": {"module": "Asts.Props.C09", "extra_modules": ["Asts.Props.Glue"], "assumptions": ["headline C09_reported: object names contain no colon (Kubernetes names never do) and the fault plan injects nothing into pod-control calls; faults on pod-control calls are covered by reconcile_hit_err / reconcile_err_iff_last_hit at the Faults level, by reported_any_plan for every other call, and by the engines (the model translates only first-occurrence pod faults)", "recovery (same final state once calls stop failing) is C02 from the state left behind: the world engine applies error faults and crashes to round 1 and monitors C09.recovers"], "runs": [sy(proj=proj_sync_all), wo(quick=1500, proj=proj_world_final)], "rule": SY_RULE + " || " + WORLD_RULE},
    "C10": {"module": "Asts.Props.C10", "assumptions": ["C10_revs: names are unique in the revision store (one API namespace; the monitor looks a written revision up by name)", "C10_pods: pod names are unique; the ordinal recorded for a pod is the one its name shows; every pod the set may claim (member, matching, not controlled by another owner) has its canonical name S-<ordinal> -- without it the identity fix of a zero-padded claimed pod (web-03) addresses its Update to web-3, which may be another owner's pod (upstream quirk, example exQuirk in Props/C10.lean; the run-time monitor carries the same precondition)", "'objects read from caches are left unmodified' is Go aliasing: monitored by the engine (C10.cache: deep comparison of every cached object before / after each sync), not proved"], "runs": [sy(proj=proj_sync_owner)], "rule": SY_RULE},
    "C11": {"module": "Asts.Props.C11", "extra_modules": ["Asts.Props.Glue2"], "assumptions": ["C11_deleting (store half): names are unique in the revision store (the monitor looks every input revision up by name; example exDup in Props/C11.lean)", "'resumes and converges to the same result as if it had never been paused': a paused round changes nothing in the API state (paused_round), so un-pausing resumes from the same state and C02 applies"], "runs": [sy(proj=proj_sync_c11)], "rule": SY_RULE},
    "C13": {"module": "Asts.Props.C13", "assumptions": ["headline C13_monitor_true_on_model: store names distinct, pod names distinct, no colon in a store or pod name (Kubernetes names never contain one)", "revisionHistoryLimit present (the CRD defaults it; nil is the modelled panic of truncateHistory, unreachable for admitted objects)"], "runs": [sy(proj=proj_sync_history)], "rule": SY_RULE},
    "C03": {"module": "Asts.Props.C03", "extra_modules": ["Asts.Props.Glue", "Asts.Props.EditAlgebra", "Asts.Props.EditHistory"], "runs": [rc(proj=proj_deletes), sy(quick=5000, thorough=60000, proj=proj_sync_pods)], "rule": RC_RULE + SY_L1},
    "C04": {"module": "Asts.Props.C04", "extra_modules": ["Asts.Props.Glue2", "Asts.Props.EditAlgebra"], "runs": [rc(proj=proj_creates), sy(quick=5000, thorough=60000, proj=proj_sync_pods)], "rule": RC_RULE + SY_L1},
    "C05": {"module": "Asts.Props.C05", "extra_modules": ["Asts.Props.Glue"], "runs": [rc(proj=proj_create_delete), sy(quick=5000, thorough=60000, proj=proj_sync_pods)], "rule": RC_RULE + SY_L1},
    "C07": {"module": "Asts.Props.C07", "runs": [rc(proj=proj_create_delete), sy(quick=5000, thorough=60000, proj=proj_sync_pods)], "rule": RC_RULE + SY_L1},
    "C12": {"module": "Asts.Props.C12", "extra_modules": ["Asts.Props.Glue2"], "runs": [rc(proj=proj_status), sy(quick=6000, proj=lambda c, o: o.get("status")), wo(quick=1200, proj=proj_world_final)],
            "rule": RC_RULE + " || " + SY_RULE + " || " + WORLD_RULE,
            "assumptions": ["bounds clause: every pod object of the snapshot carries a phase (the API server stamps Pending on create); "
                            "a phase-less pod outside the desired set drives currentReplicas to -1 in the model (example in Props/C12.lean)",
                            "generation clause: the stored observedGeneration is not ahead of the object's generation (true of every object the controller itself wrote)"]},
    "C14": {"module": "Asts.Props.C14", "runs": [rc(proj=proj_create_delete), sy(quick=5000, thorough=60000, proj=proj_sync_pods)], "rule": RC_RULE + SY_L1,
            "assumptions": ["replicas present and >= 0 (CRD)", "wfSnapshot (every pod has a phase, ordinals distinct)",
                            "pod ids are their positions in the snapshot and there are at most freshId pods (how the driver numbers pod objects; classify looks pods up by id)",]},
    "C15": {"module": "Asts.Props.C15", "runs": [rc(proj=proj_panic), sy(quick=6000, proj=proj_panic),
                                                 # pod construction and the pod control over real strings (duplicate claim template names, odd set names, huge ordinals)
                                                 {"engine": "podcontrol", "quick": 10000, "thorough": 100000, "proj": (lambda c, o: "panic" if "panic" in str(o) else ""), "clauses": ["C15."]}],
            "rule": RC_RULE + " || " + SY_RULE,
            "assumptions": ["replicas present (CRD: required; the CRD facts of Gen/Crd.lean are re-checked by `decide` on every run)",
                            "no bound on pod ordinals or on replicas + |slots| any more: the sentinel hypothesis the proof had forced was run on the real code, which panicked (one unhealthy pod at ordinal 2147483647), and the scan was repaired (fix 53b1b2a)",
                            "memory exhaustion (a replica count near 2^31 makes the controller allocate a slice of that size) is a runtime limit, not a panic of the modelled logic"]},
    "C01": {
        "module": "Asts.Props.C01",
        "extra_modules": ["Asts.Props.EditAlgebra"],
        "runs": [
            {"engine": "ordinals", "quick": 30000, "thorough": 200000, "enum_thorough": ["all"], "proj": proj_all},
            rc(quick=20000, thorough=200000, proj=proj_creates),
            sy(quick=4000, thorough=50000, proj=proj_sync_pods),
        ],
        "rule": RC_RULE + " || ordinals: r in 0..2000 (mostly < 12), annotation nil/absent/raw; raw = valid JSON int arrays with slots below/inside/above the range, "
                "negatives, int32 extremes, duplicates, null elements, JSON whitespace, plus a malformed stream (fixed list + one-byte mutations); "
                "thorough adds every r <= 6 x every subset of {-2..9}. non-trivial = the annotation parses to a non-empty slot set or is malformed; distinct = distinct case line",
        "assumptions": ["r + |slots| < 2^31 (int32 counter of the range-extension loop does not overflow; the annotation size limit enforces it)"],
    },
}


# ---------------------------------------------------------------- extensions (one file per engine family: vlib/ext_*.py)

def _load_extensions():
    import glob
    import importlib
    import os
    here = os.path.dirname(os.path.abspath(__file__))
    for path in sorted(glob.glob(os.path.join(here, "ext_*.py"))):
        name = os.path.basename(path)[:-3]
        mod = importlib.import_module("." + name, __package__)
        mod.register(globals())


_load_extensions()
