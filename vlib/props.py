"""Registry: engines (trivial tags, shrinkers) and properties (theorem module, engine runs, projections)."""
import re


# ---------------------------------------------------------------- shrinkers

def _shrink_lists(case, sep_fields="|", int_fields=(), list_fields=()):
    """candidates: drop one element of a list field, or move an int field one step toward 0"""
    f = case.split(sep_fields)
    out = []
    for i, seps in list_fields:
        if i >= len(f) or f[i] == "":
            continue
        for sep in seps:
            parts = f[i].split(sep)
            if len(parts) >= 1 and f[i] != "":
                for k in range(len(parts)):
                    g = list(f)
                    g[i] = sep.join(parts[:k] + parts[k + 1:])
                    out.append(sep_fields.join(g))
                break
    for i in int_fields:
        if i < len(f) and re.fullmatch(r"-?\d+", f[i]) and int(f[i]) != 0:
            g = list(f)
            v = int(f[i])
            g[i] = str(v - 1 if v > 0 else v + 1)
            out.append(sep_fields.join(g))
    return out


def shrink_reconcile(case):
    # r|slots|pol|strat|ru|cur|upd|del|gen|stored|pods|faults
    return _shrink_lists(case, "|", int_fields=(0,), list_fields=((1, ","), (10, ";"), (11, ";")))


# ---------------------------------------------------------------- engines

ENGINES = {
    "ordinals": {"trivial_tags": {"noann", "empty", "bad"}},
    "reconcile": {"trivial_tags": {"noop", "bad"}, "shrink": shrink_reconcile},
}


# ---------------------------------------------------------------- projections (what a property's predicate reads)

def acts(o):
    return [a for a in o.get("acts", "").split(",") if a]


def creates(o):
    return [a for a in acts(o) if a.startswith("create:")]


def deletes(o):
    return [a for a in acts(o) if a.startswith("delete:")]


def create_ords(o):
    return [a.split(":")[1] for a in creates(o)]


def proj_all(case, o):
    return sorted(o.items())


# ---------------------------------------------------------------- features (defining feature of a known finding's input)

FEATURES = {}


# ---------------------------------------------------------------- properties

PROPS = {
    "C01": {
        "module": "Asts.Props.C01",
        "runs": [
            {"engine": "ordinals", "quick": 30000, "thorough": 200000, "enum_thorough": ["all"], "proj": proj_all},
        ],
        "rule": "ordinals: r in 0..2000 (mostly < 12), annotation nil/absent/raw; raw = valid JSON int arrays with slots below/inside/above the range, "
                "negatives, int32 extremes, duplicates, null elements, JSON whitespace, plus a malformed stream (fixed list + one-byte mutations); "
                "thorough adds every r <= 6 x every subset of {-2..9}. non-trivial = the annotation parses to a non-empty slot set or is malformed; distinct = distinct case line",
        "assumptions": ["r + |slots| < 2^31 (int32 counter of the range-extension loop does not overflow; the annotation size limit enforces it)"],
    },
}
