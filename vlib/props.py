"""Registry: engines (trivial tags, shrinkers) and properties (theorem module, engine runs, projections)."""
import re


# ---------------------------------------------------------------- shrinkers

def _shrink_lists(case, sep_fields="|", int_fields=(), list_fields=()):
    """candidates: drop one element of a list field, or move an int field one step toward 0"""
    f = case.split(sep_fields)
    out = []
    for i, seps in list_fields:
        if i >= len(f) or f[i] == "":
            continue
        for sep in seps:
            parts = f[i].split(sep)
            if len(parts) >= 1 and f[i] != "":
                for k in range(len(parts)):
                    g = list(f)
                    g[i] = sep.join(parts[:k] + parts[k + 1:])
                    out.append(sep_fields.join(g))
                break
    for i in int_fields:
        if i < len(f) and re.fullmatch(r"-?\d+", f[i]) and int(f[i]) != 0:
            g = list(f)
            v = int(f[i])
            g[i] = str(v - 1 if v > 0 else v + 1)
            out.append(sep_fields.join(g))
    return out


def shrink_reconcile(case):
    # r|slots|pol|strat|ru|cur|upd|del|gen|stored|pods|faults
    return _shrink_lists(case, "|", int_fields=(0,), list_fields=((1, ","), (10, ";"), (11, ";")))


# ---------------------------------------------------------------- engines

ENGINES = {
    "ordinals": {"trivial_tags": {"noann", "empty", "bad"}},
    "reconcile": {"trivial_tags": {"noop.par", "noop.mono", "deleting", "bad"}, "shrink": shrink_reconcile},
}


# ---------------------------------------------------------------- projections (what a property's predicate reads)

def acts(o):
    return [a for a in o.get("acts", "").split(",") if a]


def creates(o):
    return [a for a in acts(o) if a.startswith("create:")]


def deletes(o):
    return [a for a in acts(o) if a.startswith("delete:")]


def create_ords(o):
    return [a.split(":")[1] for a in creates(o)]


def proj_all(case, o):
    return sorted(o.items())


# ---------------------------------------------------------------- features (defining feature of a known finding's input)

FEATURES = {}


# ---------------------------------------------------------------- properties

RC_RULE = ("reconcile: random snapshots, r<=6, 0-4 slots (inside / above / negative / int32 extremes), pods over 20 classes (phase x ready x terminating x "
           "revision in {update, current, third, none}) at ordinals 0..bound+1 in three profiles (mess, near-steady, mid-rollout), unparsable names, "
           "duplicate ordinals inside the desired set, four policy strings, four strategy strings, partition in {no block, block without partition, negative, 0, inside, "
           "= bound, beyond}, deleting sets, stale stored status, keyed single/double faults on create/delete/update/status-write; thorough adds the exhaustive "
           "small scope (r<=3, slots subset of {0,1,2}, ordinals 0..3, 8 pod classes, both policies, rolling/OnDelete, 3 partitions, 2 revision pairs, 2 legacy boundaries). "
           "non-trivial = the model's branch tag is not noop/deleting; distinct = distinct case line")


def rc(quick=40000, thorough=400000, proj=None, enum=("small",)):
    return {"engine": "reconcile", "quick": quick, "thorough": thorough, "enum_thorough": list(enum), "proj": proj}


def proj_creates(case, o):
    return creates(o)


def proj_deletes(case, o):
    return deletes(o) + ["out=" + o.get("out", "")]


def proj_create_delete(case, o):
    return [a for a in acts(o) if not a.startswith("update:")]


def proj_status(case, o):
    return (o.get("status"), o.get("written"))


def proj_panic(case, o):
    return o.get("out") == "panic"


PROPS = {
    "C03": {"module": "Asts.Props.C03", "claimed": False, "runs": [rc(proj=proj_deletes)], "rule": RC_RULE},
    "C04": {"module": "Asts.Props.C04", "claimed": False, "runs": [rc(proj=proj_creates)], "rule": RC_RULE},
    "C05": {"module": "Asts.Props.C05", "claimed": False, "runs": [rc(proj=proj_create_delete)], "rule": RC_RULE},
    "C07": {"module": "Asts.Props.C07", "claimed": False, "runs": [rc(proj=proj_create_delete)], "rule": RC_RULE},
    "C12": {"module": "Asts.Props.C12", "claimed": False, "runs": [rc(proj=proj_status)], "rule": RC_RULE},
    "C14": {"module": "Asts.Props.C14", "claimed": False, "runs": [rc(proj=proj_create_delete)], "rule": RC_RULE},
    "C15": {"module": "Asts.Props.C15", "claimed": False, "runs": [rc(proj=proj_panic)], "rule": RC_RULE},
    "C01": {
        "module": "Asts.Props.C01",
        "runs": [
            {"engine": "ordinals", "quick": 30000, "thorough": 200000, "enum_thorough": ["all"], "proj": proj_all},
            rc(quick=20000, thorough=200000, proj=proj_creates),
        ],
        "rule": RC_RULE + " || ordinals: r in 0..2000 (mostly < 12), annotation nil/absent/raw; raw = valid JSON int arrays with slots below/inside/above the range, "
                "negatives, int32 extremes, duplicates, null elements, JSON whitespace, plus a malformed stream (fixed list + one-byte mutations); "
                "thorough adds every r <= 6 x every subset of {-2..9}. non-trivial = the annotation parses to a non-empty slot set or is malformed; distinct = distinct case line",
        "assumptions": ["r + |slots| < 2^31 (int32 counter of the range-extension loop does not overflow; the annotation size limit enforces it)"],
    },
}
