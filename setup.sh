#!/bin/sh
# Build the framework from files on disk only (offline): the Go harness against /repo with hooks on, the Lean library
# (model, specs, proofs, property theorems) and the native model driver.
set -e
cd "$(dirname "$0")"
export GOFLAGS=-mod=mod GOPROXY=off GOSUMDB=off GOTOOLCHAIN=local CGO_ENABLED=0
mkdir -p .work/bin evidence replays
cat /repo/go.sum /repo/client/go.sum | sort -u > harness/go.sum
(cd harness && go build -tags verif -o ../.work/bin/harness .)
mkdir -p lean/Asts/Gen
for w in Sites Crd Defaulters Schema; do ./.work/bin/harness extract $w > lean/Asts/Gen/$w.lean; done
(cd lean && lake build)
echo setup-ok
