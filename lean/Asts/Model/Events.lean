namespace Asts.Events

/-! L7 — model of the event side of `pkg/controller/statefulset/stateful_set.go`:
    `addPod`, `updatePod`, `deletePod`, `resolveControllerRef`, `getStatefulSetsForPod`, `enqueueStatefulSet`, the set informer
    handlers registered by `NewStatefulSetController`, `processNextWorkItem`; and of the lister expansion
    `client/client/listers/apps/v1/expansion_generated.go` (`GetPodStatefulSets`).

    What is abstracted: a label selector is `nil`, *unconvertible* (anything `metav1.LabelSelectorAsSelector` rejects) or a
    `matchLabels` list; pod labels are a list of pairs in a canonical order (so `reflect.DeepEqual` on the maps is list
    equality, except that a nil map and an empty map differ, which is kept); of an owner reference the fields `apiVersion`
    and `blockOwnerDeletion` — read only by `reflect.DeepEqual` — are folded into one number `extra`. The informer cache is
    a list of sets; `Get` finds the first with that namespace and name (the indexer holds at most one). The work queue is a
    FIFO without duplicates and a per-key failure counter (client-go's `ItemExponentialFailureRateLimiter`). -/

abbrev Label := String × String
/-- work-queue key `namespace/name` -/
abbrev Key := String × String

inductive Sel where
  | nil                       -- `spec.selector` absent
  | bad                       -- does not convert: unknown operator, `In` without values, invalid label value, …
  | labels (l : List Label)   -- `matchLabels` only; `[]` is the empty selector
  deriving DecidableEq, Repr

structure SetObj where
  ns : String
  name : String
  uid : String
  sel : Sel
  deriving DecidableEq, Repr

structure OwnerRef where
  kind : String
  name : String
  uid : String
  controller : Option Bool    -- `*bool`
  extra : Nat                 -- apiVersion / blockOwnerDeletion, seen by DeepEqual only
  deriving DecidableEq, Repr

structure Pod where
  ns : String
  labels : Option (List Label)   -- `none` = nil map
  owners : List OwnerRef
  rv : String
  terminating : Bool             -- `DeletionTimestamp != nil`
  deriving DecidableEq, Repr

inductive Event where
  | add (p : Pod)
  | update (old cur : Pod)
  | delete (p : Pod)
  | tombstone (p : Pod)     -- `cache.DeletedFinalStateUnknown` holding a pod
  | tombstoneOther          -- a tombstone holding something that is not a pod
  | deleteOther             -- neither a pod nor a tombstone
  | setAdd (k : Key)
  | setUpdate (k : Key)
  | setDelete (k : Key)
  | setTombstone (k : Key)  -- a set deletion delivered as a tombstone (`keyFunc` is `DeletionHandlingMetaNamespaceKeyFunc`)
  deriving Repr

def SetObj.key (s : SetObj) : Key := (s.ns, s.name)

/-- `metav1.GetControllerOf`: the first owner reference whose `controller` is set and true -/
def controllerOf (p : Pod) : Option OwnerRef := p.owners.find? (fun r => r.controller == some true)

/-- `setLister.StatefulSets(ns).Get(name)` -/
def getSet (sets : List SetObj) (ns name : String) : Option SetObj :=
  sets.find? (fun s => s.ns == ns && s.name == name)

/-- `resolveControllerRef` (stateful_set.go:403-420): kind, then lookup by name, then uid -/
def resolveControllerRef (sets : List SetObj) (ns : String) (ref : OwnerRef) : Option SetObj :=
  if ref.kind != "StatefulSet" then none else
  match getSet sets ns ref.name with
  | none => none
  | some s => if s.uid != ref.uid then none else some s

/-- what `metav1.LabelSelectorAsSelector` returns: `labels.Nothing()` for nil, the requirement list otherwise -/
inductive Selector where
  | nothing
  | reqs (l : List Label)

def convert : Sel → Option Selector
  | .nil => some .nothing
  | .bad => none
  | .labels l => some (.reqs l)

def Selector.empty : Selector → Bool
  | .nothing => false
  | .reqs l => l.isEmpty

def Selector.matches : Selector → List Label → Bool
  | .nothing, _ => false
  | .reqs l, ls => l.all (fun r => ls.contains r)

/-- which lister expansion: the one on the pinned tree (returns an error at the first selector that does not convert)
    or the intended one (skips that set, as upstream client-go does) -/
inductive Lister where
  | pinned
  | fixed
  deriving DecidableEq, Repr

/-- the loop of `GetPodStatefulSets`; `none` = it returned an error -/
def podSetsLoop (L : Lister) (ns : String) (labels : List Label) : List SetObj → Option (List SetObj)
  | [] => some []
  | s :: rest =>
    if s.ns != ns then podSetsLoop L ns labels rest else
    match convert s.sel with
    | none =>
      match L with
      | .pinned => none
      | .fixed => podSetsLoop L ns labels rest
    | some sel =>
      if sel.empty || !sel.matches labels then podSetsLoop L ns labels rest
      else (podSetsLoop L ns labels rest).map (s :: ·)

/-- `GetPodStatefulSets`: error for a pod without labels, error from the loop, error when nothing matched -/
def getPodStatefulSets (L : Lister) (sets : List SetObj) (p : Pod) : Option (List SetObj) :=
  let labels := p.labels.getD []
  if labels.length == 0 then none else
  match podSetsLoop L p.ns labels sets with
  | none => none
  | some [] => none
  | some l => some l

/-- `getStatefulSetsForPod`: any error means "no sets" -/
def getStatefulSetsForPod (L : Lister) (sets : List SetObj) (p : Pod) : List SetObj :=
  (getPodStatefulSets L sets p).getD []

/-- the `queue.Add` calls of `enqueueStatefulSet` for a resolved owner -/
def enqueueResolved (sets : List SetObj) (ns : String) (ref : OwnerRef) : List Key :=
  match resolveControllerRef sets ns ref with
  | none => []
  | some s => [s.key]

def enqueueMatching (L : Lister) (sets : List SetObj) (p : Pod) : List Key :=
  (getStatefulSetsForPod L sets p).map SetObj.key

/-- `deletePod` once the pod has been dug out of the event object -/
def deletePod (sets : List SetObj) (p : Pod) : List Key :=
  match controllerOf p with
  | none => []
  | some ref => enqueueResolved sets p.ns ref

def addPod (L : Lister) (sets : List SetObj) (p : Pod) : List Key :=
  if p.terminating then deletePod sets p else
  match controllerOf p with
  | some ref => enqueueResolved sets p.ns ref
  | none => enqueueMatching L sets p

/-- first half of `updatePod`: the old controller, when the reference changed -/
def updateOld (sets : List SetObj) (old cur : Pod) : List Key :=
  if controllerOf cur = controllerOf old then [] else
  match controllerOf old with
  | none => []
  | some ref => enqueueResolved sets old.ns ref

/-- second half of `updatePod` -/
def updateCur (L : Lister) (sets : List SetObj) (old cur : Pod) : List Key :=
  match controllerOf cur with
  | some ref => enqueueResolved sets cur.ns ref
  | none =>
    if cur.labels ≠ old.labels ∨ controllerOf cur ≠ controllerOf old then enqueueMatching L sets cur else []

def updatePod (L : Lister) (sets : List SetObj) (old cur : Pod) : List Key :=
  if cur.rv == old.rv then [] else updateOld sets old cur ++ updateCur L sets old cur

/-- the `queue.Add` calls, in order, that one informer event causes -/
def handle (L : Lister) (sets : List SetObj) : Event → List Key
  | .add p => addPod L sets p
  | .update old cur => updatePod L sets old cur
  | .delete p => deletePod sets p
  | .tombstone p => deletePod sets p
  | .tombstoneOther => []
  | .deleteOther => []
  | .setAdd k => [k]
  | .setUpdate k => [k]
  | .setDelete k => [k]
  | .setTombstone k => [k]

/-! ## the worker -/

/-- what `sync` finds for a key -/
inductive Shape where
  | normal        -- in the cache, reaches `UpdateStatefulSet`
  | paused        -- in the cache, paused: `sync` returns nil
  | badSelector   -- in the cache, selector does not convert: `sync` returns nil ("non-transient, don't retry")
  | absent        -- not in the cache: `sync` returns nil
  deriving DecidableEq, Repr

/-- what the control answers -/
inductive Scripted where
  | ok
  | updateErr     -- `UpdateStatefulSet` fails
  | listRevErr    -- `ListRevisions` fails (inside `adoptOrphanRevisions`)
  deriving DecidableEq, Repr

/-- does `sync key` return an error -/
def syncFails (sh : Shape) (sc : Scripted) : Bool :=
  match sh, sc with
  | .normal, .updateErr => true
  | .normal, .listRevErr => true
  | _, _ => false

inductive Op where
  | event (k : Key)             -- a set event for `k` arrives
  | process (sc : Scripted)     -- `processNextWorkItem` runs once (not called when the queue is empty: it would block)
  deriving Repr

structure WState where
  queue : List Key
  fails : Key → Nat             -- `NumRequeues`

def WState.init : WState := { queue := [], fails := fun _ => 0 }

inductive StepObs where
  | queued (len : Nat)
  | idle
  | processed (k : Key) (calls : List String) (requeues : Nat) (len : Nat)
  deriving DecidableEq, Repr

def qAdd (q : List Key) (k : Key) : List Key := if q.contains k then q else q ++ [k]

def bump (f : Key → Nat) (k : Key) : Key → Nat := fun k' => if k' = k then f k + 1 else f k'
def reset (f : Key → Nat) (k : Key) : Key → Nat := fun k' => if k' = k then 0 else f k'

/-- `processNextWorkItem` on a non-empty queue -/
def processKey (shapeOf : Key → Shape) (st : WState) (k : Key) (rest : List Key) (sc : Scripted) : WState × StepObs :=
  if syncFails (shapeOf k) sc then
    let f := bump st.fails k
    ({ queue := rest ++ [k], fails := f }, .processed k ["get", "arl", "done"] (f k) (rest.length + 1))
  else
    ({ queue := rest, fails := reset st.fails k }, .processed k ["get", "forget", "done"] 0 rest.length)

def step (shapeOf : Key → Shape) (st : WState) : Op → WState × StepObs
  | .event k => let q := qAdd st.queue k; ({ st with queue := q }, .queued q.length)
  | .process sc =>
    match st.queue with
    | [] => (st, .idle)
    | k :: rest => processKey shapeOf st k rest sc

def run (shapeOf : Key → Shape) : WState → List Op → WState × List StepObs
  | st, [] => (st, [])
  | st, op :: ops =>
    let r := step shapeOf st op
    let rs := run shapeOf r.1 ops
    (rs.1, r.2 :: rs.2)

/-- the reconciles of key `k` performed by a run, oldest first (`true` = `sync` returned an error) -/
def reconciled (shapeOf : Key → Shape) (k : Key) : WState → List Op → List Bool
  | _, [] => []
  | st, op :: ops =>
    let rest := reconciled shapeOf k (step shapeOf st op).1 ops
    match op, st.queue with
    | .process sc, k' :: _ => if k' = k then syncFails (shapeOf k) sc :: rest else rest
    | _, _ => rest

end Asts.Events
