import Asts.Model.Sync
namespace Asts

inductive ErrKind | conflict | notFound | alreadyExists | invalid | other
  deriving DecidableEq, Repr

/-- an injected fault: the `occ`-th call (0-based) with key `key` fails with `kind` -/
structure Fault where
  key  : String
  occ  : Nat
  kind : ErrKind
  deriving DecidableEq, Repr

/-- trace state threaded through one sync: every API call in order, failed ones included -/
structure Tr where
  log : List String := []
  deriving Repr

def Tr.call (t : Tr) (plan : List Fault) (k : String) : Tr × Option ErrKind :=
  let occ := (t.log.filter (· == k)).length
  ({ log := t.log ++ [k] }, (plan.find? (fun f => f.key == k && f.occ == occ)).map (·.kind))

structure RevSt where
  store : List Rev
  tr    : Tr := {}
  deriving Repr

/-- `ListRevisions`: two List calls -/
def listRevsF (plan : List Fault) (s : RevSt) : RevSt × Option (List Rev) :=
  let (t1, e1) := s.tr.call plan "list:revs"
  match e1 with
  | some _ => ({ s with tr := t1 }, none)
  | none =>
    let (t2, e2) := t1.call plan "list:revs"
    match e2 with
    | some _ => ({ s with tr := t2 }, none)
    | none => ({ s with tr := t2 }, some (listRevisions s.store))

def foldOk {α β} (xs : List α) (init : β) (f : β → α → β × Bool) : β × Bool :=
  xs.foldl (fun (acc : β × Bool) x => if acc.2 then f acc.1 x else acc) (init, true)

/-- `adoptOrphanRevisions` with faults -/
def adoptOrphanRevisionsF (plan : List Fault) (freshUidOk : Bool) (s : RevSt) : RevSt × Outcome :=
  match listRevsF plan s with
  | (s, none) => (s, .err)
  | (s, some revs) =>
    if !(revs.any (·.owner == .none)) then (s, .ok) else
    let (s, ok) := foldOk revs s fun s r =>
      if r.marker then
        let (t, e) := s.tr.call plan s!"update:rev:{r.name}"
        match e with
        | some _ => ({ s with tr := t }, false)
        | none => ({ store := s.store.map (fun x => if x.name == r.name then { x with selMatch := true } else x), tr := t }, true)
      else (s, true)
    if !ok then (s, .err) else
    let (t, e) := s.tr.call plan "get:set"
    let s := { s with tr := t }
    if e.isSome || !freshUidOk then (s, .err) else
    let (s, ok) := foldOk revs s fun s r =>
      if r.owner != .none then (s, false)
      else
        let (t, e) := s.tr.call plan s!"patch:rev:{r.name}"
        match e with
        | some _ => ({ s with tr := t }, false)
        | none => ({ store := s.store.map (fun x => if x.name == r.name then { x with owner := .self } else x), tr := t }, true)
    (s, if ok then .ok else .err)

structure ClaimOutF where
  claimed : List Pod := []
  failed  : Bool := false
  canAdopt : Option Bool := none      -- memo of the once-only uncached check
  tr      : Tr

/-- `ClaimPods` with faults: NotFound on either patch and Invalid on release are swallowed on purpose -/
def claimPodsF (plan : List Fault) (setDeleting freshUidOk freshDeleting : Bool) (pods : List CPod) (tr : Tr) : ClaimOutF :=
  pods.foldl (fun (o : ClaimOutF) c =>
    match claimDecision setDeleting c with
    | .keep => { o with claimed := o.claimed ++ [c.pod] }
    | .ignore => o
    | .release =>
      let (t, e) := o.tr.call plan s!"patch:pod:{c.pod.id}"
      let o := { o with tr := t }
      match e with
      | some .notFound | some .invalid | none => o
      | some _ => { o with failed := true }
    | .adopt =>
      -- CanAdopt: at most one uncached GET per sync
      let (o, can) := match o.canAdopt with
        | some b => (o, b)
        | none =>
          let (t, e) := o.tr.call plan "get:set"
          let b := e.isNone && freshUidOk && !freshDeleting
          ({ o with tr := t, canAdopt := some b }, b)
      if !can then { o with failed := true }
      else
        let (t, e) := o.tr.call plan s!"patch:pod:{c.pod.id}"
        let o := { o with tr := t }
        match e with
        | none => { o with claimed := o.claimed ++ [c.pod] }
        | some .notFound => o
        | some _ => { o with failed := true }) { tr := tr }

/-- `updateControllerRevision`: RetryOnConflict(DefaultBackoff), 4 attempts -/
def renumberF (plan : List Fault) (name : String) (n : Int) : Nat → RevSt → RevSt × Bool
  | 0, s => (s, false)
  | fuel + 1, s =>
    let (t, e) := s.tr.call plan s!"update:rev:{name}"
    let s := { s with tr := t }
    match e with
    | none => ({ s with store := s.store.map (fun r => if r.name == name then { r with number := n } else r) }, true)
    | some k =>
      -- after any failed Update the clone is refreshed with an uncached GET (whose own failure is ignored);
      -- only a Conflict is retried
      let (t, _) := s.tr.call plan s!"get:rev:{name}"
      let s := { s with tr := t }
      if k == .conflict && fuel != 0 then renumberF plan name n fuel s else (s, false)

/-- `createControllerRevision` with faults -/
def createRevLoopF (h : Hashing) (plan : List Fault) (fresh : Rev) : Nat → Int → RevSt → RevSt × Option (Rev × Int)
  | 0, _, s => (s, none)
  | fuel + 1, cc, s =>
    let nm := h.nameOf fresh.data cc
    let (t, e) := s.tr.call plan s!"create:rev:{nm}"
    let s := { s with tr := t }
    let exists_ := s.store.find? (·.name == nm)
    let kind : Option ErrKind := match e with | some k => some k | none => if exists_.isSome then some .alreadyExists else none
    match kind with
    | none =>
      let r := { fresh with name := nm }
      ({ s with store := insertByName r s.store }, some (r, cc))
    | some .alreadyExists =>
      let (t, e) := s.tr.call plan s!"get:rev:{nm}"
      let s := { s with tr := t }
      match e, exists_ with
      | none, some ex => if ex.data == fresh.data then (s, some (ex, cc)) else createRevLoopF h plan fresh fuel (cc + 1) s
      | _, _ => (s, none)
    | some _ => (s, none)

def getRevisionsF (h : Hashing) (plan : List Fault) (template statusCurrentRev : String) (cc0 now : Int)
    (revs : List Rev) (s : RevSt) : RevSt × Option (Rev × Rev) :=
  let fresh : Rev := { name := h.nameOf template cc0, number := nextRevision revs, ctime := now, data := template,
                       hashNum := h.hashNumOf template cc0, owner := .self, selMatch := true, marker := false }
  let eq := revs.filter (fun r => equalRev r fresh)
  let pick : RevSt × Option Rev :=
    match eq.getLast?, revs.getLast? with
    | some e, some l =>
      if equalRev l e then (s, some l)
      else if e.number == fresh.number then (s, some e)
      else
        let (s, ok) := renumberF plan e.name fresh.number 4 s
        (s, if ok then some { e with number := fresh.number } else none)
    | _, _ =>
      let (s, r) := createRevLoopF h plan fresh (s.store.length + 2) cc0 s
      (s, r.map (·.1))
  match pick with
  | (s, none) => (s, none)
  | (s, some upd) => (s, some ((revs.find? (·.name == statusCurrentRev)).getD upd, upd))

/-- status write: RetryOnConflict(DefaultRetry), 5 attempts -/
def statusWriteF (plan : List Fault) : Nat → Tr → Tr × Bool
  | 0, t => (t, false)
  | fuel + 1, t =>
    let (t, e) := t.call plan "updatestatus"
    match e with
    | none => (t, true)
    | some .conflict => if fuel == 0 then (t, false) else statusWriteF plan fuel t
    | some _ => (t, false)

def truncateF (plan : List Fault) (limit : Option Int) (podRevs : List String) (revs : List Rev) (cur upd : Rev)
    (s : RevSt) : RevSt × Outcome :=
  let live := cur.name :: upd.name :: podRevs
  let history := revs.filter (fun r => !live.contains r.name)
  match limit with
  | none => (s, .panic "nil *Spec.RevisionHistoryLimit (stateful_set_control.go:199)")
  | some lim =>
    if (history.length : Int) ≤ lim then (s, .ok)
    else
      let victims := history.take (history.length - lim.toNat)
      let (s, ok) := foldOk victims s fun s r =>
        let (t, e) := s.tr.call plan s!"delete:rev:{r.name}"
        let s := { s with tr := t }
        if e.isSome || !(s.store.any (·.name == r.name)) then (s, false)
        else ({ s with store := s.store.filter (·.name != r.name) }, true)
      (s, if ok then .ok else .err)

structure SyncOutF where
  log     : List String := []
  status  : Option Status := none
  outcome : Outcome := .ok
  deriving Repr

/-- pod-control calls are logged by replaying the action list of `updateStatefulSet` -/
def actKey : Action → String
  | .create o _ => s!"create:pod:{o}"
  | .delete o _ _ => s!"delete:pod:{o}"
  | .update o => s!"update:pod:{o}"

def podFaults (plan : List Fault) : Faults :=
  plan.filterMap fun f =>
    match f.key.splitOn ":" with
    | [verb, "pod", o] => some ((if verb == "create" then 0 else if verb == "delete" then 1 else 2), o.toInt!)
    | _ => none

def syncF (h : Hashing) (i : SyncIn) (plan : List Fault) : SyncOutF :=
  if !i.found || i.paused || !i.selectorOk then {} else
  match adoptOrphanRevisionsF plan i.freshUidOk { store := i.store } with
  | (s, .ok) =>
    let c := claimPodsF plan i.view.deleting i.freshUidOk i.freshDeleting i.pods s.tr
    let s := { s with tr := c.tr }
    if c.failed then { log := s.tr.log, outcome := .err } else
    match listRevsF plan s with
    | (s, none) => { log := s.tr.log, outcome := .err }
    | (s, some listed) =>
    let revs := sortRevs listed
    match getRevisionsF h plan i.template i.statusCurrentRev i.collisionCount i.now revs s with
    | (s, none) => { log := s.tr.log, outcome := .err }
    | (s, some (cur, upd)) =>
      -- API-world fact: `create S-i` answers AlreadyExists while any pod that was not claimed holds that name
      let squat : Faults := (i.pods.filter (fun p => !(c.claimed.any (·.id == p.pod.id)))).map (fun p => (0, p.pod.ord))
      let (st, out) := updateStatefulSet i.view cur.name upd.name c.claimed (podFaults plan ++ squat)
      let s := { s with tr := { log := s.tr.log ++ st.acts.map actKey } }
      match out with
      | .ok =>
        let status := completeRollingUpdate i.view st.status
        let (tr, wrote, ok) :=
          if inconsistentStatus i.stored status then
            let (t, ok) := statusWriteF plan 5 s.tr
            (t, ok, ok)
          else (s.tr, false, true)
        let s := { s with tr := tr }
        if !ok then { log := s.tr.log, outcome := .err } else
        let (s, out) := truncateF plan i.historyLimit (c.claimed.map (·.rev)) revs cur upd s
        { log := s.tr.log, status := if wrote then some status else none, outcome := out }
      | o => { log := s.tr.log, outcome := o }
  | (s, out) => { log := s.tr.log, outcome := out }

end Asts
