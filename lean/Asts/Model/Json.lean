namespace Asts

/-! JSON trees as far as `encoding/json` produces them for the Kubernetes API types (no floating point numbers occur in
    the StatefulSet schema), a parser for the text `json.Marshal` writes, and the canonical printer (object keys sorted,
    Go's string escaping) that both sides of the `codec` / `defaults` engines use for observations. -/

inductive Json where
  | null
  | bool (b : Bool)
  | num (n : Int)
  | str (s : String)
  | arr (l : List Json)
  | obj (kvs : List (String × Json))
  deriving Repr, Inhabited

namespace Json

def field? (k : String) : Json → Option Json
  | .obj kvs => (kvs.find? (fun e => e.1 == k)).map (·.2)
  | _ => none

/-- follow a path of object keys -/
def path? : List String → Json → Option Json
  | [], j => some j
  | k :: ks, j => match j.field? k with | some x => path? ks x | none => none

def strD (j : Option Json) : String := match j with | some (.str s) => s | _ => ""
def intD (j : Option Json) : Int := match j with | some (.num n) => n | _ => 0
def boolD (j : Option Json) : Bool := match j with | some (.bool b) => b | _ => false
def optInt (j : Option Json) : Option Int := match j with | some (.num n) => some n | _ => none
def optStr (j : Option Json) : Option String := match j with | some (.str s) => some s | _ => none
def optBool (j : Option Json) : Option Bool := match j with | some (.bool b) => some b | _ => none
def elems (j : Option Json) : List Json := match j with | some (.arr l) => l | _ => []
def members (j : Option Json) : List (String × Json) := match j with | some (.obj l) => l | _ => []
def isObj (j : Option Json) : Bool := match j with | some (.obj _) => true | _ => false

/-! ### parser -/

def isWs (c : Char) : Bool := c == ' ' || c == '\t' || c == '\n' || c == '\r'
def skipWs : List Char → List Char
  | [] => []
  | c :: cs => if isWs c then skipWs cs else c :: cs

def isDigit (c : Char) : Bool := 48 ≤ c.toNat && c.toNat ≤ 57

def hexNib (c : Char) : Option Nat :=
  if '0' ≤ c && c ≤ '9' then some (c.toNat - 48)
  else if 'a' ≤ c && c ≤ 'f' then some (c.toNat - 87)
  else if 'A' ≤ c && c ≤ 'F' then some (c.toNat - 55)
  else none

/-- body of a string literal after the opening quote; returns the decoded characters (reversed accumulator) and the rest -/
def parseStrBody : List Char → List Char → Option (List Char × List Char)
  | [], _ => none
  | '"' :: rest, acc => some (acc.reverse, rest)
  | '\\' :: 'u' :: a :: b :: c :: d :: rest, acc =>
    match hexNib a, hexNib b, hexNib c, hexNib d with
    | some a, some b, some c, some d => parseStrBody rest (Char.ofNat (((a * 16 + b) * 16 + c) * 16 + d) :: acc)
    | _, _, _, _ => none
  | '\\' :: e :: rest, acc =>
    match e with
    | '"' => parseStrBody rest ('"' :: acc)
    | '\\' => parseStrBody rest ('\\' :: acc)
    | '/' => parseStrBody rest ('/' :: acc)
    | 'b' => parseStrBody rest (Char.ofNat 8 :: acc)
    | 'f' => parseStrBody rest (Char.ofNat 12 :: acc)
    | 'n' => parseStrBody rest ('\n' :: acc)
    | 'r' => parseStrBody rest ('\r' :: acc)
    | 't' => parseStrBody rest ('\t' :: acc)
    | _ => none
  | c :: rest, acc => parseStrBody rest (c :: acc)

def takeDigits : List Char → List Char → List Char × List Char
  | c :: cs, acc => if isDigit c then takeDigits cs (c :: acc) else (acc.reverse, c :: cs)
  | [], acc => (acc.reverse, [])

def digitsToNat (ds : List Char) : Nat := ds.foldl (fun acc c => acc * 10 + (c.toNat - 48)) 0

/-- integers only (a fraction or exponent makes the parse fail) -/
def parseNum (cs : List Char) : Option (Json × List Char) :=
  let (neg, cs) := match cs with | '-' :: r => (true, r) | _ => (false, cs)
  let (ds, rest) := takeDigits cs []
  if ds.isEmpty then none else
  match rest with
  | '.' :: _ | 'e' :: _ | 'E' :: _ => none
  | _ => some (.num (if neg then - (digitsToNat ds : Int) else digitsToNat ds), rest)

mutual
def parseValue : Nat → List Char → Option (Json × List Char)
  | 0, _ => none
  | fuel + 1, cs =>
    match skipWs cs with
    | 'n' :: 'u' :: 'l' :: 'l' :: rest => some (.null, rest)
    | 't' :: 'r' :: 'u' :: 'e' :: rest => some (.bool true, rest)
    | 'f' :: 'a' :: 'l' :: 's' :: 'e' :: rest => some (.bool false, rest)
    | '"' :: rest => (parseStrBody rest []).map fun (s, r) => (.str (String.ofList s), r)
    | '[' :: rest =>
      match skipWs rest with
      | ']' :: r => some (.arr [], r)
      | r => (parseElems fuel r []).map fun (l, r) => (.arr l, r)
    | '{' :: rest =>
      match skipWs rest with
      | '}' :: r => some (.obj [], r)
      | r => (parseMembers fuel r []).map fun (l, r) => (.obj l, r)
    | cs => parseNum cs
def parseElems : Nat → List Char → List Json → Option (List Json × List Char)
  | 0, _, _ => none
  | fuel + 1, cs, acc =>
    match parseValue fuel cs with
    | none => none
    | some (v, rest) =>
      match skipWs rest with
      | ',' :: r => parseElems fuel r (v :: acc)
      | ']' :: r => some ((v :: acc).reverse, r)
      | _ => none
def parseMembers : Nat → List Char → List (String × Json) → Option (List (String × Json) × List Char)
  | 0, _, _ => none
  | fuel + 1, cs, acc =>
    match skipWs cs with
    | '"' :: rest =>
      match parseStrBody rest [] with
      | none => none
      | some (k, rest) =>
        match skipWs rest with
        | ':' :: rest =>
          match parseValue fuel rest with
          | none => none
          | some (v, rest) =>
            match skipWs rest with
            | ',' :: r => parseMembers fuel r ((String.ofList k, v) :: acc)
            | '}' :: r => some (((String.ofList k, v) :: acc).reverse, r)
            | _ => none
        | _ => none
    | _ => none
end

def parse (s : String) : Option Json :=
  let cs := s.toList
  match parseValue (cs.length + 1) cs with
  | some (j, rest) => if skipWs rest == [] then some j else none
  | none => none

/-! ### canonical printer -/

def hexDigit (n : Nat) : Char := if n < 10 then Char.ofNat (48 + n) else Char.ofNat (87 + n)

/-- Go's `encoding/json` string escaping (with HTML escaping on, the default of `json.Marshal`) -/
def escapeChar (c : Char) : List Char :=
  if c == '"' then ['\\', '"']
  else if c == '\\' then ['\\', '\\']
  else if c == '\n' then ['\\', 'n']
  else if c == '\r' then ['\\', 'r']
  else if c == '\t' then ['\\', 't']
  else if c.toNat < 32 || c == '<' || c == '>' || c == '&' || c.toNat == 0x2028 || c.toNat == 0x2029 then
    let n := c.toNat
    ['\\', 'u', hexDigit (n / 4096 % 16), hexDigit (n / 256 % 16), hexDigit (n / 16 % 16), hexDigit (n % 16)]
  else [c]

def renderStr (s : String) : String := "\"" ++ String.ofList (s.toList.flatMap escapeChar) ++ "\""

def insertKV (e : String × Json) : List (String × Json) → List (String × Json)
  | [] => [e]
  | f :: fs => if e.1 < f.1 then e :: f :: fs else f :: insertKV e fs

def sortKVs (l : List (String × Json)) : List (String × Json) := l.foldr insertKV []

mutual
/-- compact text, object keys in the order given -/
def render : Json → String
  | .null => "null"
  | .bool b => if b then "true" else "false"
  | .num n => toString n
  | .str s => renderStr s
  | .arr l => "[" ++ ",".intercalate (renderList l) ++ "]"
  | .obj kvs => "{" ++ ",".intercalate (renderKVs kvs) ++ "}"
def renderList : List Json → List String
  | [] => []
  | j :: js => render j :: renderList js
def renderKVs : List (String × Json) → List String
  | [] => []
  | (k, v) :: rest => (renderStr k ++ ":" ++ render v) :: renderKVs rest
end

mutual
/-- sort the members of every object by key (what re-marshalling through `map[string]interface{}` does in Go) -/
def canon : Json → Json
  | .arr l => .arr (canonList l)
  | .obj kvs => .obj (sortKVs (canonKVs kvs))
  | j => j
def canonList : List Json → List Json
  | [] => []
  | j :: js => canon j :: canonList js
def canonKVs : List (String × Json) → List (String × Json)
  | [] => []
  | (k, v) :: rest => (k, canon v) :: canonKVs rest
end

end Json
end Asts
