import Asts.Model.Status
namespace Asts

inductive Owner | self | other | none
  deriving DecidableEq, Repr

/-- a ControllerRevision as the controller sees it -/
structure Rev where
  name     : String
  number   : Int            -- .Revision
  ctime    : Int            -- creation time (harness-assigned integer)
  data     : String         -- Data.Raw, abstractly: the template it records
  hashNum  : Option Int     -- hash label if it parses as a base-10 int32 (EqualRevision compares it only then)
  owner    : Owner          -- controller reference: this set's uid / someone else / nobody
  selMatch : Bool           -- labels satisfy the set's selector
  marker   : Bool           -- carries apps.pingcap.com/upgrade-to-asts = <set name>
  deriving DecidableEq, Repr

/-- the hash function is a parameter: name and parsed hash label of (data, collision count) -/
structure Hashing where
  nameOf    : String → Int → String
  hashNumOf : String → Int → Option Int

/-- keep the first occurrence of every name -/
def dedupByName : List Rev → List String → List Rev
  | [], _ => []
  | r :: rs, seen => if seen.contains r.name then dedupByName rs seen else r :: dedupByName rs (r.name :: seen)

/-- `ListRevisions` (control.go): by selector, then by upgrade marker; each name once; revisions controlled by somebody
    else are dropped. `store` is the API content in name order (etcd / fake tracker order). -/
def listRevisions (store : List Rev) : List Rev :=
  (dedupByName (store.filter (·.selMatch) ++ store.filter (·.marker)) []).filter (·.owner != .other)

def revLt (a b : Rev) : Bool :=
  a.number < b.number || (a.number == b.number && (a.ctime < b.ctime || (a.ctime == b.ctime && a.name < b.name)))

def insertRev (r : Rev) : List Rev → List Rev
  | [] => [r]
  | q :: qs => if revLt r q then r :: q :: qs else q :: insertRev r qs

/-- `SortControllerRevisions` (stable) -/
def sortRevs (l : List Rev) : List Rev := l.reverse.foldl (fun acc r => insertRev r acc) []

/-- `EqualRevision` restricted to Raw data (Data.Object is always nil here) -/
def equalRev (a b : Rev) : Bool :=
  (match a.hashNum, b.hashNum with | some x, some y => x == y | _, _ => true) && a.data == b.data

def nextRevision (sorted : List Rev) : Int :=
  match sorted.getLast? with | none => 1 | some r => r.number + 1

def insertByName (r : Rev) : List Rev → List Rev
  | [] => [r]
  | q :: qs => if r.name < q.name then r :: q :: qs else q :: insertByName r qs

end Asts
