import Asts.Model.Status
namespace Asts

inductive Owner | self | other | none
  deriving DecidableEq, Repr

/-- a ControllerRevision as the controller sees it -/
structure Rev where
  name     : String
  number   : Int            -- .Revision
  ctime    : Int            -- creation time (harness-assigned integer)
  data     : String         -- Data.Raw, abstractly: the template it records
  hashNum  : Option Int     -- hash label if it parses as a base-10 int32 (EqualRevision compares it only then)
  owner    : Owner          -- controller reference: this set's uid / someone else / nobody
  selMatch : Bool           -- labels satisfy the set's selector
  marker   : Bool           -- carries apps.pingcap.com/upgrade-to-asts = <set name>
  deriving DecidableEq, Repr

inductive RevCall
  | list | getSet
  | syncLabels (name : String) | adopt (name : String)
  | create (name : String) | get (name : String) | renumber (name : String) (n : Int) | delete (name : String)
  deriving DecidableEq, Repr

/-- the hash function is a parameter: name and parsed hash label of (data, collision count) -/
structure Hashing where
  nameOf    : String → Int → String
  hashNumOf : String → Int → Option Int

/-- `ListRevisions` (control.go:135-160): by selector, then — separately — by upgrade marker; no owner filter, no dedupe.
    `store` is the API content in name order (etcd / fake tracker order). -/
def listRevisions (store : List Rev) : List Rev :=
  store.filter (·.selMatch) ++ store.filter (·.marker)

def revLt (a b : Rev) : Bool :=
  a.number < b.number || (a.number == b.number && (a.ctime < b.ctime || (a.ctime == b.ctime && a.name < b.name)))

def insertRev (r : Rev) : List Rev → List Rev
  | [] => [r]
  | q :: qs => if revLt r q then r :: q :: qs else q :: insertRev r qs

/-- `SortControllerRevisions` (stable) -/
def sortRevs (l : List Rev) : List Rev := l.reverse.foldl (fun acc r => insertRev r acc) []

/-- `EqualRevision` restricted to Raw data (Data.Object is always nil here) -/
def equalRev (a b : Rev) : Bool :=
  (match a.hashNum, b.hashNum with | some x, some y => x == y | _, _ => true) && a.data == b.data

def nextRevision (sorted : List Rev) : Int :=
  match sorted.getLast? with | none => 1 | some r => r.number + 1

structure RevOut where
  store : List Rev
  calls : List RevCall := []
  deriving Repr

def insertByName (r : Rev) : List Rev → List Rev
  | [] => [r]
  | q :: qs => if r.name < q.name then r :: q :: qs else q :: insertByName r qs

/-- `createControllerRevision` (control.go:687-715): probe names until one is free or holds the same data. -/
def createRevLoop (h : Hashing) (fails : RevCall → Bool) (fresh : Rev) :
    Nat → Int → RevOut → Except (RevOut × Outcome) (RevOut × Rev × Int)
  | 0, _, o => .error (o, .err)            -- fuel exhausted: the Go loop would spin; see C08 for the assumption that rules it out
  | fuel + 1, cc, o =>
    let nm := h.nameOf fresh.data cc
    let o := { o with calls := o.calls ++ [.create nm] }
    if fails (.create nm) then .error (o, .err)
    else match o.store.find? (·.name == nm) with
      | none =>
        let r := { fresh with name := nm }
        .ok ({ o with store := insertByName r o.store }, r, cc)
      | some ex =>
        let o := { o with calls := o.calls ++ [.get nm] }
        if fails (.get nm) then .error (o, .err)
        else if ex.data == fresh.data then .ok (o, ex, cc)
        else createRevLoop h fails fresh fuel (cc + 1) o

/-- `getStatefulSetRevisions` (control.go:219-278). `revs` is the sorted listing (with its duplicates). -/
def getRevisions (h : Hashing) (fails : RevCall → Bool) (template : String) (statusCurrentRev : String)
    (cc0 : Int) (ctimeNow : Int) (revs : List Rev) (o : RevOut) :
    Except (RevOut × Outcome) (RevOut × Rev × Rev × Int) :=
  let fresh : Rev := { name := h.nameOf template cc0, number := nextRevision revs, ctime := ctimeNow, data := template,
                       hashNum := h.hashNumOf template cc0, owner := .self, selMatch := true, marker := false }
  let eq := revs.filter (fun r => equalRev r fresh)
  let pick : Except (RevOut × Outcome) (RevOut × Rev × Int) :=
    match eq.getLast?, revs.getLast? with
    | some e, some l =>
      if equalRev l e then .ok (o, l, cc0)
      else if e.number == fresh.number then .ok (o, e, cc0)
      else
        let o := { o with calls := o.calls ++ [.renumber e.name fresh.number] }
        if fails (.renumber e.name fresh.number) then .error (o, .err)
        else
          let e' := { e with number := fresh.number }
          .ok ({ o with store := o.store.map (fun r => if r.name == e.name then { r with number := fresh.number } else r) }, e', cc0)
    | _, _ => createRevLoop h fails fresh (o.store.length + 1) cc0 o
  match pick with
  | .error e => .error e
  | .ok (o, upd, cc) =>
    let cur := (revs.find? (·.name == statusCurrentRev)).getD upd
    .ok (o, cur, upd, cc)

/-- `truncateHistory` (control.go:180-211) -/
def truncateHistory (fails : RevCall → Bool) (limit : Option Int) (podRevs : List String) (revs : List Rev)
    (cur upd : Rev) (o : RevOut) : RevOut × Outcome :=
  let live := cur.name :: upd.name :: podRevs
  let history := revs.filter (fun r => !live.contains r.name)
  match limit with
  | none => (o, .panic "nil *Spec.RevisionHistoryLimit (stateful_set_control.go:199)")
  | some lim =>
    if (history.length : Int) ≤ lim then (o, .ok)
    else
      let victims := history.take (history.length - lim.toNat)
      victims.foldl (fun (acc : RevOut × Outcome) r =>
        match acc.2 with
        | .ok =>
          let o := { acc.1 with calls := acc.1.calls ++ [.delete r.name] }
          if fails (.delete r.name) || !(o.store.any (·.name == r.name)) then (o, .err)   -- NotFound is an error too
          else ({ o with store := o.store.filter (·.name != r.name) }, .ok)
        | _ => acc) (o, .ok)

/-- `adoptOrphanRevisions` (stateful_set.go:349-380) + `AdoptOrphanRevisions` (control.go:162-173).
    `freshUidOk` = the uncached GET found the set with the same uid. No deletion check anywhere. -/
def adoptOrphanRevisions (fails : RevCall → Bool) (freshUidOk : Bool) (o : RevOut) : RevOut × Outcome :=
  let o := { o with calls := o.calls ++ [.list] }
  if fails .list then (o, .err) else
  let revs := listRevisions o.store
  if !(revs.any (·.owner == .none)) then (o, .ok) else
  -- syncLabels on every listed copy that carries the marker
  let r1 := revs.foldl (fun (acc : RevOut × Outcome) r =>
    match acc.2 with
    | .ok =>
      if r.marker then
        let o := { acc.1 with calls := acc.1.calls ++ [.syncLabels r.name] }
        if fails (.syncLabels r.name) then (o, .err)
        else ({ o with store := o.store.map (fun x => if x.name == r.name then { x with selMatch := true } else x) }, .ok)
      else acc
    | _ => acc) (o, .ok)
  match r1 with
  | (o, .ok) =>
    let o := { o with calls := o.calls ++ [.getSet] }
    if fails .getSet || !freshUidOk then (o, .err) else
    -- adopt every listed copy, judging ownership by the *local* copy
    revs.foldl (fun (acc : RevOut × Outcome) r =>
      match acc.2 with
      | .ok =>
        if r.owner != .none then (acc.1, .err)          -- "attempt to adopt revision owned by …"
        else
          let o := { acc.1 with calls := acc.1.calls ++ [.adopt r.name] }
          if fails (.adopt r.name) then (o, .err)
          else ({ o with store := o.store.map (fun x => if x.name == r.name then { x with owner := .self } else x) }, .ok)
      | _ => acc) (o, .ok)
  | other => other

end Asts
