namespace Asts

/-- `sets.Int32.List()` : sorted, duplicate-free. -/
def insertSorted (x : Int) : List Int → List Int
  | [] => [x]
  | y :: ys => if x < y then x :: y :: ys else if x = y then y :: ys else y :: insertSorted x ys

def dedupSort (l : List Int) : List Int := l.foldr insertSorted []

/-- The loop of `GetMaxReplicaCountAndDeleteSlots` (helper.go:87-93) over the sorted list:
    a non-negative slot below the running bound extends the bound by one and is kept, otherwise it is dropped. -/
def extend : Int → List Int → Int × List Int
  | b, [] => (b, [])
  | b, s :: ss =>
    if 0 ≤ s ∧ s < b then
      let r := extend (b + 1) ss
      (r.1, s :: r.2)
    else extend b ss

def maxReplicaAndSlots (r : Int) (slots : List Int) : Int × List Int :=
  extend r (dedupSort slots)

/-- `GetPodOrdinalsFromReplicasAndDeleteSlots`. -/
def podOrdinals (r : Int) (slots : List Int) : List Int :=
  let p := maxReplicaAndSlots r slots
  ((List.range p.1.toNat).map Int.ofNat).filter (fun i => !p.2.contains i)

def maxOrd (r : Int) (slots : List Int) : Int := (podOrdinals r slots).foldl max (-1)
def minOrd (r : Int) (slots : List Int) : Int := (podOrdinals r slots).foldl min 2147483647

/-- The specification, independent of the helper: the first `r` naturals not in `S`. -/
structure IsDesired (r : Nat) (S : List Int) (O : List Int) : Prop where
  sorted : O.Pairwise (· < ·)
  len    : O.length = r
  nonneg : ∀ o ∈ O, 0 ≤ o
  noSlot : ∀ o ∈ O, o ∉ S
  least  : ∀ o ∈ O, ∀ n, 0 ≤ n → n < o → n ∉ S → n ∈ O

end Asts
