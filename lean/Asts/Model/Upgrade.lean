namespace Asts.Upgrade

/-! # L8 — `helper.Upgrade` (client/apis/apps/v1/helper/upgrade.go) as a call sequence over two API states

One run of the helper is: convert the selector; LIST the ControllerRevisions it selects; for each listed revision remove
the selector's match-label keys, set the marker label and UPDATE it; GET the Advanced StatefulSet; CREATE it (absent) or
UPDATE its spec (present); UPDATE its /status; DELETE the built-in StatefulSet with orphan propagation (NotFound ignored).
Every API call has an index within the run (0 = the LIST); an injection at an index is an error answer (with or without
the call having been executed — a lost response) or the death of the process right before the call.

World assumptions (the harness's fake API implements exactly these): object names are unique per namespace, so the update
of a listed revision replaces exactly that revision; LIST returns revisions in name order; the Advanced StatefulSet has the
status subresource (manifests/crd.v1.yaml): create drops the submitted status, update keeps the stored status,
update of /status changes only the status; nothing else writes concurrently. -/

abbrev Labels := List (String × String)

/-- `apps.pingcap.com/upgrade-to-asts`, written `M` in case lines -/
def marker : String := "M"

def lookup (k : String) (l : Labels) : Option String := (l.find? (·.1 == k)).map (·.2)

inductive Op | opIn | notIn | opExists | doesNotExist | bogus
  deriving DecidableEq, Repr

structure Expr where
  key : String
  op : Op
  vals : List String
  deriving DecidableEq, Repr

/-- `sts.Spec.Selector` -/
structure Selector where
  isNil : Bool
  ml : Labels
  exprs : List Expr
  deriving DecidableEq, Repr

/-- `labels.NewRequirement` rejects In/NotIn without values, Exists/DoesNotExist with values; unknown operators are rejected
    by `LabelSelectorAsSelector` itself -/
def Expr.invalid (e : Expr) : Bool :=
  match e.op with
  | .opIn | .notIn => e.vals.isEmpty
  | .opExists | .doesNotExist => !e.vals.isEmpty
  | .bogus => true

/-- `metav1.LabelSelectorAsSelector` returns an error -/
def selectorError (s : Selector) : Bool := !s.isNil && s.exprs.any Expr.invalid

/-- `labels.Requirement.Matches` -/
def Expr.matches (e : Expr) (l : Labels) : Bool :=
  match e.op, lookup e.key l with
  | .opIn, some v => e.vals.contains v
  | .opIn, none => false
  | .notIn, some v => !e.vals.contains v
  | .notIn, none => true
  | .opExists, v => v.isSome
  | .doesNotExist, v => v.isNone
  | .bogus, _ => false

/-- does the LIST with `selector.String()` return an object with these labels? A nil selector converts to `labels.Nothing()`
    whose string form is empty, and an empty label-selector string lists everything. -/
def selMatches (s : Selector) (l : Labels) : Bool :=
  s.isNil || (s.ml.all (fun kv => lookup kv.1 l == some kv.2) && s.exprs.all (·.matches l))

/-- the built-in object the caller submits (the same object on every run) -/
structure Params where
  name : String
  sel : Selector
  spec : Nat      -- identity of the spec
  status : Nat    -- identity of the status (0 = the zero status)
  deriving DecidableEq, Repr

structure Rev where
  name : String
  labels : Option Labels    -- `none` = nil map
  deriving DecidableEq, Repr

/-- the LIST of the run returns this revision -/
def Rev.selected (r : Rev) (p : Params) : Bool := selMatches p.sel (r.labels.getD [])

/-- the Advanced StatefulSet named like the built-in one -/
structure ASts where
  origin : Nat    -- 0 = metadata copied from the built-in object
  spec : Nat
  status : Nat
  deriving DecidableEq, Repr

structure World2 where
  sts : Bool              -- the built-in StatefulSet is stored
  revs : List Rev         -- ControllerRevisions of the namespace, in name order
  asts : Option ASts
  pods : Nat              -- opaque: the pods of the namespace
  claims : Nat            -- opaque: the claims of the namespace
  deriving DecidableEq, Repr

inductive ErrKind | internal | conflict | notFound | alreadyExists | timeout | other
  deriving DecidableEq, Repr

inductive Inj
  | none
  | err (k : ErrKind) (applied : Bool)
  | crash
  deriving DecidableEq, Repr

inductive Outcome | ok | err (k : ErrKind) | panic | crash
  deriving DecidableEq, Repr

inductive Policy | orphan | background | foreground | nil
  deriving DecidableEq, Repr

/-- the API calls of a run; the delete carries the stored state at the instant it is issued. `other` is never produced by
    the model — it is what an observed call outside this vocabulary parses to. -/
inductive Act
  | listRevs
  | updateRev (name : String)
  | getAs
  | createAs
  | updateAs
  | statusAs
  | deleteSts (pol : Policy) (pre : World2)
  | other (verb res name : String)
  deriving DecidableEq, Repr

/-- `for key := range sts.Spec.Selector.MatchLabels { delete(revision.Labels, key) }; revision.Labels[marker] = sts.Name` -/
def relabel (p : Params) (l : Labels) : Labels :=
  (marker, p.name) :: l.filter (fun kv => !(p.sel.ml.any (·.1 == kv.1)) && kv.1 != marker)

def relabelRev (p : Params) (r : Rev) (l : Labels) : Rev := { r with labels := some (relabel p l) }

inductive Step
  | stop (r : Rev) (logged : Bool) (o : Outcome)
  | go (r : Rev)

/-- the loop body for one listed revision, call index `idx`.
    INTENDED behaviour: a listed revision without a label map gets an empty one before the marker is written. (The tree as
    found wrote into the nil map — `revision.Labels[UpgradeToAdvancedStatefulSetAnn] = sts.Name`, upgrade.go:64 — and
    panicked on every run whenever a selector made only of NotIn / DoesNotExist expressions selected an unlabelled
    revision: corpus/upgrade/defect-unlabelled-revision.txt, fixes/C17-upgrade-nil-labels.diff.) -/
def revOne (p : Params) (inj : Nat → Inj) (idx : Nat) (r : Rev) : Step :=
  if p.sel.isNil then .stop r false .panic       -- nil dereference of `sts.Spec.Selector`
  else
    match inj idx with
    | .crash => .stop r false .crash
    | .err k applied => .stop (if applied then relabelRev p r (r.labels.getD []) else r) true (.err k)
    | .none => .go (relabelRev p r (r.labels.getD []))

structure RevRes where
  revs : List Rev
  idx : Nat                 -- index of the next call
  trace : List Act
  out : Option Outcome      -- `some` = the run ends here

def revLoop (p : Params) (inj : Nat → Inj) : Nat → List Rev → RevRes
  | idx, [] => ⟨[], idx, [], none⟩
  | idx, r :: rest =>
    if r.selected p then
      match revOne p inj idx r with
      | .stop r' logged o => ⟨r' :: rest, idx, if logged then [.updateRev r.name] else [], some o⟩
      | .go r' =>
        let res := revLoop p inj (idx + 1) rest
        ⟨r' :: res.revs, res.idx, .updateRev r.name :: res.trace, res.out⟩
    else
      let res := revLoop p inj idx rest
      ⟨r :: res.revs, res.idx, res.trace, res.out⟩

/-! ## the Advanced StatefulSet and the delete -/

def createNative (p : Params) (w : World2) : World2 × Option ErrKind :=
  match w.asts with
  | none => ({ w with asts := some ⟨0, p.spec, 0⟩ }, none)
  | some _ => (w, some .alreadyExists)

def updateNative (p : Params) (w : World2) : World2 × Option ErrKind :=
  match w.asts with
  | some a => ({ w with asts := some { a with spec := p.spec } }, none)
  | none => (w, some .notFound)

def statusNative (p : Params) (w : World2) : World2 × Option ErrKind :=
  match w.asts with
  | some a => ({ w with asts := some { a with status := p.status } }, none)
  | none => (w, some .notFound)

def deleteNative (w : World2) : World2 × Option ErrKind :=
  if w.sts then ({ w with sts := false }, none) else (w, some .notFound)

inductive CallRes
  | crashed
  | failed (w : World2) (k : ErrKind)
  | done (w : World2)

/-- one write call under an injection; `native` is what the API does with the call when it executes it -/
def call (inj : Inj) (w : World2) (native : World2 × Option ErrKind) : CallRes :=
  match inj with
  | .crash => .crashed
  | .err k applied => .failed (if applied then native.1 else w) k
  | .none =>
    match native.2 with
    | none => .done native.1
    | some k => .failed native.1 k

structure RunRes where
  w : World2
  trace : List Act
  out : Outcome
  deriving DecidableEq, Repr

def asDelete (inj : Nat → Inj) (idx : Nat) (w : World2) : RunRes :=
  let act := Act.deleteSts .orphan w
  match call (inj idx) w (deleteNative w) with
  | .crashed => ⟨w, [], .crash⟩
  | .failed w' k => ⟨w', [act], if k = .notFound then .ok else .err k⟩     -- IsNotFound is ignored
  | .done w' => ⟨w', [act], .ok⟩

def asStatus (p : Params) (inj : Nat → Inj) (idx : Nat) (w : World2) : RunRes :=
  match call (inj idx) w (statusNative p w) with
  | .crashed => ⟨w, [], .crash⟩
  | .failed w' k => ⟨w', [.statusAs], .err k⟩
  | .done w' =>
    let r := asDelete inj (idx + 1) w'
    ⟨r.w, .statusAs :: r.trace, r.out⟩

def asWrite (p : Params) (inj : Nat → Inj) (idx : Nat) (w : World2) (notFound : Bool) : RunRes :=
  let act := if notFound then Act.createAs else Act.updateAs
  match call (inj idx) w (if notFound then createNative p w else updateNative p w) with
  | .crashed => ⟨w, [], .crash⟩
  | .failed w' k => ⟨w', [act], .err k⟩
  | .done w' =>
    let r := asStatus p inj (idx + 1) w'
    ⟨r.w, act :: r.trace, r.out⟩

def asGet (p : Params) (inj : Nat → Inj) (idx : Nat) (w : World2) : RunRes :=
  match inj idx with
  | .crash => ⟨w, [], .crash⟩
  | .err k _ =>
    if k = .notFound then
      let r := asWrite p inj (idx + 1) w true
      ⟨r.w, .getAs :: r.trace, r.out⟩
    else ⟨w, [.getAs], .err k⟩
  | .none =>
    let r := asWrite p inj (idx + 1) w w.asts.isNone
    ⟨r.w, .getAs :: r.trace, r.out⟩

/-- the revision phase of a run, after a successful LIST -/
def revPhase (p : Params) (inj : Nat → Inj) (w : World2) : RunRes :=
  let rr := revLoop p inj 1 w.revs
  let w1 := { w with revs := rr.revs }
  match rr.out with
  | some o => ⟨w1, rr.trace, o⟩
  | none =>
    let r := asGet p inj rr.idx w1
    ⟨r.w, rr.trace ++ r.trace, r.out⟩

/-- one run of `Upgrade(ctx, c, asc, sts)` -/
def run (p : Params) (inj : Nat → Inj) (w : World2) : RunRes :=
  if selectorError p.sel then ⟨w, [], .err .other⟩
  else match inj 0 with
    | .crash => ⟨w, [], .crash⟩
    | .err k _ => ⟨w, [.listRevs], .err k⟩
    | .none =>
      let r := revPhase p inj w
      ⟨r.w, .listRevs :: r.trace, r.out⟩

/-- no injection anywhere -/
def noInj : Nat → Inj := fun _ => .none

/-- consecutive runs on the same API state; returns the final state and (trace, outcome) per run -/
def runs (p : Params) : World2 → List (Nat → Inj) → World2 × List (List Act × Outcome)
  | w, [] => (w, [])
  | w, inj :: rest =>
    let r := run p inj w
    let fr := runs p r.w rest
    (fr.1, (r.trace, r.out) :: fr.2)

end Asts.Upgrade
