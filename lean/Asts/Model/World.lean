import Asts.Spec.Reconcile
import Asts.Model.Sync
namespace Asts

/-- API state of one set; for the round semantics the informer caches equal the API at the start of a sync -/
structure World where
  view     : SetView
  stored   : Status
  cc       : Int
  limit    : Int
  template : String
  store    : List Rev
  pods     : List CPod
  nextId   : Nat := 100
  deriving Repr

def H0 : Hashing := { nameOf := fun d c => "foo-" ++ d ++ toString c, hashNumOf := fun _ _ => none }

def World.input (w : World) : SyncIn :=
  { found := true, paused := false, selectorOk := true, view := { w.view with stCurrentReplicas := w.stored.current },
    stored := w.stored, statusCurrentRev := w.stored.currentRev, collisionCount := w.cc, historyLimit := some w.limit,
    template := w.template, freshUidOk := true, freshDeleting := w.view.deleting, store := w.store, pods := w.pods, now := 9 }

def World.syncOut (w : World) : SyncOut :=
  let i := w.input
  -- AlreadyExists for names held by pods (claimed-and-terminating ones included: the API still has them)
  let squat : Faults := i.pods.filterMap fun c =>
    match claimDecision w.view.deleting c with
    | .ignore | .release => some (0, c.pod.ord)
    | _ => if c.pod.terminating then some (0, c.pod.ord) else none
  sync H0 i (fun _ => false) (fun _ => .ok) squat false

/-- apply the writes of one sync to the API state (graceful deletion: a deleted pod becomes terminating) -/
def World.apply (w : World) (o : SyncOut) : World :=
  let pods := o.patches.foldl (fun ps p =>
    match p with
    | .adopt id => ps.map (fun c => if c.pod.id == id then { c with owner := .self } else c)
    | .release id => ps.map (fun c => if c.pod.id == id then { c with owner := .none } else c)) w.pods
  let step := fun (acc : List CPod × Nat × Bool) (a : Action) =>
    let (ps, nid, live) := acc
    if !live then acc else
    match a with
    | .create ord rev =>
      if ps.any (·.pod.ord == ord) then (ps, nid, false)       -- AlreadyExists: the call failed, the reconcile stopped here
      else (ps ++ [{ pod := { id := nid, ord := ord, phase := .pending, ready := false, terminating := false, rev := rev,
                              idOk := true, stOk := true }, owner := .self, selMatch := true, member := true }], nid + 1, true)
    | .delete ord id _ =>
      (ps.map (fun c => if c.pod.id == id || (id ≥ freshId && c.pod.ord == ord) then { c with pod := { c.pod with terminating := true } } else c), nid, true)
    | .update ord => (ps.map (fun c => if c.pod.ord == ord then { c with pod := { c.pod with idOk := true, stOk := true } } else c), nid, true)
  let (pods, nid, _) := o.acts.foldl step (pods, w.nextId, true)
  { w with pods := pods, nextId := nid, store := o.store,
           stored := match o.status with | some st => st | none => w.stored }

/-- the fairness premise, executable: terminating pods finish, every other pod in a non-terminal phase becomes Running and Ready -/
def World.settle (w : World) : World :=
  { w with pods := (w.pods.filter (fun c => !c.pod.terminating)).map fun c =>
      if c.pod.phase == .failed || c.pod.phase == .succeeded then c
      else { c with pod := { c.pod with phase := .running, ready := true } } }

def World.round (w : World) : World := (w.apply w.syncOut).settle

def World.desired (w : World) : List Int := Asts.desired (w.view.replicas.getD 0) w.view.slots

/-- the pods half of `Final` -/
def World.podsFinal (w : World) (upd : String) : Bool :=
  let D := w.desired
  (w.pods.map (·.pod.ord)).mergeSort == D &&
  w.pods.all (fun c => c.pod.healthy && c.owner == .self && c.pod.idOk && c.pod.stOk &&
    (w.view.strat == .onDelete || c.pod.ord < partitionOf w.view || c.pod.rev == upd))

def World.final (w : World) : Bool :=
  let o := w.syncOut
  o.outcome == .ok && w.podsFinal o.upd &&
  w.stored.replicas == (w.view.replicas.getD 0) && w.stored.ready == w.stored.replicas &&
  (revWritesW o).isEmpty && o.patches.isEmpty && o.acts.isEmpty && o.status.isNone
where revWritesW (o : SyncOut) : List RevCall := o.revCalls.filter fun | .list | .getSet | .get _ => false | _ => true

/-- the measure of §6/C02 (block present), plus the legacy surcharge -/
def World.mu (w : World) (upd : String) : Nat :=
  let D := w.desired
  let p := partitionOf w.view
  let rolling := w.view.strat != .onDelete
  let at_ (o : Int) := w.pods.find? (fun c => c.pod.ord == o && c.owner != .other)
  let legacy := w.view.ru.isNone && w.view.strat == .rolling
  let perOrd := D.map fun o =>
    match at_ o with
    | none => if legacy then 4 else 1
    | some c =>
      (if c.pod.failed || c.pod.succeeded then (if legacy then 5 else 2) else 0) +
      (if rolling && p ≤ o && c.pod.rev != upd then 3 else 0) +
      (if !(c.pod.idOk && c.pod.stOk) then 1 else 0) +
      (if c.pod.terminating then 1 else 0)
  let condemned := (w.pods.filter (fun c => 0 ≤ c.pod.ord && !D.contains c.pod.ord && c.owner != .other)).length
  perOrd.foldl (· + ·) 0 + 2 * condemned + 4

end Asts
