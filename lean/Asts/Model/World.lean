import Asts.Model.Sync
namespace Asts

/-! Rounds of (settle; sync) on one world — the executable reading of C02's fairness premise. The world is the `SyncIn`
    snapshot itself (cache = API at the start of every round). -/

def insertPodByName (c : CPod) : List CPod → List CPod
  | [] => [c]
  | q :: qs => if c.name < q.name then c :: q :: qs else q :: insertPodByName c qs

def sortPods (l : List CPod) : List CPod := l.reverse.foldl (fun acc c => insertPodByName c acc) []

def reindex (l : List CPod) : List CPod := (l.zipIdx).map fun (c, k) => { c with pod := { c.pod with id := k } }

/-- caches catch up, terminating pods finish terminating, every pod the controller leaves in place and that can become
    Ready becomes Running and Ready -/
def settle (i : SyncIn) : SyncIn :=
  let pods := (i.pods.filter (fun c => !c.pod.terminating)).map fun c =>
    if c.pod.failed || c.pod.succeeded then c
    else { c with pod := { c.pod with phase := .running, ready := true } }
  { i with pods := reindex (sortPods pods), fresh := { gone := false, uidOk := true, deleting := i.view.deleting } }

def setPod (pods : List CPod) (p : CPod → Bool) (f : CPod → CPod) : List CPod := pods.map fun c => if p c then f c else c

/-- effects of the pod-control calls that took effect, in order -/
def applyActs (setName : String) (orig : List CPod) : List CPod → List Action → List CPod
  | pods, [] => pods
  | pods, .create o rev :: rest =>
    let np : CPod := { name := canonicalName setName o, owner := .self, selMatch := true, member := true,
                       pod := { id := freshId + o.toNat, ord := o, phase := .none, ready := false, terminating := false, rev := rev, idOk := true, stOk := true } }
    applyActs setName orig (pods ++ [np]) rest
  | pods, .delete _ id _ :: rest =>
    -- graceful deletion, except that the API server removes a Failed/Succeeded pod at once (grace period 0)
    let pods := pods.filter (fun c => !(c.pod.id == id && (c.pod.failed || c.pod.succeeded)))
    applyActs setName orig (setPod pods (fun c => c.pod.id == id) (fun c => { c with pod := { c.pod with terminating := true } })) rest
  | pods, .update o :: rest =>
    -- the Update call writes the copy taken from the cache: an adoption patched in earlier in this very sync is overwritten
    -- (a real API server would answer Conflict on the stale resourceVersion; the fake API has no optimistic concurrency)
    let wasOrphan := (orig.find? (·.name == canonicalName setName o)).any (·.owner == .none)
    applyActs setName orig (setPod pods (fun c => c.name == canonicalName setName o)
      (fun c => { c with owner := (if wasOrphan then .none else c.owner), pod := { c.pod with idOk := true } })) rest

/-- effects of the adoption / release patches that went through -/
def applyPatches (plan : List Fault) (log : List String) (pods : List CPod) : List CPod :=
  let rec go (seen : List String) : List String → List CPod → List CPod
    | [], pods => pods
    | e :: rest, pods =>
      let occ := (seen.filter (· == e)).length
      let hit := (plan.find? (fun f => f.key == e && f.occ == occ)).isSome
      let pods := match e.splitOn ":" with
        | ["patch", "pod", n] =>
          if hit then pods else
          setPod pods (fun c => c.name == n) (fun c => match c.owner with
            | .none => { c with owner := .self }
            | .self => { c with owner := .none }
            | .other => c)
        | _ => pods
      go (e :: seen) rest pods
  go [] log pods

def applySync (i : SyncIn) (plan : List Fault) (o : SyncOut) : SyncIn :=
  let pods := applyPatches plan o.log i.pods
  let pods := applyActs i.setName i.pods pods (o.acts.take o.actsDone)
  let stored := o.status.getD i.stored
  { i with store := o.store, stored := stored, collisionCount := (if o.status.isSome then o.cc else i.collisionCount),
           view := { i.view with stCurrentReplicas := stored.current },
           pods := reindex (sortPods pods) }

structure RoundObs where
  out    : String
  writes : Nat
  pods   : List CPod
  revs   : List Rev
  status : Status
  deriving Repr

def isWrite (e : String) : Bool := !(e.startsWith "list:") && !(e.startsWith "get:")

/-- one round; the fault plan applies to the first round only -/
def round (h : Hashing) (i : SyncIn) (plan : List Fault) : SyncIn × RoundObs :=
  let i := settle i
  let o := syncF h i plan
  let i' := applySync i plan o
  (i', { out := (match o.outcome with | .ok => "ok" | .err => "err" | .panic _ => "panic"),
         writes := (o.log.filter isWrite).length, pods := i'.pods, revs := i'.store, status := i'.stored })

/-- rounds until two consecutive silent successful ones, at most `fuel` -/
def runRounds (h : Hashing) : Nat → Nat → SyncIn → List Fault → List RoundObs
  | 0, _, _, _ => []
  | fuel + 1, silent, i, plan =>
    let (i', r) := round h i plan
    let silent' := if r.out == "ok" && r.writes == 0 then silent + 1 else 0
    if silent' ≥ 2 then [r] else r :: runRounds h fuel silent' i' []

end Asts
