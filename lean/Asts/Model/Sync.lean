import Asts.Model.Revisions
namespace Asts

/-! `StatefulSetController.sync` (stateful_set.go) followed by `UpdateStatefulSet` (stateful_set_control.go), as a function
    from a snapshot (cached set, API copy of the set, stored revisions, cached pods) and a fault plan to the ordered log of API
    calls, the status written, the final revision store and the outcome. -/

/-- a pod in the informer cache, as `getPodsForStatefulSet` sees it -/
structure CPod where
  name     : String
  pod      : Pod
  owner    : Owner      -- controller reference
  selMatch : Bool       -- labels satisfy the selector
  member   : Bool       -- isMemberOf: name is "<set>-<digits>"
  deriving DecidableEq, Repr

inductive Decision | keep | adopt | release | ignore
  deriving DecidableEq, Repr

/-- `ClaimObject` (controller_ref_manager.go) as a pure decision -/
def claimDecision (setDeleting : Bool) (c : CPod) : Decision :=
  match c.owner with
  | .other => .ignore
  | .self  => if c.selMatch && c.member then .keep else if setDeleting then .ignore else .release
  | .none  => if setDeleting || !(c.selMatch && c.member) then .ignore
              else if c.pod.terminating then .ignore else .adopt

inductive ErrKind | conflict | notFound | alreadyExists | invalid | other
  deriving DecidableEq, Repr

/-- an injected fault: the `occ`-th call (0-based) with key `key` fails with `kind` -/
structure Fault where
  key  : String
  occ  : Nat
  kind : ErrKind
  deriving DecidableEq, Repr

/-- every API call of one sync in order, failed ones included -/
structure Tr where
  log : List String := []
  deriving Repr

def Tr.call (t : Tr) (plan : List Fault) (k : String) : Tr × Option ErrKind :=
  let occ := (t.log.filter (· == k)).length
  ({ log := t.log ++ [k] }, (plan.find? (fun f => f.key == k && f.occ == occ)).map (·.kind))

structure RevSt where
  store : List Rev
  tr    : Tr := {}
  deriving Repr

/-- `ListRevisions`: two List calls -/
def listRevsF (plan : List Fault) (s : RevSt) : RevSt × Option (List Rev) :=
  let (t1, e1) := s.tr.call plan "list:revs"
  match e1 with
  | some _ => ({ s with tr := t1 }, none)
  | none =>
    let (t2, e2) := t1.call plan "list:revs"
    match e2 with
    | some _ => ({ s with tr := t2 }, none)
    | none => ({ s with tr := t2 }, some (listRevisions s.store))

def foldOk {α β} (xs : List α) (init : β) (f : β → α → β × Bool) : β × Bool :=
  xs.foldl (fun (acc : β × Bool) x => if acc.2 then f acc.1 x else acc) (init, true)

/-- what the uncached GET of the set returns -/
structure Fresh where
  gone     : Bool     -- NotFound
  uidOk    : Bool     -- same uid as the cached object
  deleting : Bool     -- carries a deletion timestamp
  deriving Repr

/-- `adoptOrphanRevisions` (stateful_set.go) + `AdoptOrphanRevisions` (control.go): a set that is being deleted adopts
    nothing; label-sync of marker-carrying revisions, uncached confirmation (uid, not deleting), then adoption of the
    orphans only. -/
def adoptOrphanRevisionsF (plan : List Fault) (setDeleting : Bool) (fresh : Fresh) (s : RevSt) : RevSt × Outcome :=
  if setDeleting then (s, .ok) else
  match listRevsF plan s with
  | (s, none) => (s, .err)
  | (s, some revs) =>
    if !(revs.any (·.owner == .none)) then (s, .ok) else
    let (s, ok) := foldOk revs s fun s r =>
      if r.marker then
        let (t, e) := s.tr.call plan s!"update:rev:{r.name}"
        match e with
        | some _ => ({ s with tr := t }, false)
        | none => ({ store := s.store.map (fun x => if x.name == r.name then { x with selMatch := true } else x), tr := t }, true)
      else (s, true)
    if !ok then (s, .err) else
    let (t, e) := s.tr.call plan "get:set"
    let s := { s with tr := t }
    if e.isSome || fresh.gone || !fresh.uidOk || fresh.deleting then (s, .err) else
    let (s, ok) := foldOk revs s fun s r =>
      if r.owner != .none then (s, true)          -- already controlled by this set
      else
        let (t, e) := s.tr.call plan s!"patch:rev:{r.name}"
        match e with
        | some _ => ({ s with tr := t }, false)
        | none => ({ store := s.store.map (fun x => if x.name == r.name then { x with owner := .self } else x), tr := t }, true)
    (s, if ok then .ok else .err)

structure ClaimOutF where
  claimed : List CPod := []
  failed  : Bool := false
  canAdopt : Option Bool := none      -- memo of the once-only uncached check
  tr      : Tr

/-- `ClaimPods` with faults: NotFound on either patch and Invalid on release are swallowed on purpose -/
def claimPodsF (plan : List Fault) (setDeleting : Bool) (fresh : Fresh) (pods : List CPod) (tr : Tr) : ClaimOutF :=
  pods.foldl (fun (o : ClaimOutF) c =>
    match claimDecision setDeleting c with
    | .keep => { o with claimed := o.claimed ++ [c] }
    | .ignore => o
    | .release =>
      let (t, e) := o.tr.call plan s!"patch:pod:{c.name}"
      let o := { o with tr := t }
      match e with
      | some .notFound | some .invalid | none => o
      | some _ => { o with failed := true }
    | .adopt =>
      -- CanAdopt: at most one uncached GET per sync
      let (o, can) := match o.canAdopt with
        | some b => (o, b)
        | none =>
          let (t, e) := o.tr.call plan "get:set"
          let b := e.isNone && !fresh.gone && fresh.uidOk && !fresh.deleting
          ({ o with tr := t, canAdopt := some b }, b)
      if !can then { o with failed := true }
      else
        let (t, e) := o.tr.call plan s!"patch:pod:{c.name}"
        let o := { o with tr := t }
        match e with
        | none => { o with claimed := o.claimed ++ [c] }
        | some .notFound => o
        | some _ => { o with failed := true }) { tr := tr }

/-- `updateControllerRevision`: RetryOnConflict(DefaultBackoff), 4 attempts -/
def renumberF (plan : List Fault) (name : String) (n : Int) : Nat → RevSt → RevSt × Bool
  | 0, s => (s, false)
  | fuel + 1, s =>
    let (t, e) := s.tr.call plan s!"update:rev:{name}"
    let s := { s with tr := t }
    match e with
    | none => ({ s with store := s.store.map (fun r => if r.name == name then { r with number := n } else r) }, true)
    | some k =>
      -- after any failed Update the clone is refreshed with an uncached GET (whose own failure is ignored);
      -- only a Conflict is retried
      let (t, _) := s.tr.call plan s!"get:rev:{name}"
      let s := { s with tr := t }
      if k == .conflict && fuel != 0 then renumberF plan name n fuel s else (s, false)

/-- `createControllerRevision` with faults: probe names until one is free or holds the same data -/
def createRevLoopF (h : Hashing) (plan : List Fault) (fresh : Rev) : Nat → Int → RevSt → RevSt × Option (Rev × Int)
  | 0, _, s => (s, none)
  | fuel + 1, cc, s =>
    let nm := h.nameOf fresh.data cc
    let (t, e) := s.tr.call plan s!"create:rev:{nm}"
    let s := { s with tr := t }
    let exists_ := s.store.find? (·.name == nm)
    let kind : Option ErrKind := match e with | some k => some k | none => if exists_.isSome then some .alreadyExists else none
    match kind with
    | none =>
      let r := { fresh with name := nm, hashNum := h.hashNumOf fresh.data cc }
      ({ s with store := insertByName r s.store }, some (r, cc))
    | some .alreadyExists =>
      let (t, e) := s.tr.call plan s!"get:rev:{nm}"
      let s := { s with tr := t }
      match e, exists_ with
      | none, some ex => if ex.data == fresh.data then (s, some (ex, cc)) else createRevLoopF h plan fresh fuel (cc + 1) s
      | _, _ => (s, none)
    | some _ => (s, none)

/-- `getStatefulSetRevisions` (control.go). `revs` is the sorted listing. Returns (current, update, collision count). -/
def getRevisionsF (h : Hashing) (plan : List Fault) (template statusCurrentRev : String) (cc0 : Int)
    (revs : List Rev) (s : RevSt) : RevSt × Option (Rev × Rev × Int) :=
  let fresh : Rev := { name := h.nameOf template cc0, number := nextRevision revs, ctime := 0, data := template,
                       hashNum := h.hashNumOf template cc0, owner := .self, selMatch := true, marker := false }
  let eq := revs.filter (fun r => equalRev r fresh)
  let pick : RevSt × Option (Rev × Int) :=
    match eq.getLast?, revs.getLast? with
    | some e, some l =>
      if equalRev l e then (s, some (l, cc0))
      else if e.number == fresh.number then (s, some (e, cc0))
      else
        let (s, ok) := renumberF plan e.name fresh.number 4 s
        (s, if ok then some ({ e with number := fresh.number }, cc0) else none)
    | _, _ => createRevLoopF h plan fresh (s.store.length + 8) cc0 s
  match pick with
  | (s, none) => (s, none)
  | (s, some (upd, cc)) => (s, some ((revs.find? (·.name == statusCurrentRev)).getD upd, upd, cc))

/-- status write: RetryOnConflict(DefaultRetry), 5 attempts; `gone` = the object no longer exists in the API (NotFound) -/
def statusWriteF (plan : List Fault) (gone : Bool) : Nat → Tr → Tr × Bool
  | 0, t => (t, false)
  | fuel + 1, t =>
    let (t, e) := t.call plan "updatestatus"
    match e with
    | none => (t, !gone)
    | some .conflict => if fuel == 0 then (t, false) else statusWriteF plan gone fuel t
    | some _ => (t, false)

/-- `truncateHistory` (control.go) -/
def truncateF (plan : List Fault) (limit : Option Int) (podRevs : List String) (revs : List Rev) (cur upd : Rev)
    (s : RevSt) : RevSt × Outcome :=
  let live := cur.name :: upd.name :: podRevs
  -- an orphan that was not adopted (the set is being deleted) is not history
  let history := revs.filter (fun r => !live.contains r.name && r.owner == .self)
  match limit with
  | none => (s, .panic "nil *Spec.RevisionHistoryLimit (stateful_set_control.go)")
  | some lim =>
    if (history.length : Int) ≤ lim then (s, .ok)
    else
      let victims := history.take (history.length - lim.toNat)
      let (s, ok) := foldOk victims s fun s r =>
        let (t, e) := s.tr.call plan s!"delete:rev:{r.name}"
        let s := { s with tr := t }
        if e.isSome || !(s.store.any (·.name == r.name)) then (s, false)
        else ({ s with store := s.store.filter (·.name != r.name) }, true)
      (s, if ok then .ok else .err)

structure SyncIn where
  setName    : String
  paused     : Bool
  selectorOk : Bool                 -- LabelSelectorAsSelector succeeds
  view       : SetView
  stored     : Status               -- set.Status as cached
  collisionCount : Option Int       -- set.Status.CollisionCount
  historyLimit : Option Int
  template   : String
  fresh      : Fresh
  store      : List Rev             -- ControllerRevisions in the API, name order
  pods       : List CPod            -- pod lister order

structure SyncOut where
  log     : List String := []
  status  : Option Status := none          -- the status written, if any
  cc      : Option Int := none             -- collision count carried by that status
  store   : List Rev := []                 -- ControllerRevisions in the API afterwards
  cur     : String := ""                   -- revisions the reconcile resolved ("" when it did not get that far)
  upd     : String := ""
  claimed : List CPod := []
  acts    : List Action := []
  actsDone : Nat := 0                      -- how many of `acts` took effect (a failed pod-control call is the last one)
  outcome : Outcome := .ok
  deriving Repr

def canonicalName (setName : String) (o : Int) : String := s!"{setName}-{o}"

/-- `UpdateStatefulPod` on a pod whose name is canonical: RetryOnConflict(DefaultBackoff), 4 attempts, each starting from
    a fresh copy out of the pod cache; returns (number of Update calls, success) -/
def updateAttempts (plan : List Fault) (key : String) : Nat → Nat → Nat × Bool
  | 0, n => (n, false)
  | fuel + 1, n =>
    match (plan.find? (fun f => f.key == key && f.occ == n)).map (·.kind) with
    | none => (n + 1, true)
    | some .conflict => updateAttempts plan key fuel (n + 1)
    | some _ => (n + 1, false)

/-- the claimed pod that ends up in `replicas[o]` (the last one that parses to `o`) -/
def occupantAt (claimed : List CPod) (b : Int) (E : List Int) (o : Int) : Option CPod :=
  (claimed.filter (fun q => q.pod.ord == o && inRange b E q.pod.ord)).getLast?

/-- `UpdateStatefulPod` at ordinal `o`: (number of Update calls, success).
    A pod with a non-canonical name (`web-03`) is renamed in place by `updateIdentity` before the single Update call; that
    call answers NotFound unless an object with the canonical name exists; after a Conflict the refresh from the cache
    finds nothing under the new name, the retry sees the already-renamed copy as consistent and returns success without
    another call. -/
def updateResult (setName : String) (plan : List Fault) (pods claimed : List CPod) (b : Int) (E : List Int) (o : Int) : Nat × Bool :=
  let key := s!"update:pod:{canonicalName setName o}"
  match occupantAt claimed b E o with
  | some c =>
    if c.name != canonicalName setName o then
      match (plan.find? (fun f => f.key == key && f.occ == 0)).map (·.kind) with
      | some ErrKind.conflict => (1, true)
      | some _ => (1, false)
      | none => (1, pods.any (·.name == canonicalName setName o))
    else updateAttempts plan key 4 0
  | none => updateAttempts plan key 4 0

/-- name under which the pod control addresses the target of an action -/
def actName (setName : String) (claimed : List CPod) : Action → String
  | .create o _ => canonicalName setName o
  | .update o => canonicalName setName o              -- `updateIdentity` renames the copy before the Update call
  | .delete o id _ => ((claimed.find? (·.pod.id == id)).map (·.name)).getD (canonicalName setName o)

/-- pod-control calls as log entries -/
def actLog (setName : String) (plan : List Fault) (pods claimed : List CPod) (b : Int) (E : List Int) : Action → List String
  | .create o r => [s!"create:pod:{actName setName claimed (.create o r)}"]
  | .delete o id w => [s!"delete:pod:{actName setName claimed (.delete o id w)}"]
  | .update o => List.replicate (updateResult setName plan pods claimed b E o).1 s!"update:pod:{canonicalName setName o}"

/-- the reconcile-level fault plan implied by the API-level one, plus the API-world fact that `create S-i` answers
    AlreadyExists while some pod object still holds that name -/
def podFaults (setName : String) (plan : List Fault) (pods claimed : List CPod) (b : Int) (E : List Int) : Faults :=
  let ordOfName (n : String) : Option Int :=
    match pods.find? (·.name == n) with
    | some c => some c.pod.ord
    | none => ((List.range 64).map Int.ofNat).find? (fun o => canonicalName setName o == n)
  let fromPlan : Faults := plan.filterMap fun f =>
    match f.key.splitOn ":" with
    | [verb, "pod", n] =>
      if f.occ != 0 then none else
      (ordOfName n).bind fun o =>
        if verb == "create" then some (0, o)
        else if verb == "delete" then some (1, o)
        else none
    | _ => none
  -- an update ultimately fails iff its retry loop does
  let updFaults : Faults := ((List.range 64).map Int.ofNat).filterMap fun o =>
    if (updateResult setName plan pods claimed b E o).2 then none else some (2, o)
  -- names still held: every pod with a canonical name, except a claimed pod that occupies its own slot
  let occupant (c : CPod) : Bool := ((occupantAt claimed b E c.pod.ord).map (·.pod.id)) == some c.pod.id
  let squat : Faults := (pods.filter (fun c => c.name == canonicalName setName c.pod.ord && !(claimed.any (·.pod.id == c.pod.id) && occupant c))).map (fun c => (0, c.pod.ord))
  fromPlan ++ updFaults ++ squat

def syncF (h : Hashing) (i : SyncIn) (plan : List Fault) : SyncOut :=
  if i.paused || !i.selectorOk then { store := i.store } else
  match adoptOrphanRevisionsF plan i.view.deleting i.fresh { store := i.store } with
  | (s, .ok) =>
    let c := claimPodsF plan i.view.deleting i.fresh i.pods s.tr
    let s := { s with tr := c.tr }
    if c.failed then { log := s.tr.log, store := s.store, outcome := .err } else
    match listRevsF plan s with
    | (s, none) => { log := s.tr.log, store := s.store, claimed := c.claimed, outcome := .err }
    | (s, some listed) =>
    let revs := sortRevs listed
    match getRevisionsF h plan i.template i.stored.currentRev (i.collisionCount.getD 0) revs s with
    | (s, none) => { log := s.tr.log, store := s.store, claimed := c.claimed, outcome := .err }
    | (s, some (cur, upd, cc)) =>
      let (b, E) := maxReplicaAndSlots (i.view.replicas.getD 0) i.view.slots
      let pf := podFaults i.setName plan i.pods c.claimed b E
      let (st, out) := updateStatefulSet i.view cur.name upd.name (c.claimed.map (·.pod)) pf
      let s := { s with tr := { log := s.tr.log ++ (st.acts.map (actLog i.setName plan i.pods c.claimed b E)).flatten } }
      let base : SyncOut := { cur := cur.name, upd := upd.name, claimed := c.claimed, acts := st.acts,
                              actsDone := if out == .err then st.acts.length - 1 else st.acts.length }
      match out with
      | .ok =>
        let status := completeRollingUpdate i.view st.status
        if inconsistentStatus i.stored status then
          let (t, ok) := statusWriteF plan i.fresh.gone 5 s.tr
          let s := { s with tr := t }
          if !ok then { base with log := s.tr.log, store := s.store, outcome := .err } else
          let (s, out) := truncateF plan i.historyLimit (c.claimed.map (·.pod.rev)) revs cur upd s
          { base with log := s.tr.log, store := s.store, status := some status, cc := some cc, outcome := out }
        else
          let (s, out) := truncateF plan i.historyLimit (c.claimed.map (·.pod.rev)) revs cur upd s
          { base with log := s.tr.log, store := s.store, outcome := out }
      | o => { base with log := s.tr.log, store := s.store, outcome := o }
  | (s, out) => { log := s.tr.log, store := s.store, outcome := out }

end Asts
