import Asts.Model.Revisions
namespace Asts

/-- a pod in the informer cache, as `getPodsForStatefulSet` sees it -/
structure CPod where
  pod      : Pod
  owner    : Owner      -- controller reference
  selMatch : Bool       -- labels satisfy the selector
  member   : Bool       -- isMemberOf: name is "<set>-<digits>"
  deriving DecidableEq, Repr

inductive Decision | keep | adopt | release | ignore
  deriving DecidableEq, Repr

/-- `ClaimObject` (controller_ref_manager.go:78-141) as a pure decision -/
def claimDecision (setDeleting : Bool) (c : CPod) : Decision :=
  match c.owner with
  | .other => .ignore
  | .self  => if c.selMatch && c.member then .keep else if setDeleting then .ignore else .release
  | .none  => if setDeleting || !(c.selMatch && c.member) then .ignore
              else if c.pod.terminating then .ignore else .adopt

inductive PodPatch | adopt (id : Nat) | release (id : Nat)
  deriving DecidableEq, Repr

inductive PatchResult | ok | notFound | invalid | fail
  deriving DecidableEq, Repr

structure ClaimOut where
  claimed : List Pod := []
  patches : List PodPatch := []
  freshGets : Nat := 0          -- uncached GETs of the set issued (CanAdopt runs at most once)
  failed  : Bool := false       -- aggregate error non-empty
  deriving Repr

/-- `ClaimPods`. `canAdopt` = result of the uncached GET + uid comparison + deletion recheck; evaluated lazily, once. -/
def claimPods (setDeleting : Bool) (canAdopt : Bool) (res : PodPatch → PatchResult) (pods : List CPod) : ClaimOut :=
  pods.foldl (fun (o : ClaimOut) c =>
    match claimDecision setDeleting c with
    | .keep => { o with claimed := o.claimed ++ [c.pod] }
    | .ignore => o
    | .release =>
      let o := { o with patches := o.patches ++ [.release c.pod.id] }
      match res (.release c.pod.id) with
      | .fail => { o with failed := true }
      | _ => o                                        -- ok, NotFound and Invalid are all "released"
    | .adopt =>
      let o := { o with freshGets := 1 }
      if !canAdopt then { o with failed := true }
      else
        let o := { o with patches := o.patches ++ [.adopt c.pod.id] }
        match res (.adopt c.pod.id) with
        | .ok => { o with claimed := o.claimed ++ [c.pod] }
        | .notFound => o
        | _ => { o with failed := true }) {}

structure SyncIn where
  found      : Bool                 -- set present in the lister
  paused     : Bool
  selectorOk : Bool                 -- LabelSelectorAsSelector succeeds
  view       : SetView
  stored     : Status               -- set.Status as cached
  statusCurrentRev : String
  collisionCount : Int
  historyLimit : Option Int
  template   : String
  freshUidOk : Bool                 -- uncached GET returns the set with the same uid
  freshDeleting : Bool              -- … and it carries a deletion timestamp
  store      : List Rev             -- ControllerRevisions in the API, name order
  pods       : List CPod            -- pod cache
  now        : Int

structure SyncOut where
  store    : List Rev := []          -- ControllerRevisions in the API afterwards
  cur      : String := ""            -- names the reconcile resolved (empty if it did not get that far)
  upd      : String := ""
  claimed  : List Pod := []
  revCalls : List RevCall := []
  patches  : List PodPatch := []
  acts     : List Action := []
  status   : Option Status := none
  outcome  : Outcome := .ok
  deriving Repr

/-- `sync` (stateful_set.go:456-502) followed by `UpdateStatefulSet` (control.go:90-133) -/
def sync (h : Hashing) (i : SyncIn) (revFails : RevCall → Bool) (patchRes : PodPatch → PatchResult)
    (f : Faults) (statusWriteFails : Bool) : SyncOut :=
  if !i.found || i.paused || !i.selectorOk then {} else
  match adoptOrphanRevisions revFails i.freshUidOk { store := i.store } with
  | (o, .ok) =>
    let c := claimPods i.view.deleting (i.freshUidOk && !i.freshDeleting) patchRes i.pods
    if c.failed then { store := o.store, revCalls := o.calls, patches := c.patches, outcome := .err } else
    -- UpdateStatefulSet
    let o := { o with calls := o.calls ++ [.list] }
    if revFails .list then { store := o.store, revCalls := o.calls, patches := c.patches, outcome := .err } else
    let revs := sortRevs (listRevisions o.store)
    match getRevisions h revFails i.template i.statusCurrentRev i.collisionCount i.now revs o with
    | .error (o, out) => { store := o.store, claimed := c.claimed, revCalls := o.calls, patches := c.patches, outcome := out }
    | .ok (o, cur, upd, _cc) =>
      match reconcileAndStatus i.view i.stored cur.name upd.name c.claimed f statusWriteFails with
      | (acts, st, .ok) =>
        let (o, out) := truncateHistory revFails i.historyLimit (c.claimed.map (·.rev)) revs cur upd o
        { store := o.store, cur := cur.name, upd := upd.name, claimed := c.claimed, revCalls := o.calls, patches := c.patches, acts := acts, status := st, outcome := out }
      | (acts, st, out) => { store := o.store, cur := cur.name, upd := upd.name, claimed := c.claimed, revCalls := o.calls, patches := c.patches, acts := acts, status := st, outcome := out }
  | (o, out) => { store := o.store, revCalls := o.calls, outcome := out }

end Asts
