import Asts.Model.Codec
namespace Asts.Hijack
open Asts Asts.Codec

/-! The verbs of the hijack client (`hijackStatefulSet` in client/apis/apps/v1/helper/hijack.go): each is the verb of the
    inner (Advanced) client wrapped in the conversions of `Model/Codec`.

    The inner client is abstract: a verb of it answers `.ok out` or `.err kind`. What the hijack verb hands back is
    * on `.ok`: the built-in equivalent of `out` (`ToBuiltinStatefulSet` / `ToBuiltinStetefulsetList`; `Delete` and
      `DeleteCollection` are not overridden at all, `Watch` wraps the stream in a relay — the `watch` engine's business),
    * on `.err k`: no object and the very same error.
    The conversions done on the way IN (`FromBuiltinStatefulSet` + client-side defaulting for Create / Update,
    `FromBuiltinStatefulSet` for UpdateStatus, `FromBuiltinStatefulSetApplyConfiguration` for Apply / ApplyStatus) never fail
    on a typed value (C19 `conversion_never_fails`), so the inner verb is always reached; they are the subject of the
    `codec` / `defaults` engines and of the `ac` / `sent` tokens of the `hijack` engine. -/

/-- the classes of API errors the engine injects or the fake store answers by itself -/
inductive ErrKind where
  | notFound | conflict | alreadyExists | invalid | timeout | other
  deriving Repr, DecidableEq, Inhabited

/-- what a client verb answers -/
inductive Res (α : Type) where
  | ok (a : α)
  | err (k : ErrKind)
  deriving Repr, Inhabited

/-- the result a verb carries on success -/
inductive Out where
  | obj (v : GoVal)       -- Create, Update, UpdateStatus, Get, Patch, Apply, ApplyStatus
  | list (v : GoVal)      -- List
  | done                  -- Delete, DeleteCollection
  | stream                -- Watch
  deriving Repr, Inhabited

/-- one step of an engine script: the verb of the hijack client with the variant of its arguments -/
inductive Step where
  | create | get | update | updateStatus | list
  | patchMerge | patchJson | patchStrategic | patchStatus
  | apply | applyStatus | delete | deleteCollection | watch
  deriving Repr, DecidableEq, Inhabited

inductive Shape where
  | obj | list | done | stream
  deriving Repr, DecidableEq, Inhabited

def Step.shape : Step → Shape
  | .list => .list
  | .delete => .done
  | .deleteCollection => .done
  | .watch => .stream
  | _ => .obj

def Out.shape : Out → Shape
  | .obj _ => .obj
  | .list _ => .list
  | .done => .done
  | .stream => .stream

/-- the verb of the INNER client a step ends in (as the recorder of the harness names it) -/
def Step.call : Step → String
  | .create => "create"
  | .get => "get"
  | .update => "update"
  | .updateStatus => "update/status"
  | .list => "list"
  | .patchMerge => "patch.merge"
  | .patchJson => "patch.json"
  | .patchStrategic => "patch.strategic"
  | .patchStatus => "patch.merge/status"
  | .apply => "patch.apply"
  | .applyStatus => "patch.apply/status"
  | .delete => "delete"
  | .deleteCollection => "deletecollection"
  | .watch => "watch"

/-- the four Go types the conversions go between -/
structure Schemas where
  as : GoTy
  builtin : GoTy
  asList : GoTy
  builtinList : GoTy

/-- `ToBuiltinStatefulSet` -/
def toBuiltin (S : Schemas) (a : GoVal) : GoVal := convert S.as S.builtin "apps/v1" a
/-- `ToBuiltinStetefulsetList` -/
def toBuiltinList (S : Schemas) (l : GoVal) : GoVal := convertList S.asList S.builtinList "apps/v1" l
/-- `FromBuiltinStatefulSet` -/
def fromBuiltin (S : Schemas) (o : GoVal) : GoVal := convert S.builtin S.as "apps.pingcap.com/v1" o

/-- the way OUT of a verb -/
def wrapOut (S : Schemas) : Out → Out
  | .obj a => .obj (toBuiltin S a)
  | .list l => .list (toBuiltinList S l)
  | .done => .done
  | .stream => .stream

/-- a verb of the hijack client, given what the inner client's verb answered: `if err != nil { return nil, err }` then the
    conversion -/
def hijack (S : Schemas) (_st : Step) (inner : Res Out) : Res Out :=
  match inner with
  | .err k => .err k
  | .ok o => .ok (wrapOut S o)

/-! ### the fake store behind the inner client (harness/eng_hijack.go), as far as it decides ok / error -/

structure Store where
  /-- the case's object is stored -/
  present : Bool
  /-- other sets in the namespace -/
  others : Nat
  deriving Repr, Inhabited

/-- the Advanced list the fake answers a List with: `n` items (all shown as the case's object), no TypeMeta -/
def listOf (a : GoVal) (n : Nat) : GoVal :=
  .struct [("kind", .str ""), ("apiVersion", .str ""),
    ("metadata", .leaf (.obj [("resourceVersion", .str "42"), ("continue", .str "tok")])),
    ("items", .slice (if n == 0 then none else some (List.replicate n a)))]

/-- the inner client's answer to a step and the store afterwards; `a` stands for the stored object -/
def innerStep (a : GoVal) (s : Store) (st : Step) (fault : Option ErrKind) : Res Out × Store :=
  match fault with
  | some k => (.err k, s)
  | none =>
    match st with
    | .create => if s.present then (.err .alreadyExists, s) else (.ok (.obj a), { s with present := true })
    | .apply => (.ok (.obj a), { s with present := true })
    | .list => (.ok (.list (listOf a (s.others + (if s.present then 1 else 0)))), s)
    | .delete => if s.present then (.ok .done, { s with present := false }) else (.err .notFound, s)
    | .deleteCollection => (.ok .done, { present := false, others := 0 })
    | .watch => (.ok .stream, s)
    | _ => if s.present then (.ok (.obj a), s) else (.err .notFound, s)

end Asts.Hijack
