namespace Asts.JsonInts

/-! The codec of the delete-slots annotation: `json.Marshal([]int32)` and `json.Unmarshal` into `[]int32`,
    over `List Char`. -/

def digitChar (d : Nat) : Char := Char.ofNat (48 + d)
def isDigit (c : Char) : Bool := 48 ≤ c.toNat && c.toNat ≤ 57
def digitVal (c : Char) : Nat := c.toNat - 48

/-- decimal digits, most significant first -/
def digits (n : Nat) : List Char :=
  if _h : n < 10 then [digitChar n] else digits (n / 10) ++ [digitChar (n % 10)]
termination_by n
decreasing_by omega

def renderInt (i : Int) : List Char :=
  if i < 0 then '-' :: digits i.natAbs else digits i.natAbs

def renderTail : List Int → List Char
  | [] => [']']
  | x :: xs => ',' :: (renderInt x ++ renderTail xs)

/-- `json.Marshal` of a `[]int32` (non-nil) -/
def render : List Int → List Char
  | [] => ['[', ']']
  | x :: xs => '[' :: (renderInt x ++ renderTail xs)

def isWs (c : Char) : Bool := c == ' ' || c == '\t' || c == '\n' || c == '\r'
def skipWs : List Char → List Char
  | [] => []
  | c :: cs => if isWs c then skipWs cs else c :: cs

def takeDigits : List Char → List Char × List Char
  | [] => ([], [])
  | c :: cs => if isDigit c then let r := takeDigits cs; (c :: r.1, r.2) else ([], c :: cs)

def digitsToNat (ds : List Char) : Nat := ds.foldl (fun acc c => acc * 10 + digitVal c) 0

def inInt32 (i : Int) : Bool := -2147483648 ≤ i && i ≤ 2147483647

def startsNull : List Char → Option (List Char)
  | 'n' :: 'u' :: 'l' :: 'l' :: rest => some rest
  | _ => none

def stripSign : List Char → Bool × List Char
  | '-' :: r => (true, r)
  | cs => (false, cs)

def startsFraction : List Char → Bool
  | '.' :: _ | 'e' :: _ | 'E' :: _ => true
  | _ => false

/-- an integer literal `(0|[1-9][0-9]*)` already split into digits and remainder, within int32 -/
def intLit (neg : Bool) (ds rest : List Char) : Option (Int × List Char) :=
  match ds with
  | [] => none
  | d :: more =>
    if d == '0' && !more.isEmpty then none          -- leading zero
    else if startsFraction rest then none           -- fraction / exponent: not an int32
    else
      let v : Int := if neg then - (digitsToNat ds : Int) else digitsToNat ds
      if inInt32 v then some (v, rest) else none

/-- one array element: `null` (→ 0) or an integer literal `-?(0|[1-9][0-9]*)` within int32 -/
def parseElem (cs : List Char) : Option (Int × List Char) :=
  match startsNull cs with
  | some rest => some (0, rest)
  | none =>
    let sb := stripSign cs
    let dr := takeDigits sb.2
    intLit sb.1 dr.1 dr.2

/-- after an element: `,` elem … or `]` then only whitespace -/
def parseRest : Nat → List Char → Option (List Int)
  | 0, _ => none
  | fuel + 1, cs =>
    match skipWs cs with
    | ']' :: rest => if skipWs rest == [] then some [] else none
    | ',' :: rest =>
      match parseElem (skipWs rest) with
      | some (v, rest') => (parseRest fuel rest').map (v :: ·)
      | none => none
    | _ => none

/-- `json.Unmarshal(value, &[]int32)`; `none` = error (the helper then returns the empty set) -/
def parse (cs : List Char) : Option (List Int) :=
  match skipWs cs with
  | 'n' :: 'u' :: 'l' :: 'l' :: rest => if skipWs rest == [] then some [] else none
  | '[' :: rest =>
    match skipWs rest with
    | ']' :: rest' => if skipWs rest' == [] then some [] else none
    | cs' =>
      match parseElem cs' with
      | some (v, rest') => (parseRest (rest'.length + 1) rest').map (v :: ·)
      | none => none
  | _ => none

end Asts.JsonInts
