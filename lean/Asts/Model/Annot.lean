import Asts.Model.Ordinals
import Asts.Model.JsonInts
namespace Asts.Annot
open Asts

/-! Model of the annotation helpers of `client/apis/apps/v1/helper/helper.go`:
    `GetDeleteSlots`, `SetDeleteSlots`, `AddDeleteSlots`, `SetPausedReconcile`, `GetPausedReconcile`.

    An annotation map is `none` (a nil Go map) or `some` association list (a Go map has no order; the observation
    sorts by key). Values are byte strings, one `Char` per byte. -/

abbrev Entries := List (String × List Char)
abbrev Ann := Option Entries

def slotsKey : String := "delete-slots"
def pausedKey : String := "paused-reconcile"
def trueVal : List Char := ['t', 'r', 'u', 'e']

def lookup (k : String) : Entries → Option (List Char)
  | [] => none
  | (k', v) :: rest => if k' = k then some v else lookup k rest

/-- `delete(m, k)` -/
def erase (k : String) (l : Entries) : Entries := l.filter (fun e => e.1 ≠ k)

/-- `m[k] = v` -/
def insert (k : String) (v : List Char) (l : Entries) : Entries := (k, v) :: erase k l

def lookupA (k : String) (m : Ann) : Option (List Char) :=
  match m with
  | none => none
  | some l => lookup k l

/-- the value under the delete-slots key as a sorted duplicate-free list; unparsable / absent / nil map = empty -/
def slotsOfValue (v : Option (List Char)) : List Int :=
  match v with
  | none => []
  | some cs =>
    match JsonInts.parse cs with
    | some xs => dedupSort xs
    | none => []

/-- `GetDeleteSlots` (as `sets.Int32.List()`) -/
def getSlots (m : Ann) : List Int := slotsOfValue (lookupA slotsKey m)

/-- `SetDeleteSlots`; the argument is `none` for a nil `sets.Int32`. A nil or empty set deletes the key (a nil map stays
    nil); otherwise the map is created when nil and the key is set to `json.Marshal(set.List())`. -/
def setSlots (m : Ann) (s : Option (List Int)) : Ann :=
  let s' := dedupSort (s.getD [])
  if s' = [] then m.map (erase slotsKey)
  else some (insert slotsKey (JsonInts.render s') (m.getD []))

/-- `AddDeleteSlots` = `SetDeleteSlots(set, GetDeleteSlots(set).Union(arg))` -/
def addSlots (m : Ann) (s : Option (List Int)) : Ann :=
  setSlots m (some (getSlots m ++ s.getD []))

/-- `SetPausedReconcile`: always materialises the map -/
def setPaused (m : Ann) (b : Bool) : Ann :=
  some (if b then insert pausedKey trueVal (m.getD []) else erase pausedKey (m.getD []))

/-- `GetPausedReconcile` -/
def getPaused (m : Ann) : Bool := lookupA pausedKey m == some trueVal

inductive Op where
  | set (s : Option (List Int))
  | add (s : Option (List Int))
  | get
  | pause (b : Bool)
  | isPaused
  deriving Repr, DecidableEq

/-- what the helper returns -/
inductive Ret where
  | ok
  | slots (l : List Int)
  | flag (b : Bool)
  deriving Repr, DecidableEq

def apply (m : Ann) : Op → Ann
  | .set s => setSlots m s
  | .add s => addSlots m s
  | .get => m
  | .pause b => setPaused m b
  | .isPaused => m

def ret (m : Ann) : Op → Ret
  | .set _ => .ok
  | .add _ => .ok
  | .get => .slots (getSlots m)
  | .pause _ => .ok
  | .isPaused => .flag (getPaused m)

/-- what an observer sees of a map: the two read helpers, nil-ness, the entries -/
structure View where
  slots : List Int
  paused : Bool
  isNil : Bool
  entries : Entries
  deriving Repr, DecidableEq

def view (m : Ann) : View := ⟨getSlots m, getPaused m, m.isNone, m.getD []⟩

/-- the run: the view of the map after every op, with the returned value -/
def run (m : Ann) : List Op → List (Ret × View)
  | [] => []
  | op :: ops => (ret m op, view (apply m op)) :: run (apply m op) ops

end Asts.Annot
