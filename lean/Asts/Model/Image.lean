namespace Asts.Image

/-! `ParseImageName` (third_party/k8s/parsers.go → github.com/distribution/reference `ParseNormalizedNamed`) as far as
    `SetDefaults_Container` uses it: is the image reference well formed, and is its tag `latest` (explicitly, or because
    neither a tag nor a digest is given)? The grammar is the reference grammar restricted to sha256 digests. -/

def isLower (c : Char) : Bool := 'a' ≤ c && c ≤ 'z'
def isUpper (c : Char) : Bool := 'A' ≤ c && c ≤ 'Z'
def isDigit (c : Char) : Bool := '0' ≤ c && c ≤ '9'
def isAlnumLower (c : Char) : Bool := isLower c || isDigit c
def isAlnum (c : Char) : Bool := isLower c || isUpper c || isDigit c
def isHexLower (c : Char) : Bool := isDigit c || ('a' ≤ c && c ≤ 'f')

def splitOnChar (sep : Char) : List Char → List (List Char)
  | [] => [[]]
  | c :: cs =>
    match splitOnChar sep cs with
    | [] => [[c]]
    | h :: t => if c == sep then [] :: h :: t else (c :: h) :: t

/-- `alpha-numeric ( separator alpha-numeric )*`, separator = `.` | `_` | `__` | `-`+ ; `st`: 0 = at start, 1 = after an
    alpha-numeric, 2 = after `.` or `__` or dashes' end is handled by 3/4: 3 = after one `_`, 4 = after dashes -/
def pathComponentAux : Nat → List Char → Bool
  | st, [] => st == 1
  | st, c :: cs =>
    if isAlnumLower c then pathComponentAux 1 cs
    else if c == '.' then st == 1 && pathComponentAux 2 cs
    else if c == '_' then (st == 1 && pathComponentAux 3 cs) || (st == 3 && pathComponentAux 2 cs)
    else if c == '-' then (st == 1 || st == 4) && pathComponentAux 4 cs
    else false

def pathComponent (cs : List Char) : Bool := pathComponentAux 0 cs

/-- `[a-zA-Z0-9]` | `[a-zA-Z0-9][a-zA-Z0-9-]*[a-zA-Z0-9]` -/
def domainComponent (cs : List Char) : Bool :=
  match cs with
  | [] => false
  | c :: _ => isAlnum c && (match cs.getLast? with | some l => isAlnum l | none => false) && cs.all (fun x => isAlnum x || x == '-')

/-- `domain-component ('.' domain-component)* (':' [0-9]+)?` -/
def domainOk (cs : List Char) : Bool :=
  match splitOnChar ':' cs with
  | [host] => (splitOnChar '.' host).all domainComponent
  | [host, port] => (splitOnChar '.' host).all domainComponent && !port.isEmpty && port.all isDigit
  | _ => false

/-- `[\w][\w.-]{0,127}` -/
def tagOk (cs : List Char) : Bool :=
  match cs with
  | [] => false
  | c :: rest => (isAlnum c || c == '_') && rest.all (fun x => isAlnum x || x == '_' || x == '.' || x == '-') && rest.length ≤ 127

def digestOk (cs : List Char) : Bool :=
  match splitOnChar ':' cs with
  | [alg, hex] => alg == "sha256".toList && hex.length == 64 && hex.all isHexLower
  | _ => false

/-- the first component of a name is a registry host when it has a dot, a colon, an upper-case letter or is `localhost` -/
def looksLikeDomain (cs : List Char) : Bool :=
  cs.any (fun c => c == '.' || c == ':' || isUpper c) || cs == "localhost".toList

/-- split `name[:tag]` at the last colon that comes after the last slash -/
def splitTag (cs : List Char) : List Char × Option (List Char) :=
  let comps := splitOnChar '/' cs
  match comps.getLast? with
  | none => (cs, none)
  | some last =>
    match splitOnChar ':' last with
    | [_] => (cs, none)
    | parts =>
      let tag := parts.getLast?.getD []
      let nameLast := (parts.dropLast).intersperse [':'] |>.flatten
      (((comps.dropLast ++ [nameLast]).intersperse ['/']).flatten, some tag)

def nameOk (cs : List Char) : Bool :=
  match splitOnChar '/' cs with
  | [] => false
  | [single] => pathComponent single
  | first :: rest =>
    -- the reference grammar's registry host is optional: a first component that looks like a host but is not a valid one
    -- (`reg.io_5000`) can still be an ordinary path component
    if looksLikeDomain first then (domainOk first || pathComponent first) && rest.all pathComponent
    else pathComponent first && rest.all pathComponent

/-- result of the parse as the defaulter sees it: `none` = error, `some (tag, hasDigest)` -/
def parse (s : String) : Option (Option (List Char) × Bool) :=
  let cs := s.toList
  if cs.length == 64 && cs.all isHexLower then none else
  match splitOnChar '@' cs with
  | [nt] =>
    let (name, tag) := splitTag nt
    -- a single component `host:port` without a slash is a name with a tag
    if nameOk name && (match tag with | some t => tagOk t | none => true) && name.length ≤ 255 then some (tag, false) else none
  | [nt, dg] =>
    let (name, tag) := splitTag nt
    if nameOk name && (match tag with | some t => tagOk t | none => true) && digestOk dg then some (tag, true) else none
  | _ => none

/-- `tag == "latest"` after `ParseImageName`'s rule "no tag and no digest means latest" -/
def tagIsLatest (s : String) : Bool :=
  match parse s with
  | none => false
  | some (some t, _) => t == "latest".toList
  | some (none, hasDigest) => !hasDigest

end Asts.Image
