/-! # L9 — JSON trees, the canonical serialiser and a parser (core only)

`Json` is the tree `encoding/json` produces when it unmarshals into `interface{}` / `map[string]interface{}` — with numbers kept as exact
integers (`getPatch` goes through `float64`; integers are exact below 2^53, and a pod template holds integers only — see the C08 assumption).
The serialiser is split in two: `toks` (tree → tokens: what `json.Marshal` of a map does structurally — no white space, `,` and `:` separators) and
`render` (tokens → characters), the latter parameterised by the string escaping `esc`. `goEscape` is the escaping of Go's `encoding/json`
(HTML-safe mode, the default of `json.Marshal` and of the apimachinery JSON serialiser); the driver uses it to predict the exact bytes.
`canon` is what a round trip through `map[string]interface{}` does to the keys of every object: duplicates collapse (last one wins) and the keys
come out sorted. -/
namespace Asts.Patch

inductive Json where
  | null
  | bool (b : Bool)
  | num (n : Int)
  | str (s : String)
  | arr (l : List Json)
  | obj (kvs : List (String × Json))
  deriving Repr, Inhabited

abbrev Obj := List (String × Json)

/-! ## objects as association lists -/

def lookup (k : String) : Obj → Option Json
  | [] => none
  | (k', v) :: rest => if k' = k then some v else lookup k rest

def hasKey (k : String) : Obj → Bool
  | [] => false
  | (k', _) :: rest => if k' = k then true else hasKey k rest

def eraseKey (k : String) : Obj → Obj
  | [] => []
  | (k', v) :: rest => if k' = k then eraseKey k rest else (k', v) :: eraseKey k rest

/-- `m[k] = v` on a key-sorted list: insert at the sorted position, REPLACING an existing binding -/
def insertKey (k : String) (v : Json) : Obj → Obj
  | [] => [(k, v)]
  | (k', v') :: rest =>
    if k < k' then (k, v) :: (k', v') :: rest
    else if k = k' then (k, v) :: rest
    else (k', v') :: insertKey k v rest

/-- insert unless the key is already bound (used by `canon`, which walks an object from its end: the LAST binding of a key wins, as in Go) -/
def insertNew (k : String) (v : Json) (o : Obj) : Obj :=
  if hasKey k o then o else insertKey k v o

mutual
/-- the tree after a round trip through `map[string]interface{}`: keys sorted, duplicates collapsed (last wins), recursively -/
def canon : Json → Json
  | .arr l => .arr (canonList l)
  | .obj kvs => .obj (canonKvs kvs)
  | .null => .null
  | .bool b => .bool b
  | .num n => .num n
  | .str s => .str s
def canonList : List Json → List Json
  | [] => []
  | x :: r => canon x :: canonList r
def canonKvs : List (String × Json) → List (String × Json)
  | [] => []
  | (k, v) :: r => insertNew k (canon v) (canonKvs r)
end

/-! ## tokens -/

inductive Tok where
  | lbrace | rbrace | lbrack | rbrack | comma | colon | null | tru | fls
  | num (n : Int)
  | str (s : String)
  deriving DecidableEq, Repr

mutual
def toks : Json → List Tok
  | .null => [.null]
  | .bool b => [if b then .tru else .fls]
  | .num n => [.num n]
  | .str s => [.str s]
  | .arr l => .lbrack :: toksList l
  | .obj kvs => .lbrace :: toksKvs kvs
/-- elements of an array and the closing bracket -/
def toksList : List Json → List Tok
  | [] => [.rbrack]
  | x :: r => toks x ++ toksTail r
def toksTail : List Json → List Tok
  | [] => [.rbrack]
  | x :: r => .comma :: (toks x ++ toksTail r)
/-- members of an object and the closing brace -/
def toksKvs : List (String × Json) → List Tok
  | [] => [.rbrace]
  | (k, v) :: r => .str k :: .colon :: (toks v ++ toksKvTail r)
def toksKvTail : List (String × Json) → List Tok
  | [] => [.rbrace]
  | (k, v) :: r => .comma :: .str k :: .colon :: (toks v ++ toksKvTail r)
end

/-! ## token parser (fuelled; `parseToks` gives it the length of the input, which always suffices) -/

mutual
def pVal : Nat → List Tok → Option (Json × List Tok)
  | 0, _ => none
  | _ + 1, .null :: r => some (.null, r)
  | _ + 1, .tru :: r => some (.bool true, r)
  | _ + 1, .fls :: r => some (.bool false, r)
  | _ + 1, .num n :: r => some (.num n, r)
  | _ + 1, .str s :: r => some (.str s, r)
  | _ + 1, .lbrack :: .rbrack :: r => some (.arr [], r)
  | f + 1, .lbrack :: r =>
    match pVal f r with
    | some (x, r1) => match pTail f r1 with
      | some (l, r2) => some (.arr (x :: l), r2)
      | none => none
    | none => none
  | _ + 1, .lbrace :: .rbrace :: r => some (.obj [], r)
  | f + 1, .lbrace :: .str k :: .colon :: r =>
    match pVal f r with
    | some (v, r1) => match pKvTail f r1 with
      | some (kvs, r2) => some (.obj ((k, v) :: kvs), r2)
      | none => none
    | none => none
  | _ + 1, _ => none
def pTail : Nat → List Tok → Option (List Json × List Tok)
  | 0, _ => none
  | _ + 1, .rbrack :: r => some ([], r)
  | f + 1, .comma :: r =>
    match pVal f r with
    | some (x, r1) => match pTail f r1 with
      | some (l, r2) => some (x :: l, r2)
      | none => none
    | none => none
  | _ + 1, _ => none
def pKvTail : Nat → List Tok → Option (List (String × Json) × List Tok)
  | 0, _ => none
  | _ + 1, .rbrace :: r => some ([], r)
  | f + 1, .comma :: .str k :: .colon :: r =>
    match pVal f r with
    | some (v, r1) => match pKvTail f r1 with
      | some (kvs, r2) => some ((k, v) :: kvs, r2)
      | none => none
    | none => none
  | _ + 1, _ => none
end

/-- a complete token list is one value and nothing else -/
def parseToks (ts : List Tok) : Option Json :=
  match pVal (ts.length + 1) ts with
  | some (j, []) => some j
  | _ => none

/-! ## characters -/

def hexDigit (n : Nat) : Char := if n < 10 then Char.ofNat (48 + n) else Char.ofNat (87 + n)

/-- decimal digits of a natural number, most significant first (`strconv.Itoa`, `Nat.repr`) -/
def natDigits (n : Nat) : List Char :=
  if h : n < 10 then [Char.ofNat (48 + n)] else natDigits (n / 10) ++ [Char.ofNat (48 + n % 10)]
decreasing_by omega

def intChars (n : Int) : List Char :=
  match n with
  | .ofNat m => natDigits m
  | .negSucc m => '-' :: natDigits (m + 1)

/-- Go's `encoding/json` string escaping with `escapeHTML` on (Go ≥ 1.22: `\b` and `\f` have short forms) -/
def goEscapeChar (c : Char) : List Char :=
  if c = '"' then ['\\', '"']
  else if c = '\\' then ['\\', '\\']
  else if c = '\n' then ['\\', 'n']
  else if c = '\r' then ['\\', 'r']
  else if c = '\t' then ['\\', 't']
  else if c.toNat = 8 then ['\\', 'b']
  else if c.toNat = 12 then ['\\', 'f']
  else if c.toNat < 32 || c = '<' || c = '>' || c = '&' then ['\\', 'u', '0', '0', hexDigit (c.toNat / 16), hexDigit (c.toNat % 16)]
  else if c.toNat = 0x2028 then ['\\', 'u', '2', '0', '2', '8']
  else if c.toNat = 0x2029 then ['\\', 'u', '2', '0', '2', '9']
  else [c]

def goEscape (s : List Char) : List Char := s.flatMap goEscapeChar

/-- the rendering the harness prints for trees: Go's escaping, and every blank as the escape `\u0020` so that a token of the observation has no blank -/
def obsEscape (s : List Char) : List Char :=
  s.flatMap fun c => if c = ' ' then ['\\', 'u', '0', '0', '2', '0'] else goEscapeChar c

def renderTok (esc : List Char → List Char) : Tok → List Char
  | .lbrace => ['{'] | .rbrace => ['}'] | .lbrack => ['['] | .rbrack => [']'] | .comma => [','] | .colon => [':']
  | .null => ['n', 'u', 'l', 'l'] | .tru => ['t', 'r', 'u', 'e'] | .fls => ['f', 'a', 'l', 's', 'e']
  | .num n => intChars n
  | .str s => '"' :: (esc s.toList ++ ['"'])

def render (esc : List Char → List Char) (ts : List Tok) : List Char := ts.flatMap (renderTok esc)

/-- the serialiser: `json.Marshal` of the tree (for a canonical tree: of the `map[string]interface{}`) -/
def ser (esc : List Char → List Char) (j : Json) : List Char := render esc (toks j)

/-! ## lexer (accepts exactly the white-space-free JSON the serialisers above and Go's compact encoders write; every escape of RFC 8259) -/

def hexVal? (c : Char) : Option Nat :=
  if '0' ≤ c ∧ c ≤ '9' then some (c.toNat - 48)
  else if 'a' ≤ c ∧ c ≤ 'f' then some (c.toNat - 87)
  else if 'A' ≤ c ∧ c ≤ 'F' then some (c.toNat - 55)
  else none

/-- what follows a backslash inside a string: the decoded character and the rest of the input. A `\uXXXX` escape is ONE character (Go's encoder
    never writes surrogate pairs: it writes characters outside the BMP as UTF-8). -/
def unesc : List Char → Option (Char × List Char)
  | [] => none
  | e :: r =>
    if e = '"' then some ('"', r)
    else if e = '\\' then some ('\\', r)
    else if e = '/' then some ('/', r)
    else if e = 'n' then some ('\n', r)
    else if e = 'r' then some ('\r', r)
    else if e = 't' then some ('\t', r)
    else if e = 'b' then some (Char.ofNat 8, r)
    else if e = 'f' then some (Char.ofNat 12, r)
    else if e = 'u' then
      match r with
      | a :: b :: c :: d :: r' =>
        match hexVal? a, hexVal? b, hexVal? c, hexVal? d with
        | some a, some b, some c, some d => some (Char.ofNat (((a * 16 + b) * 16 + c) * 16 + d), r')
        | _, _, _, _ => none
      | _ => none
    else none

/-- the body of a string after the opening quote: the decoded characters and the input after the closing quote (fuel: one unit per decoded
    character; the length of the input always suffices) -/
def lexStr : Nat → List Char → List Char → Option (List Char × List Char)
  | 0, _, _ => none
  | _ + 1, [], _ => none
  | f + 1, c :: r, acc =>
    if c = '"' then some (acc.reverse, r)
    else if c = '\\' then
      match unesc r with
      | some (ch, r') => lexStr f r' (ch :: acc)
      | none => none
    else if c.toNat < 32 then none
    else lexStr f r (c :: acc)

def isDigit (c : Char) : Bool := '0' ≤ c && c ≤ '9'

/-- digits at the head of the input, accumulated into a number -/
def lexDigits : List Char → Nat → Nat × List Char
  | c :: r, acc => if isDigit c then lexDigits r (acc * 10 + (c.toNat - 48)) else (acc, c :: r)
  | [], acc => (acc, [])

/-- an integer literal must not continue as a fraction or an exponent -/
def numEnd : List Char → Bool
  | [] => true
  | c :: _ => !(c = '.' || c = 'e' || c = 'E')

/-- integer literals only (a fraction or an exponent is rejected — no field of a StatefulSet encodes to one) -/
def lexNum (neg : Bool) (cs : List Char) : Option (Tok × List Char) :=
  match cs with
  | [] => none
  | c :: _ =>
    if isDigit c then
      let p := lexDigits cs 0
      if numEnd p.2 then some (.num (if neg then -(p.1 : Int) else (p.1 : Int)), p.2) else none
    else none

/-- one token -/
def lexTok : List Char → Option (Tok × List Char)
  | [] => none
  | c :: r =>
    if c = '{' then some (.lbrace, r)
    else if c = '}' then some (.rbrace, r)
    else if c = '[' then some (.lbrack, r)
    else if c = ']' then some (.rbrack, r)
    else if c = ',' then some (.comma, r)
    else if c = ':' then some (.colon, r)
    else if c = '"' then
      match lexStr r.length r [] with
      | some (s, r') => some (.str (String.ofList s), r')
      | none => none
    else if c = '-' then lexNum true r
    else if isDigit c then lexNum false (c :: r)
    else if c = 'n' then (match r with | 'u' :: 'l' :: 'l' :: r' => some (.null, r') | _ => none)
    else if c = 't' then (match r with | 'r' :: 'u' :: 'e' :: r' => some (.tru, r') | _ => none)
    else if c = 'f' then (match r with | 'a' :: 'l' :: 's' :: 'e' :: r' => some (.fls, r') | _ => none)
    else none

def lexAll : Nat → List Char → List Tok → Option (List Tok)
  | _, [], acc => some acc.reverse
  | 0, _ :: _, _ => none
  | f + 1, c :: r, acc =>
    match lexTok (c :: r) with
    | some (t, r') => lexAll f r' (t :: acc)
    | none => none

def lex (cs : List Char) : Option (List Tok) := lexAll cs.length cs []

/-- bytes → tree -/
def parse (cs : List Char) : Option Json :=
  match lex cs with
  | some ts => parseToks ts
  | none => none

end Asts.Patch
