import Asts.Model.Image
namespace Asts.Defaults

/-! Model of `asv1.SetObjectDefaults_StatefulSet` (client/apis/apps/v1/zz_generated.defaults.go, defaults.go,
    third_party/k8s/defaults.go) on the *defaulting view*: exactly the fields some defaulter reads or writes.
    Pointer chains whose only purpose is to reach a defaulted field are collapsed into `Option`s; quantities are exact
    integers in units of 10^-9; collections keep their order. -/

structure HttpGet where
  path : String
  scheme : String
  deriving Repr, DecidableEq

structure Probe where
  timeout : Int
  period : Int
  success : Int
  failure : Int
  http : Option HttpGet
  deriving Repr, DecidableEq

structure Port where
  hostPort : Int
  containerPort : Int
  protocol : String
  deriving Repr, DecidableEq

/-- a `v1.ResourceList`: name ↦ quantity in nano-units -/
abbrev ResList := List (String × Int)

structure Container where
  image : String
  pullPolicy : String
  termPath : String
  termPolicy : String
  ports : List Port
  /-- one entry per env var: `valueFrom.fieldRef.apiVersion` when `valueFrom` and `fieldRef` are both non-nil -/
  envRefs : List (Option String)
  limits : ResList
  requests : ResList
  liveness : Option Probe
  readiness : Option Probe
  startup : Option Probe
  /-- `lifecycle.postStart.httpGet` / `lifecycle.preStop.httpGet` when the whole chain is non-nil -/
  postStart : Option HttpGet
  preStop : Option HttpGet
  deriving Repr, DecidableEq

structure ProjSource where
  /-- `downwardAPI.items[*].fieldRef.apiVersion` -/
  downward : Option (List (Option String))
  /-- `serviceAccountToken.expirationSeconds` -/
  saToken : Option (Option Int)
  deriving Repr, DecidableEq

structure Volume where
  /-- some volume source that no defaulter looks into is set -/
  other : Bool
  emptyDir : Bool
  hostPath : Option (Option String)                      -- type
  secret : Option (Option Int)                           -- defaultMode
  iscsi : Option String                                  -- iscsiInterface
  rbd : Option (String × String × String)                -- pool, user, keyring
  downward : Option (Option Int × List (Option String))  -- defaultMode, items[*].fieldRef.apiVersion
  configMap : Option (Option Int)                        -- defaultMode
  azure : Option (Option String × Option String × Option String × Option Bool)  -- cachingMode, kind, fsType, readOnly
  projected : Option (Option Int × List ProjSource)      -- defaultMode, sources
  scaleIO : Option (String × String)                     -- storageMode, fsType
  deriving Repr, DecidableEq

structure Claim where
  phase : String
  limits : ResList
  requests : ResList
  capacity : ResList
  deriving Repr, DecidableEq

structure View where
  policy : String
  stratType : String
  /-- `updateStrategy.rollingUpdate` (outer) and its `partition` (inner) -/
  rollingUpdate : Option (Option Int)
  replicas : Option Int
  revHist : Option Int
  dnsPolicy : String
  restartPolicy : String
  scheduler : String
  hostNetwork : Bool
  secCtx : Bool
  grace : Option Int
  volumes : List Volume
  initCtrs : List Container
  ctrs : List Container
  eph : List Container
  overhead : ResList
  claims : List Claim
  deriving Repr, DecidableEq

/-! ### rule shapes: "if zero then constant" and idempotent rounding -/

def orS (d s : String) : String := if s = "" then d else s
def orI (d n : Int) : Int := if n = 0 then d else n
def orO {α : Type} (d : α) : Option α → Option α
  | none => some d
  | some x => some x

/-- `Quantity.RoundUp(-3)`: up to a multiple of 10^-3 (10^6 nano-units), away from zero -/
def roundUpMilli (n : Int) : Int :=
  if 0 ≤ n then (n + 999999) / 1000000 * 1000000 else -((-n + 999999) / 1000000 * 1000000)

/-- `SetDefaults_ResourceList` -/
def dRes (l : ResList) : ResList := l.map fun e => (e.1, roundUpMilli e.2)

/-- `SetDefaults_HTTPGetAction` -/
def dHttp (h : HttpGet) : HttpGet := { path := orS "/" h.path, scheme := orS "HTTP" h.scheme }

/-- `SetDefaults_Probe` (+ the `HTTPGet` of its handler) -/
def dProbe (p : Probe) : Probe :=
  { timeout := orI 1 p.timeout, period := orI 10 p.period, success := orI 1 p.success, failure := orI 3 p.failure,
    http := p.http.map dHttp }

/-- the inlined `if b.Protocol == "" { b.Protocol = "TCP" }` -/
def dPort (p : Port) : Port := { p with protocol := orS "TCP" p.protocol }

/-- `defaultHostNetworkPorts` for one port -/
def dHostPort (p : Port) : Port := { p with hostPort := orI p.containerPort p.hostPort }

/-- `SetDefaults_ObjectFieldSelector` under an optional chain -/
def dRef (r : Option String) : Option String := r.map (orS "v1")

/-- what the generated code does for every kind of container (init, regular, ephemeral) -/
def dCommon (c : Container) : Container :=
  { c with
    ports := c.ports.map dPort, envRefs := c.envRefs.map dRef, limits := dRes c.limits, requests := dRes c.requests,
    liveness := c.liveness.map dProbe, readiness := c.readiness.map dProbe, startup := c.startup.map dProbe,
    postStart := c.postStart.map dHttp, preStop := c.preStop.map dHttp }

def pullPolicyOf (image : String) : String := if Image.tagIsLatest image then "Always" else "IfNotPresent"

/-- `SetDefaults_Container` -/
def dContainerOnly (c : Container) : Container :=
  { c with
    pullPolicy := if c.pullPolicy = "" then pullPolicyOf c.image else c.pullPolicy,
    termPath := orS "/dev/termination-log" c.termPath, termPolicy := orS "File" c.termPolicy }

/-- host ports (only with host networking; init and regular containers) -/
def dHostPorts (hostNetwork : Bool) (c : Container) : Container :=
  if hostNetwork then { c with ports := c.ports.map dHostPort } else c

/-- init and regular containers: `SetDefaults_PodSpec`'s host ports, `SetDefaults_Container`, then the common part -/
def dContainer (hostNetwork : Bool) (c : Container) : Container := dCommon (dContainerOnly (dHostPorts hostNetwork c))

def dProj (s : ProjSource) : ProjSource :=
  { downward := s.downward.map (fun items => items.map dRef), saToken := s.saToken.map (orO 3600) }

/-- none of the sources some defaulter looks into is set -/
def Volume.noModelledSource (v : Volume) : Bool :=
  v.hostPath.isNone && v.secret.isNone && v.iscsi.isNone && v.rbd.isNone && v.downward.isNone &&
  v.configMap.isNone && v.azure.isNone && v.projected.isNone && v.scaleIO.isNone

/-- `utilpointer.AllPtrFieldsNil(&obj.VolumeSource)` -/
def Volume.allNil (v : Volume) : Bool := !v.other && !v.emptyDir && v.noModelledSource

/-- `SetDefaults_Volume` then the per-source defaulters -/
def dVolume (v : Volume) : Volume :=
  { other := v.other,
    emptyDir := v.emptyDir || v.allNil,
    hostPath := v.hostPath.map (orO ""),
    secret := v.secret.map (orO 420),
    iscsi := v.iscsi.map (orS "default"),
    rbd := v.rbd.map (fun r => (orS "rbd" r.1, orS "admin" r.2.1, orS "/etc/ceph/keyring" r.2.2)),
    downward := v.downward.map (fun d => (orO 420 d.1, d.2.map dRef)),
    configMap := v.configMap.map (orO 420),
    azure := v.azure.map (fun a => (orO "ReadWrite" a.1, orO "Shared" a.2.1, orO "ext4" a.2.2.1, orO false a.2.2.2)),
    projected := v.projected.map (fun p => (orO 420 p.1, p.2.map dProj)),
    scaleIO := v.scaleIO.map (fun s => (orS "ThinProvisioned" s.1, orS "xfs" s.2)) }

/-- `SetDefaults_PersistentVolumeClaim` + the three resource lists -/
def dClaim (c : Claim) : Claim :=
  { phase := orS "Pending" c.phase, limits := dRes c.limits, requests := dRes c.requests, capacity := dRes c.capacity }

/-- the strategy block of `SetDefaults_StatefulSet`, as intended: an empty type becomes RollingUpdate and an *absent*
    block is created; then a RollingUpdate block without partition gets partition 0. (The tree at the time of writing
    replaces the block even when the caller supplied one — `dStrategyReplacing` — which loses the caller's partition:
    known finding of C19, fix proposed in `proposed-fixes/C19-strategy-block.diff`.) -/
def dStrategy (t : String) (ru : Option (Option Int)) : String × Option (Option Int) :=
  let t1 := orS "RollingUpdate" t
  let ru1 := if t = "" then orO none ru else ru
  let ru2 := if t1 = "RollingUpdate" then ru1.map (orO 0) else ru1
  (t1, ru2)

/-- the same block as the unfixed code has it: defaulting the type replaces the rollingUpdate block -/
def dStrategyReplacing (t : String) (ru : Option (Option Int)) : String × Option (Option Int) :=
  let t1 := orS "RollingUpdate" t
  let ru1 := if t = "" then some none else ru
  let ru2 := if t1 = "RollingUpdate" then ru1.map (orO 0) else ru1
  (t1, ru2)

/-- `SetObjectDefaults_StatefulSet` -/
def defaults (v : View) : View :=
  let s := dStrategy v.stratType v.rollingUpdate
  { policy := orS "OrderedReady" v.policy,
    stratType := s.1,
    rollingUpdate := s.2,
    replicas := orO 1 v.replicas,
    revHist := orO 10 v.revHist,
    dnsPolicy := orS "ClusterFirst" v.dnsPolicy,
    restartPolicy := orS "Always" v.restartPolicy,
    scheduler := orS "default-scheduler" v.scheduler,
    hostNetwork := v.hostNetwork,
    secCtx := true,
    grace := orO 30 v.grace,
    volumes := v.volumes.map dVolume,
    initCtrs := v.initCtrs.map (dContainer v.hostNetwork),
    ctrs := v.ctrs.map (dContainer v.hostNetwork),
    eph := v.eph.map dCommon,
    overhead := dRes v.overhead,
    claims := v.claims.map dClaim }

/-- the pod-template part of the view (what `getPatch` hashes into a revision): everything but the set-level fields
    and the claims -/
def View.templatePart (v : View) : View :=
  { v with policy := "", stratType := "", rollingUpdate := none, replicas := none, revHist := none, claims := [] }

/-- the defaulting functions this model accounts for, with the model function that plays each -/
def ruleTable : List (String × String) := [
  ("SetDefaults_StatefulSet", "defaults: policy, dStrategy, replicas, revHist"),
  ("corev1.SetDefaults_AzureDiskVolumeSource", "dVolume.azure"),
  ("corev1.SetDefaults_ConfigMapVolumeSource", "dVolume.configMap"),
  ("corev1.SetDefaults_Container", "dContainerOnly"),
  ("corev1.SetDefaults_DownwardAPIVolumeSource", "dVolume.downward"),
  ("corev1.SetDefaults_HTTPGetAction", "dHttp"),
  ("corev1.SetDefaults_HostPathVolumeSource", "dVolume.hostPath"),
  ("corev1.SetDefaults_ISCSIVolumeSource", "dVolume.iscsi"),
  ("corev1.SetDefaults_ObjectFieldSelector", "dRef"),
  ("corev1.SetDefaults_PersistentVolumeClaim", "dClaim.phase"),
  ("corev1.SetDefaults_PodSpec", "defaults: dnsPolicy, restartPolicy, scheduler, secCtx, grace, dHostPorts"),
  ("corev1.SetDefaults_Probe", "dProbe"),
  ("corev1.SetDefaults_ProjectedVolumeSource", "dVolume.projected"),
  ("corev1.SetDefaults_RBDVolumeSource", "dVolume.rbd"),
  ("corev1.SetDefaults_ResourceList", "dRes"),
  ("corev1.SetDefaults_ScaleIOVolumeSource", "dVolume.scaleIO"),
  ("corev1.SetDefaults_SecretVolumeSource", "dVolume.secret"),
  ("corev1.SetDefaults_ServiceAccountTokenProjection", "dProj.saToken"),
  ("corev1.SetDefaults_Volume", "dVolume.emptyDir")]

def ruleNames : List String := ruleTable.map (·.1)

end Asts.Defaults
