import Asts.Model.JsonInts
namespace Asts.PodControl
open Asts.JsonInts (renderInt takeDigits digitsToNat)

/-! L6 — pod control over real strings (one `Char` per byte).

Models `stateful_set_utils.go` (`getPodName`, `getPersistentVolumeClaimName`, `getParentNameAndOrdinal` and its regexp,
`identityMatches`, `storageMatches`, `getPersistentVolumeClaims`, `updateStorage`, `initIdentity`, `updateIdentity`,
`newStatefulSetPod`, `newVersionedStatefulSetPod`) and `stateful_pod_control.go` (`CreateStatefulPod`,
`createPersistentVolumeClaims`, `UpdateStatefulPod`, `DeleteStatefulPod`) as call sequences over an explicit world:
the API (claims, pods), the PVC informer cache, the pod lister and a fault plan keyed by (verb, resource, name, occurrence).

"A claim exists" is, for the code and therefore for the model, relative to the PVC informer cache. -/

abbrev Str := List Char
abbrev Labels := List (Str × Str)

/-! ## names -/

/-- `getPodName`: `fmt.Sprintf("%s-%d", set.Name, ordinal)` -/
def podName (s : Str) (i : Int) : Str := s ++ '-' :: renderInt i

/-- `getPersistentVolumeClaimName`: `fmt.Sprintf("%s-%s-%d", claim.Name, set.Name, ordinal)` -/
def claimName (t s : Str) (i : Int) : Str := t ++ '-' :: podName s i

def int32Max : Nat := 2147483647

/-- `strconv.ParseInt(digits, 10, 32)` on a non-empty all-digit string; a range error leaves the ordinal at -1 -/
def ordOfDigits (ds : Str) : Int :=
  if digitsToNat ds ≤ int32Max then (digitsToNat ds : Int) else -1

/-- group 1 of `(.*)-([0-9]+)$`, given the reversed text before the separating '-': `.` does not match a newline and the
    match is the leftmost one, so the parent starts right after the last newline. -/
def parentOf (preRev : Str) : Str := (preRev.takeWhile (· != '\n')).reverse

/-- the two capture groups, given the maximal trailing digit run (reversed) and the reversed rest of the name -/
def parseSplit (dsRev restRev : Str) : Str × Int :=
  match dsRev, restRev with
  | [], _ => ([], -1)
  | _ :: _, '-' :: pre => (parentOf pre, ordOfDigits dsRev.reverse)
  | _ :: _, _ => ([], -1)

/-- `getParentNameAndOrdinal` on a pod name. The regexp `(.*)-([0-9]+)$` matches iff the text ends in a '-' followed by
    one or more ASCII digits; because '-' is not a digit the digit group is the maximal trailing run, so greediness decides nothing. -/
def parseName (n : Str) : Str × Int :=
  let dr := takeDigits n.reverse
  parseSplit dr.1 dr.2

/-! ## label maps (Go `map[string]string`) as association lists with unique keys -/

def setL : Labels → Str → Str → Labels
  | [], k, v => [(k, v)]
  | (k', v') :: r, k, v => if k' = k then (k, v) :: r else (k', v') :: setL r k v

def getL : Labels → Str → Option Str
  | [], _ => none
  | (k', v') :: r, k => if k' = k then some v' else getL r k

/-- `for k, v := range over { base[k] = v }` -/
def mergeL : Labels → Labels → Labels
  | base, [] => base
  | base, (k, v) :: r => mergeL (setL base k v) r

def podNameLabel : Str := "statefulset.kubernetes.io/pod-name".toList
def revLabel : Str := "controller-revision-hash".toList

/-! ## objects -/

structure Vol where
  name : Str
  /-- `some c` = a PersistentVolumeClaim source with claim name `c`; `none` = any other source -/
  claim : Option Str
deriving DecidableEq, Repr

structure OwnerRef where
  apiVersion : Str
  kind : Str
  name : Str
  uid : Str
  controller : Option Bool
  block : Option Bool
deriving DecidableEq, Repr

structure Pod where
  name : Str
  ns : Str
  genName : Str
  host : Str
  sub : Str
  labels : Labels
  owners : List OwnerRef
  vols : List Vol
deriving DecidableEq, Repr

structure Tmpl where
  name : Str
  labels : Labels
deriving DecidableEq, Repr

/-- what the pod control reads of a StatefulSet -/
structure SetV where
  name : Str
  ns : Str
  svc : Str
  uid : Str
  /-- `none` = `Spec.Selector == nil`; `some ml` = its MatchLabels (a nil map is the empty list) -/
  sel : Option Labels
  tmpls : List Tmpl
  ptLabels : Labels
  ptVols : List Vol
  ptHost : Str
  ptSub : Str
deriving Repr

structure Claim where
  tname : Str
  name : Str
  ns : Str
  labels : Labels
deriving DecidableEq, Repr

/-! ## identity and storage -/

/-- `claims[templates[i].Name] = claim`: one entry per template name, the last template of that name wins -/
def putClaim : List Claim → Claim → List Claim
  | [], c => [c]
  | d :: r, c => if d.tname = c.tname then c :: r else d :: putClaim r c

def mkClaim (s ns : Str) (ml : Labels) (ord : Int) (t : Tmpl) : Claim :=
  { tname := t.name, name := claimName t.name s ord, ns := ns, labels := mergeL t.labels ml }

def claimsAcc (s ns : Str) (ml : Labels) (ord : Int) : List Tmpl → List Claim → List Claim
  | [], acc => acc
  | t :: ts, acc => claimsAcc s ns ml ord ts (putClaim acc (mkClaim s ns ml ord t))

/-- `getPersistentVolumeClaims`; `none` = nil dereference of `set.Spec.Selector` (reached only when there is a template) -/
def getClaims (v : SetV) (p : Pod) : Option (List Claim) :=
  match v.tmpls, v.sel with
  | [], _ => some []
  | _ :: _, none => none
  | _ :: _, some ml => some (claimsAcc v.name v.ns ml (parseName p.name).2 v.tmpls [])

def volOfClaim (c : Claim) : Vol := { name := c.tname, claim := some c.name }

/-- `updateStorage`: one PVC volume per claim (map order in Go), then the pod's other volumes whose names do not clash -/
def updateStorage (v : SetV) (p : Pod) : Option Pod :=
  (getClaims v p).map fun cs =>
    { p with vols := cs.map volOfClaim ++ p.vols.filter (fun x => !(cs.any (fun c => c.tname == x.name))) }

/-- `updateIdentity`: the name is re-derived from the ordinal parsed out of the current name -/
def updateIdentity (v : SetV) (p : Pod) : Pod :=
  let n := podName v.name (parseName p.name).2
  { p with name := n, ns := v.ns, labels := setL p.labels podNameLabel n }

def initIdentity (v : SetV) (p : Pod) : Pod :=
  let q := updateIdentity v p
  { q with host := q.name, sub := v.svc }

def ctrlRef (v : SetV) : OwnerRef :=
  { apiVersion := "apps.pingcap.com/v1".toList, kind := "StatefulSet".toList, name := v.name, uid := v.uid,
    controller := some true, block := some true }

/-- `GetPodFromTemplate` -/
def basePod (v : SetV) : Pod :=
  { name := [], ns := [], genName := v.name ++ ['-'], host := v.ptHost, sub := v.ptSub, labels := v.ptLabels,
    owners := [ctrlRef v], vols := v.ptVols }

/-- `newStatefulSetPod`; `none` = panic -/
def newPod (v : SetV) (i : Int) : Option Pod :=
  updateStorage v (initIdentity v { basePod v with name := podName v.name i })

def setRev (p : Pod) (r : Str) : Pod := { p with labels := setL p.labels revLabel r }

structure RevSel where
  rolling : Bool
  /-- `none` no rollingUpdate block, `some none` block without partition, `some (some p)` -/
  ru : Option (Option Int)
  curReplicas : Int
  curRev : Str
  updRev : Str
deriving Repr

/-- `getRollingUpdatePartition` -/
def partitionOf (r : RevSel) : Int :=
  match r.ru with
  | some (some p) => if p < 0 then 0 else p
  | _ => 0

/-- the condition of `newVersionedStatefulSetPod`, with Go's precedence `(A && B && C) || (D && E)` -/
def useCurrent (r : RevSel) (ord : Int) : Bool :=
  (r.rolling && r.ru.isNone && decide (ord < r.curReplicas)) || (r.ru.isSome && decide (ord < partitionOf r))

/-- `newVersionedStatefulSetPod` -/
def newVersionedPod (cur upd : SetV) (r : RevSel) (ord : Int) : Option Pod :=
  if useCurrent r ord then (newPod cur ord).map (setRev · r.curRev) else (newPod upd ord).map (setRev · r.updRev)

def identityMatches (v : SetV) (p : Pod) : Bool :=
  let pr := parseName p.name
  decide (0 ≤ pr.2) && v.name == pr.1 && p.name == podName v.name pr.2 && p.ns == v.ns &&
    (getL p.labels podNameLabel).getD [] == p.name

/-- the volume a Go `map[name]Volume` filled front to back holds for `n` -/
def lastVol (vols : List Vol) (n : Str) : Option Vol := vols.reverse.find? (fun x => x.name == n)

def storageMatches (v : SetV) (p : Pod) : Bool :=
  let ord := (parseName p.name).2
  if ord < 0 then false
  else v.tmpls.all fun t =>
    match lastVol p.vols t.name with
    | some x => x.claim == some (claimName t.name v.name ord)
    | none => false

/-! ## the world: API, caches, fault plan -/

/-- `other` = any verb the pod control does not use (only ever read back from an implementation's log) -/
inductive Verb | get | create | update | delete | other
deriving DecidableEq, Repr

inductive Res | pvc | pod | other
deriving DecidableEq, Repr

inductive Result | ok | exists | notfound | internal | timeout | conflict
deriving DecidableEq, Repr

structure Entry where
  verb : Verb
  res : Res
  ns : Str
  name : Str
  result : Result
  /-- labels of the object sent, recorded for claim creates -/
  labels : Option Labels
deriving DecidableEq, Repr

structure Fault where
  verb : Verb
  res : Res
  name : Str
  occ : Nat
  kind : Result
deriving Repr

structure World where
  claims : List (Str × Str)
  pods : List (Str × Str)
  cache : List (Str × Str)
  counts : List ((Verb × Res × Str) × Nat)
  faults : List Fault
  /-- what the pod lister holds -/
  fresh : Option Pod
deriving Repr

def countOf (cs : List ((Verb × Res × Str) × Nat)) (k : Verb × Res × Str) : Nat :=
  match cs with
  | [] => 0
  | (k', n) :: r => if k' = k then n else countOf r k

def setCount (cs : List ((Verb × Res × Str) × Nat)) (k : Verb × Res × Str) (n : Nat) : List ((Verb × Res × Str) × Nat) :=
  match cs with
  | [] => [(k, n)]
  | (k', m) :: r => if k' = k then (k, n) :: r else (k', m) :: setCount r k n

/-- count the call and look the (verb, resource, name, occurrence) up in the fault plan -/
def call (w : World) (verb : Verb) (res : Res) (name : Str) : World × Option Result :=
  let occ := countOf w.counts (verb, res, name) + 1
  let w' := { w with counts := setCount w.counts (verb, res, name) occ }
  (w', (w.faults.find? (fun f => f.verb = verb ∧ f.res = res ∧ f.name = name ∧ f.occ = occ)).map (·.kind))

/-- `pvcLister.PersistentVolumeClaims(ns).Get(name)`: `ok` (in the cache), `notfound`, or `internal` (any other error) -/
def listerGet (w : World) (ns name : Str) : World × Entry :=
  let (w1, f) := call w .get .pvc name
  let r : Result := match f with
    | some _ => .internal
    | none => if (ns, name) ∈ w1.cache then .ok else .notfound
  (w1, { verb := .get, res := .pvc, ns := ns, name := name, result := r, labels := none })

def apiCreateClaim (w : World) (c : Claim) : World × Entry :=
  let (w1, f) := call w .create .pvc c.name
  let e : Entry := { verb := .create, res := .pvc, ns := c.ns, name := c.name, result := .ok, labels := some c.labels }
  match f with
  | some k => (w1, { e with result := k })
  | none =>
    if (c.ns, c.name) ∈ w1.claims then (w1, { e with result := .exists })
    else ({ w1 with claims := (c.ns, c.name) :: w1.claims }, e)

def apiCreatePod (w : World) (ns name : Str) : World × Entry :=
  let (w1, f) := call w .create .pod name
  let e : Entry := { verb := .create, res := .pod, ns := ns, name := name, result := .ok, labels := none }
  match f with
  | some k => (w1, { e with result := k })
  | none =>
    if (ns, name) ∈ w1.pods then (w1, { e with result := .exists })
    else ({ w1 with pods := (ns, name) :: w1.pods }, e)

def apiUpdatePod (w : World) (ns name : Str) : World × Entry :=
  let (w1, f) := call w .update .pod name
  let e : Entry := { verb := .update, res := .pod, ns := ns, name := name, result := .ok, labels := none }
  match f with
  | some k => (w1, { e with result := k })
  | none => if (ns, name) ∈ w1.pods then (w1, e) else (w1, { e with result := .notfound })

def apiDeletePod (w : World) (ns name : Str) : World × Entry :=
  let (w1, f) := call w .delete .pod name
  let e : Entry := { verb := .delete, res := .pod, ns := ns, name := name, result := .ok, labels := none }
  match f with
  | some k => (w1, { e with result := k })
  | none =>
    if (ns, name) ∈ w1.pods then ({ w1 with pods := w1.pods.filter (· != (ns, name)) }, e)
    else (w1, { e with result := .notfound })

/-! ## `createPersistentVolumeClaims`, `CreateStatefulPod` -/

/-- one iteration of the loop of `createPersistentVolumeClaims`: the calls made and whether an error was appended -/
def claimStep (w : World) (c : Claim) : World × List Entry × Bool :=
  let (w1, g) := listerGet w c.ns c.name
  match g.result with
  | .ok => (w1, [g], false)
  | .notfound =>
    let (w2, e) := apiCreateClaim w1 c
    (w2, [g, e], e.result != .ok)
  | _ => (w1, [g], true)

/-- the loop goes on after a failed claim and aggregates the errors -/
def createClaims : World → List Claim → World × List Entry × Bool
  | w, [] => (w, [], false)
  | w, c :: cs =>
    let r1 := claimStep w c
    let r2 := createClaims r1.1 cs
    (r2.1, r1.2.1 ++ r2.2.1, r1.2.2 || r2.2.2)

inductive Out | ok | err | panic | sync
deriving DecidableEq, Repr

/-- `CreateStatefulPod(set, pod)` -/
def createStatefulPod (v : SetV) (p : Pod) (w : World) : World × List Entry × Out :=
  match getClaims v p with
  | none => (w, [], .panic)
  | some cs =>
    let r := createClaims w cs
    if r.2.2 then (r.1, r.2.1, .err)
    else
      let (w2, e) := apiCreatePod r.1 v.ns p.name
      (w2, r.2.1 ++ [e], if e.result = .ok then .ok else .err)

/-- `DeleteStatefulPod(set, pod)` -/
def deleteStatefulPod (v : SetV) (p : Pod) (w : World) : World × List Entry × Out :=
  let (w1, e) := apiDeletePod w v.ns p.name
  (w1, [e], if e.result = .ok then .ok else .err)

/-! ## `UpdateStatefulPod` -/

inductive Attempt | done (o : Out) | retry
deriving DecidableEq, Repr

/-- the tail of one attempt: nothing to write when the pod was consistent, else the Update call -/
def commitUpdate (v : SetV) (w : World) (p : Pod) (log : List Entry) (consistent : Bool) : World × List Entry × Pod × Attempt :=
  if consistent then (w, log, p, .done .ok)
  else
    let (w1, e) := apiUpdatePod w v.ns p.name
    match e.result with
    | .ok => (w1, log ++ [e], p, .done .ok)
    | .conflict => (w1, log ++ [e], p, .retry)
    | _ => (w1, log ++ [e], p, .done .err)

/-- the storage half of one attempt, for the pod `p1` whose identity has been dealt with (`idOk` = it was already right) -/
def storeAndCommit (v : SetV) (w : World) (p1 : Pod) (idOk : Bool) : World × List Entry × Pod × Attempt :=
  if storageMatches v p1 then commitUpdate v w p1 [] idOk
  else
    match updateStorage v p1 with
    | none => (w, [], p1, .done .panic)
    | some p2 =>
      match getClaims v p2 with
      | none => (w, [], p2, .done .panic)
      | some cs =>
        let r := createClaims w cs
        if r.2.2 then (r.1, r.2.1, p2, .done .err) else commitUpdate v r.1 p2 r.2.1 false

/-- one run of the closure given to `RetryOnConflict` -/
def updateAttempt (v : SetV) (w : World) (p : Pod) : World × List Entry × Pod × Attempt :=
  let idOk := identityMatches v p
  storeAndCommit v w (if idOk then p else updateIdentity v p) idOk

/-- after a failed Update the closure re-reads the pod from the pod lister (namespace of the set, current name) -/
def refetch (v : SetV) (w : World) (p : Pod) : Option Pod :=
  match w.fresh with
  | some f => if f.ns = v.ns ∧ f.name = p.name then some f else none
  | none => none

/-- `RetryOnConflict(DefaultBackoff, …)`: at most `n` attempts (`DefaultBackoff.Steps` = 4). `cur` is the closure's pod variable, `caller` the caller's
    object once the two have come apart (`none` while they are the same object). Returns the caller's pod. -/
def updateLoop (v : SetV) : Nat → World → Pod → Option Pod → List Entry → World × List Entry × Pod × Out
  | 0, w, cur, caller, log => (w, log, caller.getD cur, .err)
  | n + 1, w, cur, caller, log =>
    let (w1, l, p1, a) := updateAttempt v w cur
    match a with
    | .done o => (w1, log ++ l, caller.getD p1, o)
    | .retry =>
      match refetch v w1 p1 with
      | some f => updateLoop v n w1 f (some (caller.getD p1)) (log ++ l)
      | none => updateLoop v n w1 p1 caller (log ++ l)

def updateStatefulPod (v : SetV) (p : Pod) (w : World) : World × List Entry × Pod × Out :=
  updateLoop v 4 w p none []

/-! ## step machine of the engine -/

inductive Step | C | U | D | S
deriving DecidableEq, Repr

structure StepObs where
  step : Step
  out : Out
  log : List Entry
  pod : Option Pod
deriving Repr

structure Case where
  steps : List Step
  base : SetV
  cur : SetV
  upd : SetV
  rs : RevSel
  ord : Int
  world : World
  pod : Option Pod

/-- the label the engine puts on the pod template of the set at the current (`cur`) and at the update (`upd`) revision, so that
    an observation shows which template a pod was built from -/
def builtLabel : Str := "verif-built".toList

def withMarker (v : SetV) (which : String) : SetV := { v with ptLabels := setL v.ptLabels builtLabel which.toList }

/-- the engine's case: `currentSet` / `updateSet` are the set with the marker on the template -/
def mkCase (steps : List Step) (base : SetV) (rs : RevSel) (ord : Int) (w : World) (pod : Option Pod) : Case :=
  { steps := steps, base := base, cur := withMarker base "cur", upd := withMarker base "upd", rs := rs, ord := ord, world := w, pod := pod }

/-- the create step: build the pod for `ord`, then `CreateStatefulPod` -/
def createStep (c : Case) (w : World) : World × StepObs × Option Pod :=
  match newVersionedPod c.cur c.upd c.rs c.ord with
  | none => (w, { step := .C, out := .panic, log := [], pod := none }, none)
  | some p =>
    let (w1, log, out) := createStatefulPod c.base p w
    (w1, { step := .C, out := out, log := log, pod := some p }, some p)

/-- run the steps; stops at the first panic; `none` = a step needs a current pod and there is none (bad case) -/
def runSteps (c : Case) : List Step → World → Option Pod → Option (List StepObs)
  | [], _, _ => some []
  | .C :: rest, w, _ =>
    let (w1, o, p) := createStep c w
    if o.out = .panic then some [o] else (runSteps c rest w1 p).map (o :: ·)
  | .S :: rest, w, cur =>
    (runSteps c rest { w with cache := w.claims } cur).map ({ step := .S, out := .sync, log := [], pod := none } :: ·)
  | .U :: rest, w, cur =>
    match cur with
    | none => none
    | some p =>
      let (w1, log, p1, out) := updateStatefulPod c.base p w
      let o : StepObs := { step := .U, out := out, log := log, pod := some p1 }
      if out = .panic then some [{ o with log := [], pod := none }] else (runSteps c rest w1 (some p1)).map (o :: ·)
  | .D :: rest, w, cur =>
    match cur with
    | none => none
    | some p =>
      let (w1, log, out) := deleteStatefulPod c.base p w
      (runSteps c rest w1 (some p)).map ({ step := .D, out := out, log := log, pod := none } :: ·)

def run (c : Case) : Option (List StepObs) := runSteps c c.steps c.world c.pod

end Asts.PodControl
