import Asts.Model.Reconcile
namespace Asts

/-- `completeRollingUpdate` (utils.go:381-388) -/
def completeRollingUpdate (v : SetView) (st : Status) : Status :=
  if v.strat == .rolling && st.updated == st.replicas && st.ready == st.replicas then
    { st with current := st.updated, currentRev := st.updateRev }
  else st

/-- `inconsistentStatus` (utils.go:367-375); `stored` is `set.Status` as cached -/
def inconsistentStatus (stored st : Status) : Bool :=
  st.observedGen > stored.observedGen || st.replicas != stored.replicas || st.current != stored.current ||
  st.ready != stored.ready || st.updated != stored.updated || st.currentRev != stored.currentRev ||
  st.updateRev != stored.updateRev

/-- `UpdateStatefulSet` minus revision handling: reconcile, then write status only on success and only if it differs. -/
def reconcileAndStatus (v : SetView) (stored : Status) (cur upd : String) (pods : List Pod) (f : Faults)
    (statusWriteFails : Bool) : List Action × Option Status × Outcome :=
  match updateStatefulSet v cur upd pods f with
  | (s, .ok) =>
    let st := completeRollingUpdate v s.status
    if inconsistentStatus stored st then
      if statusWriteFails then (s.acts, none, .err) else (s.acts, some st, .ok)
    else (s.acts, none, .ok)
  | (s, o) => (s.acts, none, o)

end Asts
