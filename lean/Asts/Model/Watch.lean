namespace Asts.Watch

/-- an event offered by the underlying watch: its type, and whether the payload is a *StatefulSet
    (Error events carry a *metav1.Status) -/
structure Ev where
  kind  : Nat        -- 0 Added 1 Modified 2 Deleted 3 Bookmark 4 Error
  isSet : Bool
  deriving DecidableEq, Repr

inductive Relay | recvWait | sendWait (e : Ev) | exited | crashed
  deriving DecidableEq, Repr

structure W where
  pending      : Option Ev := none   -- an event offered on the source's unbuffered channel, not yet taken
  srcClosed    : Bool := false       -- source channel closed (source ended, or source.Stop())
  relay        : Relay := .recvWait
  resultClosed : Bool := false
  stopped      : Bool := false       -- hijackWatch.stopped
  delivered    : List Ev := []
  deriving DecidableEq, Repr

/-- the relay goroutine (`receive`, hijack.go:190-213) runs until it blocks or ends -/
def relayRun (w : W) : W :=
  match w.relay with
  | .recvWait =>
    match w.pending with
    | some e =>
      if e.isSet then { w with pending := none, relay := .sendWait e }
      else { w with pending := none, relay := .crashed }          -- `panic("unreachable")`
    | none =>
      if w.srcClosed then { w with relay := .exited, stopped := true, resultClosed := true }   -- deferred Stop + close
      else w
  | _ => w

inductive Act | srcSend (e : Ev) | srcClose | recv | stop
  deriving DecidableEq, Repr

inductive Res | taken | offered | dropped | got (e : Ev) | closed | blocked | done
  deriving DecidableEq, Repr

def step (w : W) : Act → W × Res
  | .srcSend e =>
    if w.srcClosed || w.pending.isSome then (w, .dropped)
    else
      let w' := relayRun { w with pending := some e }
      (w', if w'.pending.isNone then .taken else .offered)
  | .srcClose => (relayRun { w with srcClosed := true, pending := none }, .done)
  | .recv =>
    match w.relay with
    | .sendWait e => (relayRun { w with relay := .recvWait, delivered := w.delivered ++ [e] }, .got e)
    | _ => if w.resultClosed then (w, .closed) else (w, .blocked)
  | .stop =>
    if w.stopped then (w, .done)
    else (relayRun { w with stopped := true, srcClosed := true, pending := none }, .done)

def run (w : W) : List Act → W × List Res
  | [] => (w, [])
  | a :: as => let (w', r) := step w a; let (w'', rs) := run w' as; (w'', r :: rs)

end Asts.Watch
