/-! # L11 — the hijacked watch (`hijackWatch`, client/apis/apps/v1/helper/hijack.go) as an interleaving transition system

Three parties: the underlying watch (the *source*), the relay goroutine `(*hijackWatch).receive`, and the consumer of
`ResultChan()`. The state records the source's queue (events offered on its channel and not yet taken by the relay), whether the
source channel is closed, the relay's program counter, whether the result channel is closed, the `stopped` flag, and the
consumer's log. Actions: `srcSend`, `srcClose`, `relayStep`, `consumerRecv`, `consumerStop`; every interleaving is a list of actions.

The model is parametrised by a `Variant`:
* `.fixed`  — the relay with the proposed repair (non-StatefulSet payloads are relayed unchanged; the send to the consumer also
              selects on a `done` channel closed by `Stop`). The C20 theorems are about this variant.
* `.pinned` — the relay as it is in the pinned tree (a non-StatefulSet payload panics; a blocked send is never released). Kept so
              that the same driver can be compared with the unrepaired code, and so that "crashed" is a state the model can express.

What is NOT modelled: the Go scheduler and memory model (each action is atomic; `Stop`'s mutex is folded into atomicity), the
bytes of the objects (C19 covers the conversion itself: `convert` only records that a StatefulSet payload becomes the built-in
type and that type and identity are kept), `ToBuiltinStatefulSet` failing on an object the API server served (its `panic(err)`
is assumed unreachable). The tie to the Go code is observational (engine `watch`). Core-only: no Mathlib import. -/
namespace Asts.Watch

inductive EvType | added | modified | deleted | bookmark | error
  deriving DecidableEq, Repr

/-- what an event carries -/
inductive Payload
  | asSet    -- `*asv1.StatefulSet`, what the watch on the CRD delivers
  | status   -- `*metav1.Status` (Error events)
  | other    -- any other object
  | builtin  -- `*appsv1.StatefulSet`: the conversion of an `asSet`
  | bad      -- observation side only: a payload that is none of the above (nil, a built-in set with the wrong content, ...)
  deriving DecidableEq, Repr

structure Ev where
  typ : EvType
  pay : Payload
  id  : Nat          -- identity of the object (its name) — lets order, loss and duplication be seen
  deriving DecidableEq, Repr

/-- what the relay hands to the consumer for a source event: same type, same identity, StatefulSet payloads converted -/
def convert (e : Ev) : Ev := if e.pay = .asSet then { e with pay := .builtin } else e

inductive Variant | pinned | fixed
  deriving DecidableEq, Repr

/-- program counter of `receive` -/
inductive Pc
  | recvWait            -- blocked in `<-w.source.ResultChan()`
  | sendWait (o : Ev)   -- blocked in `w.result <- o` (fixed: `select` together with `<-w.done`)
  | stopping            -- left the loop (source ended, `done` closed, or a recovered panic); deferred `w.Stop()` is next
  | closing             -- deferred `close(w.result)` is next
  | exited              -- the goroutine is gone
  deriving DecidableEq, Repr

structure W where
  queue        : List Ev := []     -- offered by the source, not yet taken by the relay
  srcClosed    : Bool := false     -- source channel closed (the source ended, or somebody called `source.Stop()`)
  pc           : Pc := .recvWait
  resultClosed : Bool := false
  stopped      : Bool := false     -- `hijackWatch.stopped` (fixed: `done` is closed exactly when this is set)
  panicked     : Bool := false     -- the relay panicked (`HandleCrash` ran; with the default `ReallyCrash` the process is dead)
  log          : List Ev := []     -- what the consumer has received, in order
  sent         : List Ev := []     -- ghost: everything the source has offered, in order
  deriving DecidableEq, Repr

/-- the relay has received `e` from the source (queue tail `q`) -/
def relayTake (v : Variant) (w : W) (e : Ev) (q : List Ev) : W :=
  if v = .pinned ∧ e.pay ≠ .asSet then
    { w with queue := q, pc := .stopping, panicked := true }      -- `panic("unreachable")`, recovered by `HandleCrash`
  else { w with queue := q, pc := .sendWait (convert e) }

/-- one step of the relay goroutine; `none` = blocked (or gone) -/
def relayStep? (v : Variant) (w : W) : Option W :=
  match w.pc with
  | .recvWait =>
    match w.queue with
    | e :: q => some (relayTake v w e q)
    | [] => if w.srcClosed then some { w with pc := .stopping } else none
  | .sendWait _ => if v = .fixed ∧ w.stopped then some { w with pc := .stopping } else none
  | .stopping => some { w with pc := .closing, stopped := true, srcClosed := true }
  | .closing => some { w with pc := .exited, resultClosed := true }
  | .exited => none

inductive Act
  | srcSend (e : Ev)
  | srcClose (keep : Nat)       -- the source ends; `keep` = how many queued events stay readable (0 for an unbuffered channel
                                --   whose blocked send is withdrawn, everything for a buffered one)
  | relayStep
  | consumerRecv
  | consumerStop (keep : Nat)   -- `Stop()`; includes `source.Stop()`, `keep` as above
  deriving DecidableEq, Repr

def act (v : Variant) (w : W) : Act → W
  | .srcSend e => if w.srcClosed then w else { w with queue := w.queue ++ [e], sent := w.sent ++ [e] }
  | .srcClose k => if w.srcClosed then w else { w with srcClosed := true, queue := w.queue.take k }
  | .relayStep => (relayStep? v w).getD w
  | .consumerRecv =>
    match w.pc with
    | .sendWait o => { w with pc := .recvWait, log := w.log ++ [o] }
    | _ => w
  | .consumerStop k => if w.stopped then w else { w with stopped := true, srcClosed := true, queue := w.queue.take k }

def exec (v : Variant) (w : W) (as : List Act) : W := as.foldl (act v) w

/-- reachable = the result of some finite interleaving from the initial state (watch just opened) -/
def Reachable (v : Variant) (w : W) : Prop := ∃ as, exec v {} as = w

/-- explicit measure of the relay's remaining work when nobody else moves -/
def rank (w : W) : Nat :=
  match w.pc with
  | .recvWait => 4 | .sendWait _ => 3 | .stopping => 2 | .closing => 1 | .exited => 0

/-- measure that also counts the source queue: decreases with every relay step and every effective receive -/
def mu (w : W) : Nat :=
  match w.pc with
  | .recvWait => 2 * w.queue.length + 3
  | .sendWait _ => 2 * w.queue.length + 4
  | .stopping => 2 | .closing => 1 | .exited => 0

/-- `n` relay steps in a row -/
inductive RelayRun (v : Variant) : W → Nat → W → Prop
  | done (w : W) : RelayRun v w 0 w
  | step {w w' w'' : W} {n : Nat} : relayStep? v w = some w' → RelayRun v w' n w'' → RelayRun v w (n + 1) w''

def settleN (v : Variant) : Nat → W → W
  | 0, w => w
  | n + 1, w => match relayStep? v w with
    | some w' => settleN v n w'
    | none => w

/-- the relay runs until it blocks or is gone (never more than `rank ≤ 4` steps) -/
def settle (v : Variant) (w : W) : W := settleN v 4 w

/-! ## scripts: the schedules the `watch` engine plays

A script fixes the order of the *external* actions; after each of them the relay runs until it blocks. The source of the engine
is an unbuffered channel: at most one offer is outstanding, further sends are dropped, ending the source withdraws the offer. -/

inductive SAct | send (t : EvType) (p : Payload) | close | recv | stop
  deriving DecidableEq, Repr

inductive Res | taken | offered | dropped | done | got (e : Ev) | closed | blocked | panic
  deriving DecidableEq, Repr

structure SRes where
  res  : Res
  took : Bool := false      -- the source's outstanding send completed while the relay settled after this action
  deriving DecidableEq, Repr

/-- what a receive attempt finds -/
def recvObs (w : W) : Res :=
  match w.pc with
  | .sendWait o => .got o
  | _ => if w.resultClosed then .closed else .blocked

def sstep (v : Variant) (w : W) (id : Nat) : SAct → W × SRes
  | .send t p =>
    if w.srcClosed || !w.queue.isEmpty then (w, { res := .dropped })
    else
      let w' := settle v (act v w (.srcSend { typ := t, pay := p, id := id }))
      (w', { res := if w'.queue.isEmpty then .taken else .offered })
  | .close => (settle v (act v w (.srcClose 0)), { res := .done })
  | .recv =>
    let w' := settle v (act v w .consumerRecv)
    (w', { res := recvObs w, took := !w.queue.isEmpty && w'.queue.isEmpty })
  | .stop => (settle v (act v w (.consumerStop 0)), { res := .done })

def isSend : SAct → Bool | .send _ _ => true | _ => false

def srun (v : Variant) (w : W) (id : Nat) : List SAct → W × List SRes
  | [] => (w, [])
  | a :: as =>
    let (w', r) := sstep v w id a
    let (w'', rs) := srun v w' (if isSend a then id + 1 else id) as
    (w'', r :: rs)

/-- what the engine prints for a script -/
structure Obs where
  res        : List SRes
  relayAlive : Bool
  final      : Res        -- one more receive attempt, made after `relayAlive` was recorded
  panicked   : Bool
  deriving DecidableEq, Repr

def observe (v : Variant) (script : List SAct) : Obs :=
  let (w, rs) := srun v (settle v {}) 0 script
  { res := rs, relayAlive := w.pc != .exited, final := recvObs w, panicked := w.panicked }

end Asts.Watch
