import Asts.Model.PatchJson
/-! # L9 — `getPatch`, the `$patch: replace` fragment of strategic merge, revision hash and name (core only)

Models `/repo/pkg/controller/statefulset/stateful_set_utils.go`:
* `getPatch` (l. 304-320): encode the set, unmarshal into `map[string]interface{}`, keep `spec.template`, add `"$patch":"replace"`, marshal.
  The type assertions `raw["spec"].(map…)` / `spec["template"].(map…)` panic when the member is missing or not an object: `none`.
* `ApplyRevision` (l. 351-363): `StrategicMergePatch(encode set, revision.Data.Raw)`; for a patch of the shape `getPatch` writes this is
  "replace `spec.template` of the set by the recorded template without the directive, keep every other member" (`applyReplacePatch`).
* `hashControllerRevision` / `controllerRevisionName` (stateful_set_control.go l. 737-759) = `history.HashControllerRevision` /
  `ControllerRevisionName`: FNV-1 (32 bit) over the data bytes (+ the decimal collision count), `rand.SafeEncodeString` of its decimal rendering. -/
namespace Asts.Patch

def directiveKey : String := "$patch"

/-- the `spec.template` member of an encoded set, when both `spec` and `spec.template` are objects -/
def template? (set : Json) : Option Obj :=
  match set with
  | .obj top =>
    match lookup "spec" top with
    | some (.obj spec) =>
      match lookup "template" spec with
      | some (.obj t) => some t
      | _ => none
    | _ => none
  | _ => none

/-- `{"spec":{"template": T ∪ {"$patch":"replace"}}}` for a template `T` that went through `map[string]interface{}` -/
def patchOf (t : Obj) : Json :=
  .obj [("spec", .obj [("template", .obj (insertKey directiveKey (.str "replace") t))])]

/-- `getPatch` on `raw`, the encoded set after `json.Unmarshal` into `map[string]interface{}` (i.e. `canon` of the tree of the codec's bytes);
    `none` = the Go function panics on a failed type assertion -/
def getPatch (raw : Json) : Option Json :=
  match template? raw with
  | some t => some (patchOf t)
  | none => none

/-- bytes of the encoded set → bytes of the patch, for an escaping `esc`: unmarshal (`parse`, `canon`), `getPatch`, marshal (`ser`) -/
def getPatchBytes (esc : List Char → List Char) (enc : List Char) : Option (List Char) :=
  match parse enc with
  | some j => (getPatch (canon j)).map (ser esc)
  | none => none

/-- replace the binding of `k` in place (append when absent) -/
def setKey (k : String) (v : Json) : Obj → Obj
  | [] => [(k, v)]
  | (k', v') :: rest => if k' = k then (k, v) :: rest else (k', v') :: setKey k v rest

/-- the template object of a patch of exactly the shape `{"spec":{"template":{…}}}` -/
def patchTemplate? (patch : Json) : Option Obj :=
  match patch with
  | .obj [(k1, .obj [(k2, .obj pt)])] => if k1 = "spec" ∧ k2 = "template" then some pt else none
  | _ => none

/-- `StrategicMergePatch(set, patch)` for `patch = {"spec":{"template":{"$patch":"replace", …}}}`: `spec.template` is replaced wholesale by the
    patch's template minus the directive; every other member of `set` and of `set.spec` stays. Outside that shape: `none` (not modelled). -/
def applyReplacePatch (set patch : Json) : Option Json :=
  match set, patchTemplate? patch with
  | .obj top, some pt =>
    match lookup directiveKey pt, lookup "spec" top with
    | some (.str d), some (.obj spec) =>
      if d = "replace" then some (.obj (setKey "spec" (.obj (setKey "template" (.obj (eraseKey directiveKey pt)) spec)) top)) else none
    | _, _ => none
  | _, _ => none

/-! ## hash and name -/

def fnvPrime : Nat := 16777619
def fnvOffset : Nat := 2166136261

/-- FNV-1, 32 bit (`fnv.New32`): multiply, then xor -/
def fnv32 (bytes : List Nat) (h : Nat := fnvOffset) : Nat :=
  bytes.foldl (fun h b => Nat.xor ((h * fnvPrime) % 4294967296) b) h

def safeAlphabet : List Char := "bcdfghjklmnpqrstvwxz2456789".toList

/-- `rand.SafeEncodeString` -/
def safeEncode (s : List Char) : List Char := s.map fun c => safeAlphabet.getD (c.toNat % 27) 'b'

/-- `HashControllerRevision(rev, probe)` for a revision whose `Data.Raw` is `data` (UTF-8 bytes) -/
def hashRevision (data : List Nat) (probe : Option Int) : List Char :=
  let h := fnv32 data
  let h := match probe with
    | some p => fnv32 ((intChars p).map Char.toNat) h
    | none => h
  safeEncode (natDigits h)

/-- `ControllerRevisionName`: the prefix is cut at 223 bytes (names are ASCII) -/
def revisionName (pre : List Char) (hash : List Char) : List Char :=
  (if pre.length > 223 then pre.take 223 else pre) ++ '-' :: hash

end Asts.Patch
