import Asts.Model.Hijack
import Asts.Gen.Schema
namespace Asts.Hijack

/-- the schemas extracted from the Go types on every check (`Gen/Schema.lean`) -/
def genSchemas : Schemas :=
  { as := Gen.asSchema, builtin := Gen.builtinSchema, asList := Gen.asListSchema, builtinList := Gen.builtinListSchema }

end Asts.Hijack
