import Asts.Model.World
namespace Asts

/-! User edits of the set between the rounds of a world (`Model/World.lean`). The world is the `SyncIn` that `runRounds` threads
    through the rounds: `round` settles it (caches = API), runs the sync and applies its effects; an edit rewrites the fields
    of that world that mirror the set's spec and annotations. -/

/-- one edit of the set by its user -/
inductive Edit
  | replicas (n : Int)                    -- spec.replicas
  | slots (s : Option (List Int))         -- the delete-slots annotation set (`some`) or removed (`none`)
  | pause (on : Bool)                     -- the paused-reconcile annotation set to "true" / removed
  | template (t : String)                 -- spec.template
  | partition (p : Option Int)            -- spec.updateStrategy.rollingUpdate: block with a partition / no block
  | note (x : String)                     -- an unrelated annotation and label
  deriving DecidableEq, Repr

def editReplicas (n : Int) (i : SyncIn) : SyncIn :=
  if i.view.replicas == some n then i
  else { i with view := { i.view with replicas := some n, generation := i.view.generation + 1 } }

def editTemplate (t : String) (i : SyncIn) : SyncIn :=
  if i.template == t then i
  else { i with template := t, view := { i.view with generation := i.view.generation + 1 } }

def editPartition (p : Option Int) (i : SyncIn) : SyncIn :=
  if i.view.ru == p.map some then i
  else { i with view := { i.view with ru := p.map some, generation := i.view.generation + 1 } }

/-- a spec edit that changes something bumps `metadata.generation` (the API server does), annotation edits never do -/
def applyEdit : Edit → SyncIn → SyncIn
  | .replicas n, i => editReplicas n i
  | .slots s, i => { i with view := { i.view with slots := s.getD [] } }
  | .pause on, i => { i with paused := on }
  | .template t, i => editTemplate t i
  | .partition p, i => editPartition p i
  | .note _, i => i

def applyEdits (es : List Edit) (i : SyncIn) : SyncIn := es.foldl (fun w e => applyEdit e w) i

/-- a script: edits with the round before whose settle they are applied -/
abbrev Script := List (Nat × Edit)

def editsAt (script : Script) (j : Nat) : List Edit := (script.filter (·.1 == j)).map (·.2)

def pendingAfter (script : Script) (j : Nat) : Bool := script.any (fun e => j < e.1)

/-- one round of a history: the edits applied before it, the world they produced, what the round showed -/
structure HistRound where
  edits : List Edit
  world : SyncIn
  obs   : RoundObs

/-- rounds interleaved with the edits of the script, from round `j` on: until two consecutive silent successful rounds with
    no edit in them or after them, at most `fuel` rounds. The fault plan applies to the first round run. -/
def runHistory (h : Hashing) (script : Script) : Nat → Nat → Nat → SyncIn → List Fault → List HistRound
  | 0, _, _, _, _ => []
  | fuel + 1, j, silent, i, plan =>
    let es := editsAt script j
    let i0 := applyEdits es i
    let (i', r) := round h i0 plan
    let silent0 := if es.isEmpty then silent else 0
    let silent' := if r.out == "ok" && r.writes == 0 then silent0 + 1 else 0
    if silent' ≥ 2 && !pendingAfter script j then [{ edits := es, world := i0, obs := r }]
    else { edits := es, world := i0, obs := r } :: runHistory h script fuel (j + 1) silent' i' []

end Asts
