namespace Asts

inductive Json where
  | null
  | str (s : String)
  | num (n : Int)
  | bool (b : Bool)
  | arr (l : List Json)
  | obj (kvs : List (String × Json))
  deriving Repr

/-- Go types as far as encoding/json cares. `leaf` = a named Go type shared by both sides (opaque, assumed to round-trip). -/
inductive GoTy where
  | leaf (name : String)
  | ptr (t : GoTy)
  | slice (t : GoTy)
  | struct (fields : List (String × Bool × GoTy))    -- json key, omitempty, type

/-- Go values; a leaf value is represented by its own JSON encoding. -/
inductive GoVal where
  | leaf (j : Json) (zero : Bool)
  | nilPtr
  | ptr (v : GoVal)
  | slice (l : Option (List GoVal))
  | struct (fs : List GoVal)

mutual
def encode : GoVal → Json
  | .leaf j _ => j
  | .nilPtr => .null
  | .ptr v => encode v
  | .slice none => .null
  | .slice (some l) => .arr (encodeList l)
  | .struct fs => .obj (encodeFields fs 0)
def encodeList : List GoVal → List Json
  | [] => []
  | v :: vs => encode v :: encodeList vs
def encodeFields : List GoVal → Nat → List (String × Json)
  | [], _ => []
  | v :: vs, i => (toString i, encode v) :: encodeFields vs (i+1)
end

end Asts

namespace Asts
-- shape-directed decoder (no omitempty in this probe)
mutual
def decode : GoTy → Json → GoVal
  | .leaf _, j => .leaf j false
  | .ptr _, .null => .nilPtr
  | .ptr t, j => .ptr (decode t j)
  | .slice _, .null => .slice none
  | .slice t, .arr l => .slice (some (decodeList t l))
  | .slice _, _ => .slice none
  | .struct fs, .obj kvs => .struct (decodeFields fs kvs)
  | .struct fs, _ => .struct (decodeFields fs [])
def decodeList : GoTy → List Json → List GoVal
  | _, [] => []
  | t, j :: js => decode t j :: decodeList t js
def decodeFields : List (String × Bool × GoTy) → List (String × Json) → List GoVal
  | [], _ => []
  | (_, _, t) :: fs, (_, j) :: kvs => decode t j :: decodeFields fs kvs
  | (_, _, t) :: fs, [] => decode t .null :: decodeFields fs []
end

-- well-typedness
mutual
def HasTy : GoTy → GoVal → Prop
  | .leaf _, .leaf j z => j ≠ .null ∧ z = false
  | .ptr _, .nilPtr => True
  | .ptr t, .ptr v => HasTy t v ∧ encode v ≠ .null
  | .slice _, .slice none => True
  | .slice t, .slice (some l) => HasTyList t l
  | .struct fs, .struct vs => HasTyFields fs vs
  | _, _ => False
def HasTyList : GoTy → List GoVal → Prop
  | _, [] => True
  | t, v :: vs => HasTy t v ∧ HasTyList t vs
def HasTyFields : List (String × Bool × GoTy) → List GoVal → Prop
  | [], [] => True
  | (_, _, t) :: fs, v :: vs => HasTy t v ∧ HasTyFields fs vs
  | _, _ => False
end

mutual
theorem decode_encode : ∀ (t : GoTy) (v : GoVal), HasTy t v → decode t (encode v) = v
  | .leaf _, .leaf j z, h => by
      simp only [HasTy] at h; simp [encode, decode, h.2]
  | .ptr _, .nilPtr, _ => by simp [encode, decode]
  | .ptr t, .ptr v, h => by
      simp only [HasTy] at h
      have ih := decode_encode t v h.1
      simp only [encode]
      cases he : encode v <;> simp_all [decode]
  | .slice _, .slice none, _ => by simp [encode, decode]
  | .slice t, .slice (some l), h => by
      simp only [HasTy] at h
      simp [encode, decode, decodeList_encodeList t l h]
  | .struct fs, .struct vs, h => by
      simp only [HasTy] at h
      simp [encode, decode, decodeFields_encodeFields fs vs 0 h]
  | .leaf _, .nilPtr, h | .leaf _, .ptr _, h | .leaf _, .slice _, h | .leaf _, .struct _, h
  | .ptr _, .leaf _ _, h | .ptr _, .slice _, h | .ptr _, .struct _, h
  | .slice _, .leaf _ _, h | .slice _, .nilPtr, h | .slice _, .ptr _, h | .slice _, .struct _, h
  | .struct _, .leaf _ _, h | .struct _, .nilPtr, h | .struct _, .ptr _, h | .struct _, .slice _, h => by
      simp [HasTy] at h
theorem decodeList_encodeList : ∀ (t : GoTy) (l : List GoVal), HasTyList t l → decodeList t (encodeList l) = l
  | _, [], _ => by simp [encodeList, decodeList]
  | t, v :: vs, h => by
      simp only [HasTyList] at h
      simp [encodeList, decodeList, decode_encode t v h.1, decodeList_encodeList t vs h.2]
theorem decodeFields_encodeFields : ∀ (fs : List (String × Bool × GoTy)) (vs : List GoVal) (i : Nat),
    HasTyFields fs vs → decodeFields fs (encodeFields vs i) = vs
  | [], [], _, _ => by simp [encodeFields, decodeFields]
  | (_, _, t) :: fs, v :: vs, i, h => by
      simp only [HasTyFields] at h
      simp [encodeFields, decodeFields, decode_encode t v h.1, decodeFields_encodeFields fs vs (i+1) h.2]
  | [], _ :: _, _, h | _ :: _, [], _, h => by simp [HasTyFields] at h
end
end Asts
