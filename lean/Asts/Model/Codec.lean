import Asts.Model.Json
namespace Asts.Codec
open Asts

/-! A schema-indexed model of `encoding/json` for Go struct types, as far as `FromBuiltinStatefulSet`,
    `ToBuiltinStatefulSet` and `ToBuiltinStetefulsetList` (client/apis/apps/v1/helper/hijack.go) depend on it:
    `json.Marshal` of one Go type followed by `json.Unmarshal` into another.

    * `GoTy` — what `encoding/json` sees of a Go type: JSON key and `omitempty` flag per struct field, pointers, slices,
      the three primitive kinds, and *opaque leaves*: named struct types that are the very same Go type on both sides of
      a conversion (`metav1.ObjectMeta`, `v1.PodTemplateSpec`, `metav1.Time`, …). A leaf value is represented by its own
      JSON encoding and is assumed to survive `Unmarshal ∘ Marshal` (sampled by the `codec` engine, not proved).
      `nullable` says that the zero value of the leaf marshals to `null` (`metav1.Time`).
    * `GoVal` — Go values; a struct value is keyed by JSON key, so a value of a larger struct type can be read at a
      smaller one.  Maps do not occur outside leaves in the StatefulSet types and are not modelled. -/

inductive Prim where
  | str
  | int (bits : Nat)
  | bool
  deriving Repr, DecidableEq, Inhabited

inductive GoTy where
  | prim (p : Prim)
  | leaf (name : String) (nullable : Bool)
  | ptr (t : GoTy)
  | slice (t : GoTy)
  | struct (fields : List (String × Bool × GoTy))    -- JSON key, omitempty, type
  | unsupported (what : String)                      -- emitted by the extractor for a shape outside the model
  deriving Repr, Inhabited

inductive GoVal where
  | str (s : String)
  | int (n : Int)
  | bool (b : Bool)
  | leaf (j : Json)
  | nilPtr
  | ptr (v : GoVal)
  | slice (l : Option (List GoVal))                  -- `none` = nil slice
  | struct (fs : List (String × GoVal))
  deriving Repr, Inhabited

abbrev Fields := List (String × Bool × GoTy)

def vlookup (k : String) : List (String × GoVal) → Option GoVal
  | [] => none
  | (k', v) :: rest => if k' = k then some v else vlookup k rest

def jlookup (k : String) : List (String × Json) → Option Json
  | [] => none
  | (k', v) :: rest => if k' = k then some v else jlookup k rest

def findField (k : String) : Fields → Option (Bool × GoTy)
  | [] => none
  | (k', o, t) :: rest => if k' = k then some (o, t) else findField k rest

/-- `reflect`'s `isEmptyValue` as used by `omitempty`: false, 0, "", nil pointer, nil or empty slice; never a struct -/
def isEmpty : GoVal → Bool
  | .str s => s = ""
  | .int n => n = 0
  | .bool b => b = false
  | .nilPtr => true
  | .slice none => true
  | .slice (some []) => true
  | _ => false

mutual
/-- `json.Marshal` -/
def encode : GoTy → GoVal → Json
  | .prim .str, .str s => .str s
  | .prim (.int _), .int n => .num n
  | .prim .bool, .bool b => .bool b
  | .leaf _ _, .leaf j => j
  | .ptr _, .nilPtr => .null
  | .ptr t, .ptr v => encode t v
  | .slice _, .slice none => .null
  | .slice t, .slice (some l) => .arr (encodeList t l)
  | .struct fs, .struct vs => .obj (encodeFields fs vs)
  | _, _ => .null
def encodeList : GoTy → List GoVal → List Json
  | _, [] => []
  | t, v :: vs => encode t v :: encodeList t vs
def encodeFields : Fields → List (String × GoVal) → List (String × Json)
  | [], _ => []
  | (k, o, t) :: rest, vs =>
    match vlookup k vs with
    | some v => if o && isEmpty v then encodeFields rest vs else (k, encode t v) :: encodeFields rest vs
    | none => encodeFields rest vs
end

mutual
/-- the zero value of a type -/
def zero : GoTy → GoVal
  | .prim .str => .str ""
  | .prim (.int _) => .int 0
  | .prim .bool => .bool false
  | .leaf _ _ => .leaf .null
  | .ptr _ => .nilPtr
  | .slice _ => .slice none
  | .struct fs => .struct (zeroFields fs)
  | .unsupported _ => .nilPtr
def zeroFields : Fields → List (String × GoVal)
  | [] => []
  | (k, _, t) :: rest => (k, zero t) :: zeroFields rest
end

mutual
/-- `json.Unmarshal` into a fresh value (unknown keys ignored, `null` leaves the zero value, a missing key too) -/
def decode : GoTy → Json → GoVal
  | .prim .str, j => .str (match j with | .str s => s | _ => "")
  | .prim (.int _), j => .int (match j with | .num n => n | _ => 0)
  | .prim .bool, j => .bool (match j with | .bool b => b | _ => false)
  | .leaf _ _, j => .leaf j
  | .ptr t, j => (match j with | .null => .nilPtr | _ => .ptr (decode t j))
  | .slice t, j => (match j with | .arr l => .slice (some (decodeList t l)) | _ => .slice none)
  | .struct fs, j => .struct (decodeFields fs (match j with | .obj kvs => kvs | _ => []))
  | .unsupported _, _ => .nilPtr
def decodeList : GoTy → List Json → List GoVal
  | _, [] => []
  | t, j :: js => decode t j :: decodeList t js
def decodeFields : Fields → List (String × Json) → List (String × GoVal)
  | [], _ => []
  | (k, _, t) :: rest, kvs =>
    (k, match jlookup k kvs with | some j => decode t j | none => zero t) :: decodeFields rest kvs
end

/-- what `Unmarshal` accepts without an error, for the JSON the other side's `Marshal` can produce -/
def primAccepts : Prim → Json → Bool
  | _, .null => true
  | .str, .str _ => true
  | .int bits, .num n => decide (-(2 : Int) ^ (bits - 1) ≤ n) && decide (n < (2 : Int) ^ (bits - 1))
  | .bool, .bool _ => true
  | _, _ => false

mutual
def accepts : GoTy → Json → Bool
  | .prim p, j => primAccepts p j
  | .leaf _ _, _ => true
  | .ptr t, j => (match j with | .null => true | _ => accepts t j)
  | .slice t, j => (match j with | .null => true | .arr l => acceptsList t l | _ => false)
  | .struct fs, j => (match j with | .null => true | .obj kvs => acceptsFields fs kvs | _ => false)
  | .unsupported _, _ => false
def acceptsList : GoTy → List Json → Bool
  | _, [] => true
  | t, j :: js => accepts t j && acceptsList t js
def acceptsFields : Fields → List (String × Json) → Bool
  | [], _ => true
  | (k, _, t) :: rest, kvs =>
    (match jlookup k kvs with | some j => accepts t j | none => true) && acceptsFields rest kvs
end

/-! ### schemas: well-formedness and compatibility (both decidable, evaluated on the extracted schemas) -/

def keys (fs : Fields) : List String := fs.map (·.1)

/-- a type whose values never marshal to `null` (what may sit under a pointer) -/
def nonNull : GoTy → Bool
  | .prim _ => true
  | .leaf _ nullable => !nullable
  | .struct _ => true
  | _ => false

mutual
/-- keys of every struct are distinct, pointers point at non-null types, nothing unsupported -/
def wf : GoTy → Bool
  | .prim _ => true
  | .leaf _ _ => true
  | .ptr t => nonNull t && wf t
  | .slice t => wf t
  | .struct fs => wfFields fs
  | .unsupported _ => false
def wfFields : Fields → Bool
  | [] => true
  | (k, _, t) :: rest => !(keys rest).contains k && wf t && wfFields rest
end

mutual
/-- every field of `a` occurs in `b` with the same key, the same `omitempty` flag and a compatible type; primitive kinds
    and leaves must be identical -/
def compat : GoTy → GoTy → Bool
  | .prim p, b => (match b with | .prim q => p == q | _ => false)
  | .leaf n z, b => (match b with | .leaf m y => n == m && z == y | _ => false)
  | .ptr t, b => (match b with | .ptr u => compat t u | _ => false)
  | .slice t, b => (match b with | .slice u => compat t u | _ => false)
  | .struct fs, b => (match b with | .struct gs => compatFields fs gs | _ => false)
  | .unsupported _, _ => false
def compatFields : Fields → Fields → Bool
  | [], _ => true
  | (k, o, t) :: rest, gs =>
    (match findField k gs with
     | some (o', u) => o == o' && compat t u
     | none => false) && compatFields rest gs
end

mutual
/-- `Unmarshal` at `d` will accept whatever `Marshal` at `e` writes: every field of `d` that `e` also has (same key) has an
    acceptable type there; fields only one side has are ignored (decoder) or left zero -/
def accCompat : GoTy → GoTy → Bool
  | .prim p, e => (match e with | .prim q => p == q | _ => false)
  | .leaf n z, e => (match e with | .leaf m y => n == m && z == y | _ => false)
  | .ptr t, e => (match e with | .ptr u => accCompat t u | _ => false)
  | .slice t, e => (match e with | .slice u => accCompat t u | _ => false)
  | .struct fs, e => (match e with | .struct gs => accCompatFields fs gs | _ => false)
  | .unsupported _, _ => false
def accCompatFields : Fields → Fields → Bool
  | [], _ => true
  | (k, _, t) :: rest, gs =>
    (match findField k gs with
     | some (_, u) => accCompat t u
     | none => !(keys gs).contains k) && accCompatFields rest gs
end

/-- the top-level field of a struct value -/
def topField (k : String) : GoVal → Option GoVal
  | .struct fs => vlookup k fs
  | _ => none

/-- replace a top-level field of a struct value (`newSet.TypeMeta.APIVersion = …`) -/
def setField (k : String) (x : GoVal) : GoVal → GoVal
  | .struct fs => .struct (fs.map fun e => if e.1 = k then (k, x) else e)
  | v => v

/-- `FromBuiltinStatefulSet` / `ToBuiltinStatefulSet`: marshal at the source type, unmarshal at the target type, stamp
    the target apiVersion -/
def convert (src dst : GoTy) (apiVersion : String) (v : GoVal) : GoVal :=
  setField "apiVersion" (.str apiVersion) (decode dst (encode src v))

/-- `ToBuiltinStetefulsetList`: the same for a list, then the apiVersion of every item is stamped as well -/
def convertList (src dst : GoTy) (apiVersion : String) (l : GoVal) : GoVal :=
  match setField "apiVersion" (.str apiVersion) (decode dst (encode src l)) with
  | .struct fs => .struct (fs.map fun e =>
      if e.1 = "items" then
        (e.1, match e.2 with
              | .slice (some items) => .slice (some (items.map (setField "apiVersion" (.str apiVersion))))
              | v => v)
      else e)
  | v => v

end Asts.Codec
