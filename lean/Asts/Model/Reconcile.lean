import Asts.Model.Ordinals
namespace Asts

inductive Phase | none | pending | running | succeeded | failed | unknown
  deriving DecidableEq, Repr

/-- What `updateStatefulSet` can see of a pod. -/
structure Pod where
  id          : Nat            -- identity of the Go pointer (position in the input; fresh pods get `fresh`)
  ord         : Int            -- getOrdinal: -1 if the name does not parse to an int32
  phase       : Phase
  ready       : Bool           -- PodReady condition is True
  terminating : Bool           -- DeletionTimestamp != nil
  rev         : String         -- controller-revision-hash label, "" if absent
  idOk        : Bool           -- identityMatches
  stOk        : Bool           -- storageMatches
  deriving DecidableEq, Repr

namespace Pod
def runningAndReady (p : Pod) : Bool := p.phase == .running && p.ready
def created (p : Pod) : Bool := p.phase != .none
def failed (p : Pod) : Bool := p.phase == .failed
def succeeded (p : Pod) : Bool := p.phase == .succeeded
def healthy (p : Pod) : Bool := p.runningAndReady && !p.terminating
end Pod

inductive StratType | rolling | onDelete | other
  deriving DecidableEq, Repr

structure SetView where
  replicas  : Option Int            -- *int32 Spec.Replicas
  slots     : List Int              -- GetDeleteSlots(set)
  parallel  : Bool                  -- PodManagementPolicy == "Parallel"
  strat     : StratType             -- UpdateStrategy.Type
  ru        : Option (Option Int)   -- RollingUpdate block present? Partition present?
  deleting  : Bool
  generation : Int
  stCurrentReplicas : Int           -- set.Status.CurrentReplicas (legacy partition when `ru = none`)
  deriving Repr

structure Status where
  replicas : Int := 0
  ready    : Int := 0
  current  : Int := 0
  updated  : Int := 0
  currentRev : String := ""
  updateRev  : String := ""
  observedGen : Int := 0
  deriving DecidableEq, Repr

inductive Why | replaceFailed | scaleDown | update
  deriving DecidableEq, Repr

inductive Action
  | create (ord : Int) (rev : String)
  | delete (ord : Int) (id : Nat) (why : Why)
  | update (ord : Int)
  deriving DecidableEq, Repr

inductive Outcome | ok | err | panic (site : String)
  deriving DecidableEq, Repr

/-- pod-control calls that fail, keyed by (verb, ordinal); verbs: 0 create, 1 delete, 2 update -/
abbrev Faults := List (Nat × Int)
def Faults.hit (f : Faults) (verb : Nat) (ord : Int) : Bool := f.contains (verb, ord)

structure St where
  acts   : List Action := []
  status : Status := {}
  deriving Repr

inductive Ctl
  | next (s : St)
  | done (s : St) (o : Outcome)

def freshId : Nat := 1000000

/-- `getRollingUpdatePartition` (utils.go): a missing block, a block without partition and a negative partition mean 0. -/
def partOf (v : SetView) : Int :=
  match v.ru with
  | some (some p) => if p < 0 then 0 else p
  | _ => 0

/-- `newVersionedStatefulSetPod` (utils.go): revision of a pod created at `ord`.
    Go precedence: `(Type==RollingUpdate && RU==nil && ord<Status.CurrentReplicas) || (RU!=nil && ord < partition)`. -/
def newPodRev (v : SetView) (cur upd : String) (ord : Int) : String :=
  if v.strat == .rolling && v.ru.isNone && ord < v.stCurrentReplicas then cur
  else if v.ru.isSome && ord < partOf v then cur
  else upd

def newPod (v : SetView) (cur upd : String) (ord : Int) : Pod :=
  { id := freshId + ord.toNat, ord := ord, phase := .none, ready := false, terminating := false,
    rev := newPodRev v cur upd ord, idOk := true, stOk := true }

/-- census (control.go:327-343) -/
def census (cur upd : String) (pods : List Pod) : Status :=
  { replicas := pods.length
    ready    := (pods.filter Pod.runningAndReady).length
    current  := (pods.filter (fun p => p.created && !p.terminating && p.rev == cur)).length
    updated  := (pods.filter (fun p => p.created && !p.terminating && p.rev == upd)).length }

def inRange (b : Int) (E : List Int) (o : Int) : Bool := 0 ≤ o && o < b && !E.contains o
def isCondemned (b : Int) (E : List Int) (o : Int) : Bool := !(inRange b E o) && (o ≥ b || E.contains o)

/-- `replicas[ord] = pods[i]` in input order: the last pod that parses to `ord` wins. -/
def slotOf (b : Int) (E : List Int) (pods : List Pod) (o : Int) : Option Pod :=
  (pods.filter (fun p => p.ord == o && inRange b E p.ord)).getLast?

def insertByOrd (p : Pod) : List Pod → List Pod
  | [] => [p]
  | q :: qs => if p.ord < q.ord then p :: q :: qs else q :: insertByOrd p qs

/-- condemned pods in ascending ordinal order (ties: input order; Go's sort is not stable) -/
def condemnedOf (b : Int) (E : List Int) (pods : List Pod) : List Pod :=
  (pods.filter (fun p => isCondemned b E p.ord)).reverse.foldl (fun acc p => insertByOrd p acc) []

def maxInt32 : Int := 2147483647

/-- first-unhealthy scan (control.go:388-411): the first unhealthy pod met is recorded whatever its ordinal (repaired: the
    sentinel `math.MaxInt32` used to hide a pod at that very ordinal), later ones only with a smaller ordinal -/
def firstUnhealthy (ps : List Pod) : Option Pod × Nat :=
  ps.foldl (fun (acc : (Option Pod × Int) × Nat) p =>
      if !p.healthy then
        if acc.1.1.isNone || p.ord < acc.1.2 then ((some p, p.ord), acc.2 + 1) else (acc.1, acc.2 + 1)
      else acc) ((none, maxInt32), 0)
  |> fun r => (r.1.1, r.2)

def bump (st : Status) (cur upd : String) (rev : String) (d : Int) : Status :=
  let st := if rev == cur then { st with current := st.current + d } else st
  if rev == upd then { st with updated := st.updated + d } else st

/-- replica loop, first half: a Failed/Succeeded pod is deleted and replaced by a fresh object (control.go:426-459) -/
def replaceFailed (v : SetView) (cur upd : String) (f : Faults) (s : St) (i : Int) (p0 : Pod) :
    Except (St × Outcome) (St × Pod) :=
  if p0.failed || p0.succeeded then
    if f.hit 1 i then .error ({ s with acts := s.acts ++ [.delete i p0.id .replaceFailed] }, .err)
    else
      -- a terminating pod was not counted by the census
      let st := if p0.terminating then s.status else bump s.status cur upd p0.rev (-1)
      .ok ({ acts := s.acts ++ [.delete i p0.id .replaceFailed], status := { st with replicas := st.replicas - 1 } },
           newPod v cur upd i)
  else .ok (s, p0)

/-- replica loop, second half (control.go:457-506) -/
def ensurePod (cur upd : String) (f : Faults) (mono : Bool) (s : St) (i : Int) (p : Pod) : Ctl :=
  if !p.created then
    if f.hit 0 i then .done { s with acts := s.acts ++ [.create i p.rev] } .err
    else
      let st := bump { s.status with replicas := s.status.replicas + 1 } cur upd p.rev 1
      let s' : St := { acts := s.acts ++ [.create i p.rev], status := st }
      if mono then .done s' .ok else .next s'
  else if p.terminating && mono then .done s .ok
  else if !p.runningAndReady && mono then .done s .ok
  else if p.idOk && p.stOk then .next s
  else if f.hit 2 i then .done { s with acts := s.acts ++ [.update i] } .err
  else .next { s with acts := s.acts ++ [.update i] }

/-- one iteration of the replica loop (control.go:415-507); also returns the object now stored in `replicas[i]`
    (Go overwrites the slot with the replacement object, and the update walk later reads the slot) -/
def replicaStep (v : SetView) (cur upd : String) (f : Faults) (mono : Bool) (s : St) (i : Int) (p0 : Pod) : Ctl × Pod :=
  match replaceFailed v cur upd f s i p0 with
  | .error (s, o) => (.done s o, p0)
  | .ok (s, p) => (ensurePod cur upd f mono s i p, p)

def replicaLoop (v : SetView) (cur upd : String) (f : Faults) (mono : Bool) :
    St → List (Int × Pod) → Ctl × List (Int × Pod)
  | s, [] => (.next s, [])
  | s, (i, p) :: rest =>
    match replicaStep v cur upd f mono s i p with
    | (.next s', p') =>
      let (c, rest') := replicaLoop v cur upd f mono s' rest
      (c, (i, p') :: rest')
    | (.done s' o, p') => (.done s' o, (i, p') :: rest)

/-- condemned loop, highest ordinal first (control.go:514-554); `cs` is already reversed -/
def condemnedLoop (cur upd : String) (f : Faults) (mono : Bool) (fu : Option Pod) : St → List Pod → Ctl
  | s, [] => .next s
  | s, c :: rest =>
    if c.terminating then
      if mono then .done s .ok else condemnedLoop cur upd f mono fu s rest
    else if !c.runningAndReady && mono && (fu.map (·.id) != some c.id) then .done s .ok
    else if f.hit 1 c.ord then .done { s with acts := s.acts ++ [.delete c.ord c.id .scaleDown] } .err
    else
      let s' : St := { acts := s.acts ++ [.delete c.ord c.id .scaleDown], status := bump s.status cur upd c.rev (-1) }
      if mono then .done s' .ok else condemnedLoop cur upd f mono fu s' rest

/-- update walk over the occupied slots at or above the partition, highest ordinal first (control.go:566-592) -/
def updateWalk (cur upd : String) (f : Faults) : St → List (Int × Pod) → St × Outcome
  | s, [] => (s, .ok)
  | s, (target, p) :: rest =>
    if p.rev != upd && !p.terminating then
      -- only pods at the current revision were counted
      let st := if p.rev == cur then { s.status with current := s.status.current - 1 } else s.status
      ({ acts := s.acts ++ [.delete target p.id .update], status := st }, if f.hit 1 target then .err else .ok)
    else if !p.healthy then (s, .ok)
    else updateWalk cur upd f s rest

/-- everything `updateStatefulSet` computes before its first write (control.go:305-404) -/
structure Prepared where
  b         : Int                     -- replicaCount
  reps      : List (Int × Pod)        -- the non-nil entries of `replicas`, ascending, vacancies filled with fresh objects
  condemned : List Pod                -- ascending ordinal
  fu        : Option Pod              -- firstUnhealthyPod
  st0       : Status                  -- census + generation + revision names
  deriving Repr

def prepare (v : SetView) (cur upd : String) (pods : List Pod) : Except (Status × Outcome) Prepared :=
  match v.replicas with
  | none => .error ({}, .panic "nil *Spec.Replicas (stateful_set_control.go:315)")
  | some r =>
  let (b, E) := maxReplicaAndSlots r v.slots
  let st0 : Status := { census cur upd pods with observedGen := v.generation, currentRev := cur, updateRev := upd }
  let idx : List Int := ((List.range b.toNat).map Int.ofNat).filter (fun i => !E.contains i)
  let reps : List (Int × Pod) := idx.map (fun i => (i, (slotOf b E pods i).getD (newPod v cur upd i)))
  let condemned := condemnedOf b E pods
  let (fu, unhealthy) := firstUnhealthy (reps.map (·.2) ++ condemned)
  if unhealthy > 0 && fu.isNone then .error (st0, .panic "nil firstUnhealthyPod.Name (stateful_set_control.go:403)")
  else .ok { b := b, reps := reps, condemned := condemned, fu := fu, st0 := st0 }

/-- the update walk with its bounds (control.go:559-593) -/
def updateStage (v : SetView) (cur upd : String) (f : Faults) (reps : List (Int × Pod)) (s : St) : St × Outcome :=
  if v.strat == .onDelete then (s, .ok)
  else updateWalk cur upd f s (reps.filter (fun ip => partOf v ≤ ip.1)).reverse

/-- the three loops (control.go:412-593) -/
def runLoops (v : SetView) (cur upd : String) (f : Faults) (p : Prepared) : St × Outcome :=
  let mono := !v.parallel
  match replicaLoop v cur upd f mono { status := p.st0 } p.reps with
  | (.done s o, _) => (s, o)
  | (.next s, reps) =>
  match condemnedLoop cur upd f mono p.fu s p.condemned.reverse with
  | .done s o => (s, o)
  | .next s => updateStage v cur upd f reps s

/-- `updateStatefulSet` (control.go:289-594) -/
def updateStatefulSet (v : SetView) (cur upd : String) (pods : List Pod) (f : Faults) : St × Outcome :=
  match prepare v cur upd pods with
  | .error (st, o) => ({ status := st }, o)
  | .ok p => if v.deleting then ({ status := p.st0 }, .ok) else runLoops v cur upd f p

end Asts
