import Asts.Model.PodControl
namespace Asts.PodControl.Spec
open Asts.PodControl

/-! C06 as decidable predicates over *(case, observation)*.

The predicates read only the data carriers of `Model/PodControl` (`SetV`, `Pod`, `Entry`, `StepObs`) and the two name
formats; they do not mention `newPod`, `createStatefulPod`, `getClaims` or the world. An observation is the list of steps
of a case, each with its ordered call log (claim lookups in the informer cache, API writes) and the pod handed to the API.

Partial by nature: "the claim exists" is witnessed by a successful lookup in the PVC informer cache or by a successful
create; a cache that still shows a claim deleted out-of-band is outside what the controller can know. -/

/-- the ordinals the property quantifies over -/
def inDomain (i : Int) : Bool := decide (0 ≤ i) && decide (i < 2147483648)

def isPodCreate (e : Entry) : Bool := e.verb == .create && e.res == .pod
def isClaimCreate (e : Entry) : Bool := e.verb == .create && e.res == .pvc

/-- a pod create was issued in this step -/
def issued (s : StepObs) : Bool := s.log.any isPodCreate

/-- the pod of a create step in which the create was issued -/
def createdPod (s : StepObs) : Option Pod := if s.step == .C && issued s then s.pod else none

/-- name `S-i` in the set's namespace, both on the object and on the call -/
def nameOk (v : SetV) (i : Int) (s : StepObs) : Bool :=
  match createdPod s with
  | none => true
  | some p => p.name == podName v.name i && p.ns == v.ns &&
      s.log.all (fun e => !isPodCreate e || (e.name == podName v.name i && e.ns == v.ns))

def hostnameOk (v : SetV) (i : Int) (s : StepObs) : Bool :=
  match createdPod s with
  | none => true
  | some p => p.host == podName v.name i

def subdomainOk (v : SetV) (s : StepObs) : Bool :=
  match createdPod s with
  | none => true
  | some p => p.sub == v.svc

def podLabelOk (v : SetV) (i : Int) (s : StepObs) : Bool :=
  match createdPod s with
  | none => true
  | some p => getL p.labels podNameLabel == some (podName v.name i)

/-- the marker label the engine puts on the two templates, `cur` / `upd` -/
def builtLabel : Str := "verif-built".toList

/-- the revision label names the revision whose template the pod was built from -/
def revLabelOk (r : RevSel) (s : StepObs) : Bool :=
  match createdPod s with
  | none => true
  | some p =>
    match getL p.labels builtLabel with
    | some b => (b == "cur".toList && getL p.labels revLabel == some r.curRev) ||
                (b == "upd".toList && getL p.labels revLabel == some r.updRev)
    | none => false

/-- a controlling owner reference to the set, by UID -/
def ownerOk (v : SetV) (s : StepObs) : Bool :=
  match createdPod s with
  | none => true
  | some p => p.owners.any (fun o => o.name == v.name && o.uid == v.uid && o.controller == some true)

/-- for every claim template `T`: a volume `T` bound to claim `T-S-i`, and no volume `T` bound to anything else -/
def volumesOk (v : SetV) (i : Int) (s : StepObs) : Bool :=
  match createdPod s with
  | none => true
  | some p => v.tmpls.all fun t =>
      p.vols.any (fun x => x.name == t.name && x.claim == some (claimName t.name v.name i)) &&
      p.vols.all (fun x => !(x.name == t.name) || x.claim == some (claimName t.name v.name i))

/-- evidence that claim `name` exists in namespace `ns`: found in the informer cache, or created -/
def confirms (ns name : Str) (e : Entry) : Bool :=
  e.res == .pvc && (e.verb == .get || e.verb == .create) && e.ns == ns && e.name == name && e.result == .ok

/-- at every pod create, every claim `T-S-i` has been confirmed earlier in the log (`seen` = the prefix, reversed) -/
def claimsFirstFrom (v : SetV) (i : Int) : List Entry → List Entry → Bool
  | _, [] => true
  | seen, e :: rest =>
    (!isPodCreate e || v.tmpls.all (fun t => seen.any (confirms v.ns (claimName t.name v.name i)))) &&
      claimsFirstFrom v i (e :: seen) rest

/-- a created claim is in the set's namespace and carries the selector's match labels -/
def claimLabelOk (v : SetV) (e : Entry) : Bool :=
  !(isClaimCreate e && e.result == .ok) ||
    (e.ns == v.ns && match v.sel, e.labels with
      | some ml, some l => ml.all (fun kv => getL l kv.1 == getL (mergeL [] ml) kv.1)
      | _, _ => false)

def claimLabelsOk (v : SetV) (log : List Entry) : Bool := log.all (claimLabelOk v)

/-- a failed claim lookup or a failed claim create -/
def claimFailure (e : Entry) : Bool :=
  e.res == .pvc && ((e.verb == .get && !(e.result == .ok || e.result == .notfound)) || (e.verb == .create && !(e.result == .ok)))

/-- a claim that cannot be looked up or created prevents the pod from being created, and the step reports an error -/
def claimFailOk (s : StepObs) : Bool :=
  !(s.step == .C && s.log.any claimFailure) || (!issued s && s.out == .err)

/-- the only calls on claims are cache lookups and creates -/
def pvcWriteOk (e : Entry) : Bool := !(e.res == .pvc) || e.verb == .get || e.verb == .create

def pvcWritesOk (log : List Entry) : Bool := log.all pvcWriteOk

def claimVols (v : SetV) (p : Pod) : List Vol := p.vols.filter (fun x => v.tmpls.any (fun t => t.name == x.name))

/-- two pods created for the same ordinal are bound to the same claims -/
def sameClaimsOk (v : SetV) (steps : List StepObs) : Bool :=
  let ps := steps.filterMap createdPod
  match ps with
  | [] => true
  | p :: rest => rest.all (fun q => (claimVols v q).all (fun x => x ∈ claimVols v p) && (claimVols v p).all (fun x => x ∈ claimVols v q))

def allLog (steps : List StepObs) : List Entry := (steps.map (·.log)).flatten

/-- all clauses, with their names -/
def clauses (v : SetV) (r : RevSel) (i : Int) (steps : List StepObs) : List (String × Bool) :=
  let dom := inDomain i
  [ ("C06.name", !dom || steps.all (nameOk v i)),
    ("C06.hostname", !dom || steps.all (hostnameOk v i)),
    ("C06.subdomain", !dom || steps.all (subdomainOk v)),
    ("C06.podlabel", !dom || steps.all (podLabelOk v i)),
    ("C06.revlabel", !dom || steps.all (revLabelOk r)),
    ("C06.owner", !dom || steps.all (ownerOk v)),
    ("C06.volumes", !dom || steps.all (volumesOk v i)),
    ("C06.claimsfirst", !dom || claimsFirstFrom v i [] (allLog steps)),
    ("C06.claimlabels", claimLabelsOk v (allLog steps)),
    ("C06.claimfail", steps.all claimFailOk),
    ("C06.pvcwrites", pvcWritesOk (allLog steps)),
    ("C06.sameclaims", !dom || sameClaimsOk v steps) ]

end Asts.PodControl.Spec
