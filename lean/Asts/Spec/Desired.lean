namespace Asts

/-- The desired ordinal set, computed without the helper: scan the naturals upward and take the first `r`
    that are not in `S`. `fuel` bounds the scan; `r + |S| + 1` steps always suffice. -/
def desiredAux (S : List Int) : Nat → Int → Nat → List Int
  | 0, _, _ => []
  | _ + 1, _, 0 => []
  | fuel + 1, n, need + 1 =>
    if S.contains n then desiredAux S fuel (n + 1) (need + 1) else n :: desiredAux S fuel (n + 1) need

def desired (r : Int) (S : List Int) : List Int := desiredAux S (r.toNat + S.length + 1) 0 r.toNat

end Asts
