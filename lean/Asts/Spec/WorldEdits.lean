import Asts.Model.WorldEdits
import Asts.Spec.World
namespace Asts

/-! Monitors over a history: rounds of (settle; sync) with edits of the set by its user between them (engine `worldedit`).
    Everything is read off the case (the initial world, the script) and the implementation's observation: per round the
    edits made before it, what the set in the API looked like after them (`SpecState`, read by the harness from the API
    object), and the world engine's round observation. -/

/-- the user-controlled part of the set, as the API object shows it after an edit (plus the collision count its status carries) -/
structure SpecState where
  paused     : Bool
  template   : String
  replicas   : Option Int
  slots      : List Int
  ru         : Option (Option Int)
  generation : Int
  cc         : Option Int
  deriving Repr

structure HRound where
  edits : List Edit
  spec  : Option SpecState      -- `none`: no edit before this round
  obs   : RoundObs

def specOfWorld (i : SyncIn) : SpecState :=
  { paused := i.paused, template := i.template, replicas := i.view.replicas, slots := i.view.slots, ru := i.view.ru,
    generation := i.view.generation, cc := i.collisionCount }

/-- the set's spec state during round `k` (position in the list): what the latest edit at or before it left -/
def specAt (i0 : SyncIn) (rs : List HRound) (k : Nat) : SpecState :=
  (((rs.take (k + 1)).filterMap (·.spec)).getLast?).getD (specOfWorld i0)

def withSpec (i : SyncIn) (s : SpecState) : SyncIn :=
  { i with paused := s.paused, template := s.template, collisionCount := s.cc,
           view := { i.view with replicas := s.replicas, slots := s.slots, ru := s.ru, generation := s.generation } }

/-- the API state a round left behind, as the next round's world -/
def withObs (i : SyncIn) (r : RoundObs) : SyncIn :=
  { i with pods := r.pods, store := r.revs, stored := r.status,
           view := { i.view with stCurrentReplicas := r.status.current },
           fresh := { gone := false, uidOk := true, deleting := i.view.deleting } }

/-- the world the edits before round `k` (k ≥ 1) produced: the API state round `k-1` left, the spec state after the edits -/
def worldAtEdit (i0 : SyncIn) (rs : List HRound) (k : Nat) : SyncIn :=
  match rs[k - 1]? with
  | some p => withObs (withSpec i0 (specAt i0 rs k)) p.obs
  | none => withSpec i0 (specAt i0 rs k)

def lastEditIdx (rs : List HRound) : Option Nat :=
  (((rs.zipIdx).filter (fun (r, _) => !r.edits.isEmpty)).map (·.2)).getLast?

/-- **C02, "once the user stops editing"**: the run ends, within `roundBound` of the world the last edit produced (its pods
    settled: the premises are about pods that have had their chance to start or to finish terminating), with two silent
    rounds in the final state of that world. Without any edit: the clause of the world engine. -/
def C02afterEdits (h : Hashing) (i0 : SyncIn) (rs : List HRound) : Bool :=
  match lastEditIdx rs with
  | none => C02converges h i0 (rs.map (·.obs))
  | some k => k == 0 || C02converges h (settle (worldAtEdit i0 rs k)) ((rs.drop k).map (·.obs))

/-- same state of the API objects (pods, revisions, status) in two round observations -/
def podKey (c : CPod) := (c.name, c.owner, c.selMatch, c.pod.phase, c.pod.ready, c.pod.terminating, c.pod.rev, c.pod.idOk)
def revKey (r : Rev) := (r.name, r.number, r.owner, r.selMatch, r.marker, r.data)
def sameState (a b : RoundObs) : Bool :=
  a.pods.map podKey == b.pods.map podKey && a.revs.map revKey == b.revs.map revKey && a.status == b.status

/-- revisions and status of a round are those the previous round showed -/
def sameAsPrev (prev : Option RoundObs) (r : RoundObs) : Bool :=
  match prev with
  | some p => r.revs.map revKey == p.revs.map revKey && r.status == p.status
  | none => true

/-- the rounds of a history from a given spec state on; `prev` is what the previous round showed -/
def pausedSilentFrom (s : SpecState) (prev : Option RoundObs) : List HRound → Bool
  | [] => true
  | r :: rest =>
    let s' := r.spec.getD s
    (!s'.paused ||
      (r.obs.writes == 0 && r.obs.out == "ok" && sameAsPrev prev r.obs)) &&
    pausedSilentFrom s' (some r.obs) rest

/-- **C11, paused**: a round that starts with the pause annotation "true" issues no write of any kind and reports success;
    revisions and status are what the previous round left -/
def C11pausedSilent (i0 : SyncIn) (rs : List HRound) : Bool := pausedSilentFrom (specOfWorld i0) none rs

def endsSilent (rs : List RoundObs) : Bool :=
  match rs.reverse with
  | last :: prev :: _ => silentOk last && silentOk prev
  | _ => false

/-- the script is one pause interval and nothing else: paused before round `a`, un-paused before round `b` -/
def pauseInterval (script : Script) : Option (Nat × Nat) :=
  match script with
  | [(a, .pause true), (b, .pause false)] => if a < b then some (a, b) else none
  | _ => none

/-- **C11, lossless**: when the only edits are a pause later followed by the un-pause, the run ends in the final state (pods,
    revisions, status) of the same case never paused (`ref`: the rounds of that run), and the pause costs nothing but its
    own length: the work resumes in the very round that follows the un-pause. Judged when both runs ended by themselves. -/
def C11lossless (i0 : SyncIn) (script : Script) (rs : List HRound) (ref : List RoundObs) : Bool :=
  match pauseInterval script with
  | none => true
  | some (a, b) =>
    i0.paused || !(endsSilent ref && endsSilent (rs.map (·.obs))) ||
    (match rs.getLast?, ref.getLast? with
     | some x, some y => sameState x.obs y && rs.length ≤ max ref.length (a + 1) + (b - a)
     | _, _ => false)

def Edit.isTemplate : Edit → Bool | .template _ => true | _ => false
def Edit.isPartition : Edit → Bool | .partition _ => true | _ => false

/-- the template of round `k` has been seen by a successful reconcile of an un-paused set and not been edited since: the
    stored `status.updateRevision` is the one the template calls for -/
def templateSeen (i0 : SyncIn) (rs : List HRound) (k : Nat) : Bool :=
  (List.range k).any fun j =>
    (match rs[j]? with | some r => r.obs.out == "ok" && !(specAt i0 rs j).paused | none => false) &&
    ((rs.take (k + 1)).drop (j + 1)).all (fun r => !r.edits.any Edit.isTemplate)

def visibleRev (r : Rev) : Bool := (r.selMatch || r.marker) && r.owner != .other

/-- **C08, no restart**: a round whose preceding edits touch only replicas, delete-slots, the pause annotation or other
    metadata leaves `status.updateRevision` as it was; and no round without a template or partition edit before it — the
    round of a scaling edit or any later one — deletes a pod of the (current) desired set that is at the update revision and
    healthy: scaling in at a slot cannot trigger a rolling restart, at once or later -/
def C08noRestart (i0 : SyncIn) (rs : List HRound) : Bool :=
  (List.range rs.length).all fun k =>
    match rs[k]?, rs[k - 1]? with
    | some r, some p =>
      k == 0 || r.edits.any (fun e => e.isTemplate || e.isPartition) || !i0.selectorOk || !templateSeen i0 rs k ||
      (let s := specAt i0 rs k
       let D := desired (s.replicas.getD 0) s.slots
       (r.edits.isEmpty || r.obs.status.updateRev == p.obs.status.updateRev) &&
       p.obs.pods.all (fun c =>
         !(c.owner == .self && c.selMatch && !c.pod.terminating && !c.pod.failed && !c.pod.succeeded &&
           c.pod.rev == p.obs.status.updateRev && D.contains c.pod.ord && c.name == canonicalName i0.setName c.pod.ord) ||
         r.obs.pods.any (fun q => q.name == c.name && !q.pod.terminating)))
    | _, _ => true

def hashCompat (a b : Option Int) : Bool := match a, b with | some x, some y => x == y | _, _ => true

/-- **C08, revert**: after an edit of the template (back) to one that a revision the set can see records — with a hash label
    that does not contradict the one the template gets now — the round, once it succeeded, has created no revision, and
    `status.updateRevision` names a revision recording that template whose number no visible revision exceeds (strictly above
    all others if it had to be renumbered) -/
def C08revert (h : Hashing) (i0 : SyncIn) (rs : List HRound) : Bool :=
  (List.range rs.length).all fun k =>
    match rs[k]?, rs[k - 1]? with
    | some r, some p =>
      let s := specAt i0 rs k
      let held := p.obs.revs.any (fun q => visibleRev q && q.data == s.template && hashCompat q.hashNum (h.hashNumOf s.template (s.cc.getD 0)))
      k == 0 || !r.edits.any Edit.isTemplate || s.paused || !i0.selectorOk || r.obs.out != "ok" || !held ||
      (r.obs.revs.all (fun x => p.obs.revs.any (·.name == x.name)) &&
       r.obs.revs.any (fun u => u.name == r.obs.status.updateRev && u.data == s.template &&
         (r.obs.revs.filter visibleRev).all (fun v => v.number ≤ u.number) &&
         (p.obs.revs.any (fun q => q.name == u.name && q.number == u.number) ||
          (r.obs.revs.filter visibleRev).all (fun v => v.name == u.name || v.number < u.number))))
    | _, _ => true

end Asts
