import Asts.Model.Watch

/-! # C20 — what the property demands of a script and its observation (monitor)

Written against the observation only (the data types `Ev`, `SAct`, `Res`, `Obs` are shared with the model; nothing of its
transition function is used). The monitor replays the script, keeping the books an outside observer can keep:

* `sent`    — events whose send on the source's channel has completed (result `taken`, or `offered` and later `+t`), in order;
* `pending` — the offer the source is still blocked on;
* `got`     — events the consumer received, in order;
* whether the consumer has stopped, whether the source has ended.

Clauses:
* `relay`    every received event is `expected` of the next not-yet-received sent event (same type, same identity, StatefulSet
             payload converted to the built-in type, anything else — an error `Status` — unchanged): no loss, duplication or
             reordering up to the point reached; the consumer log is a prefix of what the source sent;
* `progress` the relay does not sit on events: a receive attempt finds `blocked` only when nothing is in flight and the watch is
             open, `closed` only after Stop or after the source ended with everything delivered; an open relay holding nothing
             takes the source's offer; the source is not stopped behind the consumer's back (a send is `dropped` only when
             the source ended, the consumer stopped, or an earlier offer is outstanding);
* `nopanic`  no panic in the relay (or in Stop);
* `stop`     every `Stop()` returns — the second one too;
* `cleanup`  at the end of the script, if the consumer stopped, or the source ended and everything sent was received, then the
             result channel is closed and the relay goroutine is gone;
* `obs`      the observation is well formed (one result of the right kind per action, the relay settled). -/
namespace Asts.Watch.Spec

/-- the event the consumer must see for a source event -/
def expected (e : Ev) : Ev :=
  match e.pay with
  | .asSet => { typ := e.typ, pay := .builtin, id := e.id }
  | _ => e

structure M where
  stopped    : Bool := false
  srcEnded   : Bool := false
  nextId     : Nat := 0
  sent       : List Ev := []
  pending    : Option Ev := none
  got        : List Ev := []
  okRelay    : Bool := true
  okProgress : Bool := true
  okStop     : Bool := true
  okObs      : Bool := true
  deriving Repr

def M.inflight (m : M) : Nat := m.sent.length - m.got.length

/-- the outstanding offer completed -/
def M.complete (m : M) : M :=
  match m.pending with
  | some e => { m with sent := m.sent ++ [e], pending := none }
  | none => { m with okObs := false }

/-- a receive attempt (also used for the final one) -/
def M.recv (m : M) (r : Res) : M :=
  match r with
  | .got o =>
    { m with got := m.got ++ [o], okRelay := m.okRelay && ((m.sent.drop m.got.length).head?.map expected == some o) }
  | .blocked => { m with okProgress := m.okProgress && (m.inflight == 0 && !m.stopped && !m.srcEnded) }
  | .closed => { m with okProgress := m.okProgress && (m.stopped || (m.srcEnded && m.inflight == 0)) }
  | _ => { m with okObs := false }

def M.action (m : M) (a : SAct) (r : Res) : M :=
  match a with
  | .send t p =>
    let e : Ev := { typ := t, pay := p, id := m.nextId }
    let m := { m with nextId := m.nextId + 1 }
    match r with
    | .taken => { m with sent := m.sent ++ [e], okObs := m.okObs && m.pending.isNone }
    | .offered => { m with pending := some e, okObs := m.okObs && m.pending.isNone }
    | .dropped => { m with okProgress := m.okProgress && (m.srcEnded || m.stopped || m.pending.isSome) }
    | _ => { m with okObs := false }
  | .close => { m with srcEnded := true, okObs := m.okObs && r == .done }
  | .recv => m.recv r
  | .stop => { m with stopped := true, okStop := m.okStop && r == .done }

/-- an offer that is withdrawn when the source ends or is stopped -/
def M.withdraw (m : M) (a : SAct) : M :=
  match a with
  | .close | .stop => { m with pending := none }
  | _ => m

/-- an open relay that holds nothing must have taken the source's offer -/
def M.idleCheck (m : M) : M :=
  { m with okProgress := m.okProgress && (m.stopped || m.srcEnded || m.pending.isNone || decide (1 ≤ m.inflight)) }

def M.step (m : M) (a : SAct) (r : SRes) : M :=
  let m := m.action a r.res
  let m := if r.took then m.complete else m
  (m.withdraw a).idleCheck

def replay : M → List SAct → List SRes → M
  | m, a :: as, r :: rs => replay (m.step a r) as rs
  | m, [], [] => m
  | m, _, _ => { m with okObs := false }

structure Verdict where
  relay    : Bool
  progress : Bool
  nopanic  : Bool
  stop     : Bool
  cleanup  : Bool
  obs      : Bool
  deriving DecidableEq, Repr

def Verdict.all (v : Verdict) : Bool := v.relay && v.progress && v.nopanic && v.stop && v.cleanup && v.obs

def noPanicRes (rs : List SRes) : Bool := rs.all fun r => r.res != .panic

def monitor (script : List SAct) (o : Obs) : Verdict :=
  let m := replay {} script o.res
  let mustBeClean := m.stopped || (m.srcEnded && m.inflight == 0)
  let f := m.recv o.final
  { relay := f.okRelay
    progress := f.okProgress
    nopanic := !o.panicked && noPanicRes o.res
    stop := f.okStop
    cleanup := !mustBeClean || (o.final == .closed && !o.relayAlive)
    obs := f.okObs }

end Asts.Watch.Spec
