import Asts.Model.World
import Asts.Spec.Sync
namespace Asts

/-! C02: the premises under which convergence is demanded (`wfWorld`), the target (`finalState`), and the monitor over the
    per-round observations of a run of (settle; sync) rounds. -/

/-- premises of C02 on the initial world: a valid spec that is neither paused nor being deleted, well-formed slots, every
    pod named after the set has a canonical name, matches the selector and is not controlled by somebody else (nothing
    squats on a name the set needs), and — the exclusion the property itself makes — under OrderedReady no Failed/Succeeded
    pod outside the desired set. -/
def wfWorld (h : Hashing) (i : SyncIn) : Bool :=
  let D := desired (replicasOf i.view) i.view.slots
  !i.paused && i.selectorOk && !i.view.deleting && !i.fresh.gone && i.fresh.uidOk && !i.fresh.deleting &&
  0 ≤ replicasOf i.view &&
  (i.view.strat == .rolling || i.view.strat == .onDelete) &&
  (match i.view.ru with | some none => false | some (some p) => 0 ≤ p | none => true) &&
  i.view.slots.all (0 ≤ ·) &&
  (match i.historyLimit with | some l => 0 ≤ l | none => false) &&
  -- a revision the listing cannot see (controlled by somebody else, or carrying neither the selector labels nor the marker)
  -- does not sit on a name the controller is going to probe: it could neither use nor replace it and would retry for ever
  i.store.all (fun r => (r.owner != .other && (r.selMatch || r.marker)) ||
    ((List.range 8).all (fun k => h.nameOf i.template ((i.collisionCount.getD 0) + k) != r.name))) &&
  i.pods.all (fun c =>
    if c.member then
      c.name == canonicalName i.setName c.pod.ord && 0 ≤ c.pod.ord && c.selMatch && c.owner != .other && c.pod.created &&
      (i.view.parallel || !((c.pod.failed || c.pod.succeeded) && !D.contains c.pod.ord))
    else c.owner != .self || true)

/-- the state C02 promises: the set's pods are exactly the desired ordinals, each Running, Ready, not terminating, with its
    identity, and — under RollingUpdate, at or above the partition — at the update revision;
    status.replicas = status.readyReplicas = spec.replicas -/
def finalState (i : SyncIn) (r : RoundObs) : Bool :=
  let D := desired (replicasOf i.view) i.view.slots
  let own := r.pods.filter (fun c => c.owner == .self)
  let names := D.map (canonicalName i.setName)
  own.all (fun c => names.contains c.name) && names.all (fun n => own.any (·.name == n)) && own.length == D.length &&
  own.all (fun c => c.pod.healthy && c.pod.idOk && c.selMatch &&
    (if i.view.strat == .rolling && partOf i.view ≤ c.pod.ord then c.pod.rev == r.status.updateRev else true)) &&
  r.status.replicas == replicasOf i.view && r.status.ready == replicasOf i.view

/-- C12 at a fixed point: the counters are an exact census of the set's live pods -/
def censusExact (r : RoundObs) : Bool :=
  let own := r.pods.filter (fun c => c.owner == .self && c.selMatch && c.member)
  r.status.replicas == own.length &&
  r.status.ready == (own.filter (·.pod.runningAndReady)).length &&
  r.status.current == (own.filter (fun c => !c.pod.terminating && c.pod.rev == r.status.currentRev)).length &&
  r.status.updated == (own.filter (fun c => !c.pod.terminating && c.pod.rev == r.status.updateRev)).length

/-- generous bound on the number of rounds (the proof sharpens it; see DESIGN C02): every pod may have to be replaced,
    terminate, be re-created and become ready, one ordinal at a time -/
def roundBound (i : SyncIn) : Nat :=
  4 * ((replicasOf i.view).toNat + i.pods.length + i.view.slots.length) + 8

def silentOk (r : RoundObs) : Bool := r.out == "ok" && r.writes == 0

/-- C02 on a run: under the premises the run ends with two silent successful rounds within the bound, in the final state;
    and whenever a round ends silent in the final state the next round is silent too -/
def C02converges (h : Hashing) (i : SyncIn) (rs : List RoundObs) : Bool :=
  !wfWorld h i ||
  (rs.length ≤ roundBound i + 2 &&
   (match rs.reverse with
    | last :: prev :: _ => silentOk last && silentOk prev && finalState i last
    | _ => false))

def C02quiet (h : Hashing) (i : SyncIn) (rs : List RoundObs) : Bool :=
  !wfWorld h i ||
  (rs.zip rs.tail).all (fun (a, b) => !(silentOk a && finalState i a) || silentOk b)

def C12census (h : Hashing) (i : SyncIn) (rs : List RoundObs) : Bool :=
  !wfWorld h i || rs.all (fun r => !silentOk r || censusExact r)

end Asts
