import Asts.Model.Sync
namespace Asts

def revWrites (cs : List RevCall) : List RevCall :=
  cs.filter fun | .list | .getSet | .get _ => false | _ => true
def revTarget : RevCall → Option String
  | .syncLabels n | .adopt n | .renumber n _ | .delete n => some n
  | _ => none
def deletesOf (cs : List RevCall) : List String := cs.filterMap fun | .delete n => some n | _ => none

/-- C11 -/
def C11 (i : SyncIn) (o : SyncOut) : Bool :=
  (if i.paused then o.revCalls.isEmpty && o.patches.isEmpty && o.acts.isEmpty && o.status.isNone else true) &&
  (if i.view.deleting then
     o.acts.isEmpty && o.patches.isEmpty &&
     o.revCalls.all (fun | .adopt _ | .syncLabels _ => false | _ => true)
   else true)

/-- C10, pods half -/
def C10pods (i : SyncIn) (o : SyncOut) : Bool :=
  o.patches.all fun
    | .adopt id => (i.pods.find? (·.pod.id == id)).any (fun c =>
        c.owner == .none && c.selMatch && c.member && !c.pod.terminating && !i.view.deleting && i.freshUidOk && !i.freshDeleting)
    | .release id => (i.pods.find? (·.pod.id == id)).any (fun c =>
        c.owner == .self && !(c.selMatch && c.member) && !i.view.deleting)

/-- C10, revisions half: nothing owned by somebody else is written -/
def C10revs (i : SyncIn) (o : SyncOut) : Bool :=
  (revWrites o.revCalls).all fun c =>
    match revTarget c with
    | some n => (i.store.find? (·.name == n)).all (fun r => r.owner != .other)
    | none => true

/-- C13 -/
def C13 (i : SyncIn) (o : SyncOut) : Bool :=
  let dels := deletesOf o.revCalls
  if dels.isEmpty then
    -- after a successful reconcile at most `limit` unused revisions of this set remain
    (if o.outcome == .ok && o.upd != "" then
       match i.historyLimit with
       | some lim =>
         let live := o.cur :: o.upd :: o.claimed.map (·.rev)
         let unused := (o.store.filter (fun r => r.owner == .self && (r.selMatch || r.marker) && !live.contains r.name))
         (unused.length : Int) ≤ lim
       | none => true
     else true)
  else
    let live := o.cur :: o.upd :: o.claimed.map (·.rev)
    let mine := i.store.filter (fun r => (r.selMatch || r.marker) && r.owner != .other)   -- own or adopted in this sync
    let unused := mine.filter (fun r => !live.contains r.name)
    dels.eraseDups.length == dels.length &&
    dels.all (fun n => unused.any (·.name == n)) &&
    (match i.historyLimit with
     | some lim => (unused.length : Int) > lim && (dels.length : Int) ≤ unused.length - lim
     | none => false)

/-- C08, store half: after a successful reconcile the update revision is stored and records the current template;
    an unchanged template (newest listed revision already records it, hash labels compatible) adds and renumbers nothing -/
def C08 (h : Hashing) (i : SyncIn) (o : SyncOut) : Bool :=
  (if o.outcome == .ok && o.upd != "" then
     (o.store.find? (·.name == o.upd)).any (fun r => r.data == i.template)
   else true) &&
  (let listed := sortRevs (listRevisions i.store)
   match listed.getLast? with
   | some l =>
     let compat := match l.hashNum, h.hashNumOf i.template i.collisionCount with | some a, some b => a == b | _, _ => true
     if l.data == i.template && compat then
       o.revCalls.all (fun | .create _ | .renumber _ _ => false | _ => true)
     else true
   | none => true)

end Asts
