import Asts.Model.Sync
import Asts.Spec.Reconcile
namespace Asts

/-! Decidable predicates for the properties that read one whole `sync`: C08 (store half), C09 (failures are reported),
    C10, C11, C13, plus C12/C15 at this level. They are evaluated on what an API-level recorder observes: the ordered
    call log (`verb:resource:name`, `list:revs`, `get:set`, `updatestatus`), the status written, a digest of the
    ControllerRevisions left in the API, the outcome, and whether any cached object was mutated. -/

/-- digest of a stored ControllerRevision after the sync -/
structure RevD where
  name : String
  number : Int
  owner : Owner
  sel : Bool
  marker : Bool
  data : String
  deriving DecidableEq, Repr

structure SyncObs where
  log    : List String
  status : Option Status
  revs   : List RevD
  out    : String          -- ok | err | panic
  mutated : Bool
  deriving Repr

/-- observation of a model run -/
def SyncOut.observe (o : SyncOut) : SyncObs :=
  { log := o.log, status := o.status,
    revs := o.store.map (fun r => { name := r.name, number := r.number, owner := r.owner, sel := r.selMatch, marker := r.marker, data := r.data }),
    out := (match o.outcome with | .ok => "ok" | .err => "err" | .panic _ => "panic"), mutated := false }

structure Entry where
  verb : String
  res  : String
  name : String
  deriving Repr

def parseEntry (e : String) : Entry :=
  match e.splitOn ":" with
  | [v, r, n] => { verb := v, res := r, name := n }
  | [v, r] => { verb := v, res := r, name := "" }
  | _ => { verb := e, res := "", name := "" }

/-- (entry, index, did an injected fault hit this call?) -/
def annotate (plan : List Fault) (log : List String) : List (Entry × Nat × Option ErrKind) :=
  let rec go (seen : List String) (idx : Nat) : List String → List (Entry × Nat × Option ErrKind)
    | [] => []
    | e :: rest =>
      let occ := (seen.filter (· == e)).length
      (parseEntry e, idx, (plan.find? (fun f => f.key == e && f.occ == occ)).map (·.kind)) :: go (e :: seen) (idx + 1) rest
  go [] 0 log

def isPodWrite (e : Entry) : Bool := (e.res == "pod" || e.res == "pvc") && e.verb != "get" && e.verb != "list"
def isRevWrite (e : Entry) : Bool := e.res == "rev" && e.verb != "get" && e.verb != "list"

def freshOk (f : Fresh) : Bool := !f.gone && f.uidOk && !f.deleting

/-- the set's own pods: controlled by it, matching, named after it -/
def ownPod (c : CPod) : Bool := c.owner == .self && c.selMatch && c.member

/-- C11: a paused set sees no call at all; a set carrying a deletion timestamp (in the cache) sees no pod or claim write,
    no adoption or release patch of pods or revisions, and no revision changes labels or owner. -/
def C11paused (i : SyncIn) (o : SyncObs) : Bool :=
  !i.paused || (o.log.isEmpty && o.status.isNone)

def C11deleting (i : SyncIn) (o : SyncObs) : Bool :=
  !i.view.deleting ||
  ((o.log.map parseEntry).all (fun e => !isPodWrite e && e.verb != "patch") &&
   i.store.all (fun r => (o.revs.find? (·.name == r.name)).all (fun d => d.owner == r.owner && d.sel == r.selMatch)))

/-- C10, pods: an adoption patch needs an unowned, matching, member, non-terminating pod, a set that is not being deleted,
    and an earlier uncached read of the set, unfailed, that found the same uid and no deletion timestamp; a release patch
    needs a pod this set controls that no longer matches; nothing owned by somebody else is patched, deleted or updated. -/
def C10pods (i : SyncIn) (plan : List Fault) (o : SyncObs) : Bool :=
  let ann := annotate plan o.log
  ann.all fun (e, idx, _) =>
    if e.res == "pod" && e.verb == "patch" then
      match i.pods.find? (·.name == e.name) with
      | none => false
      | some c =>
        match c.owner with
        | .other => false
        | .none =>
          c.selMatch && c.member && !c.pod.terminating && !i.view.deleting && freshOk i.fresh &&
          ann.any (fun (g, j, k) => g.verb == "get" && g.res == "set" && j < idx && k.isNone)
        | .self => !(c.selMatch && c.member) && !i.view.deleting
    else if e.res == "pod" && (e.verb == "delete" || e.verb == "update") then
      match i.pods.find? (·.name == e.name) with
      | none => true                                   -- an object created by this very sync, or renamed by the identity fix
      | some c =>
        c.owner != .other && c.selMatch && c.member &&
        (c.owner == .self || ann.any (fun (g, j, k) => g.verb == "patch" && g.res == "pod" && g.name == e.name && j < idx && k.isNone))
    else true

/-- C10, revisions and the set itself: no write targets a revision controlled by somebody else; the set is written only
    through its status; cached objects are left alone. -/
def C10revs (i : SyncIn) (o : SyncObs) : Bool :=
  (o.log.map parseEntry).all fun e =>
    if isRevWrite e && e.verb != "create" then (i.store.find? (·.name == e.name)).all (fun r => r.owner != .other)
    else true

def C10set (o : SyncObs) : Bool :=
  (o.log.map parseEntry).all (fun e => !(e.res == "set" && e.verb != "get"))

def C10cache (o : SyncObs) : Bool := !o.mutated

/-- revisions that belong to the set for the purpose of history: listed (selector or marker), and controlled by it —
    at entry, or adopted earlier in this sync -/
def ownListed (i : SyncIn) (plan : List Fault) (o : SyncObs) : List Rev :=
  let ann := annotate plan o.log
  (dedupByName (i.store.filter (fun r => r.selMatch || r.marker)) []).filter fun r =>
    r.owner == .self ||
    (r.owner == .none && ann.any (fun (g, _, k) => g.verb == "patch" && g.res == "rev" && g.name == r.name && k.isNone))

/-- names the reconcile treats as live: the current revision it started from, the update revision, pod labels -/
def liveNames (i : SyncIn) (plan : List Fault) (o : SyncObs) : List String :=
  let ann := annotate plan o.log
  let upd := match o.status with | some s => s.updateRev | none => i.stored.updateRev
  let listed := (i.store.filter (fun r => r.selMatch || r.marker)).map (·.name)
  let cur := if listed.contains i.stored.currentRev then i.stored.currentRev else upd
  -- the set's pods: controlled by it, or adopted earlier in this sync
  cur :: upd :: (i.pods.filter (fun c => c.selMatch && c.member && (c.owner == .self ||
      (c.owner == .none && ann.any (fun (g, _, k) => g.verb == "patch" && g.res == "pod" && g.name == c.name && k.isNone))))).map (·.pod.rev)

/-- C13 -/
def C13 (i : SyncIn) (plan : List Fault) (o : SyncObs) : Bool :=
  let ann := annotate plan o.log
  let dels := ann.filterMap fun (e, _, k) => if e.res == "rev" && e.verb == "delete" then some (e.name, k.isNone) else none
  let live := liveNames i plan o
  let own := ownListed i plan o
  let unused := sortRevs (own.filter (fun r => !live.contains r.name))
  match i.historyLimit with
  | none => true
  | some lim =>
    let budget : Int := unused.length - lim
    -- targets: own, unused, each once, only beyond the limit, oldest first
    dels.all (fun (n, _) => unused.any (·.name == n)) &&
    (dels.map (·.1)).eraseDups.length == dels.length &&
    (dels.isEmpty || ((unused.length : Int) > lim && (dels.length : Int) ≤ budget)) &&
    (dels.map (·.1)) == ((unused.take dels.length).map (·.name)) &&
    -- afterwards: a sync that ran to the end leaves at most `lim` unused own revisions
    (if o.out == "ok" && !i.paused && i.selectorOk then
       let left := o.revs.filter (fun d => own.any (·.name == d.name) && !live.contains d.name)
       (left.length : Int) ≤ max lim 0
     else true)

/-- C08, store half -/
def C08 (h : Hashing) (i : SyncIn) (o : SyncObs) : Bool :=
  let es := o.log.map parseEntry
  let upd := match o.status with | some s => s.updateRev | none => i.stored.updateRev
  -- after a successful reconcile the update revision is stored and records the current template
  (if o.out == "ok" && !i.paused && i.selectorOk then
     (o.revs.find? (·.name == upd)).any (fun d => d.data == i.template)
   else true) &&
  -- a name collision never overwrites: every revision that is still there records what it recorded before
  i.store.all (fun r => (o.revs.find? (·.name == r.name)).all (fun d => d.data == r.data)) &&
  -- an unchanged template adds no revision: the newest listed revision already records it (hash labels compatible)
  (let listed := sortRevs (listRevisions i.store)
   match listed.getLast? with
   | some l =>
     let compat := match l.hashNum, h.hashNumOf i.template (i.collisionCount.getD 0) with | some a, some b => a == b | _, _ => true
     if l.data == i.template && compat then es.all (fun e => !(e.res == "rev" && e.verb == "create")) else true
   | none => true) &&
  -- reverting to an earlier template re-uses that revision (hash labels compatible), renumbered above all others
  (let listed := listRevisions i.store
   let compat (r : Rev) := match r.hashNum, h.hashNumOf i.template (i.collisionCount.getD 0) with | some a, some b => a == b | _, _ => true
   if listed.any (fun r => r.data == i.template && compat r) then
     es.all (fun e => !(e.res == "rev" && e.verb == "create")) &&
     (if o.out == "ok" && !i.paused && i.selectorOk then
        (o.revs.find? (·.name == upd)).any (fun d => listed.all (fun r => r.name == upd || (o.revs.find? (·.name == r.name)).all (fun q => q.number ≤ d.number)))
      else true)
   else true)

/-- C09: a sync that returns success has swallowed no failure except the ones that are swallowed on purpose and retried
    elsewhere: conflicts absorbed by a retry loop, NotFound on an adoption/release patch, Invalid on a release patch,
    AlreadyExists on a revision create, and the refreshing read after a failed renumbering. -/
def C09reported (i : SyncIn) (plan : List Fault) (o : SyncObs) : Bool :=
  if o.out != "ok" then true else
  let ann := annotate plan o.log
  (ann.zip (none :: ann.map some)).all fun ((e, _, k), prev) =>
    match k with
    | none => true
    | some kind =>
      (kind == .conflict && (e.verb == "updatestatus" || (e.verb == "update" && (e.res == "rev" || e.res == "pod")))) ||
      (kind == .notFound && e.verb == "patch" && e.res == "pod") ||
      (kind == .invalid && e.verb == "patch" && e.res == "pod" && (i.pods.find? (·.name == e.name)).any (fun c => c.owner == .self)) ||
      (kind == .alreadyExists && e.verb == "create" && e.res == "rev") ||
      (e.verb == "get" && e.res == "rev" && (match prev with | some (p, _, pk) => p.verb == "update" && p.res == "rev" && p.name == e.name && pk.isSome | none => false))

/-- C10 / C11, revisions: an adoption patch of a ControllerRevision needs an earlier uncached read of the set, unfailed, that
    found the same uid and no deletion timestamp (the model-level statement is `revision_adoption_confirmed` in Props/C10) -/
def C10revAdopt (i : SyncIn) (plan : List Fault) (o : SyncObs) : Bool :=
  let ann := annotate plan o.log
  ann.all fun (e, idx, _) =>
    if e.res == "rev" && e.verb == "patch" then
      freshOk i.fresh && !i.view.deleting &&
      ann.any (fun (g, j, k) => g.verb == "get" && g.res == "set" && j < idx && k.isNone)
    else true

/-- C11, stale cache: when the API copy of the set carries a deletion timestamp nothing is adopted, neither pods nor revisions -/
def C11freshDeleting (i : SyncIn) (o : SyncObs) : Bool :=
  !i.fresh.deleting ||
  (o.log.map parseEntry).all (fun e =>
    !(e.verb == "patch" && e.res == "rev") &&
    !(e.verb == "patch" && e.res == "pod" && (i.pods.find? (·.name == e.name)).any (fun c => c.owner == .none)))

end Asts
