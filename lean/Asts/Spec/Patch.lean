import Asts.Model.PatchJson
/-! # Spec of the `patch` engine: what C18 and the byte half of C08 demand of an observation (core only)

The predicates read trees and flags of the IMPLEMENTATION's observation; they use the association-list helpers and `canon` / `toks` of
`Model/Json` (tree equality is equality of token lists — `toks` is injective, `Asts.C08bytes.toks_injective`) but nothing of `Model/Patch`. -/
namespace Asts.Patch.Spec
open Asts.Patch

def sameTree (a b : Json) : Bool := toks a == toks b

def member (k : String) : Json → Option Json
  | .obj kvs => lookup k kvs
  | _ => none

/-- `spec.template` of a tree -/
def templateOf (j : Json) : Option Json := (member "spec" j).bind (member "template")

/-- C08 (recorded data): the data is `{"spec":{"template":T'}}` with nothing else beside, `T'` carries `"$patch":"replace"`, and `T'` without the
    directive is the set's current pod template (as encoded). Both arguments are trees as `json.Unmarshal` into a map gives them (the driver
    applies `canon` to what it parsed from the implementation's bytes). -/
def recordsTemplate (enc data : Json) : Bool :=
  match data, templateOf enc with
  | .obj [(k1, .obj [(k2, .obj t')])], some (.obj t) =>
    k1 == "spec" && k2 == "template" && (match lookup "$patch" t' with | some (.str d) => d == "replace" | _ => false)
      && sameTree (.obj (eraseKey "$patch" t')) (.obj t)
  | _, _ => false

/-- the tree without its `spec.template` member -/
def dropTemplate (j : Json) : Json :=
  match j with
  | .obj top =>
    match lookup "spec" top with
    | some (.obj spec) => .obj (insertKey "spec" (.obj (eraseKey "template" spec)) (eraseKey "spec" top))
    | _ => j
  | _ => j

/-- C08 (restore): applying the data recorded for the set `a` to the set `b` gives `r` with `a`'s template and everything else of `b`
    (trees as unmarshalled into maps, as above) -/
def restores (a b r : Json) : Bool :=
  match templateOf r, templateOf a with
  | some tr, some ta => sameTree tr ta && sameTree (dropTemplate r) (dropTemplate b)
  | _, _ => false

end Asts.Patch.Spec
