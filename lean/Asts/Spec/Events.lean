import Asts.Model.Events
namespace Asts.Events.Spec
open Asts.Events

/-! C16 — no lost wake-ups, as decidable predicates over *(cache, event, keys found in the work queue)* and over
    *(set shapes, worker script, observed worker steps)*. Written from the property text, using only the data types of
    `Model/Events` (none of its functions):

    * creation, update or deletion (also one learned through a tombstone) of a pod controlled by a set wakes that set;
    * when the controlling owner changes, the old and the new owner are both woken;
    * an unowned pod whose labels match wakes every matching set — when it appears, and when its labels or its owner changed;
    * any change to a set wakes it;
    * nothing else is woken: an owner that does not designate a cached set (other kind, unknown name, stale uid), an unowned
      pod going away, an update between equal resource versions, a pod no set selects;
    * a reconcile that fails is put back with backoff (`AddRateLimited`, requeue count + 1) and one that succeeds clears its
      backoff (`Forget`, requeue count 0). -/

/-- the informer cache holds at most one set per namespace/name -/
def cacheOk : List SetObj → Bool
  | [] => true
  | s :: rest => !rest.any (fun t => t.ns == s.ns && t.name == s.name) && cacheOk rest

/-- an update is about one object: the old and the new state are in the same namespace -/
def eventOk : Event → Bool
  | .update old cur => old.ns == cur.ns
  | _ => true

/-- the controlling owner reference of a pod (the API admits at most one; the first is taken) -/
def ctrlRef (p : Pod) : Option OwnerRef := (p.owners.filter (fun r => r.controller == some true)).head?

/-- identity of the controlling owner -/
def ownerId (p : Pod) : Option (String × String × String) := (ctrlRef p).map (fun r => (r.kind, r.name, r.uid))

/-- the cached set a reference designates: same namespace, kind StatefulSet, same name, same uid -/
def designates (sets : List SetObj) (ns : String) (r : OwnerRef) : Option Key :=
  if r.kind = "StatefulSet" ∧ sets.any (fun s => s.ns == ns && s.name == r.name && s.uid == r.uid) = true
  then some (ns, r.name) else none

/-- the set that controls the pod, if it is a cached set -/
def ownerKey (sets : List SetObj) (p : Pod) : Option Key := (ctrlRef p).bind (designates sets p.ns)

def labelsOf (p : Pod) : List Label := p.labels.getD []

/-- a set selects a pod: same namespace, a selector that converts and is not empty, every requirement among the pod's labels -/
def selects (s : SetObj) (p : Pod) : Bool :=
  s.ns == p.ns &&
  match s.sel with
  | .labels l => !l.isEmpty && l.all (fun r => (labelsOf p).contains r)
  | _ => false

def matching (sets : List SetObj) (p : Pod) : List Key := (sets.filter (fun s => selects s p)).map (fun s => (s.ns, s.name))

/-- the event is about a pod as it now is (`none` for set events and for delete events that carry no pod) -/
def podOf : Event → Option Pod
  | .add p | .update _ p | .delete p | .tombstone p => some p
  | _ => none

/-- an update between equal resource versions is a resync, not a change -/
def isResync : Event → Bool
  | .update old cur => old.rv == cur.rv
  | _ => false

/-- the pod is appearing or changing (not going away) -/
def isArrival : Event → Bool
  | .add p => !p.terminating
  | .update _ _ => true
  | _ => false

/-- for an unowned pod: did anything change that could make a set want it now -/
def orphanNews : Event → Bool
  | .add _ => true
  | .update old cur => decide (labelsOf old ≠ labelsOf cur) || decide (ownerId old ≠ ownerId cur)
  | _ => false

/-- the keys that have to be woken by an event (the whole table) -/
def expected (sets : List SetObj) (ev : Event) : List Key :=
  match ev with
  | .setAdd k | .setUpdate k | .setDelete k | .setTombstone k => [k]
  | .tombstoneOther | .deleteOther => []
  | .delete p | .tombstone p => (ownerKey sets p).toList
  | .add p =>
    if p.terminating then (ownerKey sets p).toList
    else if (ctrlRef p).isSome then (ownerKey sets p).toList else matching sets p
  | .update old cur =>
    if old.rv == cur.rv then [] else
    (if ownerId old ≠ ownerId cur then (ownerKey sets old).toList else []) ++
    (if (ctrlRef cur).isSome then (ownerKey sets cur).toList
     else if orphanNews (.update old cur) then matching sets cur else [])

def subset (a b : List Key) : Bool := a.all (fun k => b.contains k)
def sameSet (a b : List Key) : Bool := subset a b && subset b a

/-! ### clauses (each: precondition → demand; `true` when the row does not apply) -/

/-- the key, if there is one, is among the woken -/
def wokenIf (o : Option Key) (keys : List Key) : Bool :=
  match o with
  | none => true
  | some k => keys.contains k

/-- C16.owner — add / update / delete / tombstone of a pod controlled by a cached set wakes that set -/
def ownerWoken (sets : List SetObj) (ev : Event) (keys : List Key) : Bool :=
  match podOf ev with
  | none => true
  | some p => isResync ev || wokenIf (ownerKey sets p) keys

/-- C16.oldowner — when the controlling owner changed, the old owner is woken too -/
def oldOwnerWoken (sets : List SetObj) (ev : Event) (keys : List Key) : Bool :=
  match ev with
  | .update old cur => old.rv == cur.rv || decide (ownerId old = ownerId cur) || wokenIf (ownerKey sets old) keys
  | _ => true

/-- C16.orphan — an unowned pod appearing, or changing labels or owner, wakes every set that selects it -/
def orphanWoken (sets : List SetObj) (ev : Event) (keys : List Key) : Bool :=
  match podOf ev with
  | none => true
  | some p => isResync ev || !isArrival ev || (ctrlRef p).isSome || !orphanNews ev || subset (matching sets p) keys

/-- C16.set — any change to a set wakes it -/
def setWoken (ev : Event) (keys : List Key) : Bool :=
  match ev with
  | .setAdd k | .setUpdate k | .setDelete k | .setTombstone k => keys.contains k
  | _ => true

/-- C16.quiet — nothing else is woken -/
def nothingElse (sets : List SetObj) (ev : Event) (keys : List Key) : Bool := subset keys (expected sets ev)

/-- C16.exact — the queue holds exactly the expected keys -/
def exact (sets : List SetObj) (ev : Event) (keys : List Key) : Bool := sameSet keys (expected sets ev)

/-! ### worker -/

/-- a reconcile of `k` fails exactly when the set is reconciled at all and the control reports an error -/
def reconcileFails (shapeOf : Key → Shape) (k : Key) (sc : Scripted) : Bool :=
  shapeOf k == .normal && sc != .ok

/-- requeue count demanded after a history of reconcile results of one key (`true` = failed), oldest first:
    the length of the trailing run of failures -/
def trailingFailures (results : List Bool) : Nat := (results.reverse.takeWhile (fun r => r)).length

/-- one observed worker step against what the property demands; `prev` = the requeue counts before the step -/
def stepOk (shapeOf : Key → Shape) (prev : Key → Nat) (op : Op) (obs : StepObs) : Bool :=
  match op, obs with
  | .process sc, .processed k calls n len =>
    calls.head? == some "get" && calls.getLast? == some "done" &&
    (if reconcileFails shapeOf k sc then
       -- put back with backoff
       calls.contains "arl" && !calls.contains "forget" && n == prev k + 1 && 1 ≤ len
     else
       -- backoff cleared, not put back
       calls.contains "forget" && !calls.contains "arl" && !calls.contains "add" && !calls.contains "addafter" && n == 0)
  | .process _, .idle => true
  | .event _, .queued len => 1 ≤ len
  | _, _ => false

def nextPrev (prev : Key → Nat) : StepObs → Key → Nat
  | .processed k _ n _ => fun k' => if k' = k then n else prev k'
  | _ => prev

/-- C16.worker — every step of an observed run meets `stepOk`, the requeue counts being tracked from the observation itself -/
def workerOk (shapeOf : Key → Shape) : (Key → Nat) → List Op → List StepObs → Bool
  | _, [], [] => true
  | prev, op :: ops, o :: obs => stepOk shapeOf prev op o && workerOk shapeOf (nextPrev prev o) ops obs
  | _, _, _ => false

end Asts.Events.Spec
