import Asts.Spec.Sync
import Asts.Model.World
namespace Asts

/-! Monitor clauses that used to live only inside the drivers (`Driver/Reconcile.lean` `monitorRc`, `Driver/Sync.lean`
    `monitorSync`) as anonymous Boolean expressions. They are named here so that the run-time monitor (which evaluates them
    on the observation of the REAL code) and the theorems of `Props/Glue2.lean` (which evaluate them on the observation of
    the MODEL) share one definition. Core-only: the native driver imports this file. -/

/-- `C04.removed`, reconcile level — "whose failed/succeeded pod it has just REMOVED": no create at an ordinal whose delete
    earlier in the same reconcile was refused (`faults` lists the failing pod-control calls as (verb, ordinal), verb 1 = delete) -/
def C04removedRc (faults : Faults) (acts : List OAct) : Bool :=
  (List.range acts.length).all (fun k => match acts[k]? with
    | some (.create o _) => !(faults.contains (1, o) &&
        (acts.take k).any (fun b => match b with | .delete o' (some _) => o' == o | _ => false))
    | _ => true)

/-- `C04.removed`, sync level: no `create:pod:<n>` call after a `delete:pod:<n>` call of the same sync that an injected
    fault hit -/
def C04removedSync (plan : List Fault) (log : List String) : Bool :=
  (annotate plan log).all (fun (e, idx, _) =>
    !(e.verb == "create" && e.res == "pod") ||
    !(annotate plan log).any (fun (g, j, k) => g.verb == "delete" && g.res == "pod" && g.name == e.name && j < idx && k.isSome))

/-- `C11.revowner` — adoption by ANY verb: when adoption is not allowed (the set is gone, re-created or being deleted in the
    API, or deleting in the cache) no revision that was not the set's own ends up controlled by it, whichever call did it -/
def C11revowner (i : SyncIn) (o : SyncObs) : Bool :=
  (freshOk i.fresh && !i.view.deleting) ||
    i.store.all (fun r => r.owner == .self || o.revs.all (fun d => d.name != r.name || d.owner != .self))

/-- `C18.adopted` — migration: after a successful sync of a live, confirmed set every orphan revision it can see (selector
    labels or its upgrade marker) that still exists is controlled by it -/
def C18adopted (i : SyncIn) (plan : List Fault) (o : SyncObs) : Bool :=
  o.out != "ok" || i.paused || !i.selectorOk || i.view.deleting || !freshOk i.fresh || !plan.isEmpty ||
    i.store.all (fun r => !(r.owner == .none && (r.selMatch || r.marker)) || o.revs.all (fun d => d.name != r.name || d.owner == .self))

/-- ordinal of the pod a pod-control call names: the cached pod of that name, else the canonical name read back -/
def podOrdOf (i : SyncIn) (n : String) : Int :=
  match i.pods.find? (·.name == n) with
  | some c => c.pod.ord
  | none => (((List.range 256).map Int.ofNat).find? (fun o => canonicalName i.setName o == n)).getD (-1)

/-- revision label of the `k`-th create of that name, as the harness recorded it (`<name>@<rev>` tokens) -/
def podRevOf (creates : List String) (n : String) (k : Nat) : String :=
  let hits := creates.filterMap (fun t => match t.splitOn "@" with | [nm, rv] => if nm == n then some rv else none | _ => none)
  hits.getD k ""

def podActsGo (i : SyncIn) (creates : List String) (seen : List String) (prev : Option String) : List String → List OAct
  | [] => []
  | e :: rest =>
    match e.splitOn ":" with
    | ["create", "pod", n] =>
      .create (podOrdOf i n) (podRevOf creates n ((seen.filter (· == e)).length)) :: podActsGo i creates (e :: seen) (some e) rest
    | ["delete", "pod", n] =>
      -- after a create of the same name in this sync the delete targets the object just built, not the cached pod
      let fresh := seen.contains s!"create:pod:{n}"
      .delete (podOrdOf i n) (if fresh then none else (i.pods.find? (·.name == n)).map (·.pod.id)) :: podActsGo i creates (e :: seen) (some e) rest
    | ["update", "pod", n] =>
      if prev == some e then podActsGo i creates (e :: seen) (some e) rest
      else .update (podOrdOf i n) :: podActsGo i creates (e :: seen) (some e) rest
    | _ => podActsGo i creates seen prev rest

/-- the pod-control calls of a call log as observed actions of the reconcile (what a recording pod control would have
    seen): creates carry the revision label the harness recorded, deletes the identity of the cached pod they name, a burst
    of retried updates counts once -/
def podActs (i : SyncIn) (log : List String) (creates : List String) : List OAct :=
  podActsGo i creates [] none log

/-- `C12.completion`, sync level: the completion rule judged on the status a whole sync wrote and on the pod-control calls
    of its log; `m` is the model's run (it supplies the revisions the sync resolved and the pods it claimed) -/
def C12completionSync (i : SyncIn) (m : SyncOut) (o : SyncObs) (creates : List String) : Bool :=
  !(m.upd != "") ||
    (match o.status with
     | some st => C12complete m.cur m.upd (m.claimed.map (·.pod)) (podActs i o.log creates) st
     | none => true)

/-- `C18.stable` — migration, over several reconciles: while a revision that records the current template sits on the name the
    controller probes first (`h.nameOf i.template cc0`, whoever owns it — the built-in set's revision before the garbage
    collector has orphaned it), no reconcile of a live set adds another revision recording that template: every revision
    recording the template that a round leaves bears a name of the initial store -/
def C18stable (h : Hashing) (i : SyncIn) (plan : List Fault) (rs : List RoundObs) : Bool :=
  let cc0 : Int := i.collisionCount.getD 0
  let held := i.store.any (fun r => r.name == h.nameOf i.template cc0 && r.data == i.template)
  !held || i.paused || !i.selectorOk || i.view.deleting || !plan.isEmpty ||
  rs.all (fun r => r.revs.all (fun d => d.data != i.template || i.store.any (fun q => q.name == d.name)))

end Asts
