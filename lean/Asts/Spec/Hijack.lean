import Asts.Model.Hijack
namespace Asts.Hijack.Spec
open Asts Asts.Codec Asts.Hijack

/-! C19 for the verbs of the hijack client, as decidable predicates over what the `hijack` engine observes of one step:
    what the INNER (Advanced) client was asked and what it answered — recorded by the harness around the inner client —
    and what the hijack verb handed back. A built-in StatefulSet written through the hijack client and read back comes
    back as the built-in equivalent of what the Advanced API holds, typed apps/v1, lists with their length and order;
    an error of the Advanced API comes out as that error, with no object. -/

/-- what the inner client answered during the step -/
inductive InnerObs where
  | notCalled
  | ok
  | err (k : ErrKind)
  | unknown
  deriving Repr, DecidableEq, Inhabited

/-- what the hijack verb handed back -/
inductive RetObs where
  | nil
  /-- an object: its apiVersion; semantically equal to the built-in equivalent of what the inner client answered -/
  | obj (apiVersion : String) (eq : Bool)
  /-- a list: its apiVersion, the distinct apiVersions of its items, items the inner client answered, items returned,
      names in the same order, items equal as above, list metadata kept -/
  | list (apiVersion itemVersions : String) (nInner : Int) (m : Nat) (order eq lmeta : Bool)
  | stream
  /-- verbs that have no result (Delete, DeleteCollection) -/
  | unit
  | unknown
  deriving Repr, DecidableEq, Inhabited

structure StepObs where
  step : Step
  inner : InnerObs
  /-- the inner calls seen during the step -/
  calls : List String
  /-- the inner call carried what the hijack verb was given -/
  sent : Bool
  ret : RetObs
  /-- class of the returned error and whether it `Is` the inner client's -/
  err : Option (ErrKind × Bool)
  deriving Repr, Inhabited

/-- a proper result for the step's verb: non-nil, typed apps/v1, equal to the built-in equivalent of the inner answer -/
def goodRet (st : Step) : RetObs → Bool
  | .obj av eq => st.shape == .obj && av == "apps/v1" && eq
  | .list av iv n m order eq lmeta =>
    st.shape == .list && av == "apps/v1" && (iv == "apps/v1" || (m == 0 && iv == "")) && n == (m : Int) && order && eq && lmeta
  | .stream => st.shape == .stream
  | .unit => st.shape == .done
  | _ => false

/-- no object -/
def noRet (st : Step) : RetObs → Bool
  | .nil => st.shape != .done
  | .unit => st.shape == .done
  | _ => false

/-- the verb reached the inner client exactly once, with the inner verb of the same name and what it was given -/
def sentOk (o : StepObs) : Bool := o.calls == [o.step.call] && o.sent

/-- the inner client succeeded: its answer comes back converted, and no error -/
def retOk (o : StepObs) : Bool :=
  match o.inner with
  | .ok => goodRet o.step o.ret && o.err.isNone
  | .unknown => false
  | _ => true

/-- the inner client failed: the same error (class, and the value itself) comes out, with no object -/
def errOk (o : StepObs) : Bool :=
  match o.inner with
  | .err k => noRet o.step o.ret && o.err == some (k, true)
  | _ => true

def stepOk (o : StepObs) : Bool := sentOk o && retOk o && errOk o

/-- the verb's name in clause names -/
def verbName : Step → String
  | .create => "create"
  | .get => "get"
  | .update => "update"
  | .updateStatus => "updatestatus"
  | .list => "list"
  | .patchMerge => "patch"
  | .patchJson => "patch"
  | .patchStrategic => "patch"
  | .patchStatus => "patch"
  | .apply => "apply"
  | .applyStatus => "applystatus"
  | .delete => "delete"
  | .deleteCollection => "deletecollection"
  | .watch => "watch"

def sentClause (st : Step) : String :=
  if st == .apply || st == .applyStatus then "C19.apply.sent" else "C19.sent." ++ verbName st

def stepClauses (o : StepObs) : List (String × Bool) := [
  (sentClause o.step, sentOk o),
  ("C19.ret." ++ verbName o.step, retOk o),
  ("C19.err." ++ verbName o.step, errOk o)]

/-- `FromBuiltinStatefulSetApplyConfiguration` on the configuration of the case's object -/
structure ConvObs where
  /-- ok | nil | err | panic -/
  res : String
  apiVersion : String
  /-- every value the Advanced configuration has a place for arrived -/
  arrive : Bool
  /-- nothing non-empty was invented -/
  clean : Bool
  deriving Repr, DecidableEq, Inhabited

/-- the conversion of an apply configuration never fails (fields the Advanced type does not know included), stamps the
    Advanced apiVersion and keeps what was set -/
def convOk (c : ConvObs) : Bool := c.res == "ok" && c.apiVersion == "apps.pingcap.com/v1" && c.arrive && c.clean

structure Obs where
  conv : ConvObs
  convExtra : ConvObs
  steps : List StepObs
  deriving Repr, Inhabited

def clauses (o : Obs) : List (String × Bool) :=
  ("C19.apply.conv", convOk o.conv && convOk o.convExtra) :: o.steps.flatMap stepClauses

def runOk (l : List StepObs) : Bool := l.all stepOk

/-! ### the model's observation -/

def apiVersionOf (v : GoVal) : String :=
  match topField "apiVersion" v with
  | some (.str s) => s
  | _ => ""

def itemsOf (l : GoVal) : List GoVal :=
  match topField "items" l with
  | some (.slice (some xs)) => xs
  | _ => []

def insertS (s : String) : List String → List String
  | [] => [s]
  | t :: rest => if s == t then t :: rest else if s < t then s :: t :: rest else t :: insertS s rest

/-- distinct apiVersions of the items, sorted, joined by `+` (`-` for an empty one), as the harness prints them -/
def versionsOf (xs : List GoVal) : String :=
  "+".intercalate ((xs.map fun x => let v := apiVersionOf x; if v == "" then "-" else v).foldr insertS [])

/-- One step as the model has it. The comparison `eq` is made by the harness between the implementation's result and
    its own computation of the built-in equivalent of the inner answer; the model's result IS that equivalent
    (`hijack … (.ok (.obj a)) = .ok (.obj (toBuiltin a))`), so the flag is true here. -/
def observe (st : Step) (inner out : Res Out) : StepObs :=
  { step := st,
    inner := (match inner with | .ok _ => .ok | .err k => .err k),
    calls := [st.call],
    sent := true,
    ret := (match out with
      | .ok (.obj b) => .obj (apiVersionOf b) true
      | .ok (.list bl) =>
        (match inner with
         | .ok (.list al) => .list (apiVersionOf bl) (versionsOf (itemsOf bl)) (itemsOf al).length (itemsOf bl).length true true true
         | _ => .unknown)
      | .ok .done => .unit
      | .ok .stream => .stream
      | .err _ => if st.shape == .done then .unit else .nil),
    err := (match out with | .err k => some (k, true) | .ok _ => none) }

/-- a whole script as the model has it: the fake store decides what the inner client answers (`innerStep`), the hijack
    verb wraps it -/
def observeRun (S : Schemas) (a : GoVal) : Store → List (Step × Option ErrKind) → List StepObs
  | _, [] => []
  | s, (st, fault) :: rest =>
    let r := innerStep a s st fault
    observe st r.1 (hijack S st r.1) :: observeRun S a r.2 rest

/-- what the engine observes of the conversion of an apply configuration when the property holds -/
def convGood : ConvObs := { res := "ok", apiVersion := "apps.pingcap.com/v1", arrive := true, clean := true }

end Asts.Hijack.Spec
