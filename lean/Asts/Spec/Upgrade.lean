import Asts.Model.Upgrade
namespace Asts.Upgrade.Spec

/-! Decidable predicates (monitors) for C17, over what is *observed* of a case: the calls of every run (for the delete of
    the built-in StatefulSet: its propagation policy and the stored state at that instant), the outcome of every run, the
    final stored state, and the final stored state of an uninterrupted run from the same start. They use the vocabulary of
    `Model/Upgrade` (labels, selector matching = the API's semantics, `World2`, `Act`) but not the model of the helper. -/

/-- the revision no longer carries a match-label key of the selector and carries the marker naming the set
    (a selector whose match labels contain the marker key itself cannot have both; the marker wins) -/
def revRelabelled (p : Params) (r : Rev) : Bool :=
  match r.labels with
  | none => false
  | some l => lookup marker l == some p.name && p.sel.ml.all (fun kv => kv.1 == marker || (lookup kv.1 l).isNone)

/-- an Advanced StatefulSet of that name is stored with the built-in object's spec and status -/
def asEqual (p : Params) (w : World2) : Bool :=
  match w.asts with
  | some a => a.spec == p.spec && a.status == p.status
  | none => false

/-- every revision that matched the selector at entry (state `w0`) is stored relabelled in `pre` -/
def revsReady (p : Params) (w0 pre : World2) : Bool :=
  w0.revs.all fun r0 => !r0.selected p || pre.revs.any (fun r => r.name == r0.name && revRelabelled p r)

def isDeleteSts : Act → Bool
  | .deleteSts _ _ => true
  | _ => false

/-- C17.orphan: the built-in set is only ever deleted with orphan propagation -/
def orphanOnly : Act → Bool
  | .deleteSts pol _ => pol == .orphan
  | _ => true

/-- C17.asfirst: when the delete is issued the Advanced StatefulSet exists with equal spec and status -/
def asFirst (p : Params) : Act → Bool
  | .deleteSts _ pre => asEqual p pre
  | _ => true

/-- C17.relabelled: when the delete is issued every revision selected at entry has been relabelled -/
def relabelledFirst (p : Params) (w0 : World2) : Act → Bool
  | .deleteSts _ pre => revsReady p w0 pre
  | _ => true

/-- C17.nopodclaim: no call on pods or claims at all -/
def noPodClaim : Act → Bool
  | .other _ res _ => res != "pods" && res != "pvc"
  | _ => true

/-- one call is safe: if it is the delete of the built-in set, it is issued with orphan propagation from a state in which
    the Advanced StatefulSet is in place and the revisions selected at entry (state `w0`) are relabelled; it is no call on a
    pod or a claim -/
def actSafe (p : Params) (w0 : World2) (a : Act) : Bool :=
  orphanOnly a && asFirst p a && relabelledFirst p w0 a && noPodClaim a

/-- prefix safety of one trace: every call in it is safe -/
def traceSafe (p : Params) (w0 : World2) (t : List Act) : Bool := t.all (actSafe p w0)

/-- prefix safety of a whole case (all runs; `w0` is the state before the first run) -/
def safeRuns (p : Params) (w0 : World2) (rs : List (List Act × Outcome)) : Bool :=
  rs.all fun r => traceSafe p w0 r.1

/-- C17.revskept: every revision stored at entry is still stored (under its name) -/
def revsKept (w0 w : World2) : Bool :=
  w0.revs.all fun r0 => w.revs.any (·.name == r0.name)

/-- C17.untouched: pods and claims are what they were -/
def untouched (w0 w : World2) : Bool := w.pods == w0.pods && w.claims == w0.claims

/-- C17.rerunok: a fault-free run succeeds -/
def rerunOk (out : Outcome) : Bool := out == .ok

/-- C17.samefinal: after a fault-free last run the stored state is the final state of an uninterrupted run -/
def sameFinal (final ref : World2) : Bool := final == ref

/-- the final state an upgrade is meant to reach: built-in set gone, Advanced set equal, selected revisions relabelled -/
def upgraded (p : Params) (w0 w : World2) : Bool :=
  !w.sts && asEqual p w && revsReady p w0 w && revsKept w0 w && untouched w0 w

end Asts.Upgrade.Spec
