import Asts.Model.Annot
namespace Asts.Annot.Spec
open Asts Asts.Annot

/-! C19, annotation half, as decidable predicates over what an observer sees: the *view* of the annotation map (the set
    read back by `GetDeleteSlots`, the flag read back by `GetPausedReconcile`, the entries) before and after one helper
    call, the call and its return value. Only the data types are shared with the model; the predicates do not mention
    any model function (no `dedupSort`, no `render`/`parse`, no `setSlots`). -/

/-- equality of two integer lists as sets -/
def sameSet (a b : List Int) : Bool := a.all (fun x => b.contains x) && b.all (fun x => a.contains x)

/-- the entries under keys other than `k` -/
def others (k : String) (l : Entries) : Entries := l.filter (fun e => e.1 ≠ k)

def hasKey (k : String) (l : Entries) : Bool := l.any (fun e => e.1 == k)

def argOf (s : Option (List Int)) : List Int := s.getD []

/-- writing a set and reading it back yields the same set -/
def setReadBack (op : Op) (after : View) : Bool :=
  match op with
  | .set s => sameSet after.slots (argOf s)
  | _ => true

/-- writing an empty (or nil) set removes the annotation -/
def setEmptyRemoves (op : Op) (after : View) : Bool :=
  match op with
  | .set s => !(argOf s).isEmpty || !hasKey slotsKey after.entries
  | _ => true

/-- adding slots yields the union of what was readable before and the argument -/
def addIsUnion (before : View) (op : Op) (after : View) : Bool :=
  match op with
  | .add s => sameSet after.slots (before.slots ++ argOf s)
  | _ => true

/-- the pause flag reads back as written -/
def pauseReadBack (op : Op) (after : View) : Bool :=
  match op with
  | .pause b => after.paused == b
  | _ => true

/-- no helper disturbs any annotation other than its own (the read helpers disturb none at all) -/
def othersUntouched (before : View) (op : Op) (after : View) : Bool :=
  match op with
  | .set _ | .add _ => others slotsKey after.entries == others slotsKey before.entries
  | .pause _ => others pausedKey after.entries == others pausedKey before.entries
  | .get | .isPaused => after.entries == before.entries && after.isNil == before.isNil

/-- the read helpers return what the view shows; the write helpers succeed -/
def retOk (before : View) (op : Op) (r : Ret) : Bool :=
  match op, r with
  | .get, .slots l => l == before.slots
  | .isPaused, .flag b => b == before.paused
  | .set _, .ok | .add _, .ok | .pause _, .ok => true
  | _, _ => false

def clauses (before : View) (op : Op) (r : Ret) (after : View) : List (String × Bool) := [
  ("C19.set-readback", setReadBack op after),
  ("C19.set-empty-removes", setEmptyRemoves op after),
  ("C19.add-union", addIsUnion before op after),
  ("C19.pause-readback", pauseReadBack op after),
  ("C19.others-untouched", othersUntouched before op after),
  ("C19.helper-ret", retOk before op r)]

def stepOk (before : View) (op : Op) (r : Ret) (after : View) : Bool :=
  (clauses before op r after).all (·.2)

/-- slot values a caller can pass: `sets.Int32` holds int32 values only -/
def opInt32 : Op → Bool
  | .set s | .add s => (argOf s).all JsonInts.inInt32
  | _ => true

/-- a whole run: every step satisfies every clause -/
def runOk (before : View) : List Op → List (Ret × View) → Bool
  | [], [] => true
  | op :: ops, (r, after) :: rest => stepOk before op r after && runOk after ops rest
  | _, _ => false

end Asts.Annot.Spec
