import Asts.Model.Status
import Asts.Spec.Desired
namespace Asts

/-! Decidable predicates (monitors) for the properties that read one reconcile: C01(d), C03, C04, C05, C07, C12, C14, C15.
    They are evaluated on *observed* actions — what a recording pod control sees: the verb, the ordinal parsed from the
    pod's name, the revision label of a created pod, and which pod object of the snapshot a delete was given
    (`none` = an object this reconcile built itself). The same predicates are what the theorems in `Asts/Props` are about. -/

inductive OAct
  | create (ord : Int) (rev : String)
  | delete (ord : Int) (id : Option Nat)
  | update (ord : Int)
  deriving DecidableEq, Repr

/-- what the recording pod control observes of a model action -/
def Action.observe : Action → OAct
  | .create o r => .create o r
  | .delete o id _ => .delete o (if id < freshId then some id else none)
  | .update o => .update o

def observe (acts : List Action) : List OAct := acts.map Action.observe

namespace OAct
def isCreate : OAct → Bool | .create _ _ => true | _ => false
def isDelete : OAct → Bool | .delete _ _ => true | _ => false
def ord : OAct → Int | .create o _ => o | .delete o _ => o | .update o => o
end OAct

def podById (pods : List Pod) (id : Nat) : Option Pod := pods.find? (·.id == id)
def podAt (pods : List Pod) (o : Int) : Option Pod := pods.find? (·.ord == o)
def healthyAt (pods : List Pod) (o : Int) : Bool := (podAt pods o).any Pod.healthy
/-- pods of the snapshot that are outside the desired set (names that do not parse are not members at all) -/
def condemnedSpec (D : List Int) (pods : List Pod) : List Pod := pods.filter (fun p => 0 ≤ p.ord && !D.contains p.ord)

def partitionOf (v : SetView) : Int := match v.ru with | some (some p) => p | _ => 0

/-- the replica count the CRD guarantees to be present (`replicas` is required and defaulted) -/
def replicasOf (v : SetView) : Int := v.replicas.getD 0

def createOrds (acts : List OAct) : List Int := acts.filterMap fun | .create o _ => some o | _ => none

inductive DelClass | scale | replace | update | unknown
  deriving DecidableEq, Repr

/-- which clause of C03 a delete falls under, judged from the snapshot alone -/
def classify (D : List Int) (pods : List Pod) : OAct → DelClass
  | .delete _ (some id) =>
    match podById pods id with
    | none => .unknown
    | some p => if !D.contains p.ord then .scale else if p.failed || p.succeeded then .replace else .update
  | .delete _ none => .update      -- an object built by this reconcile: only the update walk can reach it
  | _ => .unknown

def updateDeletes (D : List Int) (pods : List Pod) (acts : List OAct) : List Int :=
  acts.filterMap fun a => if a.isDelete && classify D pods a == .update then some a.ord else none
def scaleDeletes (D : List Int) (pods : List Pod) (acts : List OAct) : List Int :=
  acts.filterMap fun a => if a.isDelete && classify D pods a == .scale then some a.ord else none

def distinctOrds (pods : List Pod) : Bool := ((pods.map (·.ord)).eraseDups).length == pods.length

/-- Snapshots the ordering properties speak about: every pod object carries a phase (the API server stamps `Pending` on
    create) and no two pods parse to the same ordinal (only a hand-made pod with a non-canonical name such as `web-01`
    can collide with `web-1`). Outside it "the pod at ordinal i" is ambiguous; C03, C12 and C15 do not need it. -/
def wfSnapshot (pods : List Pod) : Bool := pods.all Pod.created && distinctOrds pods

/-- C01 (d): the controller creates pods only at desired ordinals -/
def C01creates (v : SetView) (acts : List OAct) : Bool :=
  let D := desired (replicasOf v) v.slots
  (createOrds acts).all D.contains

/-- walk an action list with the prefix before each action and the action after it -/
def allWithContext (p : List OAct → OAct → Option OAct → Bool) : List OAct → List OAct → Bool
  | _, [] => true
  | before, a :: rest => p before a rest.head? && allWithContext p (before ++ [a]) rest

/-- C03: every delete is (a) outside the desired set, (b) a Failed/Succeeded pod that is immediately replaced (or the
    reconcile stopped right there with an error), or (c) not OnDelete, at or above the partition, revision ≠ update revision.
    A delete of an object the reconcile itself created earlier in the list is judged by (c) on that create. -/
def C03 (v : SetView) (upd : String) (pods : List Pod) (acts : List OAct) (outOk : Bool) : Bool :=
  let D := desired (replicasOf v) v.slots
  allWithContext (fun before a next =>
    match a with
    | .delete o (some id) =>
      (match podById pods id with
       | none => false
       | some p => p.ord == o &&
          (!D.contains o
           || ((p.failed || p.succeeded) && (match next with | some (.create o' _) => o' == o | some _ => false | none => !outOk))
           || (v.strat != .onDelete && partitionOf v ≤ o && p.rev != upd)))
    | .delete o none =>
      v.strat != .onDelete && partitionOf v ≤ o &&
        before.any (fun b => match b with | .create o' rev => o' == o && rev != upd | _ => false)
    | _ => true) [] acts

/-- C04: every create is at a desired ordinal that is not a listed slot, not for a deleting set, and the ordinal holds no
    pod in the snapshot or its Failed/Succeeded pod was deleted earlier in the same list. -/
def C04 (v : SetView) (pods : List Pod) (acts : List OAct) : Bool :=
  let D := desired (replicasOf v) v.slots
  allWithContext (fun before a _ =>
    match a with
    | .create o _ =>
      D.contains o && !v.deleting && !v.slots.contains o &&
      (match podAt pods o with
       | none => true
       | some _ => before.any (fun b => match b with
            | .delete o' (some id) => o' == o && (podById pods id).any (fun p => p.failed || p.succeeded)
            | _ => false))
    | _ => true) [] acts

/-- C05 (policy ≠ Parallel): one ordinal per reconcile; creates only with healthy predecessors; scale-in only from the top
    with every desired pod healthy; update only when nothing is left to scale in and every desired pod is healthy. -/
def C05 (v : SetView) (pods : List Pod) (acts : List OAct) : Bool :=
  let D := desired (replicasOf v) v.slots
  let touched := ((acts.filter (fun a => a.isCreate || a.isDelete)).map OAct.ord).eraseDups
  let cond := condemnedSpec D pods
  touched.length ≤ 1 &&
  acts.all fun a =>
    match a with
    | .create o _ => (D.filter (· < o)).all (healthyAt pods)
    | .delete o _ =>
      (match classify D pods a with
       | .scale => D.all (healthyAt pods) && cond.all (fun c => c.ord ≤ o)
       | .update => cond.isEmpty && D.all (healthyAt pods)
       | _ => true)
    | _ => true

/-- C07: OnDelete never deletes for revision; under any other strategy at most one update-delete per reconcile, never below
    the partition, only when every desired pod above it is healthy at the update revision; with a partition present created
    pods below it carry the current revision and those at or above it the update revision. -/
def C07 (v : SetView) (cur upd : String) (pods : List Pod) (acts : List OAct) : Bool :=
  let D := desired (replicasOf v) v.slots
  let p := partitionOf v
  let uds := updateDeletes D pods acts
  (if v.strat == .onDelete then uds.isEmpty else true) &&
  uds.length ≤ 1 &&
  uds.all (fun o => p ≤ o &&
      (D.filter (· > o)).all (fun i => (podAt pods i).any (fun q => q.healthy && q.rev == upd))) &&
  (match v.ru with
   | some (some p) => acts.all fun
       | .create o rev => if o < p then rev == cur else rev == upd
       | _ => true
   | _ => true)

/-- C12, bounds of a written status -/
def C12bounds (st : Status) : Bool :=
  0 ≤ st.ready && st.ready ≤ st.replicas && 0 ≤ st.current && st.current ≤ st.replicas &&
  0 ≤ st.updated && st.updated ≤ st.replicas

/-- C12, generation: the written status carries the generation that was reconciled (hence is not lower than a stored value
    that is itself not ahead of the object's generation) -/
def C12gen (v : SetView) (stored written : Status) : Bool :=
  written.observedGen == v.generation && (if stored.observedGen ≤ v.generation then stored.observedGen ≤ written.observedGen else true)

/-- C12, completion: currentRevision moves only to updateRevision, and only if every pod seen was at the update revision,
    healthy, and nothing was created or deleted in that reconcile -/
def C12complete (cur upd : String) (pods : List Pod) (acts : List OAct) (written : Status) : Bool :=
  written.currentRev == cur ||
  (written.currentRev == upd && pods.all (fun p => p.rev == upd && p.healthy) &&
   !(acts.any (fun a => a.isCreate || a.isDelete)))


/-- C14 (Parallel, fault-free, ended ok): all vacancies (and Failed/Succeeded desired pods) are filled and all live condemned
    pods deleted in this one reconcile; at most one update-delete. -/
def C14 (v : SetView) (pods : List Pod) (acts : List OAct) : Bool :=
  let D := desired (replicasOf v) v.slots
  let want := D.filter (fun o => match podAt pods o with | none => true | some p => p.failed || p.succeeded)
  let cond := (condemnedSpec D pods).filter (fun c => !c.terminating)
  createOrds acts == want &&
  (scaleDeletes D pods acts).mergeSort == (cond.map (·.ord)).mergeSort &&
  (updateDeletes D pods acts).length ≤ 1

end Asts
