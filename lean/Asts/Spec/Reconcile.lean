import Asts.Model.Status
namespace Asts

/-- the desired set, computed without the helper: scan upward, take the first `r` non-slots -/
def desiredAux (S : List Int) : Nat → Int → Nat → List Int
  | 0, _, _ => []
  | _ + 1, _, 0 => []
  | fuel + 1, n, need + 1 =>
    if S.contains n then desiredAux S fuel (n + 1) (need + 1) else n :: desiredAux S fuel (n + 1) need

def desired (r : Int) (S : List Int) : List Int := desiredAux S (r.toNat + S.length + 1) 0 r.toNat

def podAt (pods : List Pod) (o : Int) : Option Pod := pods.find? (·.ord == o)
def healthyAt (pods : List Pod) (o : Int) : Bool := (podAt pods o).any Pod.healthy
def condemnedSpec (D : List Int) (pods : List Pod) : List Pod := pods.filter (fun p => 0 ≤ p.ord && !D.contains p.ord)

def isCreate : Action → Bool | .create _ _ => true | _ => false
def isDelete : Action → Bool | .delete _ _ _ => true | _ => false
def actOrd : Action → Int | .create o _ => o | .delete o _ _ => o | .update o => o
def updDeletes (acts : List Action) : List Int := acts.filterMap fun | .delete o _ .update => some o | _ => none
def scaleDeletes (acts : List Action) : List Int := acts.filterMap fun | .delete o _ .scaleDown => some o | _ => none
def createOrds (acts : List Action) : List Int := acts.filterMap fun | .create o _ => some o | _ => none

def partitionOf (v : SetView) : Int := match v.ru with | some (some p) => p | _ => 0

/-- C03. The target of a delete is a pod of the snapshot, or the object this very reconcile created
    earlier in the list (Parallel + legacy boundary: created at the current revision, taken down again by the update walk). -/
def C03 (v : SetView) (r : Int) (upd : String) (pods : List Pod) (acts : List Action) : Bool :=
  let D := desired r v.slots
  let rec go : List Action → List Action → Bool
    | _, [] => true
    | before, a :: rest =>
      (match a with
       | .delete o id why =>
         (match pods.find? (·.id == id) with
          | some p => p.ord == o && (!D.contains o || p.failed || p.succeeded ||
              (v.strat != .onDelete && !p.terminating && p.rev != upd && partitionOf v ≤ o))
          | none => why == .update && v.strat != .onDelete && partitionOf v ≤ o &&
              before.any (fun b => match b with | .create o' rev => o' == o && rev != upd | _ => false))
       | _ => true) && go (before ++ [a]) rest
  go [] acts

/-- C04 -/
def C04 (v : SetView) (r : Int) (pods : List Pod) (acts : List Action) : Bool :=
  let D := desired r v.slots
  let rec go : List Action → List Action → Bool
    | _, [] => true
    | before, a :: rest =>
      (match a with
       | .create o _ =>
         D.contains o && !v.deleting && !v.slots.contains o &&
         (match podAt pods o with
          | none => true
          | some p => (p.failed || p.succeeded) && before.any (fun b => b == .delete o p.id .replaceFailed))
       | _ => true) && go (before ++ [a]) rest
  go [] acts

/-- C05 (policy ≠ Parallel) -/
def C05 (v : SetView) (r : Int) (pods : List Pod) (acts : List Action) : Bool :=
  let D := desired r v.slots
  let touched := ((acts.filter (fun a => isCreate a || isDelete a)).map actOrd).eraseDups
  let cond := condemnedSpec D pods
  touched.length ≤ 1 &&
  acts.all fun
    | .create o _ => (D.filter (· < o)).all (healthyAt pods)
    | .delete o id .scaleDown =>
        D.all (healthyAt pods) && cond.all (fun c => c.ord ≤ o) &&
        (pods.find? (·.id == id)).any (fun p => !p.terminating)
    | .delete _ _ .update => cond.isEmpty && D.all (healthyAt pods)
    | _ => true

/-- C07 -/
def C07 (v : SetView) (r : Int) (cur upd : String) (pods : List Pod) (acts : List Action) : Bool :=
  let D := desired r v.slots
  let p := partitionOf v
  (if v.strat == .onDelete then (updDeletes acts).isEmpty else true) &&
  (updDeletes acts).length ≤ 1 &&
  (updDeletes acts).all (fun o => p ≤ o &&
      (D.filter (· > o)).all (fun i => (podAt pods i).any (fun q => q.healthy && q.rev == upd))) &&
  (match v.ru with
   | some (some p) => acts.all fun
       | .create o rev => if o < p then rev == cur else rev == upd
       | _ => true
   | _ => true)

/-- C12, bounds only -/
def C12 (st : Status) : Bool :=
  0 ≤ st.ready && st.ready ≤ st.replicas && 0 ≤ st.current && st.current ≤ st.replicas &&
  0 ≤ st.updated && st.updated ≤ st.replicas

/-- C12, completion clause: currentRev moves only to updateRev, and only if every pod seen was at upd, ready, live, and nothing was created or deleted -/
def C12complete (cur upd : String) (pods : List Pod) (acts : List Action) (written : Status) : Bool :=
  written.currentRev == cur ||
  (written.currentRev == upd && pods.all (fun p => p.rev == upd && p.healthy) &&
   !(acts.any (fun a => isCreate a || isDelete a)))

/-- C14 (Parallel, no faults) -/
def C14 (v : SetView) (r : Int) (pods : List Pod) (acts : List Action) : Bool :=
  let D := desired r v.slots
  let want := D.filter (fun o => match podAt pods o with | none => true | some p => p.failed || p.succeeded)
  let cond := (condemnedSpec D pods).filter (fun c => !c.terminating)
  createOrds acts == want &&
  (scaleDeletes acts).mergeSort == (cond.map (·.ord)).mergeSort &&
  (updDeletes acts).length ≤ 1

end Asts
