import Asts.Model.Codec
namespace Asts.Codec.Spec

/-! C19, conversion half, as decidable predicates over what the `codec` engine observes of one built-in object (and of the
    list it is served in). The comparisons themselves (`apiequality.Semantic.DeepEqual`, nil and empty collections
    identified, the original restricted to the fields the Advanced type models) are made by the harness on the real Go
    values; the observation carries their outcomes. -/

structure Obs where
  /-- `ToBuiltin (FromBuiltin o)` equals `o` on every field the Advanced type models -/
  conv : Bool
  /-- `FromBuiltin (ToBuiltin a)` equals `a` -/
  conv2 : Bool
  /-- apiVersion of what `ToBuiltinStatefulSet` / hijack `Get` return, and of the Advanced object -/
  av : String
  hav : String
  asav : String
  /-- paths at which hijack `Create` then `Get` lost or changed a value that was set -/
  lost : List String
  /-- `Create`'s result equals `Get`'s; `Update` / `UpdateStatus` of what was read reads back equal -/
  crt : Bool
  upd : Bool
  ust : Bool
  /-- list: served / returned lengths, names in order, items equal on the modelled fields, list metadata kept, the same
      through `ToBuiltinStetefulsetList` directly, apiVersion of the list and (distinct) apiVersions of its items -/
  served : Nat
  returned : Int
  order : Bool
  items : Bool
  lmeta : Bool
  dlist : Bool
  lav : String
  lavItems : String
  noErr : Bool
  noPanic : Bool
  deriving Repr

/-- read back unchanged in every field the Advanced API models, in both directions -/
def roundTrip (o : Obs) : Bool := o.conv && o.conv2
/-- comes back typed as apps/v1 (and the Advanced object as apps.pingcap.com/v1) -/
def typed (o : Obs) : Bool :=
  o.av == "apps/v1" && o.hav == "apps/v1" && o.asav == "apps.pingcap.com/v1" && o.lav == "apps/v1" &&
  (o.lavItems == "apps/v1" || (o.served == 0 && o.lavItems == ""))
/-- lists keep their length and order (and their items and metadata) -/
def listKept (o : Obs) : Bool := o.returned == (o.served : Int) && o.order && o.items && o.lmeta && o.dlist
/-- converting in either direction never fails -/
def neverFails (o : Obs) : Bool := o.noErr && o.noPanic
/-- written through the hijack client and read back: no value that was set is lost or changed; what Create returns is what
    Get returns; re-submitting what was read changes nothing -/
def hijackKeeps (o : Obs) : Bool := o.lost.isEmpty && o.crt && o.upd && o.ust

def clauses (o : Obs) : List (String × Bool) := [
  ("C19.codec-roundtrip", roundTrip o),
  ("C19.codec-typed", typed o),
  ("C19.codec-list", listKept o),
  ("C19.codec-never-fails", neverFails o),
  ("C19.hijack-set-fields-kept", hijackKeeps o)]

end Asts.Codec.Spec

namespace Asts.Codec

/-! ### the relations the conversion theorems are stated with -/

mutual
/-- `v` is a value of Go type `t` that has a JSON form: integers within their width, a non-nullable leaf is not `null`,
    a struct value carries every field of its type -/
def HasTy : GoTy → GoVal → Prop
  | .prim .str, .str _ => True
  | .prim (.int bits), .int n => -(2 : Int) ^ (bits - 1) ≤ n ∧ n < (2 : Int) ^ (bits - 1)
  | .prim .bool, .bool _ => True
  | .leaf _ nullable, .leaf j => nullable = false → j ≠ .null
  | .ptr _, .nilPtr => True
  | .ptr t, .ptr v => HasTy t v
  | .slice _, .slice none => True
  | .slice t, .slice (some l) => HasTyList t l
  | .struct fs, .struct vs => HasTyFields fs vs
  | _, _ => False
def HasTyList : GoTy → List GoVal → Prop
  | _, [] => True
  | t, v :: vs => HasTy t v ∧ HasTyList t vs
def HasTyFields : Fields → List (String × GoVal) → Prop
  | [], _ => True
  | (k, _, t) :: rest, vs => (match vlookup k vs with | some v => HasTy t v | none => False) ∧ HasTyFields rest vs
end

mutual
/-- equality of two values *on the fields of `t`*, identifying nil and empty slices (what `apiequality.Semantic.DeepEqual`
    does); slices must have the same length and agree position by position -/
def Equiv : GoTy → GoVal → GoVal → Prop
  | .prim _, a, b => a = b
  | .leaf _ _, a, b => a = b
  | .ptr t, a, b =>
    (match a, b with
     | .nilPtr, .nilPtr => True
     | .ptr x, .ptr y => Equiv t x y
     | _, _ => False)
  | .slice t, a, b =>
    (match a, b with
     | .slice x, .slice y => EquivList t (x.getD []) (y.getD [])
     | _, _ => False)
  | .struct fs, a, b =>
    (match a, b with
     | .struct xs, .struct ys => EquivFields fs xs ys
     | _, _ => False)
  | .unsupported _, _, _ => False
def EquivList : GoTy → List GoVal → List GoVal → Prop
  | _, [], [] => True
  | t, a :: as, b :: bs => Equiv t a b ∧ EquivList t as bs
  | _, _, _ => False
def EquivFields : Fields → List (String × GoVal) → List (String × GoVal) → Prop
  | [], _, _ => True
  | (k, _, t) :: rest, xs, ys =>
    (match vlookup k xs, vlookup k ys with
     | some a, some b => Equiv t a b
     | _, _ => False) ∧ EquivFields rest xs ys
end

end Asts.Codec
