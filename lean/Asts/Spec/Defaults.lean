import Asts.Model.Defaults
namespace Asts.Defaults.Spec
open Asts.Defaults

/-! C19, defaulting half, as decidable predicates over what the `defaults` engine observes of one object: whether a
    second pass of client-side defaulting changed anything, whether re-submitting through the hijack client an object
    that was read back altered its pod template, and whether anything failed. -/

structure Obs where
  /-- after one pass == after two passes (JSON text and semantic equality) -/
  idem : Bool
  /-- hijack Get → hijack Update of what was read: pod template unchanged -/
  tpl : Bool
  /-- the first pass removed or changed no value that was set (quantities may be rounded up to 10^-3) -/
  kept : Bool
  /-- no conversion / client call returned an error -/
  noErr : Bool
  /-- nothing panicked -/
  noPanic : Bool
  deriving Repr, DecidableEq

/-- defaulting applied twice equals applying it once -/
def idempotent (o : Obs) : Bool := o.idem
/-- re-submitting an object that was read back never alters its pod template -/
def templateKept (o : Obs) : Bool := o.tpl
/-- converting / writing never fails -/
def neverFails (o : Obs) : Bool := o.noErr && o.noPanic

/-- a write through the hijack client defaults the object; that must not lose what the caller set -/
def setValuesKept (o : Obs) : Bool := o.kept

def clauses (o : Obs) : List (String × Bool) := [
  ("C19.defaults-idempotent", idempotent o),
  ("C19.defaults-set-fields-kept", setValuesKept o),
  ("C19.resubmit-template-kept", templateKept o),
  ("C19.defaults-never-fails", neverFails o)]

/-! ### "no value that was set is lost": what a write through the hijack client may do to the defaulting view

A string / number that was non-zero, a pointer that was non-nil, stays as it was; a zero / nil one may be filled in; lists
keep their length and order; quantities may only be rounded up (away from zero) to the next multiple of 10^-3. -/

def keptS (a b : String) : Bool := a == "" || a == b
def keptI (a b : Int) : Bool := a == 0 || a == b
def keptB (a b : Bool) : Bool := !a || b
def sameI (a b : Int) : Bool := a == b
def sameS (a b : String) : Bool := a == b
def sameB (a b : Bool) : Bool := a == b

def keptO {α : Type} (f : α → α → Bool) : Option α → Option α → Bool
  | none, _ => true
  | some x, some y => f x y
  | some _, none => false

def keptL {α : Type} (f : α → α → Bool) : List α → List α → Bool
  | [], [] => true
  | x :: xs, y :: ys => f x y && keptL f xs ys
  | _, _ => false

/-- `q'` is `q` rounded up (away from zero) to a multiple of 10^6 nano-units -/
def roundedUp (q q' : Int) : Bool :=
  q' % 1000000 == 0 && (if 0 ≤ q then decide (q ≤ q') && decide (q' < q + 1000000) else decide (q' ≤ q) && decide (q - 1000000 < q'))

def keptRes : ResList → ResList → Bool := keptL (fun a b => a.1 == b.1 && roundedUp a.2 b.2)
def keptHttp (a b : HttpGet) : Bool := keptS a.path b.path && keptS a.scheme b.scheme
def keptProbe (a b : Probe) : Bool :=
  keptI a.timeout b.timeout && keptI a.period b.period && keptI a.success b.success && keptI a.failure b.failure &&
  keptO keptHttp a.http b.http
def keptPort (a b : Port) : Bool := keptI a.hostPort b.hostPort && sameI a.containerPort b.containerPort && keptS a.protocol b.protocol
def keptRef : Option String → Option String → Bool := keptO keptS

def keptContainer (a b : Container) : Bool :=
  sameS a.image b.image && keptS a.pullPolicy b.pullPolicy && keptS a.termPath b.termPath && keptS a.termPolicy b.termPolicy &&
  keptL keptPort a.ports b.ports && keptL keptRef a.envRefs b.envRefs && keptRes a.limits b.limits && keptRes a.requests b.requests &&
  keptO keptProbe a.liveness b.liveness && keptO keptProbe a.readiness b.readiness && keptO keptProbe a.startup b.startup &&
  keptO keptHttp a.postStart b.postStart && keptO keptHttp a.preStop b.preStop

def keptProj (a b : ProjSource) : Bool :=
  keptO (keptL keptRef) a.downward b.downward && keptO (keptO sameI) a.saToken b.saToken

def keptVolume (a b : Volume) : Bool :=
  sameB a.other b.other && keptB a.emptyDir b.emptyDir &&
  keptO (keptO sameS) a.hostPath b.hostPath && keptO (keptO sameI) a.secret b.secret && keptO keptS a.iscsi b.iscsi &&
  keptO (fun r r' => keptS r.1 r'.1 && keptS r.2.1 r'.2.1 && keptS r.2.2 r'.2.2) a.rbd b.rbd &&
  keptO (fun d d' => keptO sameI d.1 d'.1 && keptL keptRef d.2 d'.2) a.downward b.downward &&
  keptO (keptO sameI) a.configMap b.configMap &&
  keptO (fun x y => keptO sameS x.1 y.1 && keptO sameS x.2.1 y.2.1 && keptO sameS x.2.2.1 y.2.2.1 && keptO sameB x.2.2.2 y.2.2.2) a.azure b.azure &&
  keptO (fun p p' => keptO sameI p.1 p'.1 && keptL keptProj p.2 p'.2) a.projected b.projected &&
  keptO (fun x y => keptS x.1 y.1 && keptS x.2 y.2) a.scaleIO b.scaleIO

def keptClaim (a b : Claim) : Bool :=
  keptS a.phase b.phase && keptRes a.limits b.limits && keptRes a.requests b.requests && keptRes a.capacity b.capacity

/-- every value that was set in `a` is still there in `b` -/
def keptView (a b : View) : Bool :=
  keptS a.policy b.policy && keptS a.stratType b.stratType && keptO (keptO sameI) a.rollingUpdate b.rollingUpdate &&
  keptO sameI a.replicas b.replicas && keptO sameI a.revHist b.revHist &&
  keptS a.dnsPolicy b.dnsPolicy && keptS a.restartPolicy b.restartPolicy && keptS a.scheduler b.scheduler &&
  sameB a.hostNetwork b.hostNetwork && keptB a.secCtx b.secCtx && keptO sameI a.grace b.grace &&
  keptL keptVolume a.volumes b.volumes && keptL keptContainer a.initCtrs b.initCtrs && keptL keptContainer a.ctrs b.ctrs &&
  keptL keptContainer a.eph b.eph && keptRes a.overhead b.overhead && keptL keptClaim a.claims b.claims

/-- what the model predicts the engine observes of a view: the second pass compared with the first, on the whole view
    and on its pod-template part (a read-back object is one that went through one pass when it was written) -/
def observe (v : View) : Obs :=
  { idem := defaults (defaults v) == defaults v,
    tpl := (defaults (defaults v)).templatePart == (defaults v).templatePart,
    kept := keptView v (defaults v),
    noErr := true, noPanic := true }

end Asts.Defaults.Spec
