import Mathlib.Tactic
import Asts.Proofs.SY_a_Sync

/-! # SY_a — the call log of a sync, by position: adoption phase ++ claim pass ++ everything else -/

namespace Asts.SYa
open Asts

/-- entries after the claim pass; `st1` is the revision store after the adoption phase -/
def TailEntry (i : SyncIn) (plan : List Fault) (st1 : List Rev) (claimed : List CPod) (acts : List Action)
    (e : String) : Prop :=
  e = "list:revs" ∨ GetRevEntry (sortRevs (listRevisions st1)) e ∨ e = "updatestatus" ∨
  (∃ r ∈ sortRevs (listRevisions st1), r.owner = .self ∧ e = s!"delete:rev:{r.name}") ∨
  ActEntry i plan claimed acts e

/-- entries of the last stage -/
def FinishEntry (i : SyncIn) (plan : List Fault) (claimed : List CPod) (revs : List Rev) (b : Int) (E : List Int)
    (acts : List Action) (e : String) : Prop :=
  e = "updatestatus" ∨ (∃ x ∈ revs, x.owner = .self ∧ e = s!"delete:rev:{x.name}") ∨
  ∃ a ∈ acts, e ∈ actLog i.setName plan i.pods claimed b E a

theorem finishCore_ext (i : SyncIn) (plan : List Fault) (claimed : List CPod) (revs : List Rev) (cur upd : Rev)
    (cc : Int) (s : RevSt) (b : Int) (E : List Int) (r : St × Outcome) :
    Ext (FinishEntry i plan claimed revs b E r.1.acts)
      s.tr.log (finishCore i plan claimed revs cur upd cc s b E r).log := by
  have h1 : Ext (FinishEntry i plan claimed revs b E r.1.acts) s.tr.log
      (s.tr.log ++ (r.1.acts.map (actLog i.setName plan i.pods claimed b E)).flatten) := by
    refine Ext.append _ ?_
    intro e he
    obtain ⟨l, hl, hel⟩ := List.mem_flatten.1 he
    obtain ⟨a, ha, rfl⟩ := List.mem_map.1 hl
    exact Or.inr (Or.inr ⟨a, ha, hel⟩)
  have hst : ∀ (fuel : Nat) (t : Tr), Ext (FinishEntry i plan claimed revs b E r.1.acts) t.log
      (statusWriteF plan i.fresh.gone fuel t).1.log := fun fuel t =>
    (statusWriteF_spec plan i.fresh.gone fuel t).mono (fun e he => Or.inl he)
  have htr : ∀ s' : RevSt, Ext (FinishEntry i plan claimed revs b E r.1.acts) s'.tr.log
      (truncateF plan i.historyLimit (claimed.map (·.pod.rev)) revs cur upd s').1.tr.log := by
    intro s'
    obtain ⟨ext, h1, h2⟩ := (truncateF_spec plan i.historyLimit (claimed.map (·.pod.rev)) revs cur upd s').2
    exact ⟨ext, h1, fun e he => Or.inr (Or.inl (h2 e he))⟩
  unfold finishCore
  simp only
  split
  · split
    · split
      · exact h1.trans (hst _ _)
      · exact (h1.trans (hst _ _)).trans (htr _)
    · exact h1.trans (htr _)
  · exact h1

theorem finishF_claimed_acts (i : SyncIn) (plan : List Fault) (claimed : List CPod) (revs : List Rev) (cur upd : Rev)
    (cc : Int) (s : RevSt) :
    (finishF i plan claimed revs cur upd cc s).claimed = claimed ∧
    (finishF i plan claimed revs cur upd cc s).acts = (reconcileOf i plan claimed cur upd).1.acts := by
  obtain ⟨_, _, h3, h4⟩ := finishCore_shape i plan claimed revs cur upd cc s (rangeOf i).1 (rangeOf i).2
    (reconcileOf i plan claimed cur upd) (fun _ => True) trivial (fun _ _ _ => trivial) (fun _ _ => trivial)
  exact ⟨h3, h4⟩

theorem afterClaimF_claimed (h : Hashing) (i : SyncIn) (plan : List Fault) (s : RevSt) (failed : Bool)
    (claimed : List CPod) :
    (afterClaimF h i plan s failed claimed).claimed = [] ∨ (afterClaimF h i plan s failed claimed).claimed = claimed := by
  unfold afterClaimF
  split
  · exact Or.inl rfl
  rcases listRevsF plan s with ⟨s1, _ | listed⟩
  · exact Or.inr rfl
  simp only
  rcases getRevisionsF h plan i.template i.stored.currentRev (i.collisionCount.getD 0) (sortRevs listed) s1 with
    ⟨s2, _ | ⟨cur, upd, cc⟩⟩
  · exact Or.inr rfl
  · exact Or.inr (finishF_claimed_acts i plan claimed _ cur upd cc s2).1

theorem afterClaimF_ext (h : Hashing) (i : SyncIn) (plan : List Fault) (s : RevSt) (failed : Bool)
    (claimed : List CPod) :
    Ext (TailEntry i plan s.store (afterClaimF h i plan s failed claimed).claimed
        (afterClaimF h i plan s failed claimed).acts) s.tr.log (afterClaimF h i plan s failed claimed).log := by
  unfold afterClaimF
  split
  · exact Ext.refl _
  obtain ⟨hst, hlog, hres⟩ := listRevsF_spec plan s
  rcases hl : listRevsF plan s with ⟨s1, _ | listed⟩
  · rw [hl] at hlog
    exact hlog.mono (fun e he => Or.inl he)
  rw [hl] at hst hlog hres
  obtain rfl : listed = listRevisions s.store := hres _ rfl
  simp only at hst hlog ⊢
  obtain ⟨_, hlg⟩ := getRevisionsF_spec h plan i.template i.stored.currentRev (i.collisionCount.getD 0)
    (sortRevs (listRevisions s.store)) s1
  rcases hg : getRevisionsF h plan i.template i.stored.currentRev (i.collisionCount.getD 0)
    (sortRevs (listRevisions s.store)) s1 with ⟨s2, _ | ⟨cur, upd, cc⟩⟩
  · rw [hg] at hlg
    exact (hlog.mono (fun e he => Or.inl he)).trans (hlg.mono (fun e he => Or.inr (Or.inl he)))
  · rw [hg] at hlg
    simp only at hlg ⊢
    have hf := finishCore_ext i plan claimed (sortRevs (listRevisions s.store)) cur upd cc s2
      (rangeOf i).1 (rangeOf i).2 (reconcileOf i plan claimed cur upd)
    obtain ⟨h3, h4⟩ := finishF_claimed_acts i plan claimed (sortRevs (listRevisions s.store)) cur upd cc s2
    refine ((hlog.mono (fun e he => Or.inl he)).trans (hlg.mono (fun e he => Or.inr (Or.inl he)))).trans ?_
    refine Ext.mono ?_ hf
    rintro e (he | he | he)
    · exact Or.inr (Or.inr (Or.inl he))
    · exact Or.inr (Or.inr (Or.inr (Or.inl he)))
    · refine Or.inr (Or.inr (Or.inr (Or.inr ?_)))
      unfold ActEntry
      rw [h3, h4]
      exact he

/-- **the log of a sync by position.** Either the sync ended before the claim pass (paused, selector does not convert,
    adoption phase failed) and the whole log is adoption-phase entries, or it is
    `L0 ++ (events of the claim pass) ++ tail` with the claim invariant for the middle part. -/
theorem syncF_split (h : Hashing) (i : SyncIn) (plan : List Fault) :
    ∃ (L0 : List String) (evs : List CEv) (tail : List String) (st1 : List Rev),
      (syncF h i plan).log = L0 ++ evs.map CEv.key ++ tail ∧
      (∀ e ∈ L0, i.view.deleting = false ∧ AdoptEntry (listRevisions i.store) e) ∧
      (∀ e ∈ tail, TailEntry i plan st1 (syncF h i plan).claimed (syncF h i plan).acts e) ∧
      ((evs = [] ∧ tail = [] ∧ (syncF h i plan).claimed = [] ∧ (syncF h i plan).acts = []) ∨
       (ClaimInv plan i.view.deleting i.fresh i.pods L0 (L0 ++ evs.map CEv.key)
          (claimPodsF plan i.view.deleting i.fresh i.pods { log := L0 }).claimed
          (claimPodsF plan i.view.deleting i.fresh i.pods { log := L0 }).canAdopt evs ∧
        ((syncF h i plan).claimed = [] ∨
          (syncF h i plan).claimed = (claimPodsF plan i.view.deleting i.fresh i.pods { log := L0 }).claimed))) := by
  rw [syncF_eq]
  split
  · exact ⟨[], [], [], i.store, by simp, by simp, by simp, Or.inl ⟨rfl, rfl, rfl, rfl⟩⟩
  have hA := adoptF_spec plan i.view.deleting i.fresh { store := i.store }
  have hAd : i.view.deleting = true →
      adoptOrphanRevisionsF plan i.view.deleting i.fresh { store := i.store } = ({ store := i.store }, .ok) := by
    intro hd; rw [hd]; exact adoptF_deleting plan i.fresh _
  rcases hadopt : adoptOrphanRevisionsF plan i.view.deleting i.fresh { store := i.store } with ⟨s1, out⟩
  rw [hadopt] at hA hAd
  obtain ⟨_, hAlog⟩ := hA
  simp only at hAlog
  have hs1 : ∀ e ∈ s1.tr.log, i.view.deleting = false ∧ AdoptEntry (listRevisions i.store) e := by
    intro e he
    by_cases hd : i.view.deleting = true
    · have := hAd hd
      simp only [Prod.mk.injEq] at this
      rw [this.1] at he; simp at he
    · exact ⟨by simpa using hd, hAlog.all (by simp) e he⟩
  have hfail : ∀ out', ∃ (L0 : List String) (evs : List CEv) (tail : List String) (st1 : List Rev),
      ({ log := s1.tr.log, store := s1.store, outcome := out' } : SyncOut).log = L0 ++ evs.map CEv.key ++ tail ∧
      (∀ e ∈ L0, i.view.deleting = false ∧ AdoptEntry (listRevisions i.store) e) ∧
      (∀ e ∈ tail, TailEntry i plan st1 ({ log := s1.tr.log, store := s1.store, outcome := out' } : SyncOut).claimed
        ({ log := s1.tr.log, store := s1.store, outcome := out' } : SyncOut).acts e) ∧
      ((evs = [] ∧ tail = [] ∧ ({ log := s1.tr.log, store := s1.store, outcome := out' } : SyncOut).claimed = [] ∧
          ({ log := s1.tr.log, store := s1.store, outcome := out' } : SyncOut).acts = []) ∨
       (ClaimInv plan i.view.deleting i.fresh i.pods L0 (L0 ++ evs.map CEv.key)
          (claimPodsF plan i.view.deleting i.fresh i.pods { log := L0 }).claimed
          (claimPodsF plan i.view.deleting i.fresh i.pods { log := L0 }).canAdopt evs ∧
        (({ log := s1.tr.log, store := s1.store, outcome := out' } : SyncOut).claimed = [] ∨
          ({ log := s1.tr.log, store := s1.store, outcome := out' } : SyncOut).claimed =
            (claimPodsF plan i.view.deleting i.fresh i.pods { log := L0 }).claimed))) := fun out' =>
    ⟨s1.tr.log, [], [], s1.store, by simp, hs1, by simp, Or.inl ⟨rfl, rfl, rfl, rfl⟩⟩
  cases out with
  | err => exact hfail _
  | panic site => exact hfail _
  | ok =>
    simp only
    obtain ⟨evs, I⟩ := claimPodsF_inv plan i.view.deleting i.fresh i.pods s1.tr
    have hE := afterClaimF_ext h i plan
      { store := s1.store, tr := (claimPodsF plan i.view.deleting i.fresh i.pods s1.tr).tr }
      (claimPodsF plan i.view.deleting i.fresh i.pods s1.tr).failed
      (claimPodsF plan i.view.deleting i.fresh i.pods s1.tr).claimed
    have hT := afterClaimF_claimed h i plan
      { store := s1.store, tr := (claimPodsF plan i.view.deleting i.fresh i.pods s1.tr).tr }
      (claimPodsF plan i.view.deleting i.fresh i.pods s1.tr).failed
      (claimPodsF plan i.view.deleting i.fresh i.pods s1.tr).claimed
    obtain ⟨tail, htail, hall⟩ := hE
    simp only at htail
    refine ⟨s1.tr.log, evs, tail, s1.store, ?_, hs1, hall, Or.inr ⟨?_, hT⟩⟩
    · rw [htail, I.log_eq]
    · have : ({ log := s1.tr.log } : Tr) = s1.tr := rfl
      rw [this, ← I.log_eq]; exact I

end Asts.SYa
