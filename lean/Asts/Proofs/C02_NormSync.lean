import Asts.Proofs.C02_Round
import Asts.Proofs.C02_Log

/-! C02: the sync of a world whose revisions and claims need no work, under the empty fault plan, computed up to the
    reconcile; and the tail of the sync (status write, history) when nothing can fail. -/
namespace Asts.C02p
open Asts Asts.L1c

/-- **the sync of a world whose revisions and pod claims need no work** is the reconcile on the owned pods -/
theorem syncF_quietRevs (h : Hashing) (i : SyncIn) (hs : SpecOk i)
    (hno : (listRevisions i.store).any (·.owner == .none) = false) (hw : NoClaimWork i.pods)
    (l : Rev) (hl : (listedRevs i).getLast? = some l) (heq : equalRev l (freshRev h i (listedRevs i)) = true) :
    syncF h i [] =
      reconcileF i [] (ownPods i) (listedRevs i) (((listedRevs i).find? (·.name == i.stored.currentRev)).getD l) l
        (i.collisionCount.getD 0)
        { store := i.store, tr := { log := ["list:revs", "list:revs", "list:revs", "list:revs"] } } := by
  rw [syncF_stages]
  simp only [hs.paused, hs.sel, Bool.not_true, Bool.or_self, Bool.false_eq_true, if_false, hs.del]
  rw [adopt_no_orphan _ _ hno]
  simp only
  rw [claimPodsF_noWork _ _ _ hw]
  simp only [Bool.false_eq_true, if_false]
  unfold revisionsF
  rw [listRevsF_nil]
  simp only
  unfold listedRevs freshRev at *
  rw [getRevisionsF_final h _ _ _ _ _ l hl heq]
  simp only [List.nil_append, List.cons_append]
  rfl

theorem statusWriteF_nil (t : Tr) : statusWriteF [] false 5 t = ({ log := t.log ++ ["updatestatus"] }, true) := by
  unfold statusWriteF
  simp [call_nil]

end Asts.C02p
