import Mathlib.Tactic
import Asts.Proofs.C02_CFront
import Asts.Proofs.WE_AfterEdits

/-! # WE — pod names stay distinct along a run

A round looks at a world only through `settle` (`round h W p` is a function of `settle W`). Inside the premises of C02
(`wfWorld`, `extraMB`) the convergence proof carries the stage invariant `Stg` through every round (`stg_rounds`), and `Stg`
contains `PreM.podNames`: **the settled form of every world of the run has pairwise distinct pod names**
(`pod_names_distinct_along_run`). The lemmas that needed distinct names of a world (`settle` idempotent, a paused / a silent
round is `settle`) are re-proved here from distinct names of its settled form, by passing to the world without its terminating
pods (`live`), which has the same settled form. -/
namespace Asts.WE
open Asts Asts.C02p

/-- **pod names are pairwise distinct in (the settled form of) every world of the run**, from `wfWorld` and `extraMB` of the
    initial world: members canonically named, one member per ordinal, no non-member under the canonical name of a desired
    ordinal, distinct names to begin with -/
theorem pod_names_distinct_along_run (h : Hashing) (i : SyncIn) (hw : wfWorld h i = true) (hx : extraMB h i = true) :
    ∀ n, ((settle (roundsN h n i)).pods.map (·.name)).Nodup := by
  intro n
  obtain ⟨s1, s2, s3, s4⟩ := stg_settle (preNMB_of_wf hw hx)
  rw [settle_roundsN]
  cases hleg : legacyB i.view <;> cases hpar : i.view.parallel
  · exact (stg_rounds (mono_conv h) n (s4 hleg hpar)).pre.podNames
  · exact (stg_rounds (par_conv h) n (s3 hleg hpar)).pre.podNames
  · exact (stg_rounds (lmono_conv h) n (s2 hleg hpar)).pre.podNames
  · exact (stg_rounds (lpar_conv h) n (s1 hleg hpar)).pre.podNames

/-- the world without its terminating pod objects: the same settled form -/
def live (W : SyncIn) : SyncIn := { W with pods := W.pods.filter (fun c => !c.pod.terminating) }

theorem settle_live (W : SyncIn) : settle (live W) = settle W := by
  unfold settle live
  simp only [List.filter_filter, Bool.and_self]

theorem round_live (h : Hashing) (W : SyncIn) (p : List Fault) : round h (live W) p = round h W p := by
  unfold round
  simp only [settle_live]

theorem live_viewInStep {W : SyncIn} (hv : ViewInStep W) : ViewInStep (live W) := hv

theorem live_nodup {W : SyncIn} (hn : ((settle W).pods.map (·.name)).Nodup) : ((live W).pods.map (·.name)).Nodup := by
  rw [settle_pods, reindex_eq, reindexFrom_names] at hn
  have hperm := (sortPods_perm ((W.pods.filter (fun c => !c.pod.terminating)).map settleOne)).map (fun c : CPod => c.name)
  rw [hperm.nodup_iff, List.map_map] at hn
  have : ((fun c : CPod => c.name) ∘ settleOne) = (fun c => c.name) := by funext c; exact settleOne_name c
  rw [this] at hn
  exact hn

end Asts.WE

namespace Asts.WE
open Asts Asts.C02p Asts.GL

/-! ## the lemmas about one world, from distinct names of its settled form -/

theorem settle_idem' (W : SyncIn) (hn : ((settle W).pods.map (·.name)).Nodup) : settle (settle W) = settle W := by
  have := settle_idem (live W) (live_nodup hn)
  rw [settle_live] at this; exact this

theorem settled_pods_fixed' (W : SyncIn) (hn : ((settle W).pods.map (·.name)).Nodup) :
    reindex (sortPods (settle W).pods) = (settle W).pods := by
  have := settled_pods_fixed (live W) (live_nodup hn)
  rw [settle_live] at this; exact this

theorem round_settle' (h : Hashing) (W : SyncIn) (p : List Fault) (hn : ((settle W).pods.map (·.name)).Nodup) :
    round h (settle W) p = round h W p := by
  have := round_settle h (live W) p (live_nodup hn)
  rw [settle_live, round_live] at this; exact this

theorem runRounds_settle' (h : Hashing) (fuel c : Nat) (w : SyncIn) (hn : ((settle w).pods.map (·.name)).Nodup) :
    runRounds h fuel c (settle w) [] = runRounds h fuel c w [] := by
  cases fuel with
  | zero => rfl
  | succ fuel => rw [runRounds_succ, runRounds_succ, round_settle' h w [] hn]

theorem silent_round_fix' (h : Hashing) (W : SyncIn) (hv : ViewInStep W) (hn : ((settle W).pods.map (·.name)).Nodup)
    (hs : silentOk (round h W []).2 = true) : (round h W []).1 = settle W := by
  have := silent_round_fix h (live W) (live_viewInStep hv) (live_nodup hn) (by rw [round_live]; exact hs)
  rw [round_live, settle_live] at this; exact this

/-- the settled world with its copy of `status.currentReplicas` brought in step -/
def nrm (W : SyncIn) : SyncIn :=
  { settle W with view := { (settle W).view with stCurrentReplicas := (settle W).stored.current } }

theorem nrm_viewInStep (W : SyncIn) : ViewInStep (nrm W) := rfl

theorem settle_nrm (W : SyncIn) (hn : ((settle W).pods.map (·.name)).Nodup) : settle (nrm W) = nrm W := by
  have h1 : settle (nrm W) =
      { settle (settle W) with view := { (settle W).view with stCurrentReplicas := (settle W).stored.current } } := rfl
  rw [h1, settle_idem' W hn]; rfl

/-- a silent successful round leaves the settled world, whatever the world's copy of `status.currentReplicas` was -/
theorem silent_round_world (h : Hashing) (W : SyncIn) (hn : ((settle W).pods.map (·.name)).Nodup)
    (hs : silentOk (round h W []).2 = true) : (round h W []).1 = nrm W := by
  obtain ⟨hok, hw⟩ := (silentOk_iff h W []).mp hs
  have hq := quiet_of_writes_zero hw
  obtain ⟨h1, h2, h3⟩ := silent_sync h (settle W) rfl hok hq
  show applySync (settle W) [] (syncF h (settle W) []) = nrm W
  unfold applySync nrm
  rw [h1, h2, h3]
  simp only [List.take_nil, applyActs, Option.getD_none, Option.isSome_none, Bool.false_eq_true, if_false]
  rw [C02p.applyPatches_noPatch [] _ _ (fun e he => noPatch_of_not_write e (hq e he)), settled_pods_fixed' W hn]

/-- **a run that has shown two silent rounds in a row is in its final state** — from distinct pod names of the settled worlds
    only (no premise on the derived field of the initial world) -/
theorem silentMeansFinal' (h : Hashing) (W : SyncIn)
    (hnod : ∀ n, ((settle (roundsN h n W)).pods.map (·.name)).Nodup) (hconv : ∃ n, Final h (roundsN h n W)) :
    SilentMeansFinal h W := by
  intro k hk
  obtain ⟨m, rfl, s1, s2⟩ := cnt_ge_two h W [] k hk
  have hobs : ∀ j, obsFrom h W [] j = (round h (roundsN h j W) []).2 := by
    intro j; unfold obsFrom; rw [plainWorld_roundsN, planAt_nil]
  rw [hobs] at s1 s2
  -- after the first silent round the world is settled and in step; the second silent round leaves it
  have hw1 : roundsN h (m + 1) W = nrm (roundsN h m W) := by
    rw [roundsN_succ]; exact silent_round_world h _ (hnod m) s1
  have hfix : (round h (roundsN h (m + 1) W) []).1 = roundsN h (m + 1) W := by
    rw [silent_round_fix' h _ (by rw [hw1]; exact nrm_viewInStep _) (hnod (m + 1)) s2, hw1]
    exact settle_nrm _ (hnod m)
  obtain ⟨n, hf⟩ := hconv
  by_cases hle : n ≤ m + 1
  · obtain ⟨j, hj⟩ : ∃ j, m + 1 = n + j := ⟨m + 1 - n, by omega⟩
    rw [hj]; exact final_from hf j
  · obtain ⟨j, hj⟩ : ∃ j, n = (m + 1) + j := ⟨n - (m + 1), by omega⟩
    rw [hj, roundsN_add, fixed_forever h _ hfix j] at hf
    exact hf

/-- **`C02converges`, the monitor, on the run of a world that converges** — budget `roundBound W + 2`, distinct pod names in
    the settled worlds of the run -/
theorem C02converges_run' (h : Hashing) (W : SyncIn) (fuel : Nat)
    (hnod : ∀ n, ((settle (roundsN h n W)).pods.map (·.name)).Nodup)
    (hconv : ∃ n ≤ roundBound W, Final h (roundsN h n W)) (hfuel : roundBound W + 2 ≤ fuel) :
    C02converges h W (runRounds h fuel 0 W []) = true :=
  C02converges_of_bound h W fuel hconv hfuel
    (silentMeansFinal' h W hnod (by obtain ⟨n, _, hf⟩ := hconv; exact ⟨n, hf⟩))

end Asts.WE

namespace Asts.WE
open Asts Asts.C02p Asts.GL

/-- `C02afterEdits` on the model, histories with edits — distinct names asked of the SETTLED worlds only -/
theorem C02afterEdits_model_edits' (h : Hashing) (script : Script) (fuel : Nat) (i : SyncIn) (plan : List Fault) (k : Nat)
    (hlast : ∀ e ∈ script, e.1 ≤ k + 2) (hed : (editsAt script (k + 2)).isEmpty = false)
    (hnW : ((settle (wAt h script plan i (k + 1))).pods.map (·.name)).Nodup)
    (hnod : ∀ n, ((settle (roundsN h n (settle (wAt h script plan i (k + 1))))).pods.map (·.name)).Nodup)
    (hconv : ∃ n ≤ roundBound (settle (wAt h script plan i (k + 1))), Final h (roundsN h n (settle (wAt h script plan i (k + 1)))))
    (hfuel : k + 1 + roundBound (settle (wAt h script plan i (k + 1))) + 2 ≤ fuel) :
    C02afterEdits h i (observeHist (runHistory h script fuel 1 0 i plan)) = true := by
  have e12 : 1 + (k + 1) = k + 2 := by omega
  have hedT : (histRoundAt h script 1 plan i (k + 1)).edits.isEmpty = false := by
    show (editsAt script (1 + (k + 1))).isEmpty = false
    rw [e12]; exact hed
  -- the history: k+1 rounds, then the plain run of W
  obtain ⟨e0, he0, he0j⟩ := exists_of_editsAt hed
  obtain ⟨c', hc'⟩ := runHistory_unroll h script 1 i plan (k + 1) fuel 0 (by omega) (fun m hm => by
    unfold pendingAfter
    rw [List.any_eq_true]
    exact ⟨e0, he0, by simp only [decide_eq_true_eq]; omega⟩)
  have htail : (runHistory h script (fuel - (k + 1)) (1 + (k + 1)) c' (worldFrom h script 1 plan i (k + 1)) (planAt plan (k + 1))).map (·.obs) =
      runRounds h (fuel - (k + 1)) 0 (wAt h script plan i (k + 1)) [] := by
    rw [runHistory_last h script _ _ _ _ _ (fun e he => by rw [e12]; exact hlast e he), planAt_succ]
    have : (editsAt script (1 + (k + 1))).isEmpty = false := by rw [e12]; exact hed
    rw [this]; rfl
  obtain ⟨g, hg⟩ : ∃ g, fuel - (k + 1) = g + 1 := ⟨fuel - (k + 2), by omega⟩
  have htlen : 1 ≤ (runHistory h script (fuel - (k + 1)) (1 + (k + 1)) c' (worldFrom h script 1 plan i (k + 1)) (planAt plan (k + 1))).length := by
    have := congrArg List.length htail
    rw [List.length_map] at this
    rw [this, hg]; exact runRounds_nonempty h g 0 _ []
  have hlen : k + 1 < (runHistory h script fuel 1 0 i plan).length := by
    rw [hc', List.length_append, List.length_map, List.length_range]; omega
  -- the last round with edits
  have hget : ∀ m, m < (runHistory h script fuel 1 0 i plan).length →
      (observeHist (runHistory h script fuel 1 0 i plan))[m]? = some (obs1 (histRoundAt h script 1 plan i m)) := by
    intro m hm
    have hx : (runHistory h script fuel 1 0 i plan)[m]? = some (runHistory h script fuel 1 0 i plan)[m] := List.getElem?_eq_getElem hm
    rw [observeHist_get, hx, hist_get h script plan i fuel m _ hx]; rfl
  have hidx : lastEditIdx (observeHist (runHistory h script fuel 1 0 i plan)) = some (k + 1) := by
    apply lastEditIdx_eq _ (k + 1) _ (hget (k + 1) hlen) hedT
    intro n x hn hx
    have hnlt : n < (runHistory h script fuel 1 0 i plan).length := by
      by_contra hge
      rw [List.getElem?_eq_none (by rw [observeHist_length]; omega)] at hx; simp at hx
    rw [hget n hnlt] at hx
    have : x = obs1 (histRoundAt h script 1 plan i n) := (Option.some.inj hx).symm
    rw [this]
    show (editsAt script (1 + n)).isEmpty = true
    rw [editsAt_past script (1 + n) (fun e he => by have := hlast e he; omega)]; rfl
  unfold C02afterEdits
  rw [hidx]
  simp only [Nat.add_eq_zero_iff, one_ne_zero, and_false, beq_iff_eq, Bool.false_or]
  rw [worldAtEdit_eq h script plan i fuel k hlen hedT]
  -- the observations from round k+1 on
  have hdrop : ((observeHist (runHistory h script fuel 1 0 i plan)).drop (k + 1)).map (·.obs) =
      runRounds h (fuel - (k + 1)) 0 (wAt h script plan i (k + 1)) [] := by
    rw [List.map_drop, observeHist_obs, hc', List.map_append, List.drop_left' (by simp), htail]
  rw [hdrop, ← runRounds_settle' h _ 0 _ hnW]
  exact C02converges_run' h (settle (wAt h script plan i (k + 1))) (fuel - (k + 1)) hnod hconv (by omega)

/-- … and histories without edits -/
theorem C02afterEdits_model_noedits' (h : Hashing) (fuel : Nat) (i : SyncIn) 
    (hnod : ∀ n, ((settle (roundsN h n i)).pods.map (·.name)).Nodup)
    (hconv : ∃ n ≤ roundBound i, Final h (roundsN h n i)) (hfuel : roundBound i + 2 ≤ fuel) :
    C02afterEdits h i (observeHist (runHistory h [] fuel 1 0 i [])) = true := by
  unfold C02afterEdits
  rw [lastEditIdx_none _ (by
    intro r hr
    rw [observeHist_eq] at hr
    obtain ⟨x, hx, rfl⟩ := List.mem_map.mp hr
    obtain ⟨n, hn⟩ := List.mem_iff_getElem?.mp hx
    rw [hist_get h [] [] i fuel n x hn]; rfl)]
  simp only
  rw [observeHist_obs, runHistory_nil]
  exact C02converges_run' h i fuel hnod hconv hfuel


end Asts.WE
