import Mathlib.Tactic
import Asts.Proofs.WE_NoRestart

/-! # WE — the invariant behind C08.norestart

`Inv W`: store names distinct, every stored revision visible to the set, and the revision `status.updateRevision` names
records the template and is the newest of the store (last in the order `SortControllerRevisions` uses). Under a hashing
whose labels never parse as numbers (`hnum`) a successful reconcile establishes it, every round that follows edits other
than a template edit preserves it, and it implies `Pinned` (for every fault plan). -/
namespace Asts.WE
open Asts Asts.SYb

def AllVis (S : List Rev) : Prop := ∀ r ∈ S, visibleRev r = true

def Top (S : List Rev) (l : Rev) : Prop := l ∈ S ∧ ∀ r ∈ S, r = l ∨ revLt r l = true

def Inv (W : SyncIn) : Prop :=
  (W.store.map (·.name)).Nodup ∧ AllVis W.store ∧
  ∃ l, Top W.store l ∧ l.data = W.template ∧ l.name = W.stored.updateRev

theorem visibleRev_iff (r : Rev) : visibleRev r = true ↔ (r.selMatch = true ∨ r.marker = true) ∧ r.owner ≠ .other := by
  unfold visibleRev
  simp only [Bool.and_eq_true, Bool.or_eq_true, bne_iff_ne, ne_eq]

theorem revLt_core {a a' b b' : Rev} (ha : core a' = core a) (hb : core b' = core b) : revLt a' b' = revLt a b := by
  simp only [core, Prod.mk.injEq] at ha hb
  unfold revLt
  rw [ha.1, ha.2.1, ha.2.2.1, hb.1, hb.2.1, hb.2.2.1]

theorem listing_mem {S : List Rev} (hn : (S.map (·.name)).Nodup) (hv : AllVis S) {r : Rev} :
    r ∈ sortRevs (listRevisions S) ↔ r ∈ S := by
  rw [mem_sortRevs, mem_listRevisions_iff hn]
  constructor
  · exact fun hh => hh.1
  · intro hr
    have := (visibleRev_iff r).mp (hv r hr)
    exact ⟨hr, this.1, this.2⟩

theorem pairwise_last {α} {R : α → α → Prop} {L : List α} (hp : L.Pairwise R) {m x : α} (hm : L.getLast? = some m)
    (hx : x ∈ L) : x = m ∨ R x m := by
  have hne : L ≠ [] := by intro hnil; rw [hnil] at hm; simp at hm
  have hlast : L.getLast hne = m := by
    rw [List.getLast?_eq_getLast hne] at hm; exact Option.some.inj hm
  have hsplit : L = L.dropLast ++ [m] := by rw [← hlast]; exact (List.dropLast_append_getLast hne).symm
  rw [hsplit] at hp hx
  rw [List.pairwise_append] at hp
  rcases List.mem_append.mp hx with hx1 | hx1
  · exact Or.inr (hp.2.2 x hx1 m (by simp))
  · simp at hx1; exact Or.inl hx1

/-- the newest revision of the store is the last of the sorted listing -/
theorem last_of_top {S : List Rev} (hn : (S.map (·.name)).Nodup) (hv : AllVis S) {l : Rev} (ht : Top S l) :
    (sortRevs (listRevisions S)).getLast? = some l := by
  have hl : l ∈ sortRevs (listRevisions S) := (listing_mem hn hv).mpr ht.1
  cases hm : (sortRevs (listRevisions S)).getLast? with
  | none => rw [List.getLast?_eq_none_iff] at hm; rw [hm] at hl; simp at hl
  | some m =>
    have hmS : m ∈ S := (listing_mem hn hv).mp (List.mem_of_getLast? hm)
    rcases ht.2 m hmS with h1 | h1
    · rw [h1]
    · have hs : SortedRevs (sortRevs (listRevisions S)) := sortRevs_sorted _
      rcases pairwise_last hs hm hl with h2 | h2
      · rw [h2]
      · rw [h1] at h2; exact absurd h2 (by decide)

/-- conversely the last of the sorted listing is the newest of the store -/
theorem top_of_last {S : List Rev} (hn : (S.map (·.name)).Nodup) (hv : AllVis S) {l : Rev}
    (hl : (sortRevs (listRevisions S)).getLast? = some l) : Top S l := by
  have hlS : l ∈ S := (listing_mem hn hv).mp (List.mem_of_getLast? hl)
  refine ⟨hlS, fun r hr => ?_⟩
  have hrL : r ∈ sortRevs (listRevisions S) := (listing_mem hn hv).mpr hr
  have hs : SortedRevs (sortRevs (listRevisions S)) := sortRevs_sorted _
  rcases pairwise_last hs hl hrL with h1 | h1
  · exact Or.inl h1
  · by_cases hne : r.name = l.name
    · exact Or.inl (eq_of_mem_nodup_name hn hr hlS hne)
    · rcases revLt_total hne with h2 | h2
      · exact Or.inr h2
      · rw [h1] at h2; exact absurd h2 (by decide)

theorem allVis_adopted {S A : List Rev} (ha : AdoptedFrom S A) (hv : AllVis S) : AllVis A := by
  obtain ⟨f, hf, rfl⟩ := ha
  intro y hy
  obtain ⟨x, hx, rfl⟩ := List.mem_map.mp hy
  have := visible_adopted (hf x) (hv x hx)
  exact (visibleRev_iff _).mpr this

theorem top_adopted {S : List Rev} {f : Rev → Rev} (hf : ∀ x, AdoptRel x (f x)) {l : Rev} (ht : Top S l) :
    Top (S.map f) (f l) := by
  refine ⟨List.mem_map_of_mem ht.1, ?_⟩
  intro y hy
  obtain ⟨x, hx, rfl⟩ := List.mem_map.mp hy
  rcases ht.2 x hx with h1 | h1
  · exact Or.inl (by rw [h1])
  · right; rw [revLt_core (hf x).1 (hf l).1]; exact h1

theorem equalRev_fresh_of_hnum {h : Hashing} (hnum : ∀ d c, h.hashNumOf d c = none) (r : Rev) (t : String) (cc : Int)
    (revs : List Rev) : equalRev r (freshOf h t cc revs) = (r.data == t) := by
  unfold equalRev freshOf
  simp only [hnum]
  cases r.hashNum <;> simp

/-- **the invariant pins the update revision**, whatever the fault plan of the next round -/
theorem inv_pinned {h : Hashing} (hnum : ∀ d c, h.hashNumOf d c = none) {W : SyncIn} (hI : Inv W) (p : List Fault) :
    Pinned h p W := by
  obtain ⟨hn, hv, l, ht, hd, hname⟩ := hI
  obtain ⟨f, hf, hA⟩ := adoptedStore_adopted p (settle W)
  have hAn : ((adoptedStore p (settle W)).map (·.name)).Nodup := by
    rw [(adoptedStore_adopted p (settle W)).names]; exact hn
  have hAv : AllVis (adoptedStore p (settle W)) := allVis_adopted (adoptedStore_adopted p (settle W)) hv
  have htop : Top (adoptedStore p (settle W)) (f l) := by rw [hA]; exact top_adopted hf ht
  have hcore := (hf l).1
  simp only [core, Prod.mk.injEq] at hcore
  refine ⟨f l, last_of_top hAn hAv htop, ?_, hcore.1.trans hname⟩
  rw [equalRev_fresh_of_hnum hnum, hcore.2.2.2.1, hd]
  simp

/-! ## visibility and distinct names survive every round -/

theorem visible_setNumber (e : String) (n : Int) (r : Rev) : visibleRev (setNumber e n r) = visibleRev r := by
  unfold setNumber; split <;> rfl

theorem allVis_pick (h : Hashing) (plan : List Fault) (t : String) (cc0 : Int) (revs : List Rev) (s : RevSt)
    (hv : AllVis s.store) : AllVis (pickF h plan t cc0 revs s).1.store := by
  rcases pickF_store h plan t cc0 revs s with h1 | ⟨e, n, h1⟩ | ⟨cc, _, _, h1, _⟩
  · rw [h1]; exact hv
  · rw [h1]; intro y hy
    obtain ⟨x, hx, rfl⟩ := List.mem_map.mp hy
    rw [visible_setNumber]; exact hv x hx
  · rw [h1]; intro y hy
    rcases mem_insertByName.mp hy with rfl | hy
    · rfl
    · exact hv y hy

theorem allVis_sublist {S T : List Rev} (hs : T.Sublist S) (hv : AllVis S) : AllVis T := fun r hr => hv r (hs.subset hr)

/-- every stored revision stays visible through a sync -/
theorem sync_allVis (h : Hashing) (i : SyncIn) (plan : List Fault) (hv : AllVis i.store) : AllVis (syncF h i plan).store := by
  by_cases hrun : (i.paused || !i.selectorOk) = true
  · rw [syncF_eq, if_pos hrun]; exact hv
  · have hrun' : (i.paused || !i.selectorOk) = false := by simpa using hrun
    have hA : AllVis (adoptedStore plan i) := allVis_adopted (adoptedStore_adopted plan i) hv
    rcases sync_cases h i plan hrun' with ⟨_, _, ⟨h3, _⟩ | ⟨sL, hs, _, h3, _⟩⟩ | ⟨⟨R⟩⟩
    · exact allVis_adopted h3 hv
    · rw [h3]; exact allVis_pick h plan _ _ _ sL (by rw [hs]; exact hA)
    · rw [R.ostore]
      apply allVis_sublist (truncateF_store _ _ _ _ _ _ _).1
      rw [R.hT, R.sG_eq]
      exact allVis_pick h plan _ _ _ R.sL (by rw [R.hL]; exact hA)

end Asts.WE
