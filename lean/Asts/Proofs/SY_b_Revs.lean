import Mathlib.Tactic
import Mathlib.Data.String.Basic
import Asts.Model.Sync

/-! Lemmas about `Model/Revisions`: `revLt` is a strict order that is total on distinct names, `sortRevs` is a sorted
    permutation, `listRevisions` lists every name once, `equalRev`, `nextRevision`, `insertByName`. -/
namespace Asts.SYb
open Asts

/-! ## `revLt` -/

theorem revLt_iff (a b : Rev) :
    revLt a b = true ↔
      a.number < b.number ∨ (a.number = b.number ∧ (a.ctime < b.ctime ∨ (a.ctime = b.ctime ∧ a.name < b.name))) := by
  simp [revLt]

theorem revLt_irrefl (a : Rev) : revLt a a = false := by
  cases h : revLt a a
  · rfl
  · rw [revLt_iff] at h
    rcases h with h | ⟨_, h | ⟨_, h⟩⟩
    · exact absurd h (lt_irrefl _)
    · exact absurd h (lt_irrefl _)
    · exact absurd h (lt_irrefl _)

theorem revLt_trans {a b c : Rev} (h1 : revLt a b = true) (h2 : revLt b c = true) : revLt a c = true := by
  rw [revLt_iff] at *
  rcases h1 with h1 | ⟨e1, h1⟩
  · rcases h2 with h2 | ⟨e2, _⟩
    · exact Or.inl (lt_trans h1 h2)
    · exact Or.inl (e2 ▸ h1)
  · rcases h2 with h2 | ⟨e2, h2⟩
    · exact Or.inl (e1 ▸ h2)
    · refine Or.inr ⟨e1.trans e2, ?_⟩
      rcases h1 with h1 | ⟨f1, h1⟩
      · rcases h2 with h2 | ⟨f2, _⟩
        · exact Or.inl (lt_trans h1 h2)
        · exact Or.inl (f2 ▸ h1)
      · rcases h2 with h2 | ⟨f2, h2⟩
        · exact Or.inl (f1 ▸ h2)
        · exact Or.inr ⟨f1.trans f2, lt_trans h1 h2⟩

theorem revLt_asymm {a b : Rev} (h : revLt a b = true) : revLt b a = false := by
  cases h' : revLt b a
  · rfl
  · have := revLt_trans h h'
    rw [revLt_irrefl] at this
    exact absurd this (by decide)

/-- on revisions with different names `revLt` is total -/
theorem revLt_total {a b : Rev} (hne : a.name ≠ b.name) : revLt a b = true ∨ revLt b a = true := by
  rw [revLt_iff, revLt_iff]
  rcases lt_trichotomy a.number b.number with h | h | h
  · exact Or.inl (Or.inl h)
  · rcases lt_trichotomy a.ctime b.ctime with g | g | g
    · exact Or.inl (Or.inr ⟨h, Or.inl g⟩)
    · rcases lt_or_gt_of_ne hne with k | k
      · exact Or.inl (Or.inr ⟨h, Or.inr ⟨g, k⟩⟩)
      · exact Or.inr (Or.inr ⟨h.symm, Or.inr ⟨g.symm, k⟩⟩)
    · exact Or.inr (Or.inr ⟨h.symm, Or.inl g⟩)
  · exact Or.inr (Or.inl h)

/-- `¬ revLt b a` ("a is not newer than b") is transitive: `revLt` is a strict weak order -/
theorem revLe_trans {a b c : Rev} (h1 : revLt b a = false) (h2 : revLt c b = false) : revLt c a = false := by
  cases h : revLt c a
  · rfl
  · exfalso
    have e1 := (revLt_iff b a).not.mp (by simp [h1])
    have e2 := (revLt_iff c b).not.mp (by simp [h2])
    rw [revLt_iff] at h
    push Not at e1 e2
    obtain ⟨a1, a2⟩ := e1
    obtain ⟨b1, b2⟩ := e2
    rcases h with h | ⟨e, h⟩
    · omega
    · have hab : a.number = b.number := by omega
      have hbc : c.number = b.number := by omega
      obtain ⟨a3, a4⟩ := a2 hab.symm
      obtain ⟨b3, b4⟩ := b2 hbc
      rcases h with h | ⟨f, h⟩
      · omega
      · have hab' : a.ctime = b.ctime := by omega
        have hbc' : c.ctime = b.ctime := by omega
        have := a4 hab'.symm
        have := b4 hbc'
        exact absurd (lt_of_lt_of_le h (le_trans (not_lt.mp ‹¬ b.name < a.name›) (le_refl _))) (by
          intro hlt
          exact absurd (lt_of_lt_of_le hlt (le_refl _)) (not_lt.mpr (not_lt.mp ‹¬ c.name < b.name›)))

/-! ## `sortRevs` -/

theorem sortRevs_eq_foldr (l : List Rev) : sortRevs l = l.foldr insertRev [] := by
  simp [sortRevs, List.foldl_reverse]

theorem insertRev_perm (r : Rev) (l : List Rev) : (insertRev r l).Perm (r :: l) := by
  induction l with
  | nil => simp [insertRev]
  | cons q qs ih =>
    simp only [insertRev]
    split
    · exact List.Perm.refl _
    · exact (List.Perm.cons q ih).trans (List.Perm.swap r q qs)

/-- `sortRevs` neither loses nor invents nor duplicates a revision -/
theorem sortRevs_perm (l : List Rev) : (sortRevs l).Perm l := by
  rw [sortRevs_eq_foldr]
  induction l with
  | nil => exact List.Perm.refl _
  | cons r rs ih => exact (insertRev_perm r _).trans (List.Perm.cons r ih)

theorem mem_sortRevs {l : List Rev} {r : Rev} : r ∈ sortRevs l ↔ r ∈ l := (sortRevs_perm l).mem_iff

theorem length_sortRevs (l : List Rev) : (sortRevs l).length = l.length := (sortRevs_perm l).length_eq

/-- non-descending w.r.t. `revLt`: nothing later in the list is strictly older than something earlier -/
def SortedRevs (l : List Rev) : Prop := l.Pairwise (fun a b => revLt b a = false)

theorem insertRev_sorted (r : Rev) {l : List Rev} (hs : SortedRevs l) : SortedRevs (insertRev r l) := by
  induction l with
  | nil => simp [insertRev, SortedRevs]
  | cons q qs ih =>
    unfold SortedRevs at hs ih ⊢
    rw [List.pairwise_cons] at hs
    simp only [insertRev]
    split
    · rename_i hlt
      refine List.pairwise_cons.mpr ⟨?_, List.pairwise_cons.mpr hs⟩
      intro x hx
      rcases List.mem_cons.mp hx with rfl | hx
      · exact revLt_asymm hlt
      · exact revLe_trans (revLt_asymm hlt) (hs.1 x hx)
    · rename_i hlt
      refine List.pairwise_cons.mpr ⟨?_, ih hs.2⟩
      intro x hx
      rcases List.mem_cons.mp ((insertRev_perm r qs).mem_iff.mp hx) with rfl | hx
      · simpa using hlt
      · exact hs.1 x hx

/-- the output of `sortRevs` is sorted (oldest first) by (revision number, creation time, name) -/
theorem sortRevs_sorted (l : List Rev) : SortedRevs (sortRevs l) := by
  rw [sortRevs_eq_foldr]
  induction l with
  | nil => simp [SortedRevs]
  | cons r rs ih => exact insertRev_sorted r ih

theorem sortRevs_names_nodup {l : List Rev} (h : (l.map (·.name)).Nodup) : ((sortRevs l).map (·.name)).Nodup :=
  ((sortRevs_perm l).map _).nodup_iff.mpr h

/-- with distinct names the sort is strict: each revision is strictly older than all that follow -/
theorem sorted_strict {l : List Rev} (hs : SortedRevs l) (hn : (l.map (·.name)).Nodup) :
    l.Pairwise (fun a b => revLt a b = true) := by
  induction l with
  | nil => exact List.Pairwise.nil
  | cons q qs ih =>
    unfold SortedRevs at hs
    rw [List.pairwise_cons] at hs
    rw [List.map_cons, List.nodup_cons] at hn
    refine List.pairwise_cons.mpr ⟨?_, ih hs.2 hn.2⟩
    intro x hx
    have hne : q.name ≠ x.name := fun e => hn.1 (e ▸ List.mem_map_of_mem hx)
    rcases revLt_total hne with h | h
    · exact h
    · rw [hs.1 x hx] at h; exact absurd h (by decide)

/-- the last element of a sorted list carries the largest revision number -/
theorem sorted_getLast_max {l : List Rev} (hs : SortedRevs l) {m : Rev} (hm : l.getLast? = some m) :
    ∀ r ∈ l, r.number ≤ m.number := by
  induction l with
  | nil => simp at hm
  | cons q qs ih =>
    unfold SortedRevs at hs
    rw [List.pairwise_cons] at hs
    intro r hr
    cases qs with
    | nil =>
      simp at hm hr; subst hm; subst hr; exact le_refl _
    | cons q' qs' =>
      rw [List.getLast?_cons_cons] at hm
      rcases List.mem_cons.mp hr with rfl | hr
      · have hmem : m ∈ q' :: qs' := List.mem_of_getLast? hm
        have := hs.1 m hmem
        have e := (revLt_iff m r).not.mp (by simp [this])
        push Not at e
        exact e.1
      · exact ih hs.2 hm r hr

theorem nextRevision_gt {l : List Rev} (hs : SortedRevs l) : ∀ r ∈ l, r.number < nextRevision l := by
  intro r hr
  unfold nextRevision
  cases hm : l.getLast? with
  | none => rw [List.getLast?_eq_none_iff] at hm; subst hm; simp at hr
  | some m => have := sorted_getLast_max hs hm r hr; simp only; omega

/-! ## `listRevisions` -/

theorem dedupByName_spec (l : List Rev) (seen : List String) :
    ((dedupByName l seen).map (·.name)).Nodup ∧ (∀ r ∈ dedupByName l seen, r ∈ l ∧ r.name ∉ seen) := by
  induction l generalizing seen with
  | nil => simp [dedupByName]
  | cons r rs ih =>
    simp only [dedupByName]
    split
    · rename_i h
      obtain ⟨h1, h2⟩ := ih seen
      exact ⟨h1, fun x hx => ⟨List.mem_cons_of_mem _ (h2 x hx).1, (h2 x hx).2⟩⟩
    · rename_i h
      obtain ⟨h1, h2⟩ := ih (r.name :: seen)
      refine ⟨?_, ?_⟩
      · rw [List.map_cons, List.nodup_cons]
        refine ⟨?_, h1⟩
        intro hmem
        obtain ⟨x, hx, hxe⟩ := List.mem_map.mp hmem
        exact (h2 x hx).2 (by rw [hxe]; exact List.mem_cons_self)
      · intro x hx
        rcases List.mem_cons.mp hx with rfl | hx
        · exact ⟨List.mem_cons_self, by simpa using h⟩
        · exact ⟨List.mem_cons_of_mem _ (h2 x hx).1, fun hs => (h2 x hx).2 (List.mem_cons_of_mem _ hs)⟩

/-- every name not yet seen that occurs in `l` is kept once, namely its first occurrence -/
theorem dedupByName_complete (l : List Rev) (seen : List String) {n : String} (hn : n ∈ l.map (·.name)) (hs : n ∉ seen) :
    n ∈ (dedupByName l seen).map (·.name) := by
  induction l generalizing seen with
  | nil => simp at hn
  | cons r rs ih =>
    simp only [dedupByName]
    by_cases hr : r.name = n
    · subst hr
      simp only [List.contains_iff_mem] at *
      rw [if_neg hs]; simp
    · have hn' : n ∈ rs.map (·.name) := by
        rw [List.map_cons, List.mem_cons] at hn
        rcases hn with e | hn
        · exact absurd e.symm hr
        · exact hn
      split
      · exact ih seen hn' hs
      · rw [List.map_cons]
        exact List.mem_cons_of_mem _ (ih (r.name :: seen) hn' (by
          intro h; rcases List.mem_cons.mp h with e | h
          · exact hr e.symm
          · exact hs h))

/-- `ListRevisions` yields each name at most once -/
theorem listRevisions_names_nodup (store : List Rev) : ((listRevisions store).map (·.name)).Nodup := by
  unfold listRevisions
  exact List.Nodup.sublist (List.Sublist.map _ List.filter_sublist) (dedupByName_spec _ _).1

/-- what is listed is stored, matches the selector or carries the marker, and is not controlled by somebody else -/
theorem mem_listRevisions {store : List Rev} {r : Rev} (h : r ∈ listRevisions store) :
    r ∈ store ∧ (r.selMatch = true ∨ r.marker = true) ∧ r.owner ≠ .other := by
  unfold listRevisions at h
  rw [List.mem_filter] at h
  obtain ⟨h1, h2⟩ := h
  have := ((dedupByName_spec _ _).2 r h1).1
  rw [List.mem_append, List.mem_filter, List.mem_filter] at this
  refine ⟨?_, ?_, by simpa using h2⟩
  · rcases this with h | h <;> exact h.1
  · rcases this with h | h
    · exact Or.inl h.2
    · exact Or.inr h.2

/-- the sorted listing the reconcile works on has distinct names -/
theorem sorted_listing_names_nodup (store : List Rev) : ((sortRevs (listRevisions store)).map (·.name)).Nodup :=
  sortRevs_names_nodup (listRevisions_names_nodup store)

/-- with distinct store names, the listing is exactly the stored revisions that match (selector or marker) and are not
    controlled by somebody else -/
theorem mem_listRevisions_iff {store : List Rev} (hn : (store.map (·.name)).Nodup) {r : Rev} :
    r ∈ listRevisions store ↔ r ∈ store ∧ (r.selMatch = true ∨ r.marker = true) ∧ r.owner ≠ .other := by
  refine ⟨mem_listRevisions, ?_⟩
  rintro ⟨h1, h2, h3⟩
  unfold listRevisions
  rw [List.mem_filter]
  refine ⟨?_, by simpa using h3⟩
  have hmem : r ∈ store.filter (·.selMatch) ++ store.filter (·.marker) := by
    rw [List.mem_append, List.mem_filter, List.mem_filter]
    rcases h2 with h | h
    · exact Or.inl ⟨h1, h⟩
    · exact Or.inr ⟨h1, h⟩
  have := dedupByName_complete _ [] (List.mem_map_of_mem (f := (·.name)) hmem) (by simp)
  obtain ⟨x, hx, hxe⟩ := List.mem_map.mp this
  have hx' := ((dedupByName_spec _ _).2 x hx).1
  have hxs : x ∈ store := by
    rw [List.mem_append, List.mem_filter, List.mem_filter] at hx'
    rcases hx' with h | h <;> exact h.1
  have : x = r := List.inj_on_of_nodup_map hn hxs h1 hxe
  exact this ▸ hx

/-! ## `equalRev` -/

theorem equalRev_data {a b : Rev} (h : equalRev a b = true) : a.data = b.data := by
  simp [equalRev] at h; exact h.2

theorem equalRev_iff_of_nonnumeric {a b : Rev} (h : a.hashNum = none ∨ b.hashNum = none) :
    equalRev a b = true ↔ a.data = b.data := by
  unfold equalRev
  rcases h with h | h
  · rw [h]; simp
  · rw [h]; cases a.hashNum <;> simp

theorem equalRev_iff (a b : Rev) :
    equalRev a b = true ↔ a.data = b.data ∧ ∀ x y, a.hashNum = some x → b.hashNum = some y → x = y := by
  unfold equalRev
  cases a.hashNum <;> cases b.hashNum <;> simp [and_comm]

/-! ## `insertByName` -/

theorem insertByName_perm (r : Rev) (l : List Rev) : (insertByName r l).Perm (r :: l) := by
  induction l with
  | nil => simp [insertByName]
  | cons q qs ih =>
    simp only [insertByName]
    split
    · exact List.Perm.refl _
    · exact (List.Perm.cons q ih).trans (List.Perm.swap r q qs)

theorem mem_insertByName {r x : Rev} {l : List Rev} : x ∈ insertByName r l ↔ x = r ∨ x ∈ l := by
  rw [(insertByName_perm r l).mem_iff, List.mem_cons]

end Asts.SYb
