import Mathlib.Tactic
import Asts.Proofs.WE_Edits
import Asts.Proofs.SY_a_Pause
import Asts.Proofs.C02_Idem

/-! # WE — a pause interval is lossless, on the round semantics (`Model/World.lean`, `Model/WorldEdits.lean`)

A round of a paused world does nothing but the environment's `settle`; further paused rounds are the identity on the world;
the round that follows the un-pause is, component for component, the round the never-paused world would have run. -/
namespace Asts.WE
open Asts Asts.SYa Asts.C02p

/-- the derived field of a world is in step with the stored status (true of every world a case describes and of every world
    a round leaves) -/
def ViewInStep (i : SyncIn) : Prop := i.view.stCurrentReplicas = i.stored.current

/-- the settled pod list is a fixed point of the re-sort / re-index `applySync` performs -/
theorem settled_pods_fixed (i : SyncIn) (hn : (i.pods.map (·.name)).Nodup) :
    reindex (sortPods (settle i).pods) = (settle i).pods := by
  rw [settle_pods i]
  set M := (i.pods.filter (fun c => !c.pod.terminating)).map settleOne with hM
  have hMn : (M.map (·.name)).Nodup := by
    rw [hM, List.map_map]
    have : ((fun c : CPod => c.name) ∘ settleOne) = (fun c => c.name) := by funext c; exact settleOne_name c
    rw [this]
    exact hn.sublist (List.Sublist.map _ List.filter_sublist)
  have hS : StrictSorted (sortPods M) :=
    strict_of_weak_nodup _ (sortPods_sorted M) (((sortPods_perm M).map _).nodup_iff.2 hMn)
  have hS1 : StrictSorted (reindex (sortPods M)) := strictSorted_names (reindexFrom_names 0 _) hS
  rw [sortPods_of_strict _ hS1, reindex_eq, reindex_eq, reindexFrom_idem]

/-- **one round of a paused world is `settle`** and is silent -/
theorem paused_round_is_settle (h : Hashing) (i : SyncIn) (plan : List Fault) (hp : i.paused = true)
    (hv : ViewInStep i) (hn : (i.pods.map (·.name)).Nodup) :
    (round h i plan).1 = settle i ∧ (round h i plan).2.writes = 0 ∧ (round h i plan).2.out = "ok" ∧
    (round h i plan).2.revs = i.store ∧ (round h i plan).2.status = i.stored := by
  have hp' : (settle i).paused = true := hp
  have h1 := syncF_paused h (settle i) plan hp'
  have h2 := applySync_paused h (settle i) plan hp'
  have hw : (round h i plan).1 = settle i := by
    show applySync (settle i) plan (syncF h (settle i) plan) = settle i
    rw [h2, settled_pods_fixed i hn]
    have hv' : (settle i).stored.current = (settle i).view.stCurrentReplicas := hv.symm
    rw [hv']
  refine ⟨hw, ?_, ?_, ?_, ?_⟩
  · obtain ⟨a, _⟩ := round_paused h i plan hp; exact a
  · obtain ⟨_, a, _⟩ := round_paused h i plan hp; exact a
  · show (round h i plan).1.store = i.store
    rw [hw]; rfl
  · show (round h i plan).1.stored = i.stored
    rw [hw]; rfl

theorem settle_names_nodup (i : SyncIn) (hn : (i.pods.map (·.name)).Nodup) : ((settle i).pods.map (·.name)).Nodup := by
  rw [settle_pods i, reindex_eq, reindexFrom_names]
  have hperm := (sortPods_perm ((i.pods.filter (fun c => !c.pod.terminating)).map settleOne)).map (fun c : CPod => c.name)
  rw [hperm.nodup_iff, List.map_map]
  have : ((fun c : CPod => c.name) ∘ settleOne) = (fun c => c.name) := by funext c; exact settleOne_name c
  rw [this]
  exact hn.sublist (List.Sublist.map _ List.filter_sublist)

theorem settle_viewInStep (i : SyncIn) (hv : ViewInStep i) : ViewInStep (settle i) := hv

/-- the world after `n` rounds of pause, the first of them under the fault plan `plan` -/
def pausedFor (h : Hashing) (plan : List Fault) : Nat → SyncIn → SyncIn
  | 0, i => applyEdit (.pause true) i
  | n + 1, i => (round h (pausedFor h plan n i) (if n = 0 then plan else [])).1

/-- **while paused the world only settles**: after one or more paused rounds the world is the settled world with the flag up -/
theorem pausedFor_eq (h : Hashing) (plan : List Fault) (i : SyncIn) (hv : ViewInStep i) (hn : (i.pods.map (·.name)).Nodup) :
    ∀ n, pausedFor h plan (n + 1) i = settle (applyEdit (.pause true) i)
  | 0 => (paused_round_is_settle h (applyEdit (.pause true) i) plan rfl hv hn).1
  | n + 1 => by
    show (round h (pausedFor h plan (n + 1) i) (if n + 1 = 0 then plan else [])).1 = _
    rw [pausedFor_eq h plan i hv hn n]
    have hn' := settle_names_nodup (applyEdit (.pause true) i) hn
    rw [(paused_round_is_settle h (settle (applyEdit (.pause true) i)) _ rfl (settle_viewInStep _ hv) hn').1]
    exact settle_idem (applyEdit (.pause true) i) hn

/-- every round of the pause is silent and leaves revisions and status as they were -/
theorem pausedFor_round_silent (h : Hashing) (plan : List Fault) (i : SyncIn) (hv : ViewInStep i)
    (hn : (i.pods.map (·.name)).Nodup) (n : Nat) (p : List Fault) :
    (round h (pausedFor h plan n i) p).2.writes = 0 ∧ (round h (pausedFor h plan n i) p).2.out = "ok" ∧
    (round h (pausedFor h plan n i) p).2.revs = i.store ∧ (round h (pausedFor h plan n i) p).2.status = i.stored := by
  cases n with
  | zero =>
    obtain ⟨_, a, b, c, d⟩ := paused_round_is_settle h (applyEdit (.pause true) i) p rfl hv hn
    exact ⟨a, b, c, d⟩
  | succ n =>
    rw [pausedFor_eq h plan i hv hn n]
    obtain ⟨_, a, b, c, d⟩ := paused_round_is_settle h (settle (applyEdit (.pause true) i)) p rfl (settle_viewInStep _ hv)
      (settle_names_nodup _ hn)
    exact ⟨a, b, c, d⟩

/-- a round starts by settling: it cannot tell a settled world from the world before `settle` -/
theorem round_settle (h : Hashing) (i : SyncIn) (p : List Fault) (hn : (i.pods.map (·.name)).Nodup) :
    round h (settle i) p = round h i p := by
  show (let j := settle (settle i); let o := syncF h j p; let i' := applySync j p o; (i', _)) = _
  simp only [settle_idem i hn]
  rfl

/-- **the pause is lossless**: the round that follows the un-pause — after any number `n ≥ 1` of paused rounds — is the round
    the world would have run had it never been paused: the same next world, the same observation (calls, pods, revisions,
    status) -/
theorem unpause_round_eq (h : Hashing) (plan p : List Fault) (i : SyncIn) (hv : ViewInStep i)
    (hn : (i.pods.map (·.name)).Nodup) (n : Nat) :
    round h (applyEdit (.pause false) (pausedFor h plan (n + 1) i)) p = round h (applyEdit (.pause false) i) p := by
  rw [pausedFor_eq h plan i hv hn n]
  have : applyEdit (.pause false) (settle (applyEdit (.pause true) i)) = settle (applyEdit (.pause false) i) := rfl
  rw [this]
  exact round_settle h _ p hn

end Asts.WE
