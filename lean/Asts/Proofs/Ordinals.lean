import Asts.Model.Ordinals
import Mathlib.Data.List.Sort
import Mathlib.Data.Finset.Card
import Mathlib.Tactic

namespace Asts
open List

/-! ### dedupSort -/

theorem mem_insertSorted {x y : Int} {l : List Int} : y ∈ insertSorted x l ↔ y = x ∨ y ∈ l := by
  induction l with
  | nil => simp [insertSorted]
  | cons a as ih =>
    unfold insertSorted
    split_ifs with h1 h2
    · simp
    · subst h2; simp
    · simp [ih]; tauto

theorem mem_dedupSort {y : Int} {l : List Int} : y ∈ dedupSort l ↔ y ∈ l := by
  induction l with
  | nil => simp [dedupSort]
  | cons a as ih =>
    simp only [dedupSort, List.foldr_cons] at *
    rw [mem_insertSorted, ih]; simp

theorem sorted_insertSorted {x : Int} {l : List Int} (h : l.Pairwise (· < ·)) :
    (insertSorted x l).Pairwise (· < ·) := by
  induction l with
  | nil => simp [insertSorted]
  | cons a as ih =>
    unfold insertSorted
    rw [List.pairwise_cons] at h
    split_ifs with h1 h2
    · rw [List.pairwise_cons]; refine ⟨?_, List.pairwise_cons.2 h⟩
      intro b hb; rcases List.mem_cons.1 hb with rfl | hb
      · exact h1
      · exact lt_trans h1 (h.1 b hb)
    · exact List.pairwise_cons.2 h
    · rw [List.pairwise_cons]; refine ⟨?_, ih h.2⟩
      intro b hb; rcases mem_insertSorted.1 hb with rfl | hb
      · omega
      · exact h.1 b hb

theorem sorted_dedupSort (l : List Int) : (dedupSort l).Pairwise (· < ·) := by
  induction l with
  | nil => simp [dedupSort]
  | cons a as ih => simpa [dedupSort] using sorted_insertSorted ih

/-! ### extend -/

theorem extend_all_ge {b : Int} {l : List Int} (h : ∀ s ∈ l, b ≤ s) : extend b l = (b, []) := by
  induction l with
  | nil => rfl
  | cons a as ih =>
    have ha : ¬ (0 ≤ a ∧ a < b) := by have := h a (by simp); omega
    simp only [extend, ha, if_false]
    exact ih (fun s hs => h s (by simp [hs]))

/-- Characterisation of the extension loop on a strictly sorted list: the loop keeps exactly the
    non-negative elements below the final bound, and the final bound is the start plus their number. -/
theorem extend_spec {l : List Int} (hs : l.Pairwise (· < ·)) (b : Int) (hb0 : 0 ≤ b) :
    (extend b l).1 = b + (extend b l).2.length ∧
    (extend b l).2 = l.filter (fun s => decide (0 ≤ s) && decide (s < (extend b l).1)) := by
  induction l generalizing b with
  | nil => simp [extend]
  | cons a as ih =>
    rw [List.pairwise_cons] at hs
    by_cases ha : 0 ≤ a ∧ a < b
    · have := ih hs.2 (b + 1) (by omega)
      simp only [extend, ha, and_self, if_true]
      obtain ⟨h1, h2⟩ := this
      have hlt : a < (extend (b + 1) as).1 := by rw [h1]; omega
      refine ⟨by rw [h1]; simp; omega, ?_⟩
      rw [List.filter_cons]; simp [hlt, ha.1]; exact h2
    · by_cases hneg : a < 0
      · have := ih hs.2 b hb0
        simp only [extend, ha, if_false]
        refine ⟨this.1, ?_⟩
        rw [List.filter_cons]
        have h0 : ¬ (0 ≤ a) := by omega
        simp only [h0, decide_false, Bool.false_and]
        exact this.2
      · have hge : ∀ s ∈ as, b ≤ s := fun s hs' => by have := hs.1 s hs'; omega
        simp only [extend, ha, if_false]
        rw [extend_all_ge hge]
        refine ⟨by simp, ?_⟩
        symm; rw [List.filter_eq_nil_iff]
        intro s hs'; rcases List.mem_cons.1 hs' with rfl | hs'
        · simp; omega
        · have := hge s hs'; simp; omega

end Asts
