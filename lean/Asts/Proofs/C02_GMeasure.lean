import Asts.Proofs.C02_Weights

/-! C02, policy-independent: the measure never goes up under a list of calls satisfying `ActFacts`, and goes down as soon as
    the list contains a create, a delete of a pod of the list, or an update of a live pod that lacks its identity. -/
namespace Asts.C02p
open Asts Asts.L1c

theorem settleOne_mkPod (s : String) (o : Int) (rev : String) :
    settleOne (mkPod s o rev) = { mkPod s o rev with pod := { (mkPod s o rev).pod with phase := .running, ready := true } } := by
  unfold settleOne
  simp [mkPod, Pod.failed, Pod.succeeded]

section
variable {v : SetView} {cur upd : String} {b : Int} {E : List Int} {setName : String} {P : List CPod} {acts : List Action}

theorem nextRawG_at_none (hc : PodsCtx setName P) (hf : ActFacts v cur upd b E P acts) {o : Int}
    (hnocre : ∀ rev, Action.create o rev ∉ acts)
    (hnosurv : ∀ c ∈ P, c.pod.ord = o → DelHits acts c.pod.id) :
    ∀ x ∈ nextRawG setName P acts, x.pod.ord ≠ o := by
  intro x hx hxo
  rcases nextRawG_mem hc hf hx with ⟨c, hcm, hnd, hsame, _⟩ | ⟨o', rev, hcr, rfl⟩
  · exact hnd (hnosurv c hcm (by rw [← hsame.ord]; exact hxo))
  · have : o' = o := by rw [← hxo, settleOne_ord]; rfl
    subst this
    exact hnocre rev hcr

/-- **weights, ordinal by ordinal** -/
theorem step_weightG (hc : PodsCtx setName P) (hf : ActFacts v cur upd b E P acts)
    (hpart : v.strat = .onDelete ∨ ∃ p, v.ru = some (some p) ∧ 0 ≤ p) {o : Int} (ho : inRange b E o = true) :
    wOf v upd (nextRawG setName P acts) o ≤ wOf v upd P o ∧
    ((∃ rev, Action.create o rev ∈ acts) → wOf v upd (nextRawG setName P acts) o < wOf v upd P o) ∧
    (∀ c ∈ P, c.pod.ord = o → DelHits acts c.pod.id → wOf v upd (nextRawG setName P acts) o < wOf v upd P o) ∧
    (∀ c ∈ P, c.pod.ord = o → c.pod.fs = false → c.pod.idOk = false → Action.update o ∈ acts →
      wOf v upd (nextRawG setName P acts) o < wOf v upd P o) := by
  have hndN := nextRawG_ords_nodup hc hf
  by_cases hcre : ∃ rev, Action.create o rev ∈ acts
  · -- a new pod at `o`: weight 0; before: a vacancy or a Failed/Succeeded pod
    obtain ⟨rev, hcr⟩ := hcre
    obtain ⟨_, hrev, hcase⟩ := hf.cre o rev hcr
    have hmem := nextRawG_new hc hf hcr
    have hord : (settleOne (mkPod setName o rev)).pod.ord = o := by rw [settleOne_ord]; rfl
    have hw := wOf_some (v := v) (upd := upd) hndN hmem
    rw [hord] at hw
    have hw0 : wOf v upd (nextRawG setName P acts) o = 0 := by
      rw [hw, settleOne_mkPod, wPod_live (by simp [Pod.fs, Pod.failed, Pod.succeeded]) rfl]
      simp only [mkPod]
      rw [hrev, outW_new v hpart]
      rfl
    have hold : 0 < wOf v upd P o := by
      rcases hcase with hnone | ⟨c, hcm, hco, hfs, _⟩
      · rw [wOf_none hnone]; omega
      · subst hco
        rw [wOf_some hc.ords hcm, wPod_fs hfs (hc.settled c hcm).1]; omega
    rw [hw0]
    exact ⟨by omega, fun _ => hold, fun _ _ _ _ => hold, fun _ _ _ _ _ _ => hold⟩
  · have hnocre : ∀ rev, Action.create o rev ∉ acts := fun rev h => hcre ⟨rev, h⟩
    refine ⟨?_, fun h => absurd h hcre, ?_, ?_⟩
    · by_cases hex : ∃ c ∈ P, c.pod.ord = o
      · obtain ⟨c, hcm, rfl⟩ := hex
        have hnt := (hc.settled c hcm).1
        rw [wOf_some hc.ords hcm]
        by_cases hd : DelHits acts c.pod.id
        · by_cases hfs : c.pod.fs = true
          · obtain ⟨rev, hcr⟩ := hf.delFs c hcm hd hfs ho
            exact absurd hcr (hnocre rev)
          · have hfs' : c.pod.fs = false := by simpa using hfs
            obtain ⟨hroll, hpt, hrev⟩ := hf.delLive c hcm hd hfs' ho
            have hnone := nextRawG_at_none hc hf hnocre (fun c' hc' hco' => by
              rw [hc.ord_inj hc' hcm hco']; exact hd)
            rw [wOf_none hnone, wPod_live hfs' hnt]
            have : outW v upd c.pod.ord c.pod.rev = 3 := by unfold outW; simp [hroll, hpt, hrev]
            omega
        · obtain ⟨x, hx, hsame, hntx, _⟩ := nextRawG_survivor (setName := setName) (acts := acts) hc hcm hd
          have hw := wOf_some (v := v) (upd := upd) hndN hx
          rw [hsame.ord] at hw
          rw [hw]
          by_cases hfs : c.pod.fs = true
          · have hfsx : x.pod.fs = true := by
              unfold Pod.fs Pod.failed Pod.succeeded at hfs ⊢; rw [hsame.phase]; exact hfs
            rw [wPod_fs hfsx hntx, wPod_fs hfs hnt]
          · have hfs' : c.pod.fs = false := by simpa using hfs
            have hfsx : x.pod.fs = false := by
              unfold Pod.fs Pod.failed Pod.succeeded at hfs' ⊢; rw [hsame.phase]; exact hfs'
            rw [wPod_live hfsx hntx, wPod_live hfs' hnt, hsame.rev]
            by_cases hid : c.pod.idOk = true
            · rw [hsame.idOk hid, hid]
            · have : c.pod.idOk = false := by simpa using hid
              rw [this]
              simp only [Bool.false_eq_true, if_false]
              have : (if x.pod.idOk = true then 0 else 1) ≤ 1 := by split_ifs <;> omega
              omega
      · have hnone : ∀ c ∈ P, c.pod.ord ≠ o := fun c hcm hco => hex ⟨c, hcm, hco⟩
        have hnoneN := nextRawG_at_none hc hf hnocre (fun c hcm hco => absurd hco (hnone c hcm))
        rw [wOf_none hnone, wOf_none hnoneN]
    · intro c hcm hco hd
      subst hco
      have hnt := (hc.settled c hcm).1
      rw [wOf_some hc.ords hcm]
      by_cases hfs : c.pod.fs = true
      · obtain ⟨rev, hcr⟩ := hf.delFs c hcm hd hfs ho
        exact absurd hcr (hnocre rev)
      · have hfs' : c.pod.fs = false := by simpa using hfs
        obtain ⟨hroll, hpt, hrev⟩ := hf.delLive c hcm hd hfs' ho
        have hnone := nextRawG_at_none hc hf hnocre (fun c' hc' hco' => by
          rw [hc.ord_inj hc' hcm hco']; exact hd)
        rw [wOf_none hnone, wPod_live hfs' hnt]
        have : outW v upd c.pod.ord c.pod.rev = 3 := by unfold outW; simp [hroll, hpt, hrev]
        omega
    · intro c hcm hco hfs hid hu
      subst hco
      have hnt := (hc.settled c hcm).1
      rw [wOf_some hc.ords hcm, wPod_live hfs hnt, hid]
      by_cases hd : DelHits acts c.pod.id
      · obtain ⟨hroll, hpt, hrev⟩ := hf.delLive c hcm hd hfs ho
        have hnone := nextRawG_at_none hc hf hnocre (fun c' hc' hco' => by
          rw [hc.ord_inj hc' hcm hco']; exact hd)
        rw [wOf_none hnone]
        have : outW v upd c.pod.ord c.pod.rev = 3 := by unfold outW; simp [hroll, hpt, hrev]
        simp only [Bool.false_eq_true, if_false]
        omega
      · obtain ⟨x, hx, hsame, hntx, hupd⟩ := nextRawG_survivor (setName := setName) (acts := acts) hc hcm hd
        have hw := wOf_some (v := v) (upd := upd) hndN hx
        rw [hsame.ord] at hw
        have hfsx : x.pod.fs = false := by
          unfold Pod.fs Pod.failed Pod.succeeded at hfs ⊢; rw [hsame.phase]; exact hfs
        have hidx : x.pod.idOk = true := hupd c.pod.ord hu (hc.own c hcm).2.2.2.1
        rw [hw, wPod_live hfsx hntx, hsame.rev, hidx]
        simp

/-- the pods outside the desired set: never more, fewer as soon as one of them is deleted -/
theorem step_condemnedG (hc : PodsCtx setName P) (hf : ActFacts v cur upd b E P acts) (D : List Int)
    (hD : ∀ o, o ∈ D ↔ inRange b E o = true) :
    ((nextRawG setName P acts).filter (fun c => !D.contains c.pod.ord)).length ≤
      (P.filter (fun c => !D.contains c.pod.ord)).length ∧
    ((∃ c ∈ P, c.pod.ord ∉ D ∧ DelHits acts c.pod.id) →
      ((nextRawG setName P acts).filter (fun c => !D.contains c.pod.ord)).length <
        (P.filter (fun c => !D.contains c.pod.ord)).length) := by
  set A := ((nextRawG setName P acts).filter (fun c => !D.contains c.pod.ord)).map (·.pod.ord) with hA
  set B := (P.filter (fun c => !D.contains c.pod.ord)).map (·.pod.ord) with hB
  have hAnd : A.Nodup := (List.Sublist.map _ List.filter_sublist).nodup (nextRawG_ords_nodup hc hf)
  have hBnd : B.Nodup := (List.Sublist.map _ List.filter_sublist).nodup hc.ords
  -- every pod of the next list outside `D` survives from a pod of the list that no delete hit
  have hsrc : ∀ o ∈ A, ∃ c ∈ P, c.pod.ord = o ∧ c.pod.ord ∉ D ∧ ¬ DelHits acts c.pod.id := by
    intro o ho
    rw [hA, List.mem_map] at ho
    obtain ⟨x, hx, rfl⟩ := ho
    rw [List.mem_filter] at hx
    have hq : x.pod.ord ∉ D := by simpa using hx.2
    rcases nextRawG_mem hc hf hx.1 with ⟨c, hcm, hnd, hsame, _⟩ | ⟨o', rev, hcr, rfl⟩
    · exact ⟨c, hcm, hsame.ord.symm, by rw [← hsame.ord]; exact hq, hnd⟩
    · exfalso
      apply hq
      rw [settleOne_ord]
      exact (hD _).2 (hf.cre o' rev hcr).1
  have hsub : A ⊆ B := by
    intro o ho
    obtain ⟨c, hcm, hco, hq, _⟩ := hsrc o ho
    rw [hB, List.mem_map]
    exact ⟨c, List.mem_filter.2 ⟨hcm, by simpa using hq⟩, hco⟩
  have hlenA : A.length = ((nextRawG setName P acts).filter (fun c => !D.contains c.pod.ord)).length := by simp [hA]
  have hlenB : B.length = (P.filter (fun c => !D.contains c.pod.ord)).length := by simp [hB]
  rw [← hlenA, ← hlenB]
  refine ⟨(List.subperm_of_subset hAnd hsub).length_le, ?_⟩
  rintro ⟨c0, hc0, hq0, hd0⟩
  have hc0B : c0.pod.ord ∈ B := by
    rw [hB, List.mem_map]
    exact ⟨c0, List.mem_filter.2 ⟨hc0, by simpa using hq0⟩, rfl⟩
  have hc0A : c0.pod.ord ∉ A := by
    intro h
    obtain ⟨c, hcm, hco, _, hnd⟩ := hsrc _ h
    rw [hc.ord_inj hcm hc0 hco] at hnd
    exact hnd hd0
  have hsub' : A ⊆ B.erase c0.pod.ord := by
    intro o ho
    rw [List.Nodup.mem_erase_iff hBnd]
    exact ⟨fun h => hc0A (h ▸ ho), hsub ho⟩
  have := (List.subperm_of_subset hAnd hsub').length_le
  rw [List.length_erase_of_mem hc0B] at this
  have hpos : 0 < B.length := List.length_pos_of_mem hc0B
  omega

/-- something the measure counts happens -/
def Event (b : Int) (E : List Int) (P : List CPod) (acts : List Action) : Prop :=
  (∃ o rev, Action.create o rev ∈ acts) ∨ (∃ c ∈ P, DelHits acts c.pod.id) ∨
  (∃ c ∈ P, inRange b E c.pod.ord = true ∧ c.pod.fs = false ∧ c.pod.idOk = false ∧ Action.update c.pod.ord ∈ acts)

/-- **the measure, generically**: never up; down whenever an `Event` happens -/
theorem mu_stepG (hc : PodsCtx setName P) (hf : ActFacts v cur upd b E P acts)
    (hpart : v.strat = .onDelete ∨ ∃ p, v.ru = some (some p) ∧ 0 ≤ p) (D : List Int)
    (hD : ∀ o, o ∈ D ↔ inRange b E o = true) :
    muOf v upd D (nextRawG setName P acts) ≤ muOf v upd D P ∧
    (Event b E P acts → muOf v upd D (nextRawG setName P acts) < muOf v upd D P) := by
  unfold muOf
  have hle : (D.map (wOf v upd (nextRawG setName P acts))).sum ≤ (D.map (wOf v upd P)).sum :=
    List.sum_le_sum (fun o ho => (step_weightG hc hf hpart ((hD o).1 ho)).1)
  obtain ⟨hcle, hclt⟩ := step_condemnedG hc hf D hD
  refine ⟨by omega, ?_⟩
  have hstrictAt : ∀ o ∈ D, wOf v upd (nextRawG setName P acts) o < wOf v upd P o →
      (D.map (wOf v upd (nextRawG setName P acts))).sum < (D.map (wOf v upd P)).sum := by
    intro o ho hlt
    exact List.sum_lt_sum _ _ (fun o ho => (step_weightG hc hf hpart ((hD o).1 ho)).1) ⟨o, ho, hlt⟩
  rintro (⟨o, rev, hcr⟩ | ⟨c, hcm, hd⟩ | ⟨c, hcm, hr, hfs, hid, hu⟩)
  · have hr := (hf.cre o rev hcr).1
    have := hstrictAt o ((hD o).2 hr) ((step_weightG hc hf hpart hr).2.1 ⟨rev, hcr⟩)
    omega
  · by_cases hr : inRange b E c.pod.ord = true
    · have := hstrictAt _ ((hD _).2 hr) ((step_weightG hc hf hpart hr).2.2.1 c hcm rfl hd)
      omega
    · have := hclt ⟨c, hcm, fun h => hr ((hD _).1 h), hd⟩
      omega
  · have := hstrictAt _ ((hD _).2 hr) ((step_weightG hc hf hpart hr).2.2.2 c hcm rfl hfs hid hu)
    omega

end

end Asts.C02p
