import Mathlib.Tactic
import Asts.Model.Sync
import Asts.Proofs.SY_a_Claim
import Asts.Proofs.SY_a_Revs

/-! # SY_a — what each phase of `syncF` appends to the call log and does to the revision store -/

namespace Asts.SYa
open Asts

/-! ## log extensions -/

/-- `l'` is `l` plus entries that all satisfy `P` -/
def Ext (P : String → Prop) (l l' : List String) : Prop := ∃ ext, l' = l ++ ext ∧ ∀ e ∈ ext, P e

theorem Ext.refl {P : String → Prop} (l : List String) : Ext P l l := ⟨[], by simp, by simp⟩

theorem Ext.trans {P : String → Prop} {a b c : List String} (h1 : Ext P a b) (h2 : Ext P b c) : Ext P a c := by
  obtain ⟨e1, rfl, p1⟩ := h1
  obtain ⟨e2, rfl, p2⟩ := h2
  refine ⟨e1 ++ e2, by simp, ?_⟩
  intro e he
  rcases List.mem_append.1 he with he | he
  · exact p1 e he
  · exact p2 e he

theorem Ext.mono {P Q : String → Prop} {a b : List String} (h : ∀ e, P e → Q e) : Ext P a b → Ext Q a b := by
  rintro ⟨e, rfl, p⟩
  exact ⟨e, rfl, fun x hx => h x (p x hx)⟩

theorem Ext.one {P : String → Prop} (l : List String) {k : String} (hk : P k) : Ext P l (l ++ [k]) :=
  ⟨[k], rfl, by simpa using hk⟩

theorem Ext.append {P : String → Prop} (l : List String) {ks : List String} (hk : ∀ e ∈ ks, P e) : Ext P l (l ++ ks) :=
  ⟨ks, rfl, hk⟩

theorem Ext.all {P : String → Prop} {a b : List String} (h : Ext P a b) (ha : ∀ e ∈ a, P e) : ∀ e ∈ b, P e := by
  obtain ⟨e, rfl, p⟩ := h
  intro x hx
  rcases List.mem_append.1 hx with hx | hx
  · exact ha x hx
  · exact p x hx

theorem foldOk_inv {α β : Type _} (Inv : β → Prop) (xs : List α) (init : β) (f : β → α → β × Bool)
    (h0 : Inv init) (hstep : ∀ b a, a ∈ xs → Inv b → Inv (f b a).1) : Inv (foldOk xs init f).1 := by
  unfold foldOk
  refine foldl_inv (fun (acc : β × Bool) => Inv acc.1) _ xs _ h0 ?_
  intro acc a ha hacc
  by_cases h : acc.2 = true
  · simp only [h, if_true]; exact hstep _ _ ha hacc
  · simp only [h]; exact hacc

/-! ## `listRevsF` -/

theorem listRevsF_spec (plan : List Fault) (s : RevSt) :
    (listRevsF plan s).1.store = s.store ∧
    Ext (· = "list:revs") s.tr.log (listRevsF plan s).1.tr.log ∧
    ∀ l, (listRevsF plan s).2 = some l → l = listRevisions s.store := by
  have one : ∀ l : List String, Ext (· = "list:revs") l (l ++ ["list:revs"]) := fun l => ⟨["list:revs"], rfl, by simp⟩
  unfold listRevsF
  simp only [call_eq]
  cases look plan "list:revs" (occIn s.tr.log "list:revs") with
  | some k => exact ⟨rfl, one _, by simp⟩
  | none =>
    simp only
    cases look plan "list:revs" (occIn (s.tr.log ++ ["list:revs"]) "list:revs") with
    | some k => exact ⟨rfl, (one _).trans (one _), by simp⟩
    | none => exact ⟨rfl, (one _).trans (one _), by simp⟩

/-! ## `adoptOrphanRevisionsF` -/

theorem adoptF_deleting (plan : List Fault) (fresh : Fresh) (s : RevSt) :
    adoptOrphanRevisionsF plan true fresh s = (s, .ok) := by
  simp [adoptOrphanRevisionsF]

/-- what adoption may do to one stored revision: only its owner (nobody → this set, and only if an orphan of that name is
    listed) and its selector match (→ true, and only if a marker-carrying revision of that name is listed) can change -/
def AdoptG (L : List Rev) (x y : Rev) : Prop :=
  y.name = x.name ∧ y.number = x.number ∧ y.ctime = x.ctime ∧ y.data = x.data ∧ y.hashNum = x.hashNum ∧
  y.marker = x.marker ∧
  (y.owner = x.owner ∨ (y.owner = .self ∧ ∃ r ∈ L, r.owner = .none ∧ r.name = x.name)) ∧
  (y.selMatch = x.selMatch ∨ (y.selMatch = true ∧ ∃ r ∈ L, r.marker = true ∧ r.name = x.name))

theorem AdoptG.refl (L : List Rev) (x : Rev) : AdoptG L x x :=
  ⟨rfl, rfl, rfl, rfl, rfl, rfl, Or.inl rfl, Or.inl rfl⟩

def AdoptEntry (L : List Rev) (e : String) : Prop :=
  e = "list:revs" ∨ e = "get:set" ∨ (∃ r ∈ L, r.marker = true ∧ r.owner ≠ .other ∧ e = s!"update:rev:{r.name}") ∨
  (∃ r ∈ L, r.owner = .none ∧ e = s!"patch:rev:{r.name}")

/-- state invariant of the adoption phase -/
def AdoptSt (L st0 : List Rev) (log0 : List String) (s : RevSt) : Prop :=
  (∃ g : Rev → Rev, (∀ x, AdoptG L x (g x)) ∧ s.store = st0.map g) ∧ Ext (AdoptEntry L) log0 s.tr.log

theorem AdoptSt.log {L st0 log0} {s : RevSt} (h : AdoptSt L st0 log0 s) {t : Tr}
    (ht : Ext (AdoptEntry L) s.tr.log t.log) : AdoptSt L st0 log0 { s with tr := t } :=
  ⟨h.1, h.2.trans ht⟩

def labelStep (plan : List Fault) (s : RevSt) (r : Rev) : RevSt × Bool :=
      if r.marker then
        let (t, e) := s.tr.call plan s!"update:rev:{r.name}"
        match e with
        | some _ => ({ s with tr := t }, false)
        | none => ({ store := s.store.map (fun x => if x.name == r.name then { x with selMatch := true } else x), tr := t }, true)
      else (s, true)

def patchStep (plan : List Fault) (s : RevSt) (r : Rev) : RevSt × Bool :=
      if r.owner != .none then (s, true)          -- already controlled by this set
      else
        let (t, e) := s.tr.call plan s!"patch:rev:{r.name}"
        match e with
        | some _ => ({ s with tr := t }, false)
        | none => ({ store := s.store.map (fun x => if x.name == r.name then { x with owner := .self } else x), tr := t }, true)

theorem adoptF_eq (plan : List Fault) (d : Bool) (fresh : Fresh) (s : RevSt) :
    adoptOrphanRevisionsF plan d fresh s =
      if d then (s, .ok) else
      match listRevsF plan s with
      | (s, none) => (s, .err)
      | (s, some revs) =>
        if !(revs.any (·.owner == .none)) then (s, .ok) else
        let r1 := foldOk revs s (labelStep plan)
        if !r1.2 then (r1.1, .err) else
        let s2 : RevSt := { r1.1 with tr := (r1.1.tr.call plan "get:set").1 }
        if (r1.1.tr.call plan "get:set").2.isSome || fresh.gone || !fresh.uidOk || fresh.deleting then (s2, .err) else
        let r2 := foldOk revs s2 (patchStep plan)
        (r2.1, if r2.2 then .ok else .err) := rfl

theorem labelStep_inv {plan : List Fault} {L st0 : List Rev} {log0 : List String} {b : RevSt} {r : Rev}
    (hr : r ∈ L) (hno : r.owner ≠ .other) (hb : AdoptSt L st0 log0 b) : AdoptSt L st0 log0 (labelStep plan b r).1 := by
  unfold labelStep
  by_cases hm : r.marker = true
  · have hent : AdoptEntry L s!"update:rev:{r.name}" := Or.inr (Or.inr (Or.inl ⟨r, hr, hm, hno, rfl⟩))
    simp only [hm, if_true, call_eq]
    split
    · exact hb.log (Ext.one _ hent)
    · obtain ⟨⟨g, hg, hgs⟩, hlg⟩ := hb
      refine ⟨⟨fun x => if (g x).name == r.name then { g x with selMatch := true } else g x, ?_, ?_⟩,
        hlg.trans (Ext.one _ hent)⟩
      · intro x
        obtain ⟨h1, h2, h3, h4, h5, h6, h7, h8⟩ := hg x
        by_cases hn : ((g x).name == r.name) = true
        · simp only [hn, if_true]
          refine ⟨h1, h2, h3, h4, h5, h6, h7, Or.inr ⟨rfl, r, hr, hm, ?_⟩⟩
          rw [← h1]; exact (by simpa using hn : (g x).name = r.name).symm
        · simp only [hn]; exact hg x
      · simp only [hgs, List.map_map]; rfl
  · simp only [hm]; exact hb

theorem patchStep_inv {plan : List Fault} {L st0 : List Rev} {log0 : List String} {b : RevSt} {r : Rev}
    (hr : r ∈ L) (hb : AdoptSt L st0 log0 b) : AdoptSt L st0 log0 (patchStep plan b r).1 := by
  unfold patchStep
  by_cases ho : (r.owner != .none) = true
  · rw [if_pos ho]; exact hb
  · have ho' : r.owner = .none := by simpa using ho
    have hent : AdoptEntry L s!"patch:rev:{r.name}" := Or.inr (Or.inr (Or.inr ⟨r, hr, ho', rfl⟩))
    rw [if_neg ho]
    simp only [call_eq]
    split
    · exact hb.log (Ext.one _ hent)
    · obtain ⟨⟨g, hg, hgs⟩, hlg⟩ := hb
      refine ⟨⟨fun x => if (g x).name == r.name then { g x with owner := .self } else g x, ?_, ?_⟩,
        hlg.trans (Ext.one _ hent)⟩
      · intro x
        obtain ⟨h1, h2, h3, h4, h5, h6, h7, h8⟩ := hg x
        by_cases hn : ((g x).name == r.name) = true
        · simp only [hn, if_true]
          refine ⟨h1, h2, h3, h4, h5, h6, Or.inr ⟨rfl, r, hr, ho', ?_⟩, h8⟩
          rw [← h1]; exact (by simpa using hn : (g x).name = r.name).symm
        · simp only [hn]; exact hg x
      · simp only [hgs, List.map_map]; rfl

theorem adoptF_spec (plan : List Fault) (d : Bool) (fresh : Fresh) (s : RevSt) :
    AdoptSt (listRevisions s.store) s.store s.tr.log (adoptOrphanRevisionsF plan d fresh s).1 := by
  have base : AdoptSt (listRevisions s.store) s.store s.tr.log s :=
    ⟨⟨id, fun x => AdoptG.refl _ x, by simp⟩, Ext.refl _⟩
  rw [adoptF_eq]
  by_cases hd : d = true
  · simp only [hd, if_true]; exact base
  simp only [hd, Bool.false_eq_true, if_false]
  obtain ⟨hst, hlog, hres⟩ := listRevsF_spec plan s
  rcases hl : listRevsF plan s with ⟨s1, _ | revs⟩
  · rw [hl] at hst hlog
    exact ⟨⟨id, fun x => AdoptG.refl _ x, by simpa using hst⟩, hlog.mono (fun e he => Or.inl he)⟩
  rw [hl] at hst hlog hres
  obtain rfl : revs = listRevisions s.store := hres _ rfl
  have I1 : AdoptSt (listRevisions s.store) s.store s.tr.log s1 :=
    ⟨⟨id, fun x => AdoptG.refl _ x, by simpa using hst⟩, hlog.mono (fun e he => Or.inl he)⟩
  simp only
  have I2 : AdoptSt (listRevisions s.store) s.store s.tr.log (foldOk (listRevisions s.store) s1 (labelStep plan)).1 :=
    foldOk_inv _ _ _ _ I1 (fun b r hr hb => labelStep_inv hr (listRevisions_not_other _ r hr) hb)
  have I3 : AdoptSt (listRevisions s.store) s.store s.tr.log
      { (foldOk (listRevisions s.store) s1 (labelStep plan)).1 with
        tr := ((foldOk (listRevisions s.store) s1 (labelStep plan)).1.tr.call plan "get:set").1 } :=
    I2.log (by rw [call_eq]; exact Ext.one _ (Or.inr (Or.inl rfl)))
  split
  · exact I1
  split
  · exact I2
  split
  · exact I3
  exact foldOk_inv _ _ _ _ I3 (fun b r hr hb => patchStep_inv hr hb)

/-! ### adoption of revisions needs the same fresh confirmation -/

theorem labelStep_ext {plan : List Fault} {L : List Rev} {b : RevSt} {r : Rev} (hr : r ∈ L) :
    Ext (fun e => ∃ r ∈ L, r.marker = true ∧ e = s!"update:rev:{r.name}") b.tr.log (labelStep plan b r).1.tr.log := by
  unfold labelStep
  by_cases hm : r.marker = true
  · simp only [hm, if_true, call_eq]
    split
    · exact Ext.one _ ⟨r, hr, hm, rfl⟩
    · exact Ext.one _ ⟨r, hr, hm, rfl⟩
  · simp only [hm]; exact Ext.refl _

theorem patchStep_ext {plan : List Fault} {L : List Rev} {b : RevSt} {r : Rev} (hr : r ∈ L) :
    Ext (fun e => ∃ r ∈ L, r.owner = .none ∧ e = s!"patch:rev:{r.name}") b.tr.log (patchStep plan b r).1.tr.log := by
  unfold patchStep
  by_cases ho : (r.owner != .none) = true
  · rw [if_pos ho]; exact Ext.refl _
  · have ho' : r.owner = .none := by simpa using ho
    rw [if_neg ho]
    simp only [call_eq]
    split
    · exact Ext.one _ ⟨r, hr, ho', rfl⟩
    · exact Ext.one _ ⟨r, hr, ho', rfl⟩

/-- the calls of the adoption phase, by position: listing and label-sync updates, then — only if there is an orphan —
    the uncached read of the set, then adoption patches of listed orphans; a patch is issued only if that read was not
    faulted and found the set present, with the cached uid and no deletion timestamp, and the cached set is not being
    deleted -/
theorem adoptF_confirmed (plan : List Fault) (d : Bool) (fresh : Fresh) (s : RevSt) :
    ∃ L1 L2 : List String,
      (adoptOrphanRevisionsF plan d fresh s).1.tr.log = s.tr.log ++ L1 ++ L2 ∧
      (∀ e ∈ L1, e = "list:revs" ∨ ∃ r ∈ listRevisions s.store, r.marker = true ∧ e = s!"update:rev:{r.name}") ∧
      (L2 = [] ∨ ∃ L2', L2 = "get:set" :: L2' ∧
        (∀ e ∈ L2', ∃ r ∈ listRevisions s.store, r.owner = .none ∧ e = s!"patch:rev:{r.name}") ∧
        (L2' ≠ [] → look plan "get:set" (occIn (s.tr.log ++ L1) "get:set") = none ∧
          fresh.gone = false ∧ fresh.uidOk = true ∧ fresh.deleting = false ∧ d = false)) := by
  rw [adoptF_eq]
  by_cases hd : d = true
  · simp only [hd, if_true]; exact ⟨[], [], by simp, by simp, Or.inl rfl⟩
  have hd' : d = false := by simpa using hd
  simp only [hd, Bool.false_eq_true, if_false]
  obtain ⟨hst, hlog, hres⟩ := listRevsF_spec plan s
  rcases hl : listRevsF plan s with ⟨s1, _ | revs⟩
  · rw [hl] at hlog
    obtain ⟨ext, he, hall⟩ := hlog
    exact ⟨ext, [], by simpa using he, fun e h => Or.inl (hall e h), Or.inl rfl⟩
  rw [hl] at hst hlog hres
  obtain rfl : revs = listRevisions s.store := hres _ rfl
  simp only at hst hlog ⊢
  have E1 : Ext (fun e => e = "list:revs" ∨ ∃ r ∈ listRevisions s.store, r.marker = true ∧ e = s!"update:rev:{r.name}")
      s.tr.log s1.tr.log := hlog.mono (fun e h => Or.inl h)
  have E2 : Ext (fun e => e = "list:revs" ∨ ∃ r ∈ listRevisions s.store, r.marker = true ∧ e = s!"update:rev:{r.name}")
      s.tr.log (foldOk (listRevisions s.store) s1 (labelStep plan)).1.tr.log :=
    foldOk_inv (fun b : RevSt => Ext _ s.tr.log b.tr.log) _ _ _ E1
      (fun b r hr hb => hb.trans ((labelStep_ext (plan := plan) (b := b) hr).mono (fun e h => Or.inr h)))
  split
  · obtain ⟨ext, he, hall⟩ := E1
    exact ⟨ext, [], by simpa using he, hall, Or.inl rfl⟩
  split
  · obtain ⟨ext, he, hall⟩ := E2
    exact ⟨ext, [], by simpa using he, hall, Or.inl rfl⟩
  obtain ⟨L1, he, hall⟩ := E2
  split
  · refine ⟨L1, ["get:set"], ?_, hall, Or.inr ⟨[], rfl, by simp, by simp⟩⟩
    simp only [call_eq, he]
  · rename_i hcond
    -- the read went through and confirmed the set
    simp only [call_eq, Bool.or_eq_true, Option.isSome_iff_ne_none, ne_eq, Bool.not_eq_true', not_or,
      Bool.not_eq_true, Decidable.not_not] at hcond
    obtain ⟨⟨⟨h1, h2⟩, h3⟩, h4⟩ := hcond
    have E3 := foldOk_inv
      (fun b : RevSt => Ext (fun e => ∃ r ∈ listRevisions s.store, r.owner = .none ∧ e = s!"patch:rev:{r.name}")
        (s.tr.log ++ L1 ++ ["get:set"]) b.tr.log)
      (listRevisions s.store)
      { (foldOk (listRevisions s.store) s1 (labelStep plan)).1 with
        tr := ((foldOk (listRevisions s.store) s1 (labelStep plan)).1.tr.call plan "get:set").1 }
      (patchStep plan) (by simp only [call_eq, he]; exact Ext.refl _)
      (fun b r hr hb => hb.trans (patchStep_ext (plan := plan) (b := b) hr))
    obtain ⟨L2', he2, hall2⟩ := E3
    refine ⟨L1, "get:set" :: L2', ?_, hall, Or.inr ⟨L2', rfl, hall2, fun _ => ⟨?_, h2, ?_, h4, trivial⟩⟩⟩
    · rw [he2]; simp
    · rw [← he]; exact h1
    · simpa using h3

/-! ## `renumberF`, `createRevLoopF`, `getRevisionsF` -/

/-- everything but the number -/
def SameButNumber (x y : Rev) : Prop :=
  y.name = x.name ∧ y.ctime = x.ctime ∧ y.data = x.data ∧ y.hashNum = x.hashNum ∧ y.marker = x.marker ∧
  y.owner = x.owner ∧ y.selMatch = x.selMatch

theorem renumberF_spec (plan : List Fault) (name : String) (n : Int) : ∀ (fuel : Nat) (s : RevSt),
    (∃ g : Rev → Rev, (∀ x, SameButNumber x (g x)) ∧ (renumberF plan name n fuel s).1.store = s.store.map g) ∧
    Ext (fun e => e = s!"update:rev:{name}" ∨ e = s!"get:rev:{name}") s.tr.log (renumberF plan name n fuel s).1.tr.log
  | 0, s => by
    simp only [renumberF]
    exact ⟨⟨id, fun x => ⟨rfl, rfl, rfl, rfl, rfl, rfl, rfl⟩, by simp⟩, Ext.refl _⟩
  | fuel + 1, s => by
    simp only [renumberF, call_eq]
    split
    · refine ⟨⟨fun r => if r.name == name then { r with number := n } else r, ?_, rfl⟩, Ext.one _ (Or.inl rfl)⟩
      intro x
      by_cases hn : (x.name == name) = true
      · simp only [hn, if_true]; exact ⟨rfl, rfl, rfl, rfl, rfl, rfl, rfl⟩
      · simp only [hn]; exact ⟨rfl, rfl, rfl, rfl, rfl, rfl, rfl⟩
    · rename_i k _
      have e2 : Ext (fun e => e = s!"update:rev:{name}" ∨ e = s!"get:rev:{name}") s.tr.log
          (s.tr.log ++ [s!"update:rev:{name}"] ++ [s!"get:rev:{name}"]) :=
        (Ext.one _ (Or.inl rfl)).trans (Ext.one _ (Or.inr rfl))
      split
      · obtain ⟨hg, hl⟩ := renumberF_spec plan name n fuel
          { store := s.store, tr := { log := s.tr.log ++ [s!"update:rev:{name}"] ++ [s!"get:rev:{name}"] } }
        exact ⟨hg, e2.trans hl⟩
      · exact ⟨⟨id, fun x => ⟨rfl, rfl, rfl, rfl, rfl, rfl, rfl⟩, by simp⟩, e2⟩

/-- the store after a create loop: unchanged, or one new revision, controlled by this set, under a name that was free -/
def Created (st st' : List Rev) : Prop :=
  st' = st ∨ ∃ r, st' = insertByName r st ∧ r.owner = .self ∧ ∀ x ∈ st, x.name ≠ r.name

theorem createRevLoopF_spec (h : Hashing) (plan : List Fault) (fresh : Rev) (hf : fresh.owner = .self) :
    ∀ (fuel : Nat) (cc : Int) (s : RevSt),
    Created s.store (createRevLoopF h plan fresh fuel cc s).1.store ∧
    Ext (fun e => (∃ n : String, e = s!"create:rev:{n}") ∨ (∃ n : String, e = s!"get:rev:{n}")) s.tr.log
      (createRevLoopF h plan fresh fuel cc s).1.tr.log
  | 0, cc, s => by simp only [createRevLoopF]; exact ⟨Or.inl rfl, Ext.refl _⟩
  | fuel + 1, cc, s => by
    have e1 : Ext (fun e => (∃ n : String, e = s!"create:rev:{n}") ∨ (∃ n : String, e = s!"get:rev:{n}")) s.tr.log
        (s.tr.log ++ [s!"create:rev:{h.nameOf fresh.data cc}"]) := Ext.one _ (Or.inl ⟨h.nameOf fresh.data cc, rfl⟩)
    have e2 : Ext (fun e => (∃ n : String, e = s!"create:rev:{n}") ∨ (∃ n : String, e = s!"get:rev:{n}")) s.tr.log
        (s.tr.log ++ [s!"create:rev:{h.nameOf fresh.data cc}"] ++ [s!"get:rev:{h.nameOf fresh.data cc}"]) :=
      e1.trans (Ext.one _ (Or.inr ⟨h.nameOf fresh.data cc, rfl⟩))
    simp only [createRevLoopF, call_eq]
    split
    · -- created
      rename_i hk
      refine ⟨Or.inr ⟨_, rfl, hf, ?_⟩, e1⟩
      intro x hx hxn
      -- the name was free, else the kind would have been AlreadyExists
      have hfind : (s.store.find? (fun x => x.name == h.nameOf fresh.data cc)).isSome = true := by
        rw [List.find?_isSome]; exact ⟨x, hx, by simpa using hxn⟩
      revert hk
      cases look plan s!"create:rev:{h.nameOf fresh.data cc}"
        (occIn s.tr.log s!"create:rev:{h.nameOf fresh.data cc}") <;> simp [hfind]
    · split
      · split
        · exact ⟨Or.inl rfl, e2⟩
        · obtain ⟨hc, hl⟩ := createRevLoopF_spec h plan fresh hf fuel (cc + 1)
            { store := s.store, tr := { log := s.tr.log ++ [s!"create:rev:{h.nameOf fresh.data cc}"] ++
                [s!"get:rev:{h.nameOf fresh.data cc}"] } }
          exact ⟨hc, e2.trans hl⟩
      · exact ⟨Or.inl rfl, e2⟩
    · exact ⟨Or.inl rfl, e1⟩

/-- entries of the revision-resolution phase: renumbering targets a revision of the list it was given -/
def GetRevEntry (revs : List Rev) (e : String) : Prop :=
  (∃ r ∈ revs, e = s!"update:rev:{r.name}") ∨ (∃ n : String, e = s!"get:rev:{n}") ∨ (∃ n : String, e = s!"create:rev:{n}")

/-- the store after revision resolution: numbers may have changed, or one fresh own revision was added -/
def Resolved (st st' : List Rev) : Prop :=
  (∃ g : Rev → Rev, (∀ x, SameButNumber x (g x)) ∧ st' = st.map g) ∨
  (∃ r, st' = insertByName r st ∧ r.owner = .self ∧ ∀ x ∈ st, x.name ≠ r.name)

/-- the revision a sync with this template would record -/
def freshRev (h : Hashing) (template : String) (cc0 : Int) (revs : List Rev) : Rev :=
  { name := h.nameOf template cc0, number := nextRevision revs, ctime := 0, data := template,
    hashNum := h.hashNumOf template cc0, owner := .self, selMatch := true, marker := false }

/-- the choice of the update revision inside `getRevisionsF` -/
def pickF (h : Hashing) (plan : List Fault) (fresh : Rev) (cc0 : Int) (revs : List Rev) (s : RevSt) :
    RevSt × Option (Rev × Int) :=
    match (revs.filter (fun r => equalRev r fresh)).getLast?, revs.getLast? with
    | some e, some l =>
      if equalRev l e then (s, some (l, cc0))
      else if e.number == fresh.number then (s, some (e, cc0))
      else
        let (s, ok) := renumberF plan e.name fresh.number 4 s
        (s, if ok then some ({ e with number := fresh.number }, cc0) else none)
    | _, _ => createRevLoopF h plan fresh (s.store.length + 8) cc0 s

theorem getRevisionsF_eq (h : Hashing) (plan : List Fault) (template cur : String) (cc0 : Int) (revs : List Rev)
    (s : RevSt) :
    getRevisionsF h plan template cur cc0 revs s =
      match pickF h plan (freshRev h template cc0 revs) cc0 revs s with
      | (s, none) => (s, none)
      | (s, some (upd, cc)) => (s, some ((revs.find? (·.name == cur)).getD upd, upd, cc)) := rfl

theorem getRevisionsF_fst (h : Hashing) (plan : List Fault) (template cur : String) (cc0 : Int) (revs : List Rev)
    (s : RevSt) :
    (getRevisionsF h plan template cur cc0 revs s).1 = (pickF h plan (freshRev h template cc0 revs) cc0 revs s).1 := by
  rw [getRevisionsF_eq]
  rcases pickF h plan (freshRev h template cc0 revs) cc0 revs s with ⟨s', _ | ⟨upd, cc⟩⟩ <;> rfl

theorem pickF_spec (h : Hashing) (plan : List Fault) (fresh : Rev) (hf : fresh.owner = .self) (cc0 : Int)
    (revs : List Rev) (s : RevSt) :
    Resolved s.store (pickF h plan fresh cc0 revs s).1.store ∧
    Ext (GetRevEntry revs) s.tr.log (pickF h plan fresh cc0 revs s).1.tr.log := by
  have idres : Resolved s.store s.store := Or.inl ⟨id, fun x => ⟨rfl, rfl, rfl, rfl, rfl, rfl, rfl⟩, by simp⟩
  unfold pickF
  split
  · rename_i e l he hl
    have hemem : e ∈ revs := (List.mem_filter.1 (List.mem_of_getLast? he)).1
    by_cases h1 : equalRev l e = true
    · rw [if_pos h1]; exact ⟨idres, Ext.refl _⟩
    rw [if_neg h1]
    by_cases h2 : (e.number == fresh.number) = true
    · rw [if_pos h2]; exact ⟨idres, Ext.refl _⟩
    rw [if_neg h2]
    obtain ⟨hg, hlg⟩ := renumberF_spec plan e.name fresh.number 4 s
    refine ⟨Or.inl hg, hlg.mono ?_⟩
    rintro x (hx | hx)
    · exact Or.inl ⟨e, hemem, hx⟩
    · exact Or.inr (Or.inl ⟨e.name, hx⟩)
  · obtain ⟨hc, hlg⟩ := createRevLoopF_spec h plan fresh hf (s.store.length + 8) cc0 s
    refine ⟨?_, hlg.mono ?_⟩
    · rcases hc with hc | hc
      · rw [hc]; exact idres
      · exact Or.inr hc
    · rintro x (hx | hx)
      · exact Or.inr (Or.inr hx)
      · exact Or.inr (Or.inl hx)

theorem getRevisionsF_spec (h : Hashing) (plan : List Fault) (template cur : String) (cc0 : Int) (revs : List Rev)
    (s : RevSt) :
    Resolved s.store (getRevisionsF h plan template cur cc0 revs s).1.store ∧
    Ext (GetRevEntry revs) s.tr.log (getRevisionsF h plan template cur cc0 revs s).1.tr.log := by
  rw [getRevisionsF_fst]
  exact pickF_spec h plan _ rfl cc0 revs s

/-! ## `statusWriteF` -/

theorem statusWriteF_spec (plan : List Fault) (gone : Bool) : ∀ (fuel : Nat) (t : Tr),
    Ext (· = "updatestatus") t.log (statusWriteF plan gone fuel t).1.log
  | 0, t => by simp only [statusWriteF]; exact Ext.refl _
  | fuel + 1, t => by
    have one : ∀ l : List String, Ext (· = "updatestatus") l (l ++ ["updatestatus"]) :=
      fun l => ⟨["updatestatus"], rfl, by simp⟩
    simp only [statusWriteF, call_eq]
    split
    · exact one _
    · split
      · exact one _
      · exact (one _).trans (statusWriteF_spec plan gone fuel _)
    · exact one _

/-! ## `truncateF` -/

def truncStep (plan : List Fault) (s : RevSt) (r : Rev) : RevSt × Bool :=
        let (t, e) := s.tr.call plan s!"delete:rev:{r.name}"
        let s := { s with tr := t }
        if e.isSome || !(s.store.any (·.name == r.name)) then (s, false)
        else ({ s with store := s.store.filter (·.name != r.name) }, true)

/-- the revisions `truncateF` regards as history -/
def historyOf (podRevs : List String) (revs : List Rev) (cur upd : Rev) : List Rev :=
  revs.filter (fun r => !(cur.name :: upd.name :: podRevs).contains r.name && r.owner == .self)

theorem truncateF_eq (plan : List Fault) (limit : Option Int) (podRevs : List String) (revs : List Rev)
    (cur upd : Rev) (s : RevSt) :
    truncateF plan limit podRevs revs cur upd s =
      match limit with
      | none => (s, .panic "nil *Spec.RevisionHistoryLimit (stateful_set_control.go)")
      | some lim =>
        if ((historyOf podRevs revs cur upd).length : Int) ≤ lim then (s, .ok)
        else
          let r := foldOk ((historyOf podRevs revs cur upd).take ((historyOf podRevs revs cur upd).length - lim.toNat)) s
            (truncStep plan)
          (r.1, if r.2 then .ok else .err) := rfl

theorem ite_fst_cases {α β : Type _} (c : Prop) [Decidable c] (a b : α × β) (P : α → Prop)
    (ha : P a.1) (hb : P b.1) : P (if c then a else b).1 := by
  split_ifs <;> assumption

theorem truncStep_cases (plan : List Fault) (b : RevSt) (r : Rev) :
    (truncStep plan b r).1.tr.log = b.tr.log ++ [s!"delete:rev:{r.name}"] ∧
    ((truncStep plan b r).1.store = b.store ∨ (truncStep plan b r).1.store = b.store.filter (·.name != r.name)) := by
  unfold truncStep
  simp only [call_eq]
  exact ite_fst_cases _ _ _
    (fun s' : RevSt => s'.tr.log = b.tr.log ++ [s!"delete:rev:{r.name}"] ∧
      (s'.store = b.store ∨ s'.store = b.store.filter (·.name != r.name)))
    ⟨rfl, Or.inl rfl⟩ ⟨rfl, Or.inr rfl⟩

theorem truncateF_spec (plan : List Fault) (limit : Option Int) (podRevs : List String) (revs : List Rev)
    (cur upd : Rev) (s : RevSt) :
    (∀ x ∈ (truncateF plan limit podRevs revs cur upd s).1.store, x ∈ s.store) ∧
    Ext (fun e => ∃ r ∈ revs, r.owner = .self ∧ e = s!"delete:rev:{r.name}") s.tr.log
      (truncateF plan limit podRevs revs cur upd s).1.tr.log := by
  rw [truncateF_eq]
  cases limit with
  | none => exact ⟨fun x hx => hx, Ext.refl _⟩
  | some lim =>
    simp only
    split
    · exact ⟨fun x hx => hx, Ext.refl _⟩
    · refine foldOk_inv
        (fun (s' : RevSt) => (∀ x ∈ s'.store, x ∈ s.store) ∧
          Ext (fun e => ∃ r ∈ revs, r.owner = .self ∧ e = s!"delete:rev:{r.name}") s.tr.log s'.tr.log)
        _ s (truncStep plan) ⟨fun x hx => hx, Ext.refl _⟩ ?_
      intro b r hr ⟨hb1, hb2⟩
      have hr' := (List.mem_filter.1 (List.mem_of_mem_take hr))
      have hown : r.owner = .self := by
        have := hr'.2
        simp only [Bool.and_eq_true, beq_iff_eq] at this
        exact this.2
      have hent : ∃ r' ∈ revs, r'.owner = .self ∧ s!"delete:rev:{r.name}" = s!"delete:rev:{r'.name}" :=
        ⟨r, hr'.1, hown, rfl⟩
      obtain ⟨hl, hs⟩ := truncStep_cases plan b r
      refine ⟨?_, ?_⟩
      · intro x hx
        rcases hs with hs | hs
        · rw [hs] at hx; exact hb1 x hx
        · rw [hs] at hx; exact hb1 x (List.mem_filter.1 hx).1
      · rw [hl]; exact hb2.trans (Ext.one _ hent)

end Asts.SYa
