import Asts.Proofs.C02_Policies

/-! C02, legacy boundary mode: a final update-walk delete, seen on the next pod list: it removes exactly the pod with that id
    (which may be a pod created earlier in the same reconcile). -/
namespace Asts.C02p
open Asts Asts.L1c

theorem applyActs_append (s : String) (orig : List CPod) (a b : List Action) (pods : List CPod) :
    applyActs s orig pods (a ++ b) = applyActs s orig (applyActs s orig pods a) b := by
  induction a generalizing pods with
  | nil => rfl
  | cons x xs ih =>
    cases x with
    | create o rev => simp only [List.cons_append, applyActs]; exact ih _
    | delete o id w => simp only [List.cons_append, applyActs]; exact ih _
    | update o => simp only [List.cons_append, applyActs]; exact ih _

theorem settleOne_id (c : CPod) : (settleOne c).pod.id = c.pod.id := by unfold settleOne; split_ifs <;> rfl

theorem nextRawG_snoc_delete (s : String) (P : List CPod) (A : List Action) (t : Int) (id : Nat) (w : Why) :
    nextRawG s P (A ++ [.delete t id w]) = (nextRawG s P A).filter (fun x => x.pod.id != id) := by
  unfold nextRawG
  rw [applyActs_append]
  generalize applyActs s P P A = L
  simp only [applyActs, setPod]
  rw [List.filter_map, List.filter_filter, List.filter_map, List.filter_filter]
  have h1 : L.filter (fun c => ((fun c : CPod => !c.pod.terminating) ∘ fun c : CPod =>
        if c.pod.id == id then { c with pod := { c.pod with terminating := true } } else c) c &&
        !(c.pod.id == id && (c.pod.failed || c.pod.succeeded)))
      = L.filter (fun c => ((fun x : CPod => x.pod.id != id) ∘ settleOne) c && !c.pod.terminating) := by
    apply List.filter_congr
    intro c _
    simp only [Function.comp, settleOne_id]
    by_cases hid : (c.pod.id == id) = true
    · simp [hid, bne]
    · have hid' : (c.pod.id == id) = false := by simpa using hid
      simp [hid', bne]
  rw [h1, List.map_map]
  apply List.map_congr_left
  intro c hc
  rw [List.mem_filter] at hc
  have : (c.pod.id != id) = true := by
    have := hc.2
    simp only [Function.comp, settleOne_id, Bool.and_eq_true] at this
    exact this.1
  have hne : (c.pod.id == id) = false := by simpa [bne] using this
  simp [Function.comp, hne]

end Asts.C02p
