import Mathlib.Tactic
import Asts.Model.World
import Asts.Proofs.SY_a_Headlines

/-! # SY_a — a pause is lossless (C11, third clause), on the round semantics of `Model/World.lean` -/

namespace Asts.SYa
open Asts

/-- the API-visible part of a world: revision store, stored status, collision count, pods -/
structure ApiState where
  store : List Rev
  stored : Status
  collisionCount : Option Int
  pods : List CPod

def apiOf (i : SyncIn) : ApiState :=
  { store := i.store, stored := i.stored, collisionCount := i.collisionCount, pods := i.pods }

/-- applying the (empty) effects of a paused sync changes nothing but the derived fields: the view's copy of
    `status.currentReplicas` is refreshed from the stored status and the pod list is re-sorted and re-indexed
    (what `applySync` does after every sync) -/
theorem applySync_paused (h : Hashing) (i : SyncIn) (plan : List Fault) (hp : i.paused = true) :
    applySync i plan (syncF h i plan) =
      { i with view := { i.view with stCurrentReplicas := i.stored.current }, pods := reindex (sortPods i.pods) } := by
  rw [syncF_paused h i plan hp]
  simp [applySync, applyPatches, applyPatches.go, applyActs]

/-- on a world whose derived fields are already in normal form a paused sync is the identity -/
theorem applySync_paused_id (h : Hashing) (i : SyncIn) (plan : List Fault) (hp : i.paused = true)
    (hv : i.view.stCurrentReplicas = i.stored.current) (hpods : reindex (sortPods i.pods) = i.pods) :
    applySync i plan (syncF h i plan) = i := by
  rw [applySync_paused h i plan hp, hpods, ← hv]

theorem settle_paused (i : SyncIn) : (settle i).paused = i.paused := rfl

/-- one round of a paused world: no call at all, outcome ok, and the API state afterwards is that of the settled world
    (caches caught up, terminating pods gone, pods Ready) with the pod list re-sorted — nothing the controller did -/
theorem round_paused (h : Hashing) (i : SyncIn) (plan : List Fault) (hp : i.paused = true) :
    (round h i plan).2.writes = 0 ∧ (round h i plan).2.out = "ok" ∧
    (round h i plan).1.paused = true ∧
    (round h i plan).1.store = i.store ∧ (round h i plan).1.stored = i.stored ∧
    (round h i plan).1.collisionCount = i.collisionCount ∧ (round h i plan).1.template = i.template ∧
    (round h i plan).1.pods = reindex (sortPods (settle i).pods) := by
  have hp' : (settle i).paused = true := hp
  have h1 := syncF_paused h (settle i) plan hp'
  have h2 := applySync_paused h (settle i) plan hp'
  simp only [round]
  rw [h2, h1]
  refine ⟨rfl, rfl, hp, rfl, rfl, rfl, rfl, rfl⟩

end Asts.SYa
