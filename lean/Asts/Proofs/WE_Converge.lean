import Mathlib.Tactic
import Asts.Proofs.WE_Runs
import Asts.Proofs.C02_GConverge
import Asts.Proofs.C02_Target

/-! # WE — from `Final` within a bound to the Boolean monitor `C02converges` on `runRounds`

`C02_converges` (Props/C02.lean) gives `∃ n ≤ roundBound i, Final h (roundsN h n i)`. The monitor `C02converges` reads the
list `runRounds` returns: short enough, its last two rounds silent, the last one in `finalState`. The step between the two
is proved here under one extra hypothesis, `NoEarlyStop`: the run does not show two silent rounds in a row before it
reaches `Final`. -/
namespace Asts.WE
open Asts Asts.C02p

theorem plainWorld_roundsN (h : Hashing) (w : SyncIn) : ∀ n, plainWorld h w [] n = roundsN h n w
  | 0 => rfl
  | n + 1 => by
    show (round h (plainWorld h w [] n) (planAt [] n)).1 = _
    rw [plainWorld_roundsN h w n, planAt_nil, roundsN_succ]

theorem final_from {h : Hashing} {i : SyncIn} {n : Nat} (hf : Final h (roundsN h n i)) : ∀ j, Final h (roundsN h (n + j) i)
  | 0 => hf
  | j + 1 => by
    have : n + (j + 1) = (n + j) + 1 := by omega
    rw [this, roundsN_succ]
    exact final_round h _ (final_from hf j)

theorem roundsN_view (h : Hashing) (i : SyncIn) : ∀ n, (roundsN h n i).view.replicas = i.view.replicas ∧
    (roundsN h n i).view.slots = i.view.slots ∧ (roundsN h n i).view.strat = i.view.strat ∧
    (roundsN h n i).view.ru = i.view.ru ∧ (roundsN h n i).setName = i.setName
  | 0 => ⟨rfl, rfl, rfl, rfl, rfl⟩
  | n + 1 => by
    rw [roundsN_succ]
    exact roundsN_view h i n

theorem finalState_congr {i i' : SyncIn} (r : RoundObs) (h1 : i'.view.replicas = i.view.replicas)
    (h2 : i'.view.slots = i.view.slots) (h3 : i'.view.strat = i.view.strat) (h4 : i'.view.ru = i.view.ru)
    (h5 : i'.setName = i.setName) : finalState i' r = finalState i r := by
  unfold finalState replicasOf partOf
  rw [h1, h2, h3, h4, h5]

theorem reverse_two {α} (L : List α) (m : Nat) (x y : α) (hlen : L.length = m + 2) (hx : L[m + 1]? = some x)
    (hy : L[m]? = some y) : ∃ t, L.reverse = x :: y :: t := by
  have h0 : L.reverse[0]? = some x := by
    rw [List.getElem?_reverse (by omega)]
    have : L.length - 1 - 0 = m + 1 := by omega
    rw [this]; exact hx
  have h1 : L.reverse[1]? = some y := by
    rw [List.getElem?_reverse (by omega)]
    have : L.length - 1 - 1 = m := by omega
    rw [this]; exact hy
  match hr : L.reverse with
  | [] => rw [hr] at h0; simp at h0
  | [a] => rw [hr] at h1; simp at h1
  | a :: b :: t =>
    rw [hr] at h0 h1
    simp only [List.getElem?_cons_zero, Option.some.injEq] at h0
    simp only [List.getElem?_cons_succ, List.getElem?_cons_zero, Option.some.injEq] at h1
    exact ⟨t, by rw [h0, h1]⟩

/-- the run does not show two silent rounds in a row before round `n` -/
def NoEarlyStop (h : Hashing) (i : SyncIn) (n : Nat) : Prop := ∀ k, k < n → cntFrom h 0 i [] k < 2

/-- **`Final` within the bound ⇒ the monitor `C02converges` is true on the model's run** (budget at least `n + 2`), provided
    the run does not go quiet before it is `Final` -/
theorem C02converges_of_final (h : Hashing) (i : SyncIn) (fuel n : Nat) (hn : n ≤ roundBound i)
    (hf : Final h (roundsN h n i)) (hfuel : n + 2 ≤ fuel) (hne : NoEarlyStop h i n) :
    C02converges h i (runRounds h fuel 0 i []) = true := by
  obtain ⟨ha, hb, hc, hd⟩ := runRounds_spec h fuel 0 i []
  set L := runRounds h fuel 0 i [] with hL
  -- rounds n, n+1, … run on `Final` worlds: silent, in the final state
  have hobs : ∀ j, silentOk (obsFrom h i [] (n + j)) = true ∧ finalState i (obsFrom h i [] (n + j)) = true := by
    intro j
    have hfj := final_from hf j
    obtain ⟨a, b⟩ := final_round_obs hfj
    have hw : obsFrom h i [] (n + j) = (round h (roundsN h (n + j) i) []).2 := by
      unfold obsFrom; rw [plainWorld_roundsN, planAt_nil]
    obtain ⟨v1, v2, v3, v4, v5⟩ := roundsN_view h i (n + j)
    rw [hw]
    exact ⟨a, (finalState_congr _ v1 v2 v3 v4 v5).symm.trans b⟩
  have hcnt : cntFrom h 0 i [] (n + 1) ≥ 2 := cnt_of_two_silent h 0 i [] n (hobs 0).1 (hobs 1).1
  have hle : L.length ≤ n + 2 := by
    by_contra hgt
    have := hc (n + 1) (by omega)
    omega
  have hge : n + 1 ≤ L.length := by
    by_cases hlt : L.length < fuel
    · obtain ⟨m, hm, hcm⟩ := hd hlt
      have : ¬ m < n := fun hmn => by have := hne m hmn; omega
      omega
    · omega
  -- the last two rounds
  have key : ∃ m, L.length = m + 2 ∧ silentOk (obsFrom h i [] m) = true ∧ silentOk (obsFrom h i [] (m + 1)) = true ∧
      finalState i (obsFrom h i [] (m + 1)) = true := by
    by_cases hl : L.length = n + 2
    · exact ⟨n, hl, (hobs 0).1, (hobs 1).1, (hobs 1).2⟩
    · have hl' : L.length = n + 1 := by omega
      obtain ⟨m, hm, hcm⟩ := hd (by omega)
      have hmn : m = n := by omega
      subst hmn
      obtain ⟨k, hk, s1, s2⟩ := cnt_ge_two h i [] m hcm
      subst hk
      exact ⟨k, by omega, s1, s2, by have := (hobs 0).2; simpa using this⟩
  obtain ⟨m, hm, s1, s2, fs⟩ := key
  obtain ⟨t, ht⟩ := reverse_two L m _ _ hm (ha (m + 1) (by omega)) (ha m (by omega))
  unfold C02converges
  rw [ht]
  simp only [s1, s2, fs, Bool.and_true, Bool.or_eq_true, Bool.and_eq_true, decide_eq_true_eq]
  right
  omega

end Asts.WE

namespace Asts.WE
open Asts Asts.C02p

/-- the one fact about the model that is NOT proved here: a run that has shown two silent successful rounds in a row is in
    its final state (a silent reconcile changes nothing, so the run stays where it is; for a world that converges at all
    that place is `Final`) -/
def SilentMeansFinal (h : Hashing) (W : SyncIn) : Prop := ∀ k, cntFrom h 0 W [] k ≥ 2 → Final h (roundsN h k W)

/-- **convergence, read by the monitor**: if the run from `W` reaches `Final` within `roundBound W` rounds (what
    `C02_converges` proves from `wfWorld` and `extraMB`), the budget is at least `roundBound W + 2` and
    `SilentMeansFinal`, the Boolean monitor `C02converges` is true on the list `runRounds` returns -/
theorem C02converges_of_bound (h : Hashing) (W : SyncIn) (fuel : Nat)
    (hconv : ∃ n ≤ roundBound W, Final h (roundsN h n W)) (hfuel : roundBound W + 2 ≤ fuel)
    (hsf : SilentMeansFinal h W) : C02converges h W (runRounds h fuel 0 W []) = true := by
  classical
  have hex : ∃ n, Final h (roundsN h n W) := by obtain ⟨n, _, hf⟩ := hconv; exact ⟨n, hf⟩
  have hmin_le : Nat.find hex ≤ roundBound W := by
    obtain ⟨n, hn, hf⟩ := hconv
    exact le_trans (Nat.find_min' hex hf) hn
  apply C02converges_of_final h W fuel (Nat.find hex) hmin_le (Nat.find_spec hex) (by omega)
  intro k hk
  by_contra hge
  exact Nat.find_min hex hk (hsf k (by omega))

/-- the same for the part of a history that follows the last edits (`runHistory_last`): in the round `j` of the last edits
    (edits non-empty, none later, `j ≥ 2` so that no fault plan is left) the observations of the history are the run of the
    world `W` those edits produced, and the monitor `C02converges` — what `C02afterEdits` evaluates on that suffix — is true -/
theorem C02converges_after_last_edit (h : Hashing) (script : Script) (fuel j silent : Nat) (i : SyncIn)
    (hs : ∀ e ∈ script, e.1 ≤ j) (hed : (editsAt script j).isEmpty = false)
    (hconv : ∃ n ≤ roundBound (applyEdits (editsAt script j) i), Final h (roundsN h n (applyEdits (editsAt script j) i)))
    (hfuel : roundBound (applyEdits (editsAt script j) i) + 2 ≤ fuel)
    (hsf : SilentMeansFinal h (applyEdits (editsAt script j) i)) :
    C02converges h (applyEdits (editsAt script j) i) ((runHistory h script fuel j silent i []).map (·.obs)) = true := by
  rw [runHistory_last h script fuel j silent i [] hs, hed]
  simp only [Bool.false_eq_true, if_false]
  exact C02converges_of_bound h _ fuel hconv hfuel hsf

end Asts.WE
