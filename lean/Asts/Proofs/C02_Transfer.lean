import Asts.Proofs.C02_Sync

/-! C02: `Final` depends on the pod list only through the multiset of the set's own pods with their ids forgotten (plus the
    "nothing to adopt" clause), and not at all on `fresh` or `view.stCurrentReplicas`. -/
namespace Asts.C02p
open Asts Asts.L1c

def podKey (p : Pod) : Pod := { p with id := 0 }
def key (c : CPod) : CPod := { c with pod := podKey c.pod }

theorem key_transfer {β : Type} (g : CPod → β) (hg : ∀ c, g (key c) = g c) {c c' : CPod} (hk : key c' = key c) : g c' = g c := by
  rw [← hg c', ← hg c, hk]

theorem census_podKey (c u : String) (ps : List Pod) : census c u (ps.map podKey) = census c u ps := by
  unfold census
  simp only [List.length_map, List.filter_map, Status.mk.injEq, Nat.cast_inj, and_true, true_and]
  refine ⟨?_, ?_, ?_⟩ <;> rfl

theorem census_perm (c u : String) {ps qs : List Pod} (hp : ps.Perm qs) : census c u ps = census c u qs := by
  unfold census
  simp only [Status.mk.injEq, Nat.cast_inj, and_true]
  exact ⟨hp.length_eq, (hp.filter _).length_eq, (hp.filter _).length_eq, (hp.filter _).length_eq⟩

theorem census_of_keys (c u : String) {l1 l2 : List CPod} (hp : (l1.map key).Perm (l2.map key)) :
    census c u (l1.map (·.pod)) = census c u (l2.map (·.pod)) := by
  have h1 : ∀ l : List CPod, census c u (l.map (·.pod)) = census c u ((l.map key).map (·.pod)) := by
    intro l
    rw [← census_podKey, List.map_map, List.map_map]
    rfl
  rw [h1 l1, h1 l2]
  exact census_perm c u (hp.map _)

theorem mem_of_keys {l1 l2 : List CPod} (hp : (l1.map key).Perm (l2.map key)) {c : CPod} (hc : c ∈ l1) :
    ∃ c' ∈ l2, key c' = key c := by
  have : key c ∈ l2.map key := hp.mem_iff.1 (List.mem_map.2 ⟨c, hc, rfl⟩)
  rw [List.mem_map] at this
  exact this

theorem mem_ownPods {i : SyncIn} {c : CPod} : c ∈ ownPods i ↔ c ∈ i.pods ∧ c.owner = .self := by
  unfold ownPods; simp [List.mem_filter]

/-- the transfer lemma -/
theorem final_transfer (h : Hashing) (i : SyncIn) (x : Int) (fr : Fresh) (P : List CPod)
    (hown : ((P.filter (fun c => c.owner == .self)).map key).Perm ((ownPods i).map key))
    (horph : ∀ c ∈ P, c.owner = .none → ∃ c' ∈ i.pods, c'.owner = .none ∧ c'.selMatch = c.selMatch ∧ c'.member = c.member ∧
      (c'.pod.terminating = true → c.pod.terminating = true))
    (hf : Final h i) :
    Final h { i with view := { i.view with stCurrentReplicas := x }, fresh := fr, pods := P } := by
  have hs := (specOk_iff i).1 hf.spec
  have hp := (podsFinal_iff i).1 hf.pods
  have hr := (revsFinal_iff h i).1 hf.revs
  have hst := hf.status
  set j : SyncIn := { i with view := { i.view with stCurrentReplicas := x }, fresh := fr, pods := P } with hj
  have hownj : ownPods j = P.filter (fun c => c.owner == .self) := rfl
  rw [← hownj] at hown
  have hsj : SpecOk j := ⟨hs.paused, hs.sel, hs.del, hs.rep, hs.r0, hs.strat, hs.lim⟩
  have hpj : PodsFinal j := by
    refine ⟨?_, ?_, ?_, ?_⟩
    · intro c hc hself
      have hcj : c ∈ ownPods j := mem_ownPods.2 ⟨hc, hself⟩
      obtain ⟨c', hc', hk⟩ := mem_of_keys hown hcj
      rw [mem_ownPods] at hc'
      obtain ⟨a1, a2, a3, a4, a5, a6, a7, a8⟩ := hp.own c' hc'.1 hc'.2
      have e1 : c'.selMatch = c.selMatch := key_transfer (·.selMatch) (fun _ => rfl) hk
      have e2 : c'.member = c.member := key_transfer (·.member) (fun _ => rfl) hk
      have e3 : c'.name = c.name := key_transfer (·.name) (fun _ => rfl) hk
      have e4 : c'.pod.ord = c.pod.ord := key_transfer (·.pod.ord) (fun _ => rfl) hk
      have e5 : c'.pod.healthy = c.pod.healthy := key_transfer (·.pod.healthy) (fun _ => rfl) hk
      have e6 : c'.pod.idOk = c.pod.idOk := key_transfer (·.pod.idOk) (fun _ => rfl) hk
      have e7 : c'.pod.stOk = c.pod.stOk := key_transfer (·.pod.stOk) (fun _ => rfl) hk
      have e8 : c'.pod.rev = c.pod.rev := key_transfer (·.pod.rev) (fun _ => rfl) hk
      rw [e1] at a1; rw [e2] at a2; rw [e3, e4] at a3; rw [e4] at a4 a8; rw [e5] at a5; rw [e6] at a6; rw [e7] at a7
      rw [e8] at a8
      exact ⟨a1, a2, a3, a4, a5, a6, a7, a8⟩
    · intro c hc hnone
      obtain ⟨c', hc', ho, e1, e2, e3⟩ := horph c hc hnone
      rcases hp.orphan c' hc' ho with h1 | h1
      · left; rw [← e1, ← e2]; exact h1
      · right; exact e3 h1
    · intro o ho
      obtain ⟨c, hc, hco⟩ := hp.full o ho
      obtain ⟨c', hc', hk⟩ := mem_of_keys hown.symm hc
      refine ⟨c', hc', ?_⟩
      rw [← hco]
      exact key_transfer (·.pod.ord) (fun _ => rfl) hk
    · have := hown.length_eq
      rw [List.length_map, List.length_map] at this
      rw [this]
      exact hp.len
  have hrevs : ((ownPods j).map (·.pod.rev)).Perm ((ownPods i).map (·.pod.rev)) := by
    have h1 : ∀ l : List CPod, l.map (·.pod.rev) = (l.map key).map (·.pod.rev) := by
      intro l; rw [List.map_map]; rfl
    rw [h1, h1 (ownPods i)]
    exact hown.map _
  have hrj : revsFinal h j = true := by
    rw [revsFinal_iff]
    obtain ⟨l, b1, b2, b3, b4, b5, lim, b6, b7⟩ := hr
    refine ⟨l, b1, b2, b3, b4, b5, lim, b6, ?_⟩
    have : (listedRevs j).filter (fun r => !(j.stored.currentRev :: j.stored.updateRev :: (ownPods j).map (·.pod.rev)).contains r.name
            && r.owner == .self) =
        (listedRevs i).filter (fun r => !(i.stored.currentRev :: i.stored.updateRev :: (ownPods i).map (·.pod.rev)).contains r.name
            && r.owner == .self) := by
      apply List.filter_congr
      intro r _
      congr 2
      rw [Bool.eq_iff_iff, List.contains_iff_mem, List.contains_iff_mem]
      simp only [List.mem_cons]
      rw [hrevs.mem_iff]
    rw [this]
    exact b7
  have hstj : inconsistentStatus j.stored (expectedStatus j) = false := by
    have : expectedStatus j = expectedStatus i := by
      simp only [expectedStatus]
      rw [census_of_keys _ _ hown]
      rfl
    rw [this]
    exact hst
  unfold Final finalB
  rw [(specOk_iff j).2 hsj, (podsFinal_iff j).2 hpj, hrj, hstj]
  rfl

end Asts.C02p
