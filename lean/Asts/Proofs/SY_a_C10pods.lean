import Mathlib.Tactic
import Asts.Proofs.SY_a_Split
import Asts.Proofs.SY_a_Check
import Asts.Proofs.SY_a_Annot
import Asts.Proofs.SY_a_Reconcile
import Asts.Proofs.SY_a_Names

/-! # SY_a — the monitor `C10pods` holds on the model -/

namespace Asts.SYa
open Asts

/-- well-formedness of the pod snapshot that `C10pods` needs -/
structure PodsWf (i : SyncIn) : Prop where
  /-- pod names are unique (one namespace of the API) -/
  names : (i.pods.map (·.name)).Nodup
  /-- the ordinal recorded for a pod is the one its name shows (the model carries name and ordinal separately) -/
  ordOfName : ∀ c ∈ i.pods, ∀ o, c.name = canonicalName i.setName o → c.pod.ord = o
  /-- a pod this set may claim (member, matching, not controlled by somebody else) has its canonical name -/
  canonical : ∀ c ∈ i.pods, c.member = true → c.selMatch = true → c.owner ≠ .other →
    c.name = canonicalName i.setName c.pod.ord

/-- the common case: every pod of the snapshot carries the canonical name of its ordinal, names distinct -/
theorem PodsWf.of_canonical {i : SyncIn} (hn : (i.pods.map (·.name)).Nodup)
    (hc : ∀ c ∈ i.pods, c.name = canonicalName i.setName c.pod.ord) : PodsWf i where
  names := hn
  ordOfName := fun c hcm o h => canonicalName_injective i.setName (by rw [← hc c hcm, h])
  canonical := fun c hcm _ _ _ => hc c hcm

/-- the body of `C10pods` for one annotated entry -/
def podCheck (i : SyncIn) (ann : List (Entry × Nat × Option ErrKind)) (e : Entry) (idx : Nat) : Bool :=
    if e.res == "pod" && e.verb == "patch" then
      match i.pods.find? (·.name == e.name) with
      | none => false
      | some c =>
        match c.owner with
        | .other => false
        | .none =>
          c.selMatch && c.member && !c.pod.terminating && !i.view.deleting && freshOk i.fresh &&
          ann.any (fun (g, j, k) => g.verb == "get" && g.res == "set" && j < idx && k.isNone)
        | .self => !(c.selMatch && c.member) && !i.view.deleting
    else if e.res == "pod" && (e.verb == "delete" || e.verb == "update") then
      match i.pods.find? (·.name == e.name) with
      | none => true
      | some c =>
        c.owner != .other && c.selMatch && c.member &&
        (c.owner == .self || ann.any (fun (g, j, k) => g.verb == "patch" && g.res == "pod" && g.name == e.name && j < idx && k.isNone))
    else true

theorem C10pods_eq (i : SyncIn) (plan : List Fault) (o : SyncObs) :
    C10pods i plan o = (annotate plan o.log).all (fun x => podCheck i (annotate plan o.log) x.1 x.2.1) := rfl

theorem podCheck_not_pod (i : SyncIn) (ann) (e : Entry) (idx : Nat) (h : e.res ≠ "pod") :
    podCheck i ann e idx = true := by
  simp [podCheck, h]

theorem podCheck_key_not_pod (i : SyncIn) (ann) (idx : Nat) {pre v r : String} (h : Pre3 pre v r) (hr : r ≠ "pod")
    (n : String) : podCheck i ann (parseEntry (pre ++ n)) idx = true :=
  check_key h n (fun e => podCheck i ann e idx) (fun _ => podCheck_not_pod i ann _ idx hr)
    (fun _ => podCheck_not_pod i ann _ idx (show ("" : String) ≠ "pod" by decide))

theorem annotate_any {plan : List Fault} {log : List String} {Q : Entry × Nat × Option ErrKind → Bool}
    {pre g post} (hlog : log = pre ++ g :: post)
    (hq : Q (parseEntry g, pre.length, look plan g (occIn pre g)) = true) : (annotate plan log).any Q = true :=
  List.any_eq_true.2 ⟨_, (mem_annotate plan log _).2 ⟨pre, g, post, hlog, rfl⟩, hq⟩

theorem find_name_eq {i : SyncIn} (wf : PodsWf i) {c : CPod} (hc : c ∈ i.pods) :
    i.pods.find? (·.name == c.name) = some c := by
  cases hf : i.pods.find? (fun x => x.name == c.name) with
  | none =>
    have := List.find?_eq_none.1 hf c hc
    simp at this
  | some x =>
    have hx : x ∈ i.pods := List.mem_of_find?_eq_some hf
    have hn : x.name = c.name := by simpa using List.find?_some hf
    rw [List.inj_on_of_nodup_map wf.names hx hc hn]

/-- where an element of `A ++ B ++ C` lies -/
theorem split3 {α : Type _} {A B C pre post : List α} {e : α} (h : A ++ B ++ C = pre ++ e :: post) :
    (∃ b, A = pre ++ e :: b) ∨ (∃ a b, B = a ++ e :: b ∧ pre = A ++ a) ∨
    (∃ a b, C = a ++ e :: b ∧ pre = A ++ B ++ a) := by
  rw [List.append_assoc] at h
  rcases List.append_eq_append_iff.1 h with ⟨a', hpre, hBC⟩ | ⟨c', hA, hc'⟩
  · -- pre = A ++ a'
    rcases List.append_eq_append_iff.1 hBC with ⟨a'', ha', hC⟩ | ⟨c'', hB, hc''⟩
    · -- a' = B ++ a''
      right; right
      exact ⟨a'', post, hC, by rw [hpre, ha', List.append_assoc]⟩
    · cases c'' with
      | nil =>
        simp only [List.append_nil] at hB
        simp only [List.nil_append] at hc''
        right; right
        exact ⟨[], post, hc''.symm ▸ rfl, by rw [hpre, hB]; simp⟩
      | cons x xs =>
        simp only [List.cons_append, List.cons.injEq] at hc''
        right; left
        exact ⟨a', xs, by rw [hB, hc''.1], hpre⟩
  · cases c' with
    | nil =>
      simp only [List.append_nil] at hA
      simp only [List.nil_append] at hc'
      -- e is the head of B ++ C
      cases B with
      | nil =>
        right; right
        exact ⟨[], post, by simpa using hc'.symm, by simp [hA]⟩
      | cons x xs =>
        simp only [List.cons_append, List.cons.injEq] at hc'
        right; left
        exact ⟨[], xs, by simp [hc'.1], by simp [hA]⟩
    | cons x xs =>
      simp only [List.cons_append, List.cons.injEq] at hc'
      left
      exact ⟨xs, by rw [hA, hc'.1]⟩

/-- what is known of a claimed pod, seen from position `idx` of `log` -/
def ClaimedFact (i : SyncIn) (plan : List Fault) (log : List String) (idx : Nat) (q : CPod) : Prop :=
  q ∈ i.pods ∧ q.selMatch = true ∧ q.member = true ∧ q.owner ≠ .other ∧
  (q.owner = .self ∨ ∃ pre' post', log = pre' ++ ("patch:pod:" ++ q.name) :: post' ∧ pre'.length < idx ∧
      look plan ("patch:pod:" ++ q.name) (occIn pre' ("patch:pod:" ++ q.name)) = none)

theorem podCheck_write_of_claimed {i : SyncIn} (wf : PodsWf i) {plan : List Fault} {log : List String} {idx : Nat}
    {c0 : CPod} (hn : NoColon c0.name) (hfact : ClaimedFact i plan log idx c0) (v : String)
    (hv : v = "delete" ∨ v = "update") :
    podCheck i (annotate plan log) { verb := v, res := "pod", name := c0.name } idx = true := by
  obtain ⟨hc0, hsel, hmem, hown, hpatch⟩ := hfact
  have hv1 : (v == "patch") = false := by rcases hv with rfl | rfl <;> decide
  have hv2 : (v == "delete" || v == "update") = true := by rcases hv with rfl | rfl <;> decide
  unfold podCheck
  simp only [hv1, hv2, beq_self_eq_true, Bool.and_false, Bool.false_eq_true, if_false, Bool.and_true, if_true,
    find_name_eq wf hc0, hsel, hmem]
  have h1 : (c0.owner != Owner.other) = true := by simpa using hown
  rw [h1]
  simp only [Bool.true_and]
  rcases hpatch with hs | ⟨pre', post', hlog, hlt, hlook⟩
  · simp [hs]
  · rw [Bool.or_eq_true]; right
    refine annotate_any hlog ?_
    rw [parseEntry_pre3 pre_patch_pod _ hn, hlook]
    simp [hlt]

theorem hit_of_mem {f : Faults} {verb : Nat} {o : Int} (h : (verb, o) ∈ f) : f.hit verb o = true := by
  simp [Faults.hit, h]

theorem squat_mem (setName : String) (plan : List Fault) (pods claimed : List CPod) (b : Int) (E : List Int)
    {c : CPod} (hc : c ∈ pods) (hname : c.name = canonicalName setName c.pod.ord)
    (hnot : (claimed.any (·.pod.id == c.pod.id) &&
      ((occupantAt claimed b E c.pod.ord).map (·.pod.id)) == some c.pod.id) = false) :
    (0, c.pod.ord) ∈ podFaults setName plan pods claimed b E := by
  unfold podFaults
  simp only
  refine List.mem_append_right _ (List.mem_map.2 ⟨c, List.mem_filter.2 ⟨hc, ?_⟩, rfl⟩)
  simp only [hname, beq_self_eq_true, Bool.true_and, Bool.not_eq_true']
  exact hnot

theorem occupantAt_some {claimed : List CPod} {b : Int} {E : List Int} {o : Int} {q : CPod}
    (h : occupantAt claimed b E o = some q) : q ∈ claimed ∧ q.pod.ord = o := by
  unfold occupantAt at h
  have hm := List.mem_of_getLast? h
  obtain ⟨h1, h2⟩ := List.mem_filter.1 hm
  simp only [Bool.and_eq_true, beq_iff_eq] at h2
  exact ⟨h1, h2.1⟩

theorem reconcileOf_eq (i : SyncIn) (plan : List Fault) (claimed : List CPod) (cur upd : Rev) :
    reconcileOf i plan claimed cur upd =
      updateStatefulSet i.view cur.name upd.name (claimed.map (·.pod))
        (podFaults i.setName plan i.pods claimed (rangeOf i).1 (rangeOf i).2) := rfl

/-- **pod-control entries**: every `delete:pod:` / `update:pod:` entry whose name is held by a pod of the snapshot names
    a claimed pod -/
theorem podCheck_act {i : SyncIn} (wf : PodsWf i) (plan : List Fault) (claimed : List CPod) (cur upd : Rev)
    (log : List String) (idx : Nat) (hcl : ∀ q ∈ claimed, ClaimedFact i plan log idx q)
    {a : Action} (ha : a ∈ (reconcileOf i plan claimed cur upd).1.acts) {e : String}
    (he : e ∈ actLog i.setName plan i.pods claimed (rangeOf i).1 (rangeOf i).2 a) :
    podCheck i (annotate plan log) (parseEntry e) idx = true := by
  rw [reconcileOf_eq] at ha
  -- a name held by a snapshot pod that turns out to be claimed
  have key : ∀ (v : String), v = "delete" ∨ v = "update" → ∀ n : String, NoColon n →
      (∀ c0 ∈ i.pods, c0.name = n → c0 ∈ claimed) →
      podCheck i (annotate plan log) { verb := v, res := "pod", name := n } idx = true := by
    intro v hv n hn hcl'
    cases hf : i.pods.find? (fun x => x.name == n) with
    | none =>
      have hv1 : (v == "patch") = false := by rcases hv with rfl | rfl <;> decide
      have hv2 : (v == "delete" || v == "update") = true := by rcases hv with rfl | rfl <;> decide
      unfold podCheck
      simp [hv1, hv2, hf]
    | some c0 =>
      have hc0 : c0 ∈ i.pods := List.mem_of_find?_eq_some hf
      have hn0 : c0.name = n := by simpa using List.find?_some hf
      subst hn0
      exact podCheck_write_of_claimed wf hn (hcl c0 (hcl' c0 hc0 rfl)) v hv
  cases a with
  | create o rv =>
    simp only [actLog, List.mem_singleton] at he
    subst he
    refine check_key pre_create_pod _ (fun e => podCheck i (annotate plan log) e idx) ?_
      (fun _ => podCheck_not_pod i _ _ idx (show ("" : String) ≠ "pod" by decide))
    intro _
    simp [podCheck]
  | update o =>
    simp only [actLog] at he
    obtain rfl := (List.mem_replicate.1 he).2
    refine check_key pre_update_pod _ (fun e => podCheck i (annotate plan log) e idx) ?_
      (fun _ => podCheck_not_pod i _ _ idx (show ("" : String) ≠ "pod" by decide))
    intro hn
    refine key "update" (Or.inr rfl) _ hn ?_
    intro c0 hc0 hname
    replace hname : c0.name = canonicalName i.setName o := hname
    -- the reconcile updates only an ordinal held by a claimed pod
    obtain ⟨p, hp, hpo⟩ := uss_update_has_pod _ _ _ _ _ ha
    obtain ⟨q, hq, rfl⟩ := List.mem_map.1 hp
    obtain ⟨hqm, hqs, hqmem, hqo, _⟩ := hcl q hq
    have hqn : q.name = canonicalName i.setName o := by rw [wf.canonical q hqm hqmem hqs hqo, hpo]
    have : q = c0 := List.inj_on_of_nodup_map wf.names hqm hc0 (by rw [hqn, hname])
    rw [← this]; exact hq
  | delete o id w =>
    simp only [actLog, List.mem_singleton] at he
    subst he
    refine check_key pre_delete_pod _ (fun e => podCheck i (annotate plan log) e idx) ?_
      (fun _ => podCheck_not_pod i _ _ idx (show ("" : String) ≠ "pod" by decide))
    intro hn
    refine key "delete" (Or.inl rfl) _ hn ?_
    intro c0 hc0 hname
    replace hname : c0.name = actName i.setName claimed (.delete o id w) := hname
    simp only [actName] at hname
    cases hfind : claimed.find? (fun x => x.pod.id == id) with
    | some q' =>
      rw [hfind] at hname
      simp only [Option.map_some, Option.getD_some] at hname
      have hq' : q' ∈ claimed := List.mem_of_find?_eq_some hfind
      have : q' = c0 := List.inj_on_of_nodup_map wf.names (hcl q' hq').1 hc0 hname.symm
      rw [← this]; exact hq'
    | none =>
      rw [hfind] at hname
      simp only [Option.map_none, Option.getD_none] at hname
      -- no claimed pod has this id: the delete targets the object created earlier in this reconcile
      obtain ⟨pre, post, hl⟩ := List.append_of_mem ha
      have h0 := uss_seg i.view cur.name upd.name (claimed.map (·.pod))
        (podFaults i.setName plan i.pods claimed (rangeOf i).1 (rangeOf i).2)
      have hJ := SegOK.at h0 hl
      have hno : ¬ ∃ p ∈ claimed.map (·.pod), p.id = id := by
        rintro ⟨p, hp, hpid⟩
        obtain ⟨q, hq, rfl⟩ := List.mem_map.1 hp
        have := List.find?_eq_none.1 hfind q hq
        simp [hpid] at this
      have hcreate : ∃ rev, Action.create o rev ∈ pre := by
        cases w with
        | replaceFailed =>
          obtain ⟨⟨p, hp, hpid, _⟩, _⟩ := hJ
          exact absurd ⟨p, hp, hpid⟩ hno
        | scaleDown =>
          obtain ⟨p, hp, hpid, _⟩ := hJ
          exact absurd ⟨p, hp, hpid⟩ hno
        | update =>
          obtain ⟨_, _, _, h4⟩ := hJ
          rcases h4 with ⟨p, hp, hpid, _⟩ | ⟨_, rev, _, hmem⟩
          · exact absurd ⟨p, hp, hpid⟩ hno
          · exact ⟨rev, by simpa using hmem⟩
      obtain ⟨rev, hrev⟩ := hcreate
      obtain ⟨pre1, post1, rfl⟩ := List.append_of_mem hrev
      have hunf := uss_faulted_create_last i.view cur.name upd.name (claimed.map (·.pod))
        (podFaults i.setName plan i.pods claimed (rangeOf i).1 (rangeOf i).2)
        (pre := pre1) (post := post1 ++ Action.delete o id w :: post) (o := o) (rev := rev)
        (by rw [hl]; simp) (by simp)
      -- the snapshot pod holding the canonical name either squats (then the create was faulted) or is the claimed occupant
      have hord : c0.pod.ord = o := wf.ordOfName c0 hc0 o hname
      by_contra hnc
      have hsquat : (claimed.any (·.pod.id == c0.pod.id) &&
          ((occupantAt claimed (rangeOf i).1 (rangeOf i).2 c0.pod.ord).map (·.pod.id)) == some c0.pod.id) = false := by
        by_contra hcon
        have hcon' : (claimed.any (·.pod.id == c0.pod.id) &&
          ((occupantAt claimed (rangeOf i).1 (rangeOf i).2 c0.pod.ord).map (·.pod.id)) == some c0.pod.id) = true := by
          simpa only [Bool.not_eq_false] using hcon
        simp only [Bool.and_eq_true, beq_iff_eq] at hcon'
        cases hocc : occupantAt claimed (rangeOf i).1 (rangeOf i).2 c0.pod.ord with
        | none => rw [hocc] at hcon'; simp at hcon'
        | some q =>
          obtain ⟨hq, hqo⟩ := occupantAt_some hocc
          obtain ⟨hqm, hqs, hqmem, hqown, _⟩ := hcl q hq
          have hqn : q.name = c0.name := by
            rw [wf.canonical q hqm hqmem hqs hqown, hqo, hord, hname]
          have : q = c0 := List.inj_on_of_nodup_map wf.names hqm hc0 hqn
          exact hnc (this ▸ hq)
      have hm := squat_mem i.setName plan i.pods claimed (rangeOf i).1 (rangeOf i).2 hc0
        (by rw [hord]; exact hname) hsquat
      rw [hord] at hm
      rw [hit_of_mem hm] at hunf
      cases hunf

/-- the patch of a pod in the claim pass passes the check -/
theorem podCheck_claim_patch {i : SyncIn} (wf : PodsWf i) (plan : List Fault) (L0 : List String) (evs : List CEv)
    (tail : List String) {claimed : List CPod} {memo : Option Bool}
    (I : ClaimInv plan i.view.deleting i.fresh i.pods L0 (L0 ++ evs.map CEv.key) claimed memo evs)
    {a' b' : List CEv} {c : CPod} (hev : evs = a' ++ .patch c :: b') :
    podCheck i (annotate plan (L0 ++ evs.map CEv.key ++ tail)) { verb := "patch", res := "pod", name := c.name }
      (L0 ++ a'.map CEv.key).length = true := by
  have hmem : CEv.patch c ∈ evs := by rw [hev]; simp
  obtain ⟨hc, hdec⟩ : c ∈ i.pods ∧ (claimDecision i.view.deleting c = .release ∨ claimDecision i.view.deleting c = .adopt) := by
    rcases I.shape _ hmem with h | ⟨c', hc', heq, hdec⟩
    · cases h
    · obtain rfl : c = c' := by simpa using heq
      exact ⟨hc', hdec⟩
  unfold podCheck
  simp only [beq_self_eq_true, Bool.and_self, if_true, find_name_eq wf hc]
  rcases hdec with hdec | hdec
  · obtain ⟨ho, hnm, hd⟩ := (claimDecision_release_iff _ c).1 hdec
    simp only [ho, hd]
    have : (c.selMatch && c.member) = false := by
      simpa using hnm
    simp [this]
  · obtain ⟨ho, hsel, hmm, hterm, hd⟩ := (claimDecision_adopt_iff _ c).1 hdec
    obtain ⟨_, p1, p2, hp, hlook, hg, hu, hdl⟩ := I.adopt_confirmed hev ho
    simp only [ho, hsel, hmm, hterm, hd, freshOk, hg, hu, hdl, Bool.not_false, Bool.and_self, Bool.true_and]
    refine annotate_any (pre := L0 ++ p1.map CEv.key) (g := "get:set")
      (post := p2.map CEv.key ++ (CEv.patch c).key :: b'.map CEv.key ++ tail) ?_ ?_
    · rw [hev, hp]; simp [CEv.key]
    · rw [parseEntry_get_set, hlook, hp]
      simp

theorem C10pods_holds (h : Hashing) (i : SyncIn) (plan : List Fault) (wf : PodsWf i) :
    C10pods i plan (syncF h i plan).observe = true := by
  rw [C10pods_eq]
  show (annotate plan (syncF h i plan).log).all
    (fun x => podCheck i (annotate plan (syncF h i plan).log) x.1 x.2.1) = true
  rw [List.all_eq_true]
  intro x hx
  obtain ⟨pre, e, post, hlog, rfl⟩ := (mem_annotate plan _ x).1 hx
  simp only
  obtain ⟨L0, evs, tail, st1, hsplit, hL0, htail, hcase⟩ := syncF_split h i plan
  have hS := syncF_shape h i plan
  rw [hsplit] at hlog ⊢
  have hnp : ∀ p : Entry, p.res ≠ "pod" →
      podCheck i (annotate plan (L0 ++ evs.map CEv.key ++ tail)) p pre.length = true :=
    fun p hp => podCheck_not_pod i _ p _ hp
  rcases split3 hlog with ⟨b, hA⟩ | ⟨a, b, hB, hpre⟩ | ⟨a, b, hC, hpre⟩
  · -- an entry of the adoption phase
    rcases (hL0 e (by rw [hA]; simp)).2 with rfl | rfl | ⟨r, _, _, _, rfl⟩ | ⟨r, _, _, rfl⟩
    · rw [parseEntry_list_revs]; exact hnp _ (by decide)
    · rw [parseEntry_get_set]; exact hnp _ (by decide)
    · exact podCheck_key_not_pod i _ _ pre_update_rev (by decide) r.name
    · exact podCheck_key_not_pod i _ _ pre_patch_rev (by decide) r.name
  · -- an entry of the claim pass
    obtain ⟨a', rest, hev, ha', hrest⟩ := List.map_eq_append_iff.1 hB
    obtain ⟨ev, b', rfl, hkey, hb'⟩ := List.map_eq_cons_iff.1 hrest
    have hne : ¬(evs = []) := by rw [hev]; simp
    rcases hcase with ⟨h1, _⟩ | ⟨I, _⟩
    · exact absurd h1 hne
    cases ev with
    | getSet =>
      rw [← hkey]
      show podCheck i _ (parseEntry "get:set") _ = true
      rw [parseEntry_get_set]; exact hnp _ (by decide)
    | patch c =>
      rw [← hkey]
      show podCheck i _ (parseEntry ("patch:pod:" ++ c.name)) _ = true
      refine check_key pre_patch_pod c.name (fun p => podCheck i _ p pre.length) ?_
        (fun _ => hnp _ (show ("" : String) ≠ "pod" by decide))
      intro _
      rw [hpre, ← ha']
      exact podCheck_claim_patch wf plan L0 evs tail I hev
  · -- an entry after the claim pass
    rcases htail e (by rw [hC]; simp) with rfl | hg | rfl | ⟨r, _, _, rfl⟩ | ⟨act, hact, he⟩
    · rw [parseEntry_list_revs]; exact hnp _ (by decide)
    · rcases hg with ⟨r, _, rfl⟩ | ⟨n, rfl⟩ | ⟨n, rfl⟩
      · exact podCheck_key_not_pod i _ _ pre_update_rev (by decide) r.name
      · exact podCheck_key_not_pod i _ _ pre_get_rev (by decide) n
      · exact podCheck_key_not_pod i _ _ pre_create_rev (by decide) n
    · rw [parseEntry_updatestatus]; exact hnp _ (by decide)
    · exact podCheck_key_not_pod i _ _ pre_delete_rev (by decide) r.name
    · -- a pod-control call
      have hane : (syncF h i plan).acts ≠ [] := by intro h0; rw [h0] at hact; cases hact
      obtain ⟨cur, upd, hacts⟩ : ∃ cur upd, (syncF h i plan).acts =
          (reconcileOf i plan (syncF h i plan).claimed cur upd).1.acts := by
        rcases hS.hacts with h0 | h0
        · exact absurd h0 hane
        · exact h0
      rcases hcase with ⟨_, _, _, h0⟩ | ⟨I, hclaimed⟩
      · exact absurd h0 hane
      rw [hacts] at hact
      refine podCheck_act wf plan (syncF h i plan).claimed cur upd _ pre.length ?_ hact he
      -- what is known of the claimed pods at this position
      intro q hq
      rcases hclaimed with h0 | h0
      · rw [h0] at hq; cases hq
      rw [h0] at hq
      obtain ⟨hqm, hqd⟩ := I.claimed_ok q hq
      rcases hqd with hk | ⟨hadopt, pq, postq, hevq, hlook⟩
      · obtain ⟨ho, hs, hm⟩ := (claimDecision_keep_iff _ q).1 hk
        exact ⟨hqm, hs, hm, by rw [ho]; simp, Or.inl ho⟩
      · obtain ⟨ho, hs, hm, _, _⟩ := (claimDecision_adopt_iff _ q).1 hadopt
        refine ⟨hqm, hs, hm, by rw [ho]; simp, Or.inr ⟨L0 ++ pq.map CEv.key, postq.map CEv.key ++ tail, ?_, ?_, hlook⟩⟩
        · rw [hevq]; simp [CEv.key]; rfl
        · rw [hpre, hevq]; simp

end Asts.SYa
