import Asts.Model.PatchJson
import Asts.Proofs.JsonToks
import Mathlib.Tactic
/-! # The lexer inverts `render goEscape` on the token streams `toks` produces; hence `parse (ser goEscape t) = some t` for EVERY tree -/
namespace Asts.Patch

/-! ## strings -/

theorem hexVal_hexDigit (n : Nat) (h : n < 16) : hexVal? (hexDigit n) = some n := by
  interval_cases n <;> decide

theorem char_eq_of_toNat {c : Char} {n : Nat} (h : c.toNat = n) : c = Char.ofNat n := by
  rw [← h, Char.ofNat_toNat]

/-- one escaped character is decoded back by one step of the string lexer -/
theorem lexStr_step (c : Char) (f : Nat) (rest acc : List Char) :
    lexStr (f + 1) (goEscapeChar c ++ rest) acc = lexStr f rest (c :: acc) := by
  unfold goEscapeChar
  split_ifs with h1 h2 h3 h4 h5 h6 h7 h8 h9 h10
  · subst h1; simp [lexStr, unesc]
  · subst h2; simp [lexStr, unesc]
  · subst h3; simp [lexStr, unesc]
  · subst h4; simp [lexStr, unesc]
  · subst h5; simp [lexStr, unesc]
  · have := char_eq_of_toNat h6; subst this; simp [lexStr, unesc]
  · have := char_eq_of_toNat h7; subst this; simp [lexStr, unesc]
  · have hlt : c.toNat < 256 := by
      simp only [Bool.or_eq_true, decide_eq_true_eq] at h8
      rcases h8 with ((h | h) | h) | h
      · omega
      · subst h; decide
      · subst h; decide
      · subst h; decide
    have e1 := hexVal_hexDigit (c.toNat / 16) (by omega)
    have e2 := hexVal_hexDigit (c.toNat % 16) (by omega)
    have e0 : hexVal? '0' = some 0 := by decide
    have ec : Char.ofNat (c.toNat / 16 * 16 + c.toNat % 16) = c := by
      have : c.toNat / 16 * 16 + c.toNat % 16 = c.toNat := by omega
      rw [this, Char.ofNat_toNat]
    simp [lexStr, unesc, e0, e1, e2, ec]
  · have := char_eq_of_toNat h9; subst this
    have e2 : hexVal? '2' = some 2 := by decide
    have e0 : hexVal? '0' = some 0 := by decide
    have e8 : hexVal? '8' = some 8 := by decide
    simp [lexStr, unesc, e0, e2, e8]
  · have := char_eq_of_toNat h10; subst this
    have e2 : hexVal? '2' = some 2 := by decide
    have e0 : hexVal? '0' = some 0 := by decide
    have e9 : hexVal? '9' = some 9 := by decide
    simp [lexStr, unesc, e0, e2, e9]
  · have hq : ¬ c = '"' := h1
    have hb : ¬ c = '\\' := h2
    have h32 : ¬ c.toNat < 32 := by
      intro hh; apply h8; simp [hh]
    simp [lexStr, hq, hb, h32]

theorem lexStr_goEscape : ∀ (cs : List Char) (f : Nat) (rest acc : List Char), cs.length + 1 ≤ f →
    lexStr f (goEscape cs ++ '"' :: rest) acc = some (acc.reverse ++ cs, rest)
  | [], f, rest, acc, h => by
    cases f with
    | zero => omega
    | succ f => simp [goEscape, lexStr]
  | c :: cs, f, rest, acc, h => by
    cases f with
    | zero => omega
    | succ f =>
      have ih := lexStr_goEscape cs f rest (c :: acc) (by simp at h; omega)
      simp only [goEscape, List.flatMap_cons, List.append_assoc] at ih ⊢
      rw [lexStr_step, ih]
      simp

theorem goEscapeChar_length_pos (c : Char) : 1 ≤ (goEscapeChar c).length := by
  unfold goEscapeChar; split_ifs <;> simp

theorem goEscape_length (cs : List Char) : cs.length ≤ (goEscape cs).length := by
  induction cs with
  | nil => simp [goEscape]
  | cons c cs ih =>
    have := goEscapeChar_length_pos c
    simp only [goEscape, List.flatMap_cons, List.length_append, List.length_cons] at ih ⊢
    omega

/-! ## numbers -/

theorem digit_isDigit (d : Nat) (h : d < 10) : isDigit (Char.ofNat (48 + d)) = true := by
  interval_cases d <;> decide

theorem digit_val (d : Nat) (h : d < 10) : (Char.ofNat (48 + d)).toNat - 48 = d := by
  interval_cases d <;> decide

def digitsVal (ds : List Char) (acc : Nat) : Nat := ds.foldl (fun a c => a * 10 + (c.toNat - 48)) acc

theorem natDigits_allDigits (n : Nat) : ∀ c ∈ natDigits n, isDigit c = true := by
  induction n using Nat.strong_induction_on with
  | _ n ih =>
    rw [natDigits]
    split_ifs with h
    · intro c hc
      simp only [List.mem_singleton] at hc
      subst hc; exact digit_isDigit n h
    · intro c hc
      simp only [List.mem_append, List.mem_singleton] at hc
      rcases hc with hc | hc
      · exact ih (n / 10) (by omega) c hc
      · subst hc; exact digit_isDigit (n % 10) (by omega)

theorem natDigits_ne_nil (n : Nat) : natDigits n ≠ [] := by
  rw [natDigits]; split_ifs <;> simp

theorem digitsVal_natDigits (n : Nat) : digitsVal (natDigits n) 0 = n := by
  induction n using Nat.strong_induction_on with
  | _ n ih =>
    rw [natDigits]
    split_ifs with h
    · simp [digitsVal, digit_val n h]
    · have := ih (n / 10) (by omega)
      simp only [digitsVal, List.foldl_append, List.foldl_cons, List.foldl_nil] at this ⊢
      rw [this, digit_val (n % 10) (by omega)]
      omega

/-- the input after a number does not go on with a digit -/
def NonDigitHead (rest : List Char) : Prop := ∀ c r, rest = c :: r → isDigit c = false

theorem lexDigits_append : ∀ (ds : List Char) (rest : List Char) (acc : Nat), (∀ c ∈ ds, isDigit c = true) → NonDigitHead rest →
    lexDigits (ds ++ rest) acc = (digitsVal ds acc, rest)
  | [], rest, acc, _, hr => by
    cases rest with
    | nil => simp [lexDigits, digitsVal]
    | cons c r => simp [lexDigits, digitsVal, hr c r rfl]
  | d :: ds, rest, acc, hd, hr => by
    have h1 : isDigit d = true := hd d (by simp)
    have ih := lexDigits_append ds rest (acc * 10 + (d.toNat - 48)) (fun c hc => hd c (by simp [hc])) hr
    simp [lexDigits, h1, ih, digitsVal]

theorem lexNum_natDigits (neg : Bool) (n : Nat) (rest : List Char) (hr : NonDigitHead rest) (he : numEnd rest = true) :
    lexNum neg (natDigits n ++ rest) = some (.num (if neg then -(n : Int) else (n : Int)), rest) := by
  have hall := natDigits_allDigits n
  have hval := digitsVal_natDigits n
  have hl := lexDigits_append (natDigits n) rest 0 hall hr
  cases hd : natDigits n with
  | nil => exact absurd hd (natDigits_ne_nil n)
  | cons d ds =>
    have h1 : isDigit d = true := hall d (by simp [hd])
    rw [hd] at hl hval
    simp only [List.cons_append] at hl ⊢
    simp [lexNum, h1, hl, hval, he]

/-! ## one token -/

/-- what may follow a number: not a digit, not `.`, `e`, `E` -/
def AfterNum (rest : List Char) : Prop := NonDigitHead rest ∧ numEnd rest = true

theorem digit_not_special (d : Char) (h : isDigit d = true) :
    d ≠ '{' ∧ d ≠ '}' ∧ d ≠ '[' ∧ d ≠ ']' ∧ d ≠ ',' ∧ d ≠ ':' ∧ d ≠ '"' ∧ d ≠ '-' := by
  refine ⟨?_, ?_, ?_, ?_, ?_, ?_, ?_, ?_⟩ <;> (intro e; subst e; revert h; decide)

theorem lexTok_renderTok (tk : Tok) (rest : List Char) (h : ∀ n, tk = .num n → AfterNum rest) :
    lexTok (renderTok goEscape tk ++ rest) = some (tk, rest) := by
  cases tk with
  | lbrace => simp [renderTok, lexTok]
  | rbrace => simp [renderTok, lexTok]
  | lbrack => simp [renderTok, lexTok]
  | rbrack => simp [renderTok, lexTok]
  | comma => simp [renderTok, lexTok]
  | colon => simp [renderTok, lexTok]
  | null => simp [renderTok, lexTok, isDigit]
  | tru => simp [renderTok, lexTok, isDigit]
  | fls => simp [renderTok, lexTok, isDigit]
  | str s =>
    have hl := lexStr_goEscape s.toList ((goEscape s.toList).length + (rest.length + 1)) rest [] (by
      have := goEscape_length s.toList
      omega)
    simp [renderTok, lexTok, hl]
  | num n =>
    obtain ⟨hr, he⟩ := h n rfl
    cases n with
    | ofNat m =>
      have hl := lexNum_natDigits false m rest hr he
      cases hd : natDigits m with
      | nil => exact absurd hd (natDigits_ne_nil m)
      | cons d ds =>
        have h1 : isDigit d = true := natDigits_allDigits m d (by simp [hd])
        obtain ⟨a1, a2, a3, a4, a5, a6, a7, a8⟩ := digit_not_special d h1
        rw [hd] at hl
        simp only [List.cons_append] at hl
        simp [renderTok, intChars, hd, lexTok, a1, a2, a3, a4, a5, a6, a7, a8, h1, hl]
    | negSucc m =>
      have hl := lexNum_natDigits true (m + 1) rest hr he
      simp [renderTok, intChars, lexTok, hl, Int.negSucc_eq]

theorem renderTok_length_pos (tk : Tok) : 1 ≤ (renderTok goEscape tk).length := by
  cases tk with
  | num n =>
    cases n with
    | ofNat m =>
      have := natDigits_ne_nil m
      simp only [renderTok, intChars]
      cases h : natDigits m with
      | nil => exact absurd h this
      | cons d ds => simp
    | negSucc m => simp [renderTok, intChars]
  | _ => simp [renderTok]

/-! ## token streams -/

def isNum : Tok → Prop
  | .num _ => True
  | _ => False

def Delim : Tok → Prop
  | .comma => True | .rbrack => True | .rbrace => True
  | _ => False

def SafeHead : List Tok → Prop
  | [] => True
  | t :: _ => Delim t

/-- every number is followed by `,`, `]`, `}` or the end of the stream -/
def numOk : List Tok → Prop
  | [] => True
  | tk :: r => (isNum tk → SafeHead r) ∧ numOk r

theorem render_cons (tk : Tok) (ts : List Tok) : render goEscape (tk :: ts) = renderTok goEscape tk ++ render goEscape ts := by
  simp [render]

theorem afterNum_render (ts : List Tok) (h : SafeHead ts) : AfterNum (render goEscape ts) := by
  cases ts with
  | nil => exact ⟨fun c r e => by simp [render] at e, by simp [render, numEnd]⟩
  | cons t r =>
    cases t <;> simp only [SafeHead, Delim] at h
    all_goals
      refine ⟨fun c r' e => ?_, ?_⟩
      · simp only [render_cons, renderTok, List.cons_append, List.nil_append, List.cons.injEq] at e
        rw [← e.1]; decide
      · simp [render_cons, renderTok, numEnd]

theorem render_length (ts : List Tok) : ts.length ≤ (render goEscape ts).length := by
  induction ts with
  | nil => simp
  | cons t r ih =>
    have := renderTok_length_pos t
    rw [render_cons]
    simp only [List.length_cons, List.length_append]
    omega

theorem lexAll_render : ∀ (ts : List Tok) (f : Nat) (acc : List Tok), numOk ts → ts.length ≤ f →
    lexAll f (render goEscape ts) acc = some (acc.reverse ++ ts)
  | [], f, acc, _, _ => by
    cases f <;> simp [render, lexAll]
  | tk :: ts, f, acc, hok, hf => by
    cases f with
    | zero => simp at hf
    | succ f =>
      obtain ⟨h1, h2⟩ := hok
      have hl := lexTok_renderTok tk (render goEscape ts) (fun n e => afterNum_render ts (h1 (by rw [e]; trivial)))
      have ih := lexAll_render ts f (tk :: acc) h2 (by simp at hf; omega)
      rw [render_cons]
      cases hrt : renderTok goEscape tk ++ render goEscape ts with
      | nil =>
        have := renderTok_length_pos tk
        have hlen := congrArg List.length hrt
        simp only [List.length_append, List.length_nil] at hlen
        omega
      | cons c r =>
        rw [hrt] at hl
        simp only [lexAll, hl, ih]
        simp

mutual
theorem numOk_toks : ∀ (t : Json) (rest : List Tok), numOk rest → SafeHead rest → numOk (toks t ++ rest)
  | .null, rest, h, _ => by simp [toks, numOk, isNum, h]
  | .bool b, rest, h, _ => by cases b <;> simp [toks, numOk, isNum, h]
  | .num n, rest, h, hs => by simp [toks, numOk, h, hs]
  | .str s, rest, h, _ => by simp [toks, numOk, isNum, h]
  | .arr l, rest, h, _ => by
    simp only [toks, List.cons_append, numOk, isNum, false_imp_iff, true_and]
    exact numOk_toksList l rest h
  | .obj kvs, rest, h, _ => by
    simp only [toks, List.cons_append, numOk, isNum, false_imp_iff, true_and]
    exact numOk_toksKvs kvs rest h
theorem numOk_toksList : ∀ (l : List Json) (rest : List Tok), numOk rest → numOk (toksList l ++ rest)
  | [], rest, h => by simp [toksList, numOk, isNum, h]
  | x :: r, rest, h => by
    simp only [toksList, List.append_assoc]
    exact numOk_toks x _ (numOk_toksTail r rest h).1 (numOk_toksTail r rest h).2
theorem numOk_toksTail : ∀ (l : List Json) (rest : List Tok), numOk rest → numOk (toksTail l ++ rest) ∧ SafeHead (toksTail l ++ rest)
  | [], rest, h => by simp [toksTail, numOk, isNum, h, SafeHead, Delim]
  | x :: r, rest, h => by
    simp only [toksTail, List.cons_append, List.append_assoc, numOk, isNum, false_imp_iff, true_and, SafeHead, Delim, and_true]
    exact numOk_toks x _ (numOk_toksTail r rest h).1 (numOk_toksTail r rest h).2
theorem numOk_toksKvs : ∀ (kvs : List (String × Json)) (rest : List Tok), numOk rest → numOk (toksKvs kvs ++ rest)
  | [], rest, h => by simp [toksKvs, numOk, isNum, h]
  | (k, v) :: r, rest, h => by
    simp only [toksKvs, List.cons_append, List.append_assoc, numOk, isNum, false_imp_iff, true_and]
    exact numOk_toks v _ (numOk_toksKvTail r rest h).1 (numOk_toksKvTail r rest h).2
theorem numOk_toksKvTail : ∀ (kvs : List (String × Json)) (rest : List Tok), numOk rest →
    numOk (toksKvTail kvs ++ rest) ∧ SafeHead (toksKvTail kvs ++ rest)
  | [], rest, h => by simp [toksKvTail, numOk, isNum, h, SafeHead, Delim]
  | (k, v) :: r, rest, h => by
    simp only [toksKvTail, List.cons_append, List.append_assoc, numOk, isNum, false_imp_iff, true_and, SafeHead, Delim, and_true]
    exact numOk_toks v _ (numOk_toksKvTail r rest h).1 (numOk_toksKvTail r rest h).2
end

/-- the lexer inverts the rendering of the token stream of any tree -/
theorem lex_render_toks (t : Json) : lex (render goEscape (toks t)) = some (toks t) := by
  have hok : numOk (toks t) := by
    have := numOk_toks t [] trivial trivial
    simpa using this
  have := lexAll_render (toks t) (render goEscape (toks t)).length [] hok (render_length _)
  simpa [lex] using this

/-- **bytes → tree inverts tree → bytes**, for every tree, with Go's string escaping -/
theorem parse_ser (t : Json) : parse (ser goEscape t) = some t := by
  simp [parse, ser, lex_render_toks, parseToks_toks]

theorem ser_injective (a b : Json) (h : ser goEscape a = ser goEscape b) : a = b := by
  have ha := parse_ser a
  rw [h, parse_ser b] at ha
  exact (Option.some.inj ha).symm

end Asts.Patch
