import Mathlib.Tactic
import Asts.Spec.Glue2
import Asts.Proofs.SY_c_Reconcile

/-! # GL2 — `C04.removed` at reconcile level

A pod-control call that the fault list refuses is the LAST action of the reconcile (`SYc.updateStatefulSet_hits`): the
replica loop stops at a refused delete of a Failed/Succeeded pod (`replaceFailed`), the condemned loop and the update walk
stop at theirs. Hence no create follows a refused delete, at whatever ordinal. -/
namespace Asts.GL2
open Asts

/-- a pod-control call that was hit is the last action of the reconcile -/
theorem hit_is_last (v : SetView) (cur upd : String) (pods : List Pod) (f : Faults) {pre post : List Action} {a : Action}
    (h : (updateStatefulSet v cur upd pods f).1.acts = pre ++ a :: post) (hh : SYc.hitAct f a = true) : post = [] := by
  have H := SYc.updateStatefulSet_hits v cur upd pods f
  cases ho : (updateStatefulSet v cur upd pods f).2 with
  | ok =>
    rw [ho] at H; simp only at H
    have := H a (by rw [h]; simp)
    rw [hh] at this; cases this
  | panic site =>
    rw [ho] at H; simp only at H
    rw [H] at h
    exact absurd h (by simp)
  | err =>
    rw [ho] at H; simp only at H
    obtain ⟨l, b, e, c, _⟩ := H
    rw [h] at e
    rcases List.eq_nil_or_concat post with rfl | ⟨post', z, rfl⟩
    · rfl
    · exfalso
      have e' : (pre ++ a :: post') ++ [z] = l ++ [b] := by simpa using e
      have := (List.append_inj' e' rfl).1
      have ha : a ∈ l := by rw [← this]; simp
      have := c a ha
      rw [hh] at this; cases this

/-- the same by index: an action at position `j` that was hit has nothing after it -/
theorem hit_index_last (v : SetView) (cur upd : String) (pods : List Pod) (f : Faults) {j : Nat} {a : Action}
    (hj : (updateStatefulSet v cur upd pods f).1.acts[j]? = some a) (hh : SYc.hitAct f a = true) :
    (updateStatefulSet v cur upd pods f).1.acts.length = j + 1 := by
  generalize hA : (updateStatefulSet v cur upd pods f).1.acts = A at hj
  obtain ⟨hlt, rfl⟩ := List.getElem?_eq_some_iff.1 hj
  have hsplit : A = A.take j ++ A[j] :: A.drop (j + 1) := by
    rw [List.getElem_cons_drop]; exact (List.take_append_drop j A).symm
  have := hit_is_last v cur upd pods f (pre := A.take j) (post := A.drop (j + 1)) (a := A[j]) (by rw [hA]; exact hsplit) hh
  have hl := congrArg List.length this
  simp only [List.length_drop, List.length_nil] at hl
  omega

theorem observe_getElem? (A : List Action) (k : Nat) : (observe A)[k]? = (A[k]?).map Action.observe := by
  unfold observe; simp

/-- **`C04.removed` (reconcile level)**: the clause of `monitorRc` is true on the model's output for every spec, snapshot
    and fault list — no hypothesis. -/
theorem C04removedRc_holds (v : SetView) (cur upd : String) (pods : List Pod) (f : Faults) :
    C04removedRc f (observe (updateStatefulSet v cur upd pods f).1.acts) = true := by
  unfold C04removedRc
  rw [List.all_eq_true]
  intro k _
  split
  · rename_i o rv hk
    by_contra hcon
    rw [Bool.not_eq_true, Bool.not_eq_false', Bool.and_eq_true] at hcon
    obtain ⟨hf, hany⟩ := hcon
    rw [List.any_eq_true] at hany
    obtain ⟨b, hb, hbm⟩ := hany
    obtain ⟨j, hjlt, hbj⟩ := List.getElem_of_mem hb
    rw [List.length_take] at hjlt
    have hjk : j < k := by omega
    rw [List.getElem_take] at hbj
    -- the model action at `j`
    have hjo : (observe (updateStatefulSet v cur upd pods f).1.acts)[j]? = some b := by
      rw [List.getElem?_eq_some_iff]; exact ⟨by omega, hbj⟩
    rw [observe_getElem?] at hjo hk
    obtain ⟨a, haj, hab⟩ := Option.map_eq_some_iff.1 hjo
    obtain ⟨c, hck, _⟩ := Option.map_eq_some_iff.1 hk
    have hklt : k < (updateStatefulSet v cur upd pods f).1.acts.length := (List.getElem?_eq_some_iff.1 hck).1
    have hhit : SYc.hitAct f a = true := by
      cases a with
      | create o' r' => simp [Action.observe] at hab; subst hab; simp at hbm
      | update o' => simp [Action.observe] at hab; subst hab; simp at hbm
      | delete o' id w =>
        simp only [Action.observe] at hab
        subst hab
        split at hbm
        · rename_i o'' _ heq
          simp only [OAct.delete.injEq] at heq
          have : o' = o := by rw [heq.1]; simpa using hbm
          subst this
          exact hf
        · cases hbm
    have := hit_index_last v cur upd pods f haj hhit
    omega
  · rfl

end Asts.GL2
