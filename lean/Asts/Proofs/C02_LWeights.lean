import Asts.Proofs.C02_LStatus

/-! C02, legacy boundary mode: the legacy weights, insensitive to order and ids. -/
namespace Asts.C02p
open Asts Asts.L1c

theorem onlyNeedy_iff (l : List CPod) (D : List Int) (o : Int) :
    onlyNeedy l D o = true ↔ ∀ o' ∈ D, o' ≠ o → ∃ c ∈ l, c.pod.ord = o' ∧ c.pod.fs = false := by
  unfold onlyNeedy
  simp only [List.all_eq_true, Bool.or_eq_true, beq_iff_eq, List.any_eq_true, Bool.and_eq_true, Bool.not_eq_true']
  constructor
  · intro h o' ho' hne
    rcases h o' ho' with h1 | ⟨c, hc, h2, h3⟩
    · exact absurd h1 hne
    · exact ⟨c, hc, h2, h3⟩
  · intro h o' ho'
    by_cases hne : o' = o
    · exact Or.inl hne
    · obtain ⟨c, hc, h2, h3⟩ := h o' ho' hne
      exact Or.inr ⟨c, hc, h2, h3⟩

theorem wLOf_some {v : SetView} {cur upd : String} {l : List CPod} {D : List Int} (hnd : (l.map (·.pod.ord)).Nodup)
    {c : CPod} (hc : c ∈ l) : wLOf v cur upd l D c.pod.ord = wLPod upd c := by
  unfold wLOf; rw [find_ord_some hnd hc]

theorem wLOf_none {v : SetView} {cur upd : String} {l : List CPod} {D : List Int} {o : Int} (h : ∀ c ∈ l, c.pod.ord ≠ o) :
    wLOf v cur upd l D o = if onlyNeedy l D o && newPodRev v cur upd o == upd then 1 else 4 := by
  unfold wLOf; rw [find_ord_none h]

theorem wLOf_none_le {v : SetView} {cur upd : String} {l : List CPod} {D : List Int} {o : Int} (h : ∀ c ∈ l, c.pod.ord ≠ o) :
    wLOf v cur upd l D o ≤ 4 := by
  rw [wLOf_none h]; split_ifs <;> omega

theorem wLOf_none_pos {v : SetView} {cur upd : String} {l : List CPod} {D : List Int} {o : Int} (h : ∀ c ∈ l, c.pod.ord ≠ o) :
    1 ≤ wLOf v cur upd l D o := by
  rw [wLOf_none h]; split_ifs <;> omega

theorem wLOf_none_good {v : SetView} {cur upd : String} {l : List CPod} {D : List Int} {o : Int} (h : ∀ c ∈ l, c.pod.ord ≠ o)
    (h1 : onlyNeedy l D o = true) (h2 : newPodRev v cur upd o = upd) : wLOf v cur upd l D o = 1 := by
  rw [wLOf_none h, h1, h2]; simp

theorem wLOf_none_bad {v : SetView} {cur upd : String} {l : List CPod} {D : List Int} {o : Int} (h : ∀ c ∈ l, c.pod.ord ≠ o)
    (h1 : onlyNeedy l D o = false ∨ newPodRev v cur upd o ≠ upd) : wLOf v cur upd l D o = 4 := by
  rw [wLOf_none h]
  rcases h1 with h1 | h1
  · rw [h1]; simp
  · have : (newPodRev v cur upd o == upd) = false := by simpa using h1
    rw [this]; simp

theorem onlyNeedy_keyPerm {A B : List CPod} (hk : KeyPerm A B) (D : List Int) (o : Int) : onlyNeedy A D o = onlyNeedy B D o := by
  rw [Bool.eq_iff_iff, onlyNeedy_iff, onlyNeedy_iff]
  constructor
  · intro h o' ho' hne
    obtain ⟨c, hc, h1, h2⟩ := h o' ho' hne
    obtain ⟨c', hc', hkc⟩ := hk.mem hc
    exact ⟨c', hc', (key_transfer (·.pod.ord) (fun _ => rfl) hkc).trans h1, (key_transfer (·.pod.fs) (fun _ => rfl) hkc).trans h2⟩
  · intro h o' ho' hne
    obtain ⟨c, hc, h1, h2⟩ := h o' ho' hne
    obtain ⟨c', hc', hkc⟩ := hk.symm.mem hc
    exact ⟨c', hc', (key_transfer (·.pod.ord) (fun _ => rfl) hkc).trans h1, (key_transfer (·.pod.fs) (fun _ => rfl) hkc).trans h2⟩

theorem wLOf_keyPerm {v : SetView} {cur upd : String} {A B : List CPod} (hk : KeyPerm A B)
    (hnd : (B.map (·.pod.ord)).Nodup) (D : List Int) (o : Int) : wLOf v cur upd A D o = wLOf v cur upd B D o := by
  have hndA : (A.map (·.pod.ord)).Nodup := (hk.ords.nodup_iff).2 hnd
  by_cases hex : ∃ b ∈ B, b.pod.ord = o
  · obtain ⟨b, hb, rfl⟩ := hex
    obtain ⟨a, ha, hka⟩ := hk.symm.mem hb
    have hao : a.pod.ord = b.pod.ord := key_transfer (·.pod.ord) (fun _ => rfl) hka
    rw [wLOf_some hnd hb, ← hao, wLOf_some hndA ha]
    exact key_transfer (wLPod upd) (fun _ => rfl) hka
  · have hB : ∀ b ∈ B, b.pod.ord ≠ o := fun b hb hbo => hex ⟨b, hb, hbo⟩
    have hA : ∀ a ∈ A, a.pod.ord ≠ o := by
      intro a ha hao
      obtain ⟨b, hb, hkb⟩ := hk.mem ha
      exact hB b hb ((key_transfer (·.pod.ord) (fun _ => rfl) hkb).trans hao)
    rw [wLOf_none hA, wLOf_none hB, onlyNeedy_keyPerm hk]

theorem muLOf_keyPerm {v : SetView} {cur upd : String} {D : List Int} {A B : List CPod} (hk : KeyPerm A B)
    (hnd : (B.map (·.pod.ord)).Nodup) : muLOf v cur upd D A = muLOf v cur upd D B := by
  unfold muLOf
  congr 1
  · congr 1
    apply List.map_congr_left
    intro o _
    exact wLOf_keyPerm hk hnd D o
  · congr 1
    exact (hk.filter (fun c => !D.contains c.pod.ord) (fun _ => rfl)).length

theorem wLPod_live {upd : String} {c : CPod} (hfs : c.pod.fs = false) :
    wLPod upd c = (if c.pod.rev != upd then 3 else 0) + (if c.pod.idOk then 0 else 1) := by
  unfold wLPod
  have : (c.pod.failed || c.pod.succeeded) = false := hfs
  simp [this]

theorem wLPod_fs {upd : String} {c : CPod} (hfs : c.pod.fs = true) : wLPod upd c = 5 := by
  unfold wLPod
  have : (c.pod.failed || c.pod.succeeded) = true := hfs
  simp [this]

end Asts.C02p
