import Asts.Proofs.C02_GConverge

/-! C02: the Parallel policy is a `PolicyClass` on normal, settled worlds. -/
namespace Asts.C02p
open Asts Asts.L1c

/-- the class: normal, settled, Parallel -/
def ParK (h : Hashing) (j : SyncIn) : Prop := NSC h j ∧ j.view.parallel = true ∧ PartOk j.view

section
variable {h : Hashing} {j : SyncIn}

theorem par_recon_ok (hs : NSC h j) (hpar : j.view.parallel = true) : hs.norm.recon.2 = .ok := by
  have hn := hs.norm
  unfold NormC.recon updateStatefulSet
  cases hpr : prepare j.view hn.curRev.name hn.updRev.name (j.pods.map (·.pod)) with
  | error e =>
    obtain ⟨st, o⟩ := e
    exact absurd hpr (prepare_calm' j.view _ _ _ (replicasOf j.view) hn.spec.rep st o)
  | ok p =>
    simp only [hn.spec.del, Bool.false_eq_true, if_false]
    obtain ⟨s, l, h1, _, _⟩ := runLoops_par j.view hn.curRev.name hn.updRev.name p hpar
    rw [h1]

theorem par_recon_acts (hs : NSC h j) (hpar : j.view.parallel = true) :
    hs.norm.recon.1.acts = actsOf j.view hs.norm.curRev.name hs.norm.updRev.name (bOf j) (EOf j) j.pods := by
  have hn := hs.norm
  exact recon_acts j.view _ _ _ (replicasOf j.view) hn.spec.rep hpar hn.spec.del

theorem par_facts (hs : NSC h j) (hpart : PartOk j.view) :
    ActFacts j.view hs.norm.curRev.name hs.norm.updRev.name (bOf j) (EOf j) j.pods
      (actsOf j.view hs.norm.curRev.name hs.norm.updRev.name (bOf j) (EOf j) j.pods) := by
  have hn := hs.norm
  have hctx := hs.ctx
  have hb0 := bOf_nonneg hn
  have hE := EOf_nonneg hn
  refine ⟨fun id hid => delHits_fresh hctx hpart hid, createsOf_actsOf_nodup _ _ _ _ _ _, ?_, ?_, ?_⟩
  · intro o rev hcr
    obtain ⟨hr, hrev, hcase⟩ := (create_mem_iff hctx).1 hcr
    refine ⟨hr, hrev, ?_⟩
    rcases hcase with hnone | ⟨c, hcm, hco, hfs⟩
    · exact Or.inl hnone
    · exact Or.inr ⟨c, hcm, hco, hfs, (delHits_iff hctx hpart hb0 hE hcm).2 (Or.inl ⟨by rw [hco]; exact hr, hfs⟩)⟩
  · intro c hcm _ hfs hr
    exact ⟨_, (create_mem_iff hctx).2 ⟨hr, rfl, Or.inr ⟨c, hcm, rfl, hfs⟩⟩⟩
  · intro c hcm hd hfs hr
    rcases (delHits_iff hctx hpart hb0 hE hcm).1 hd with ⟨_, h2⟩ | h2 | h2
    · rw [hfs] at h2; cases h2
    · rw [hr] at h2; cases h2
    · obtain ⟨c', hc', _, hco, _, _, hrev, hpt, hnod⟩ := target_is_pod hctx hpart h2
      have : c' = c := hctx.ord_inj hc' hcm hco
      subst this
      exact ⟨hn.spec.strat.resolve_right hnod, hpt, hrev⟩

theorem par_pol (hs : NSC h j) (hpar : j.view.parallel = true) (hpart : PartOk j.view) : Pol hs.norm :=
  Pol.of_facts (par_recon_ok hs hpar) (by rw [par_recon_acts hs hpar]; exact par_facts hs hpart)

/-- when every desired ordinal holds a live pod and one of them still has to be replaced, the update walk takes one down -/
theorem target_exists (hs : NSC h j) (hpart : PartOk j.view)
    (hall : ∀ o, inRange (bOf j) (EOf j) o = true → ∃ c ∈ j.pods, c.pod.ord = o ∧ c.pod.fs = false)
    {c0 : CPod} (hc0 : c0 ∈ j.pods) (hr0 : inRange (bOf j) (EOf j) c0.pod.ord = true) (hroll : j.view.strat = .rolling)
    (hpt : partOf j.view ≤ c0.pod.ord) (hrev : c0.pod.rev ≠ hs.norm.updRev.name) :
    ∃ c ∈ j.pods, IsTarget j.view hs.norm.curRev.name hs.norm.updRev.name (bOf j) (EOf j) j.pods c := by
  have hn := hs.norm
  have hctx := hs.ctx
  have hslot : ∀ ip ∈ (repsOf j.view hn.curRev.name hn.updRev.name (bOf j) (EOf j) (j.pods.map (·.pod))).map
      (repNew j.view hn.curRev.name hn.updRev.name), ∃ c ∈ j.pods, ip = (c.pod.ord, c.pod) ∧ c.pod.fs = false := by
    intro ip hip
    rw [List.mem_map] at hip
    obtain ⟨iq, hiq, rfl⟩ := hip
    obtain ⟨hr, hq0⟩ := mem_repsOf.1 hiq
    obtain ⟨c, hcm, hco, hfs⟩ := hall iq.1 hr
    have hsl := hctx.slot_of_mem hcm (by rw [hco]; exact hr)
    rw [hco] at hsl
    rw [hsl] at hq0
    simp only [Option.getD_some] at hq0
    refine ⟨c, hcm, ?_, hfs⟩
    unfold repNew
    rw [hq0, hfs]
    simp [hco]
  have hsome : (tgtOf j.view hn.curRev.name hn.updRev.name (bOf j) (EOf j) j.pods).isSome = true := by
    unfold tgtOf walkTarget
    have : (j.view.strat == StratType.onDelete) = false := by rw [hroll]; rfl
    simp only [this, Bool.false_eq_true, if_false]
    apply walkFind_healthy
    · intro ip hip
      unfold walkList at hip
      rw [List.mem_reverse, List.mem_filter] at hip
      obtain ⟨c, hcm, rfl, hfs⟩ := hslot ip hip.1
      have hrr : c.pod.runningAndReady = true := by
        rcases (hs.settled c hcm).2 with h1 | h1
        · rw [hfs] at h1; cases h1
        · exact h1
      unfold Pod.healthy
      simp [hrr, (hs.settled c hcm).1]
    · refine ⟨(c0.pod.ord, c0.pod), ?_, hrev⟩
      unfold walkList
      rw [List.mem_reverse, List.mem_filter]
      refine ⟨?_, by simpa using hpt⟩
      rw [List.mem_map]
      obtain ⟨c, hcm, hco, hfs⟩ := hall c0.pod.ord hr0
      have : c = c0 := hctx.ord_inj hcm hc0 hco
      subst this
      refine ⟨(c.pod.ord, c.pod), mem_repsOf.2 ⟨hr0, by simp [hctx.slot_of_mem hc0 hr0]⟩, ?_⟩
      unfold repNew
      simp [hfs]
  cases ht : tgtOf j.view hn.curRev.name hn.updRev.name (bOf j) (EOf j) j.pods with
  | none => rw [ht] at hsome; cases hsome
  | some tq =>
    obtain ⟨t, q⟩ := tq
    obtain ⟨c, hcm, hcp, hco, _⟩ := target_is_pod hctx hpart ht
    refine ⟨c, hcm, ?_⟩
    unfold IsTarget
    rw [ht, hco, hcp]

/-- what a positive measure means: a pod outside the desired set, or a desired ordinal that is vacant, holds a
    Failed/Succeeded pod, a pod without identity, or a pod RollingUpdate has to replace -/
theorem mu_pos_cases (hs : NSC h j) (hpos : 0 < muPods j) :
    (∃ c ∈ j.pods, inRange (bOf j) (EOf j) c.pod.ord = false) ∨
    (∃ o, inRange (bOf j) (EOf j) o = true ∧ ∀ c ∈ j.pods, c.pod.ord ≠ o) ∨
    (∃ c ∈ j.pods, inRange (bOf j) (EOf j) c.pod.ord = true ∧ c.pod.fs = true) ∨
    (∃ c ∈ j.pods, inRange (bOf j) (EOf j) c.pod.ord = true ∧ c.pod.fs = false ∧ c.pod.idOk = false) ∨
    (∃ c ∈ j.pods, inRange (bOf j) (EOf j) c.pod.ord = true ∧ c.pod.fs = false ∧ j.view.strat = .rolling ∧
      partOf j.view ≤ c.pod.ord ∧ c.pod.rev ≠ hs.norm.updRev.name) := by
  have hn := hs.norm
  rw [muPods_eq, hn.updName] at hpos
  unfold muOf at hpos
  by_cases hC : 0 < (j.pods.filter (fun c => !(desired (replicasOf j.view) j.view.slots).contains c.pod.ord)).length
  · left
    obtain ⟨c, hc⟩ := List.exists_mem_of_length_pos hC
    rw [List.mem_filter] at hc
    refine ⟨c, hc.1, ?_⟩
    have : c.pod.ord ∉ desired (replicasOf j.view) j.view.slots := by simpa using hc.2
    rw [mem_desired_iff hn] at this
    simpa using this
  · right
    have hC0 : (j.pods.filter (fun c => !(desired (replicasOf j.view) j.view.slots).contains c.pod.ord)).length = 0 := by omega
    rw [hC0] at hpos
    simp only [Nat.mul_zero, Nat.add_zero] at hpos
    have hex : ∃ o ∈ desired (replicasOf j.view) j.view.slots, 0 < wOf j.view hn.updRev.name j.pods o := by
      by_contra hcon
      have : ((desired (replicasOf j.view) j.view.slots).map (wOf j.view hn.updRev.name j.pods)).sum = 0 := by
        apply List.sum_eq_zero
        intro x hx
        rw [List.mem_map] at hx
        obtain ⟨o, ho, rfl⟩ := hx
        by_contra hne
        exact hcon ⟨o, ho, by omega⟩
      omega
    obtain ⟨o, ho, hw⟩ := hex
    have hr := (mem_desired_iff hn o).1 ho
    by_cases hat : ∃ c ∈ j.pods, c.pod.ord = o
    · obtain ⟨c, hcm, rfl⟩ := hat
      by_cases hfs : c.pod.fs = true
      · exact Or.inr (Or.inl ⟨c, hcm, hr, hfs⟩)
      · have hfs' : c.pod.fs = false := by simpa using hfs
        rw [wOf_some hn.ords hcm, wPod_live hfs' (hs.settled c hcm).1] at hw
        by_cases hid : c.pod.idOk = true
        · right; right; right
          rw [hid] at hw
          simp only [if_true, Nat.add_zero] at hw
          unfold outW at hw
          split_ifs at hw with hcond
          · simp only [Bool.and_eq_true, beq_iff_eq, decide_eq_true_eq, bne_iff_ne, ne_eq] at hcond
            exact ⟨c, hcm, hr, hfs', hcond.1.1, hcond.1.2, hcond.2⟩
          · omega
        · exact Or.inr (Or.inr (Or.inl ⟨c, hcm, hr, hfs', by simpa using hid⟩))
    · exact Or.inl ⟨o, hr, fun c hcm hco => hat ⟨c, hcm, hco⟩⟩

theorem par_progress (hs : NSC h j) (hpar : j.view.parallel = true) (hpart : PartOk j.view) (hpos : 0 < muPods j) :
    Event (bOf j) (EOf j) j.pods hs.norm.recon.1.acts := by
  have hn := hs.norm
  have hctx := hs.ctx
  have hb0 := bOf_nonneg hn
  have hE := EOf_nonneg hn
  rw [par_recon_acts hs hpar]
  -- vacancies and Failed/Succeeded pods in range, and pods out of range, are handled at once
  have hvac : ∀ o, inRange (bOf j) (EOf j) o = true → (∀ c ∈ j.pods, c.pod.ord ≠ o) →
      Event (bOf j) (EOf j) j.pods (actsOf j.view hn.curRev.name hn.updRev.name (bOf j) (EOf j) j.pods) :=
    fun o hr hnone => Or.inl ⟨o, _, (create_mem_iff hctx).2 ⟨hr, rfl, Or.inl hnone⟩⟩
  have hfsE : ∀ c ∈ j.pods, inRange (bOf j) (EOf j) c.pod.ord = true → c.pod.fs = true →
      Event (bOf j) (EOf j) j.pods (actsOf j.view hn.curRev.name hn.updRev.name (bOf j) (EOf j) j.pods) :=
    fun c hcm hr hfs => Or.inr (Or.inl ⟨c, hcm, (delHits_iff hctx hpart hb0 hE hcm).2 (Or.inl ⟨hr, hfs⟩)⟩)
  rcases mu_pos_cases hs hpos with ⟨c, hcm, hr⟩ | ⟨o, hr, hnone⟩ | ⟨c, hcm, hr, hfs⟩ | ⟨c, hcm, hr, hfs, hid⟩ |
      ⟨c, hcm, hr, hfs, hroll, hpt, hrev⟩
  · exact Or.inr (Or.inl ⟨c, hcm, (delHits_iff hctx hpart hb0 hE hcm).2 (Or.inr (Or.inl hr))⟩)
  · exact hvac o hr hnone
  · exact hfsE c hcm hr hfs
  · exact Or.inr (Or.inr ⟨c, hcm, hr, hfs, hid, update_mem hctx hcm hr hfs hid⟩)
  · by_cases hall : ∀ o, inRange (bOf j) (EOf j) o = true → ∃ c ∈ j.pods, c.pod.ord = o ∧ c.pod.fs = false
    · obtain ⟨c', hc', htg⟩ := target_exists hs hpart hall hcm hr hroll hpt hrev
      exact Or.inr (Or.inl ⟨c', hc', (delHits_iff hctx hpart hb0 hE hc').2 (Or.inr (Or.inr htg))⟩)
    · push_neg at hall
      obtain ⟨o, hro, hbad⟩ := hall
      by_cases hat : ∃ c ∈ j.pods, c.pod.ord = o
      · obtain ⟨c', hc', hco'⟩ := hat
        have := hbad c' hc' hco'
        exact hfsE c' hc' (by rw [hco']; exact hro) (by simpa using this)
      · exact hvac o hro (fun c hcm hco => hat ⟨c, hcm, hco⟩)

end

/-- **the Parallel policy is a policy class** -/
theorem par_class (h : Hashing) : PolicyClass h (ParK h) where
  ns := fun _ hk => hk.1
  part := fun _ hk => hk.2.2
  pol := fun _ hk => par_pol hk.1 hk.2.1 hk.2.2
  facts := fun _ hk => by rw [par_recon_acts hk.1 hk.2.1]; exact par_facts hk.1 hk.2.2
  next := fun j hk => ⟨nextW_ns hk.1 (par_pol hk.1 hk.2.1 hk.2.2), by rw [nextW_view hk.1 (par_pol hk.1 hk.2.1 hk.2.2)]; exact hk.2.1,
    by rw [nextW_view hk.1 (par_pol hk.1 hk.2.1 hk.2.2)]; exact hk.2.2⟩
  progress := fun _ hk hpos => par_progress hk.1 hk.2.1 hk.2.2 hpos

end Asts.C02p
