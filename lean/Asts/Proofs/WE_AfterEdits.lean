import Mathlib.Tactic
import Asts.Proofs.WE_ConvergeFix
import Asts.Proofs.WE_Lossless

/-! # WE — the monitor `C02afterEdits` on the model's histories -/
namespace Asts.WE
open Asts Asts.C02p

/-- the fields of a world neither a round nor an edit touches -/
def SameFrame (i w : SyncIn) : Prop :=
  w.setName = i.setName ∧ w.selectorOk = i.selectorOk ∧ w.historyLimit = i.historyLimit ∧
  w.view.parallel = i.view.parallel ∧ w.view.strat = i.view.strat ∧ w.view.deleting = i.view.deleting

theorem sameFrame_refl (i : SyncIn) : SameFrame i i := ⟨rfl, rfl, rfl, rfl, rfl, rfl⟩

theorem sameFrame_round {i w : SyncIn} (hf : SameFrame i w) (h : Hashing) (p : List Fault) : SameFrame i (round h w p).1 := hf

theorem sameFrame_applyEdit {i w : SyncIn} (hf : SameFrame i w) (e : Edit) : SameFrame i (applyEdit e w) := by
  obtain ⟨h1, h2, h3, h4, h5, h6⟩ := hf
  cases e with
  | replicas n => show SameFrame i (editReplicas n w); unfold editReplicas; split_ifs <;> exact ⟨h1, h2, h3, h4, h5, h6⟩
  | template t => show SameFrame i (editTemplate t w); unfold editTemplate; split_ifs <;> exact ⟨h1, h2, h3, h4, h5, h6⟩
  | partition p => show SameFrame i (editPartition p w); unfold editPartition; split_ifs <;> exact ⟨h1, h2, h3, h4, h5, h6⟩
  | slots s => exact ⟨h1, h2, h3, h4, h5, h6⟩
  | pause on => exact ⟨h1, h2, h3, h4, h5, h6⟩
  | note x => exact ⟨h1, h2, h3, h4, h5, h6⟩

theorem sameFrame_applyEdits {i : SyncIn} (es : List Edit) : ∀ {w : SyncIn}, SameFrame i w → SameFrame i (applyEdits es w) := by
  induction es with
  | nil => intro w hf; exact hf
  | cons e es ih => intro w hf; rw [applyEdits_cons]; exact ih (sameFrame_applyEdit hf e)

theorem viewInStep_applyEdit {w : SyncIn} (hv : ViewInStep w) (e : Edit) : ViewInStep (applyEdit e w) := by
  unfold ViewInStep at hv ⊢
  cases e with
  | replicas n => show (editReplicas n w).view.stCurrentReplicas = (editReplicas n w).stored.current; unfold editReplicas; split_ifs <;> exact hv
  | template t => show (editTemplate t w).view.stCurrentReplicas = (editTemplate t w).stored.current; unfold editTemplate; split_ifs <;> exact hv
  | partition p => show (editPartition p w).view.stCurrentReplicas = (editPartition p w).stored.current; unfold editPartition; split_ifs <;> exact hv
  | slots s => exact hv
  | pause on => exact hv
  | note x => exact hv

theorem viewInStep_applyEdits (es : List Edit) : ∀ {w : SyncIn}, ViewInStep w → ViewInStep (applyEdits es w) := by
  induction es with
  | nil => intro w hv; exact hv
  | cons e es ih => intro w hv; rw [applyEdits_cons]; exact ih (viewInStep_applyEdit hv e)

theorem applyEdits_pods' (es : List Edit) (i : SyncIn) : (applyEdits es i).pods = i.pods := by
  induction es generalizing i with
  | nil => rfl
  | cons e es ih => rw [applyEdits_cons, ih]; exact (applyEdit_frame e i).2.1

theorem applyEdits_fresh (es : List Edit) (i : SyncIn) : (applyEdits es i).fresh = i.fresh := by
  induction es generalizing i with
  | nil => rfl
  | cons e es ih => rw [applyEdits_cons, ih]; exact (applyEdit_frame e i).2.2.2.2.1

section
variable (h : Hashing) (script : Script) (plan : List Fault) (i : SyncIn)

theorem wAt_sameFrame : ∀ k, SameFrame i (wAt h script plan i k)
  | 0 => by rw [wAt_zero]; exact sameFrame_applyEdits _ (sameFrame_refl i)
  | k + 1 => by rw [wAt_succ]; exact sameFrame_applyEdits _ (sameFrame_round (wAt_sameFrame k) h _)

/-- the world the monitor reconstructs from the observation at a round with edits is the model's world of that round -/
theorem worldAtEdit_eq (fuel k : Nat) (hk : k + 1 < (runHistory h script fuel 1 0 i plan).length)
    (hed : (histRoundAt h script 1 plan i (k + 1)).edits.isEmpty = false) :
    worldAtEdit i (observeHist (runHistory h script fuel 1 0 i plan)) (k + 1) = wAt h script plan i (k + 1) := by
  have hx : (runHistory h script fuel 1 0 i plan)[k]? = some (runHistory h script fuel 1 0 i plan)[k] := List.getElem?_eq_getElem (by omega)
  have hx' := hist_get h script plan i fuel k _ hx
  unfold worldAtEdit
  simp only [Nat.add_sub_cancel]
  rw [observeHist_get, hx, hx', (specAt_hist h script plan i fuel (k + 1) hk).2 hed]
  simp only [Option.map_some, obs1]
  obtain ⟨f1, f2, f3, f4, f5, f6⟩ := wAt_sameFrame h script plan i (k + 1)
  have hst : (wAt h script plan i (k + 1)).stored = (histRoundAt h script 1 plan i k).obs.status := wAt_stored_succ h script plan i k
  have hsto : (wAt h script plan i (k + 1)).store = (histRoundAt h script 1 plan i k).obs.revs := wAt_store_succ h script plan i k
  have hpods : (wAt h script plan i (k + 1)).pods = (histRoundAt h script 1 plan i k).obs.pods := by
    rw [wAt_succ, applyEdits_pods']; rfl
  have hvis : ViewInStep (wAt h script plan i (k + 1)) := by
    rw [wAt_succ]; exact viewInStep_applyEdits _ (round_viewInStep h _ _)
  have hfresh : (wAt h script plan i (k + 1)).fresh = { gone := false, uidOk := true, deleting := i.view.deleting } := by
    rw [wAt_succ, applyEdits_fresh]
    show ({ gone := false, uidOk := true, deleting := (wAt h script plan i k).view.deleting } : Fresh) = _
    rw [(wAt_sameFrame h script plan i k).2.2.2.2.2]
  unfold withObs withSpec specOfWorld
  simp only
  unfold ViewInStep at hvis
  rw [← hst, ← hsto, ← hpods, ← hvis, ← f1, ← f2, ← f3, ← f4, ← f5, ← hfresh, ← f6]

end

end Asts.WE

namespace Asts.WE
open Asts Asts.C02p

theorem lastEditIdx_none (rs : List HRound) (hall : ∀ r ∈ rs, r.edits.isEmpty = true) : lastEditIdx rs = none := by
  unfold lastEditIdx
  have : (rs.zipIdx).filter (fun (x : HRound × Nat) => !x.1.edits.isEmpty) = [] := by
    rw [List.filter_eq_nil_iff]
    intro x hx
    have := hall x.1 (List.fst_mem_of_mem_zipIdx (by obtain ⟨a, b⟩ := x; exact hx))
    simp [this]
  rw [this]; rfl

theorem lastEditIdx_eq (rs : List HRound) (k : Nat) (r : HRound) (hk : rs[k]? = some r) (hne : r.edits.isEmpty = false)
    (hafter : ∀ n x, k < n → rs[n]? = some x → x.edits.isEmpty = true) : lastEditIdx rs = some k := by
  have hklt : k < rs.length := by
    by_contra hge
    rw [List.getElem?_eq_none (by omega)] at hk; simp at hk
  have hsplit : rs = rs.take k ++ r :: rs.drop (k + 1) := by
    have h1 : rs.drop k = r :: rs.drop (k + 1) := by
      rw [List.drop_eq_getElem_cons hklt]
      congr 1
      have := List.getElem?_eq_getElem hklt
      rw [this] at hk; exact Option.some.inj hk
    rw [← h1, List.take_append_drop]
  unfold lastEditIdx
  rw [hsplit, List.zipIdx_append, List.zipIdx_cons, List.filter_append, List.filter_cons]
  have htl : ((rs.drop (k + 1)).zipIdx (0 + (rs.take k).length + 1)).filter (fun (x : HRound × Nat) => !x.1.edits.isEmpty) = [] := by
    rw [List.filter_eq_nil_iff]
    intro x hx
    have hmem : x.1 ∈ rs.drop (k + 1) := List.fst_mem_of_mem_zipIdx (by obtain ⟨a, b⟩ := x; exact hx)
    obtain ⟨n, hn⟩ := List.mem_iff_getElem?.mp hmem
    rw [List.getElem?_drop] at hn
    have := hafter (k + 1 + n) x.1 (by omega) hn
    simp [this]
  rw [htl]
  simp only [hne, Bool.not_false, if_true, List.append_nil, List.map_append, List.map_cons, List.map_nil]
  rw [List.getLast?_append]
  simp
  omega

end Asts.WE

namespace Asts.WE
open Asts Asts.C02p Asts.GL

theorem exists_of_editsAt {script : Script} {j : Nat} (hne : (editsAt script j).isEmpty = false) : ∃ e ∈ script, e.1 = j := by
  unfold editsAt at hne
  cases hf : script.filter (·.1 == j) with
  | nil => rw [hf] at hne; simp at hne
  | cons e rest =>
    have : e ∈ script.filter (·.1 == j) := by rw [hf]; exact List.mem_cons_self
    rw [List.mem_filter] at this
    exact ⟨e, this.1, by simpa using this.2⟩

theorem settle_viewInStep' (w : SyncIn) (hv : ViewInStep w) : ViewInStep (settle w) := hv

/-- **`C02afterEdits`, the monitor, is true on the model — histories with edits**: the last edits of the script are made
    before round `k + 2`; the world `W` they produce, settled, converges within its bound (what `C02_converges` gives from
    `wfWorld` and `extraMB`); the budget covers `k + 1` rounds plus that bound plus 2; pod names are distinct in `W` and in
    every world of the run from it -/
theorem C02afterEdits_model_edits (h : Hashing) (script : Script) (fuel : Nat) (i : SyncIn) (plan : List Fault) (k : Nat)
    (hlast : ∀ e ∈ script, e.1 ≤ k + 2) (hed : (editsAt script (k + 2)).isEmpty = false)
    (hnW : ((wAt h script plan i (k + 1)).pods.map (·.name)).Nodup)
    (hnod : ∀ n, ((roundsN h n (settle (wAt h script plan i (k + 1)))).pods.map (·.name)).Nodup)
    (hconv : ∃ n ≤ roundBound (settle (wAt h script plan i (k + 1))), Final h (roundsN h n (settle (wAt h script plan i (k + 1)))))
    (hfuel : k + 1 + roundBound (settle (wAt h script plan i (k + 1))) + 2 ≤ fuel) :
    C02afterEdits h i (observeHist (runHistory h script fuel 1 0 i plan)) = true := by
  have e12 : 1 + (k + 1) = k + 2 := by omega
  have hedT : (histRoundAt h script 1 plan i (k + 1)).edits.isEmpty = false := by
    show (editsAt script (1 + (k + 1))).isEmpty = false
    rw [e12]; exact hed
  -- the history: k+1 rounds, then the plain run of W
  obtain ⟨e0, he0, he0j⟩ := exists_of_editsAt hed
  obtain ⟨c', hc'⟩ := runHistory_unroll h script 1 i plan (k + 1) fuel 0 (by omega) (fun m hm => by
    unfold pendingAfter
    rw [List.any_eq_true]
    exact ⟨e0, he0, by simp only [decide_eq_true_eq]; omega⟩)
  have htail : (runHistory h script (fuel - (k + 1)) (1 + (k + 1)) c' (worldFrom h script 1 plan i (k + 1)) (planAt plan (k + 1))).map (·.obs) =
      runRounds h (fuel - (k + 1)) 0 (wAt h script plan i (k + 1)) [] := by
    rw [runHistory_last h script _ _ _ _ _ (fun e he => by rw [e12]; exact hlast e he), planAt_succ]
    have : (editsAt script (1 + (k + 1))).isEmpty = false := by rw [e12]; exact hed
    rw [this]; rfl
  obtain ⟨g, hg⟩ : ∃ g, fuel - (k + 1) = g + 1 := ⟨fuel - (k + 2), by omega⟩
  have htlen : 1 ≤ (runHistory h script (fuel - (k + 1)) (1 + (k + 1)) c' (worldFrom h script 1 plan i (k + 1)) (planAt plan (k + 1))).length := by
    have := congrArg List.length htail
    rw [List.length_map] at this
    rw [this, hg]; exact runRounds_nonempty h g 0 _ []
  have hlen : k + 1 < (runHistory h script fuel 1 0 i plan).length := by
    rw [hc', List.length_append, List.length_map, List.length_range]; omega
  -- the last round with edits
  have hget : ∀ m, m < (runHistory h script fuel 1 0 i plan).length →
      (observeHist (runHistory h script fuel 1 0 i plan))[m]? = some (obs1 (histRoundAt h script 1 plan i m)) := by
    intro m hm
    have hx : (runHistory h script fuel 1 0 i plan)[m]? = some (runHistory h script fuel 1 0 i plan)[m] := List.getElem?_eq_getElem hm
    rw [observeHist_get, hx, hist_get h script plan i fuel m _ hx]; rfl
  have hidx : lastEditIdx (observeHist (runHistory h script fuel 1 0 i plan)) = some (k + 1) := by
    apply lastEditIdx_eq _ (k + 1) _ (hget (k + 1) hlen) hedT
    intro n x hn hx
    have hnlt : n < (runHistory h script fuel 1 0 i plan).length := by
      by_contra hge
      rw [List.getElem?_eq_none (by rw [observeHist_length]; omega)] at hx; simp at hx
    rw [hget n hnlt] at hx
    have : x = obs1 (histRoundAt h script 1 plan i n) := (Option.some.inj hx).symm
    rw [this]
    show (editsAt script (1 + n)).isEmpty = true
    rw [editsAt_past script (1 + n) (fun e he => by have := hlast e he; omega)]; rfl
  unfold C02afterEdits
  rw [hidx]
  simp only [Nat.add_eq_zero_iff, one_ne_zero, and_false, beq_iff_eq, Bool.false_or]
  rw [worldAtEdit_eq h script plan i fuel k hlen hedT]
  -- the observations from round k+1 on
  have hdrop : ((observeHist (runHistory h script fuel 1 0 i plan)).drop (k + 1)).map (·.obs) =
      runRounds h (fuel - (k + 1)) 0 (wAt h script plan i (k + 1)) [] := by
    rw [List.map_drop, observeHist_obs, hc', List.map_append, List.drop_left' (by simp), htail]
  rw [hdrop, ← runRounds_settle h _ 0 _ hnW]
  exact C02converges_run h (settle (wAt h script plan i (k + 1))) (fuel - (k + 1))
    (by
      have : ViewInStep (wAt h script plan i (k + 1)) := by
        rw [wAt_succ]; exact viewInStep_applyEdits _ (round_viewInStep h _ _)
      exact this)
    hnod hconv (by omega)

/-- **… and histories without edits** (empty script, empty fault plan): the clause of the world engine -/
theorem C02afterEdits_model_noedits (h : Hashing) (fuel : Nat) (i : SyncIn) (hv : ViewInStep i)
    (hnod : ∀ n, ((roundsN h n i).pods.map (·.name)).Nodup)
    (hconv : ∃ n ≤ roundBound i, Final h (roundsN h n i)) (hfuel : roundBound i + 2 ≤ fuel) :
    C02afterEdits h i (observeHist (runHistory h [] fuel 1 0 i [])) = true := by
  unfold C02afterEdits
  rw [lastEditIdx_none _ (by
    intro r hr
    rw [observeHist_eq] at hr
    obtain ⟨x, hx, rfl⟩ := List.mem_map.mp hr
    obtain ⟨n, hn⟩ := List.mem_iff_getElem?.mp hx
    rw [hist_get h [] [] i fuel n x hn]; rfl)]
  simp only
  rw [observeHist_obs, runHistory_nil]
  exact C02converges_run h i fuel hv hnod hconv hfuel

end Asts.WE
