import Asts.Spec.Reconcile
import Mathlib.Tactic

/-! Generic induction principles over the three loops of `updateStatefulSet`, a characterisation of `prepare`,
    and small counting helpers. Used by the C12 / C14 proofs. -/
set_option linter.unnecessarySeqFocus false
namespace Asts.L1c

/-! ### `prepare`, named pieces -/

def idxOf (b : Int) (E : List Int) : List Int :=
  ((List.range b.toNat).map Int.ofNat).filter (fun i => !E.contains i)

def repsOf (v : SetView) (cur upd : String) (b : Int) (E : List Int) (pods : List Pod) : List (Int × Pod) :=
  (idxOf b E).map (fun i => (i, (slotOf b E pods i).getD (newPod v cur upd i)))

def st0Of (v : SetView) (cur upd : String) (pods : List Pod) : Status :=
  { census cur upd pods with observedGen := v.generation, currentRev := cur, updateRev := upd }

theorem prepare_ok {v : SetView} {cur upd : String} {pods : List Pod} {r : Int} {p : Prepared}
    (hr : v.replicas = some r) (h : prepare v cur upd pods = .ok p) :
    p.b = (maxReplicaAndSlots r v.slots).1 ∧
    p.reps = repsOf v cur upd (maxReplicaAndSlots r v.slots).1 (maxReplicaAndSlots r v.slots).2 pods ∧
    p.condemned = condemnedOf (maxReplicaAndSlots r v.slots).1 (maxReplicaAndSlots r v.slots).2 pods ∧
    p.fu = (firstUnhealthy ((repsOf v cur upd (maxReplicaAndSlots r v.slots).1 (maxReplicaAndSlots r v.slots).2 pods).map (·.2)
              ++ condemnedOf (maxReplicaAndSlots r v.slots).1 (maxReplicaAndSlots r v.slots).2 pods)).1 ∧
    p.st0 = st0Of v cur upd pods := by
  unfold prepare at h
  rw [hr] at h
  simp only at h
  split_ifs at h
  cases h
  exact ⟨rfl, rfl, rfl, rfl, rfl⟩

theorem prepare_replicas {v : SetView} {cur upd : String} {pods : List Pod} {p : Prepared}
    (h : prepare v cur upd pods = .ok p) : ∃ r, v.replicas = some r := by
  cases hr : v.replicas with
  | none => unfold prepare at h; rw [hr] at h; simp at h
  | some r => exact ⟨r, rfl⟩

/-- an `.ok` result of `updateStatefulSet` comes from a successful `prepare` and either the deleting shortcut or the loops -/
theorem updateStatefulSet_ok {v : SetView} {cur upd : String} {pods : List Pod} {f : Faults} {s : St}
    (h : updateStatefulSet v cur upd pods f = (s, .ok)) :
    ∃ p, prepare v cur upd pods = .ok p ∧
      ((v.deleting = true ∧ s = { status := p.st0 }) ∨ (v.deleting = false ∧ runLoops v cur upd f p = (s, .ok))) := by
  unfold updateStatefulSet at h
  cases hp : prepare v cur upd pods with
  | error e =>
    obtain ⟨st, o⟩ := e
    rw [hp] at h
    simp only [Prod.mk.injEq] at h
    obtain ⟨_, ho⟩ := h
    unfold prepare at hp
    cases hr : v.replicas with
    | none => rw [hr] at hp; simp only [Except.error.injEq, Prod.mk.injEq] at hp; rw [← hp.2] at ho; cases ho
    | some r =>
      rw [hr] at hp; simp only at hp
      split_ifs at hp
      simp only [Except.error.injEq, Prod.mk.injEq] at hp; rw [← hp.2] at ho; cases ho
  | ok p =>
    rw [hp] at h
    simp only at h
    refine ⟨p, rfl, ?_⟩
    by_cases hd : v.deleting = true
    · simp only [hd, if_true, Prod.mk.injEq] at h
      exact Or.inl ⟨hd, h.1.symm⟩
    · simp only [hd, Bool.false_eq_true, if_false] at h
      exact Or.inr ⟨by simpa using hd, h⟩

/-! ### induction principles -/

theorem replicaLoop_induct (v : SetView) (cur upd : String) (f : Faults) (mono : Bool)
    (I : St → List (Int × Pod) → List (Int × Pod) → Prop) (Q : St → Outcome → Prop)
    (hstep : ∀ s i p rest W, I s ((i, p) :: rest) W →
      (∀ s' p', replicaStep v cur upd f mono s i p = (.next s', p') → I s' rest (W ++ [(i, p')])) ∧
      (∀ s' o p', replicaStep v cur upd f mono s i p = (.done s' o, p') → Q s' o)) :
    ∀ reps s W, I s reps W →
      (∀ s' reps', replicaLoop v cur upd f mono s reps = (.next s', reps') → I s' [] (W ++ reps')) ∧
      (∀ s' o reps', replicaLoop v cur upd f mono s reps = (.done s' o, reps') → Q s' o) := by
  intro reps
  induction reps with
  | nil =>
    intro s W hI
    constructor
    · intro s' reps' h
      simp only [replicaLoop, Prod.mk.injEq, Ctl.next.injEq] at h
      obtain ⟨rfl, rfl⟩ := h
      simpa using hI
    · intro s' o reps' h
      simp [replicaLoop] at h
  | cons ip rest ih =>
    obtain ⟨i, p⟩ := ip
    intro s W hI
    have hs := hstep s i p rest W hI
    unfold replicaLoop
    cases hrs : replicaStep v cur upd f mono s i p with
    | mk c p' =>
      cases c with
      | next s1 =>
        have hI1 := hs.1 s1 p' hrs
        have ih1 := ih s1 (W ++ [(i, p')]) hI1
        simp only
        cases hrl : replicaLoop v cur upd f mono s1 rest with
        | mk c2 rest' =>
          simp only
          constructor
          · intro s' reps' h
            simp only [Prod.mk.injEq] at h
            obtain ⟨rfl, rfl⟩ := h
            have := ih1.1 s' rest' hrl
            simpa using this
          · intro s' o reps' h
            simp only [Prod.mk.injEq] at h
            obtain ⟨rfl, rfl⟩ := h
            exact ih1.2 s' o rest' hrl
      | done s1 o1 =>
        simp only
        constructor
        · intro s' reps' h; simp at h
        · intro s' o reps' h
          simp only [Prod.mk.injEq, Ctl.done.injEq] at h
          obtain ⟨⟨rfl, rfl⟩, _⟩ := h
          exact hs.2 s1 o1 p' hrs

theorem condemnedLoop_induct (cur upd : String) (f : Faults) (mono : Bool) (fu : Option Pod)
    (I : St → List Pod → Prop) (P : St → Prop)
    (hP : ∀ s l, I s l → P s)
    (hskip : ∀ s c rest, I s (c :: rest) → I s rest)
    (hdel : ∀ s c rest, I s (c :: rest) → c.terminating = false → f.hit 1 c.ord = false →
      I { acts := s.acts ++ [.delete c.ord c.id .scaleDown], status := bump s.status cur upd c.rev (-1) } rest) :
    ∀ cs s, I s cs →
      (∀ s', condemnedLoop cur upd f mono fu s cs = .next s' → I s' []) ∧
      (∀ s', condemnedLoop cur upd f mono fu s cs = .done s' .ok → P s') := by
  intro cs
  induction cs with
  | nil =>
    intro s hI
    constructor
    · intro s' h; simp only [condemnedLoop, Ctl.next.injEq] at h; subst h; exact hI
    · intro s' h; simp [condemnedLoop] at h
  | cons c rest ih =>
    intro s hI
    unfold condemnedLoop
    by_cases ht : c.terminating = true
    · simp only [ht, if_true]
      cases mono with
      | true =>
        simp only [if_true]
        constructor
        · intro s' h; simp at h
        · intro s' h; simp only [Ctl.done.injEq, and_true] at h; subst h; exact hP _ _ hI
      | false =>
        simp only [Bool.false_eq_true, if_false]
        exact ih s (hskip s c rest hI)
    · simp only [ht, Bool.false_eq_true, if_false]
      have ht' : c.terminating = false := by simpa using ht
      by_cases h2 : (!c.runningAndReady && mono && (fu.map (·.id) != some c.id)) = true
      · simp only [h2, if_true]
        constructor
        · intro s' h; simp at h
        · intro s' h; simp only [Ctl.done.injEq, and_true] at h; subst h; exact hP _ _ hI
      · simp only [h2, Bool.false_eq_true, if_false]
        by_cases hf : f.hit 1 c.ord = true
        · simp only [hf, if_true]
          constructor
          · intro s' h; simp at h
          · intro s' h; simp at h
        · simp only [hf, Bool.false_eq_true, if_false]
          have hf' : f.hit 1 c.ord = false := by simpa using hf
          have hI' := hdel s c rest hI ht' hf'
          cases mono with
          | true =>
            simp only [if_true]
            constructor
            · intro s' h; simp at h
            · intro s' h; simp only [Ctl.done.injEq, and_true] at h; subst h; exact hP _ _ hI'
          | false =>
            simp only [Bool.false_eq_true, if_false]
            exact ih _ hI'

/-- what the update walk can return -/
theorem updateWalk_cases (cur upd : String) (f : Faults) (l : List (Int × Pod)) (s : St) :
    updateWalk cur upd f s l = (s, .ok) ∨
    ∃ t q, (t, q) ∈ l ∧ (q.rev != upd) = true ∧ q.terminating = false ∧
      updateWalk cur upd f s l =
        ({ acts := s.acts ++ [.delete t q.id .update],
           status := if q.rev == cur then { s.status with current := s.status.current - 1 } else s.status },
         if f.hit 1 t then .err else .ok) := by
  induction l with
  | nil => exact Or.inl rfl
  | cons ip rest ih =>
    obtain ⟨t, p⟩ := ip
    unfold updateWalk
    by_cases h1 : (p.rev != upd && !p.terminating) = true
    · simp only [h1, if_true]
      right
      simp only [Bool.and_eq_true, Bool.not_eq_true'] at h1
      exact ⟨t, p, List.mem_cons_self, h1.1, h1.2, rfl⟩
    · simp only [h1, Bool.false_eq_true, if_false]
      by_cases h2 : (!p.healthy) = true
      · left; simp only [h2, if_true]
      · simp only [h2, Bool.false_eq_true, if_false]
        rcases ih with h | ⟨t', q, hm, h3, h4, h5⟩
        · exact Or.inl h
        · exact Or.inr ⟨t', q, List.mem_cons_of_mem _ hm, h3, h4, h5⟩

/-- Induction over the whole of `runLoops`: an invariant `I s R W C` over the state, the unprocessed slots `R`, the
    processed slots `W` (as now stored) and the unprocessed condemned pods `C`. -/
theorem runLoops_induct (v : SetView) (cur upd : String) (f : Faults) (p : Prepared)
    (I : St → List (Int × Pod) → List (Int × Pod) → List Pod → Prop) (P : St → Prop)
    (hP : ∀ s R W C, I s R W C → P s)
    (hrep : ∀ s i q R W C, I s ((i, q) :: R) W C →
      (∀ s' q', replicaStep v cur upd f (!v.parallel) s i q = (.next s', q') → I s' R (W ++ [(i, q')]) C) ∧
      (∀ s' q', replicaStep v cur upd f (!v.parallel) s i q = (.done s' .ok, q') → P s'))
    (hskip : ∀ s c C W, I s [] W (c :: C) → I s [] W C)
    (hdel : ∀ s c C W, I s [] W (c :: C) → c.terminating = false → f.hit 1 c.ord = false →
      I { acts := s.acts ++ [.delete c.ord c.id .scaleDown], status := bump s.status cur upd c.rev (-1) } [] W C)
    (hwalk : ∀ s W t q, I s [] W [] → (t, q) ∈ W → (q.rev != upd) = true → q.terminating = false → f.hit 1 t = false →
      P { acts := s.acts ++ [.delete t q.id .update],
          status := if q.rev == cur then { s.status with current := s.status.current - 1 } else s.status })
    (hinit : I { status := p.st0 } p.reps [] p.condemned.reverse) :
    ∀ s, runLoops v cur upd f p = (s, .ok) → P s := by
  intro sfin hfin
  unfold runLoops at hfin
  simp only at hfin
  have hA := replicaLoop_induct v cur upd f (!v.parallel)
    (fun s R W => I s R W p.condemned.reverse) (fun s o => o = .ok → P s)
    (by
      intro s i q rest W hI
      have := hrep s i q rest W _ hI
      refine ⟨this.1, ?_⟩
      intro s' o p' h ho
      subst ho
      exact this.2 s' p' h)
    p.reps { status := p.st0 } [] hinit
  cases hrl : replicaLoop v cur upd f (!v.parallel) { status := p.st0 } p.reps with
  | mk c reps' =>
    rw [hrl] at hfin
    cases c with
    | done s o =>
      simp only [Prod.mk.injEq] at hfin
      obtain ⟨rfl, rfl⟩ := hfin
      exact hA.2 s .ok reps' hrl rfl
    | next s =>
      simp only at hfin
      have hI1 : I s [] reps' p.condemned.reverse := by simpa using hA.1 s reps' hrl
      have hB := condemnedLoop_induct cur upd f (!v.parallel) p.fu
        (fun s C => I s [] reps' C) P (fun s l h => hP _ _ _ _ h)
        (fun s c rest h => hskip s c rest reps' h)
        (fun s c rest h h1 h2 => hdel s c rest reps' h h1 h2)
        p.condemned.reverse s hI1
      cases hcl : condemnedLoop cur upd f (!v.parallel) p.fu s p.condemned.reverse with
      | done s' o =>
        rw [hcl] at hfin
        simp only [Prod.mk.injEq] at hfin
        obtain ⟨rfl, rfl⟩ := hfin
        exact hB.2 s' hcl
      | next s' =>
        rw [hcl] at hfin
        simp only at hfin
        have hI2 : I s' [] reps' [] := hB.1 s' hcl
        unfold updateStage at hfin
        by_cases hod : (v.strat == StratType.onDelete) = true
        · simp only [hod, if_true, Prod.mk.injEq] at hfin
          rw [← hfin.1]; exact hP _ _ _ _ hI2
        · simp only [hod, Bool.false_eq_true, if_false] at hfin
          rcases updateWalk_cases cur upd f (reps'.filter (fun ip => partOf v ≤ ip.1)).reverse s' with h | ⟨t, q, hm, h3, h4, h5⟩
          · rw [h] at hfin
            simp only [Prod.mk.injEq, and_true] at hfin
            rw [← hfin]; exact hP _ _ _ _ hI2
          · rw [h5] at hfin
            simp only [Prod.mk.injEq] at hfin
            obtain ⟨hs, ho⟩ := hfin
            have hhit : f.hit 1 t = false := by
              by_cases hh : f.hit 1 t = true
              · simp [hh] at ho
              · simpa using hh
            have hmem : (t, q) ∈ reps' := (List.mem_filter.1 (List.mem_reverse.1 hm)).1
            rw [← hs]
            exact hwalk s' reps' t q hI2 hmem h3 h4 hhit

/-! ### the replica step, by cases -/

def _root_.Asts.Pod.fs (p : Pod) : Bool := p.failed || p.succeeded

/-- state after a Failed/Succeeded pod was deleted and its replacement created -/
def stepReplace (v : SetView) (cur upd : String) (s : St) (i : Int) (q : Pod) : St :=
  { acts := s.acts ++ [.delete i q.id .replaceFailed] ++ [.create i (newPod v cur upd i).rev],
    status := bump { (if q.terminating then s.status else bump s.status cur upd q.rev (-1)) with
                     replicas := (if q.terminating then s.status else bump s.status cur upd q.rev (-1)).replicas - 1 + 1 }
                cur upd (newPod v cur upd i).rev 1 }

/-- state after a vacant slot was filled -/
def stepCreate (cur upd : String) (s : St) (i : Int) (q : Pod) : St :=
  { acts := s.acts ++ [.create i q.rev],
    status := bump { s.status with replicas := s.status.replicas + 1 } cur upd q.rev 1 }

theorem newPod_created (v cur upd i) : (newPod v cur upd i).created = false := by
  simp [newPod, Pod.created]

theorem replicaStep_good (v : SetView) (cur upd : String) (f : Faults) (mono : Bool) (s : St) (i : Int) (q : Pod)
    (s' : St) (q' : Pod)
    (h : replicaStep v cur upd f mono s i q = (.next s', q') ∨ replicaStep v cur upd f mono s i q = (.done s' .ok, q')) :
    (q.fs = true ∧ q' = newPod v cur upd i ∧ s' = stepReplace v cur upd s i q) ∨
    (q.fs = false ∧ q.created = false ∧ q' = q ∧ s' = stepCreate cur upd s i q) ∨
    (q.fs = false ∧ q.created = true ∧ q' = q ∧ (s' = s ∨ s' = { s with acts := s.acts ++ [.update i] })) := by
  unfold replicaStep replaceFailed at h
  by_cases hfs : (q.failed || q.succeeded) = true
  · left
    refine ⟨hfs, ?_⟩
    simp only [hfs, if_true] at h
    by_cases h1 : f.hit 1 i = true
    · simp only [h1, if_true] at h
      rcases h with h | h <;> simp at h
    · simp only [h1, Bool.false_eq_true, if_false] at h
      unfold ensurePod at h
      simp only [newPod_created, Bool.not_false, if_true] at h
      by_cases h0 : f.hit 0 i = true
      · simp only [h0, if_true] at h
        rcases h with h | h <;> simp at h
      · simp only [h0, Bool.false_eq_true, if_false] at h
        cases mono with
        | true =>
          simp only [if_true] at h
          rcases h with h | h
          · simp at h
          · simp only [Prod.mk.injEq, Ctl.done.injEq, and_true] at h
            exact ⟨h.2.symm, by rw [← h.1]; simp [stepReplace]⟩
        | false =>
          simp only [Bool.false_eq_true, if_false] at h
          rcases h with h | h
          · simp only [Prod.mk.injEq, Ctl.next.injEq] at h
            exact ⟨h.2.symm, by rw [← h.1]; simp [stepReplace]⟩
          · simp at h
  · right
    have hfs' : q.fs = false := by simpa [Pod.fs] using hfs
    simp only [hfs, Bool.false_eq_true, if_false] at h
    unfold ensurePod at h
    by_cases hc : q.created = true
    · right
      refine ⟨hfs', hc, ?_⟩
      simp only [hc, Bool.not_true, Bool.false_eq_true, if_false] at h
      split_ifs at h
      all_goals
        rcases h with h | h
        all_goals first
          | (simp only [Prod.mk.injEq, Ctl.next.injEq] at h; exact ⟨h.2.symm, Or.inl h.1.symm⟩)
          | (simp only [Prod.mk.injEq, Ctl.next.injEq] at h; exact ⟨h.2.symm, Or.inr h.1.symm⟩)
          | (simp only [Prod.mk.injEq, Ctl.done.injEq, and_true] at h; exact ⟨h.2.symm, Or.inl h.1.symm⟩)
          | (simp at h; done)
    · left
      have hc' : q.created = false := by simpa using hc
      refine ⟨hfs', hc', ?_⟩
      simp only [hc', Bool.not_false, if_true] at h
      by_cases h0 : f.hit 0 i = true
      · simp only [h0, if_true] at h
        rcases h with h | h <;> simp at h
      · simp only [h0, Bool.false_eq_true, if_false] at h
        cases mono with
        | true =>
          simp only [if_true] at h
          rcases h with h | h
          · simp at h
          · simp only [Prod.mk.injEq, Ctl.done.injEq, and_true] at h
            exact ⟨h.2.symm, by rw [← h.1]; rfl⟩
        | false =>
          simp only [Bool.false_eq_true, if_false] at h
          rcases h with h | h
          · simp only [Prod.mk.injEq, Ctl.next.injEq] at h
            exact ⟨h.2.symm, by rw [← h.1]; rfl⟩
          · simp at h

/-- `runLoops_induct` with the replica step already split into its three effects -/
theorem runLoops_induct' (v : SetView) (cur upd : String) (f : Faults) (p : Prepared)
    (I : St → List (Int × Pod) → List (Int × Pod) → List Pod → Prop) (P : St → Prop)
    (hP : ∀ s R W C, I s R W C → P s)
    (hA : ∀ s i q R W C, I s ((i, q) :: R) W C → q.fs = true →
      I (stepReplace v cur upd s i q) R (W ++ [(i, newPod v cur upd i)]) C)
    (hB : ∀ s i q R W C, I s ((i, q) :: R) W C → q.fs = false → q.created = false →
      I (stepCreate cur upd s i q) R (W ++ [(i, q)]) C)
    (hC : ∀ s i q R W C, I s ((i, q) :: R) W C → q.fs = false → q.created = true → I s R (W ++ [(i, q)]) C)
    (hU : ∀ s i R W C, I s R W C → I { s with acts := s.acts ++ [.update i] } R W C)
    (hskip : ∀ s c C W, I s [] W (c :: C) → I s [] W C)
    (hdel : ∀ s c C W, I s [] W (c :: C) → c.terminating = false → f.hit 1 c.ord = false →
      I { acts := s.acts ++ [.delete c.ord c.id .scaleDown], status := bump s.status cur upd c.rev (-1) } [] W C)
    (hwalk : ∀ s W t q, I s [] W [] → (t, q) ∈ W → (q.rev != upd) = true → q.terminating = false → f.hit 1 t = false →
      P { acts := s.acts ++ [.delete t q.id .update],
          status := if q.rev == cur then { s.status with current := s.status.current - 1 } else s.status })
    (hinit : I { status := p.st0 } p.reps [] p.condemned.reverse) :
    ∀ s, runLoops v cur upd f p = (s, .ok) → P s := by
  have key : ∀ s i q R W C s' q', I s ((i, q) :: R) W C →
      (replicaStep v cur upd f (!v.parallel) s i q = (.next s', q') ∨
       replicaStep v cur upd f (!v.parallel) s i q = (.done s' .ok, q')) → I s' R (W ++ [(i, q')]) C := by
    intro s i q R W C s' q' hI h
    rcases replicaStep_good v cur upd f _ s i q s' q' h with ⟨h1, rfl, rfl⟩ | ⟨h1, h2, rfl, rfl⟩ | ⟨h1, h2, rfl, h3⟩
    · exact hA s i q R W C hI h1
    · exact hB s i q' R W C hI h1 h2
    · rcases h3 with rfl | rfl
      · exact hC s' i q' R W C hI h1 h2
      · exact hU s i R _ C (hC s i q' R W C hI h1 h2)
  apply runLoops_induct v cur upd f p I P hP _ hskip hdel hwalk hinit
  intro s i q R W C hI
  exact ⟨fun s' q' h => key s i q R W C s' q' hI (Or.inl h),
         fun s' q' h => hP _ _ _ _ (key s i q R W C s' q' hI (Or.inr h))⟩

/-! ### counting -/

/-- number of elements satisfying `q`, as an `Int` -/
def cnt (q : Pod → Bool) (l : List Pod) : Int := ((l.countP q : Nat) : Int)

@[simp] theorem cnt_nil (q : Pod → Bool) : cnt q [] = 0 := rfl
theorem cnt_cons (q : Pod → Bool) (p : Pod) (l : List Pod) : cnt q (p :: l) = cnt q l + (if q p then 1 else 0) := by
  unfold cnt; rw [List.countP_cons]; push_cast; split_ifs <;> simp
theorem cnt_append (q : Pod → Bool) (a b : List Pod) : cnt q (a ++ b) = cnt q a + cnt q b := by
  unfold cnt; rw [List.countP_append]; push_cast; rfl
theorem cnt_nonneg (q : Pod → Bool) (l : List Pod) : 0 ≤ cnt q l := by unfold cnt; exact Int.natCast_nonneg _
theorem cnt_le_length (q : Pod → Bool) (l : List Pod) : cnt q l ≤ l.length := by
  unfold cnt; exact_mod_cast List.countP_le_length
theorem cnt_mono {q q' : Pod → Bool} (l : List Pod) (h : ∀ p ∈ l, q p = true → q' p = true) : cnt q l ≤ cnt q' l := by
  unfold cnt; exact_mod_cast List.countP_mono_left h
theorem cnt_perm {q : Pod → Bool} {a b : List Pod} (h : a.Perm b) : cnt q a = cnt q b := by
  unfold cnt; rw [h.countP_eq]
theorem cnt_pos_of_mem {q : Pod → Bool} {l : List Pod} {p : Pod} (hp : p ∈ l) (hq : q p = true) : 1 ≤ cnt q l := by
  unfold cnt
  have : 0 < l.countP q := List.countP_pos_iff.2 ⟨p, hp, hq⟩
  exact_mod_cast this
theorem cnt_eq_filter_length (q : Pod → Bool) (l : List Pod) : cnt q l = ((l.filter q).length : Int) := by
  unfold cnt; rw [List.countP_eq_length_filter]
theorem cnt_eq_length_iff {q : Pod → Bool} {l : List Pod} : cnt q l = l.length ↔ ∀ p ∈ l, q p = true := by
  unfold cnt
  rw [Int.natCast_inj]
  exact List.countP_eq_length

/-- counters of the action list -/
def nCreate : List Action → Int
  | [] => 0
  | .create _ _ :: l => nCreate l + 1
  | _ :: l => nCreate l
def nDelete : List Action → Int
  | [] => 0
  | .delete _ _ _ :: l => nDelete l + 1
  | _ :: l => nDelete l
def nReplace : List Action → Int
  | [] => 0
  | .delete _ _ .replaceFailed :: l => nReplace l + 1
  | _ :: l => nReplace l

theorem nCreate_append (a b : List Action) : nCreate (a ++ b) = nCreate a + nCreate b := by
  induction a with
  | nil => simp [nCreate]
  | cons x xs ih => cases x <;> simp [nCreate, ih] <;> omega
theorem nDelete_append (a b : List Action) : nDelete (a ++ b) = nDelete a + nDelete b := by
  induction a with
  | nil => simp [nDelete]
  | cons x xs ih => cases x <;> simp [nDelete, ih] <;> omega
theorem nReplace_append (a b : List Action) : nReplace (a ++ b) = nReplace a + nReplace b := by
  induction a with
  | nil => simp [nReplace]
  | cons x xs ih =>
    cases x with
    | delete o i w => cases w <;> simp [nReplace, ih] <;> omega
    | _ => simp [nReplace, ih]
theorem nCreate_nonneg (a : List Action) : 0 ≤ nCreate a := by
  induction a with
  | nil => simp [nCreate]
  | cons x xs ih => cases x <;> simp [nCreate] <;> omega
theorem nDelete_nonneg (a : List Action) : 0 ≤ nDelete a := by
  induction a with
  | nil => simp [nDelete]
  | cons x xs ih => cases x <;> simp [nDelete] <;> omega
theorem nReplace_nonneg (a : List Action) : 0 ≤ nReplace a := by
  induction a with
  | nil => simp [nReplace]
  | cons x xs ih =>
    cases x with
    | delete o i w => cases w <;> simp [nReplace] <;> omega
    | _ => simp [nReplace, ih]

@[simp] theorem nCreate_nil : nCreate [] = 0 := rfl
@[simp] theorem nDelete_nil : nDelete [] = 0 := rfl
@[simp] theorem nReplace_nil : nReplace [] = 0 := rfl
@[simp] theorem nCreate_create (o r) : nCreate [.create o r] = 1 := rfl
@[simp] theorem nCreate_delete (o i w) : nCreate [.delete o i w] = 0 := rfl
@[simp] theorem nCreate_update (o) : nCreate [.update o] = 0 := rfl
@[simp] theorem nDelete_create (o r) : nDelete [.create o r] = 0 := rfl
@[simp] theorem nDelete_delete (o i w) : nDelete [.delete o i w] = 1 := rfl
@[simp] theorem nDelete_update (o) : nDelete [.update o] = 0 := rfl
@[simp] theorem nReplace_create (o r) : nReplace [.create o r] = 0 := rfl
@[simp] theorem nReplace_replace (o i) : nReplace [.delete o i .replaceFailed] = 1 := rfl
@[simp] theorem nReplace_scale (o i) : nReplace [.delete o i .scaleDown] = 0 := rfl
@[simp] theorem nReplace_updateDel (o i) : nReplace [.delete o i .update] = 0 := rfl
@[simp] theorem nReplace_update (o) : nReplace [.update o] = 0 := rfl

theorem nCreate_zero_iff (a : List Action) : nCreate a = 0 ↔ ∀ x ∈ a, ∀ o r, x ≠ .create o r := by
  induction a with
  | nil => simp
  | cons x xs ih =>
    have := nCreate_nonneg xs
    cases x with
    | create o r =>
      simp only [nCreate, List.mem_cons, forall_eq_or_imp]
      constructor
      · intro h; omega
      · intro h; exact absurd rfl (h.1 o r)
    | delete o i w => simp [nCreate, ih]
    | update o => simp [nCreate, ih]

theorem nDelete_zero_iff (a : List Action) : nDelete a = 0 ↔ ∀ x ∈ a, ∀ o i w, x ≠ .delete o i w := by
  induction a with
  | nil => simp
  | cons x xs ih =>
    have := nDelete_nonneg xs
    cases x with
    | delete o i w =>
      simp only [nDelete, List.mem_cons, forall_eq_or_imp]
      constructor
      · intro h; omega
      · intro h; exact absurd rfl (h.1 o i w)
    | create o r => simp [nDelete, ih]
    | update o => simp [nDelete, ih]

/-! ### `bump`, field by field -/

@[simp] theorem bump_replicas (st cur upd rev d) : (bump st cur upd rev d).replicas = st.replicas := by
  unfold bump; split_ifs <;> rfl
@[simp] theorem bump_ready (st cur upd rev d) : (bump st cur upd rev d).ready = st.ready := by
  unfold bump; split_ifs <;> rfl
@[simp] theorem bump_observedGen (st cur upd rev d) : (bump st cur upd rev d).observedGen = st.observedGen := by
  unfold bump; split_ifs <;> rfl
@[simp] theorem bump_currentRev (st cur upd rev d) : (bump st cur upd rev d).currentRev = st.currentRev := by
  unfold bump; split_ifs <;> rfl
@[simp] theorem bump_updateRev (st cur upd rev d) : (bump st cur upd rev d).updateRev = st.updateRev := by
  unfold bump; split_ifs <;> rfl
theorem bump_current (st cur upd rev d) :
    (bump st cur upd rev d).current = st.current + (if rev == cur then d else 0) := by
  unfold bump; split_ifs <;> simp
theorem bump_updated (st cur upd rev d) :
    (bump st cur upd rev d).updated = st.updated + (if rev == upd then d else 0) := by
  unfold bump; split_ifs <;> simp

end Asts.L1c
