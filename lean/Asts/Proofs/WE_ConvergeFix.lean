import Mathlib.Tactic
import Asts.Proofs.WE_Converge
import Asts.Proofs.WE_SilentFix

/-! # WE — `SilentMeansFinal` from the fixed-point lemma -/
namespace Asts.WE
open Asts Asts.C02p

theorem roundsN_add (h : Hashing) (W : SyncIn) (a : Nat) : ∀ b, roundsN h (a + b) W = roundsN h b (roundsN h a W)
  | 0 => rfl
  | b + 1 => by
    have : a + (b + 1) = (a + b) + 1 := by omega
    rw [this, roundsN_succ, roundsN_succ, roundsN_add h W a b]

theorem roundsN_viewInStep (h : Hashing) (W : SyncIn) (hv : ViewInStep W) : ∀ n, ViewInStep (roundsN h n W)
  | 0 => hv
  | n + 1 => by rw [roundsN_succ]; exact round_viewInStep h _ _

theorem fixed_forever (h : Hashing) (Y : SyncIn) (hfix : (round h Y []).1 = Y) : ∀ j, roundsN h j Y = Y
  | 0 => rfl
  | j + 1 => by rw [roundsN_succ, fixed_forever h Y hfix j, hfix]

/-- **a run that has shown two silent rounds in a row is in its final state**, if it reaches a final state at all — from
    the fixed-point lemma; pod names distinct in every world of the run -/
theorem silentMeansFinal (h : Hashing) (W : SyncIn) (hv : ViewInStep W)
    (hnod : ∀ n, ((roundsN h n W).pods.map (·.name)).Nodup) (hconv : ∃ n, Final h (roundsN h n W)) :
    SilentMeansFinal h W := by
  intro k hk
  obtain ⟨m, rfl, s1, _⟩ := cnt_ge_two h W [] k hk
  have hobs : obsFrom h W [] m = (round h (roundsN h m W) []).2 := by
    unfold obsFrom; rw [plainWorld_roundsN, planAt_nil]
  rw [hobs] at s1
  have hrep := silent_round_repeats h (roundsN h m W) (roundsN_viewInStep h W hv m) (hnod m) s1
  have hY : (round h (roundsN h m W) []).1 = roundsN h (m + 1) W := (roundsN_succ h W m).symm
  rw [hY] at hrep
  have hfix : (round h (roundsN h (m + 1) W) []).1 = roundsN h (m + 1) W := by rw [hrep, hY]
  obtain ⟨n, hf⟩ := hconv
  by_cases hle : n ≤ m + 1
  · obtain ⟨j, hj⟩ : ∃ j, m + 1 = n + j := ⟨m + 1 - n, by omega⟩
    rw [hj]; exact final_from hf j
  · obtain ⟨j, hj⟩ : ∃ j, n = (m + 1) + j := ⟨n - (m + 1), by omega⟩
    rw [hj, roundsN_add, fixed_forever h _ hfix j] at hf
    exact hf

/-- **`C02converges`, the monitor, on the run of a world that converges**: budget `roundBound W + 2`, pod names distinct along
    the run -/
theorem C02converges_run (h : Hashing) (W : SyncIn) (fuel : Nat) (hv : ViewInStep W)
    (hnod : ∀ n, ((roundsN h n W).pods.map (·.name)).Nodup)
    (hconv : ∃ n ≤ roundBound W, Final h (roundsN h n W)) (hfuel : roundBound W + 2 ≤ fuel) :
    C02converges h W (runRounds h fuel 0 W []) = true :=
  C02converges_of_bound h W fuel hconv hfuel
    (silentMeansFinal h W hv hnod (by obtain ⟨n, _, hf⟩ := hconv; exact ⟨n, hf⟩))

end Asts.WE
