import Asts.Proofs.SY_b_SyncThms

/-! C08 (2): the resolution of the update revision reads nothing of the set but its template and collision count; what the
    pods, replicas, slots … contribute to the log before it (claim patches) cannot influence it, because faults are
    addressed by call key and the keys differ. -/
namespace Asts.SYb
open Asts

/-- number of earlier calls with key `k` -/
def cnt (k : String) (l : List String) : Nat := (l.filter (· == k)).length

theorem cnt_append (k : String) (a b : List String) : cnt k (a ++ b) = cnt k a + cnt k b := by
  simp [cnt, List.filter_append]

/-- two logs agree on how often each ControllerRevision call key (Create / Update / Get of any name) occurred -/
def RevEq (t t' : Tr) : Prop := ∀ c : RevCall, cnt c.key t.log = cnt c.key t'.log

theorem RevEq.refl (t : Tr) : RevEq t t := fun _ => rfl

theorem call_congr {t t' : Tr} (h : RevEq t t') (plan : List Fault) (c : RevCall) :
    (t.call plan c.key).2 = (t'.call plan c.key).2 ∧ RevEq (t.call plan c.key).1 (t'.call plan c.key).1 := by
  refine ⟨?_, ?_⟩
  · rw [call_err, call_err]
    have := h c
    unfold cnt at this
    rw [this]
  · intro d
    rw [call_log, call_log, cnt_append, cnt_append, h d]

theorem renumberF_congr (plan : List Fault) (name : String) (n : Int) (fuel : Nat) (s s' : RevSt)
    (hst : s.store = s'.store) (ht : RevEq s.tr s'.tr) :
    (renumberF plan name n fuel s).2 = (renumberF plan name n fuel s').2 ∧
    (renumberF plan name n fuel s).1.store = (renumberF plan name n fuel s').1.store ∧
    RevEq (renumberF plan name n fuel s).1.tr (renumberF plan name n fuel s').1.tr := by
  induction fuel generalizing s s' with
  | zero => exact ⟨rfl, hst, ht⟩
  | succ fuel ih =>
    rw [renumberF_succ, renumberF_succ]
    obtain ⟨e1, e2⟩ := call_congr ht plan (RevCall.update name)
    rw [← e1]
    cases he : (s.tr.call plan (RevCall.update name).key).2 with
    | none => exact ⟨rfl, by simp only; rw [hst], e2⟩
    | some k =>
      obtain ⟨_, e4⟩ := call_congr e2 plan (RevCall.get name)
      simp only
      by_cases hc : (k == .conflict && fuel != 0) = true
      · simp only [hc, if_true]
        exact ih _ _ hst e4
      · simp only [hc]
        exact ⟨rfl, hst, e4⟩

theorem createRevLoopF_congr (h : Hashing) (plan : List Fault) (fresh : Rev) (fuel : Nat) (cc : Int) (s s' : RevSt)
    (hst : s.store = s'.store) (ht : RevEq s.tr s'.tr) :
    (createRevLoopF h plan fresh fuel cc s).2 = (createRevLoopF h plan fresh fuel cc s').2 ∧
    (createRevLoopF h plan fresh fuel cc s).1.store = (createRevLoopF h plan fresh fuel cc s').1.store ∧
    RevEq (createRevLoopF h plan fresh fuel cc s).1.tr (createRevLoopF h plan fresh fuel cc s').1.tr := by
  induction fuel generalizing cc s s' with
  | zero => exact ⟨rfl, hst, ht⟩
  | succ fuel ih =>
    rw [createRevLoopF_succ, createRevLoopF_succ]
    obtain ⟨e1, e2⟩ := call_congr ht plan (RevCall.create (h.nameOf fresh.data cc))
    have hk : createKind h plan fresh cc s = createKind h plan fresh cc s' := by
      unfold createKind; rw [e1, hst]
    have hac : RevEq (afterCreate h plan fresh cc s).tr (afterCreate h plan fresh cc s').tr := e2
    obtain ⟨e3, e4⟩ := call_congr hac plan (RevCall.get (h.nameOf fresh.data cc))
    have hag : RevEq (afterGet h plan fresh cc s).tr (afterGet h plan fresh cc s').tr := e4
    rw [← hk]
    cases hkind : createKind h plan fresh cc s with
    | none => exact ⟨rfl, by simp only; rw [hst], hac⟩
    | some kind =>
      cases kind with
      | alreadyExists =>
        simp only
        rw [← e3, ← hst]
        cases hg : ((afterCreate h plan fresh cc s).tr.call plan (RevCall.get (h.nameOf fresh.data cc)).key).2 with
        | some e => exact ⟨rfl, hst, hag⟩
        | none =>
          cases hf : s.store.find? (·.name == h.nameOf fresh.data cc) with
          | none => exact ⟨rfl, hst, hag⟩
          | some ex =>
            simp only
            by_cases hd : (ex.data == fresh.data) = true
            · rw [if_pos hd, if_pos hd]; exact ⟨rfl, hst, hag⟩
            · rw [if_neg hd, if_neg hd]; exact ih (cc + 1) _ _ hst hag
      | conflict => exact ⟨rfl, hst, hac⟩
      | notFound => exact ⟨rfl, hst, hac⟩
      | invalid => exact ⟨rfl, hst, hac⟩
      | other => exact ⟨rfl, hst, hac⟩

/-- the resolution of the revisions depends on the log only through the counts of ControllerRevision call keys -/
theorem pickF_congr (h : Hashing) (plan : List Fault) (template : String) (cc0 : Int) (revs : List Rev) (s s' : RevSt)
    (hst : s.store = s'.store) (ht : RevEq s.tr s'.tr) :
    (pickF h plan template cc0 revs s).2 = (pickF h plan template cc0 revs s').2 ∧
    (pickF h plan template cc0 revs s).1.store = (pickF h plan template cc0 revs s').1.store := by
  unfold pickF
  split
  · split
    · exact ⟨rfl, hst⟩
    · split
      · exact ⟨rfl, hst⟩
      · rename_i e l _ _ _ _
        obtain ⟨a, b, _⟩ := renumberF_congr plan e.name (freshOf h template cc0 revs).number 4 s s' hst ht
        simp only
        rw [a, b]
        exact ⟨rfl, rfl⟩
  · rw [← hst]
    obtain ⟨a, b, _⟩ := createRevLoopF_congr h plan (freshOf h template cc0 revs) (s.store.length + 8) cc0 s s' hst ht
    exact ⟨a, b⟩

/-! ## keys of other calls are different strings -/

theorem RevCall.pre_own (c : RevCall) :
    pre "create:rev:" c.key = true ∨ pre "update:rev:" c.key = true ∨ pre "get:rev:" c.key = true := by
  cases c
  · left; shape_simp
  · right; left; shape_simp
  · right; right; shape_simp

/-- entries `ClaimPods` and `ListRevisions` add -/
def MidShape (e : String) : Prop := ClaimShape e ∨ e = "list:revs"

theorem MidShape.not_rev {e : String} (h : MidShape e) :
    pre "create:rev:" e = false ∧ pre "update:rev:" e = false ∧ pre "get:rev:" e = false := by
  rcases h with (rfl | ⟨n, rfl⟩) | rfl <;> refine ⟨?_, ?_, ?_⟩ <;> shape_simp

theorem MidShape.ne_key {e : String} (h : MidShape e) (c : RevCall) : e ≠ c.key := by
  intro he
  obtain ⟨h1, h2, h3⟩ := h.not_rev
  rcases c.pre_own with k | k | k
  · rw [← he, h1] at k; exact absurd k (by simp)
  · rw [← he, h2] at k; exact absurd k (by simp)
  · rw [← he, h3] at k; exact absurd k (by simp)

theorem cnt_of_ext {S : String → Prop} {k : String} (hS : ∀ e, S e → e ≠ k) {a b : List String} (h : Ext S a b) :
    cnt k b = cnt k a := by
  obtain ⟨m, rfl, hm⟩ := h
  rw [cnt_append]
  have : cnt k m = 0 := by
    unfold cnt
    rw [List.length_eq_zero_iff, List.filter_eq_nil_iff]
    intro e he
    simpa using hS e (hm e he)
  omega

/-- the log of `listedState` extends the log of the adoption stage by claim patches / set reads and List calls only -/
theorem listedState_ext (plan : List Fault) (i : SyncIn) :
    Ext MidShape (adoptOrphanRevisionsF plan i.view.deleting i.fresh { store := i.store }).1.tr.log (listedState plan i).tr.log := by
  unfold listedState
  exact ((claim_log plan i.view.deleting i.fresh i.pods _).mono (fun e he => Or.inl he)).trans
    ((listRevsF_log plan _).mono (fun e he => Or.inr he))

theorem listedState_store (plan : List Fault) (i : SyncIn) : (listedState plan i).store = adoptedStore plan i := by
  unfold listedState; rw [listRevsF_store]

/-- what a "scaling edit" leaves alone: template, collision count, the stored revisions, what the API says about the set's
    identity, and whether it is being deleted. Replicas, delete-slots, pause, other metadata, the pods, the cached
    status, the history limit are free. -/
structure SameRevisionInputs (i i' : SyncIn) : Prop where
  template : i'.template = i.template
  cc : i'.collisionCount = i.collisionCount
  store : i'.store = i.store
  fresh : i'.fresh = i.fresh
  deleting : i'.view.deleting = i.view.deleting

theorem SameRevisionInputs.adopt {i i' : SyncIn} (hs : SameRevisionInputs i i') (plan : List Fault) :
    adoptOrphanRevisionsF plan i'.view.deleting i'.fresh { store := i'.store } =
      adoptOrphanRevisionsF plan i.view.deleting i.fresh { store := i.store } := by
  rw [hs.deleting, hs.fresh, hs.store]

/-- two syncs of sets that differ by scaling edits only and both get as far as resolving their revisions resolve the same
    update revision, with the same collision count, and leave the same store behind at that point -/
theorem reach_same_upd (h : Hashing) (i i' : SyncIn) (plan : List Fault) (hs : SameRevisionInputs i i') {o o' : SyncOut}
    (R : Reach h i plan o) (R' : Reach h i' plan o') : R'.upd = R.upd ∧ R'.cc = R.cc ∧ R'.sG.store = R.sG.store := by
  have hA : adoptedStore plan i' = adoptedStore plan i := by unfold adoptedStore; rw [hs.adopt]
  have hlist : syncListing plan i' = syncListing plan i := by unfold syncListing; rw [hA]
  have hst : R'.sL.store = R.sL.store := by rw [R'.hL, R.hL, hA]
  have hrev : RevEq R'.sL.tr R.sL.tr := by
    intro c
    rw [R'.hsL, R.hsL, cnt_of_ext (fun e he => MidShape.ne_key he c) (listedState_ext plan i'),
      cnt_of_ext (fun e he => MidShape.ne_key he c) (listedState_ext plan i), hs.adopt]
  obtain ⟨a, b⟩ := pickF_congr h plan i.template (i.collisionCount.getD 0) (syncListing plan i) R'.sL R.sL hst hrev
  have hp' := R'.hpick
  rw [hs.template, hs.cc, hlist] at hp'
  have hp := R.hpick
  rw [hp', hp] at a b
  simp only [Option.some.injEq, Prod.mk.injEq] at a
  exact ⟨a.1, a.2, b⟩

/-- **C08 (2)**: editing only replicas, delete-slots, the pause annotation or other metadata never changes the update
    revision: two successful syncs from the same stored revisions, template and collision count — whatever the pods,
    replicas, slots, status and history limit — report the same update revision -/
theorem scaling_same_update_revision (h : Hashing) (i i' : SyncIn) (plan : List Fault) (hs : SameRevisionInputs i i')
    (hrun : (i.paused || !i.selectorOk) = false) (hrun' : (i'.paused || !i'.selectorOk) = false)
    (hok : (syncF h i plan).outcome = .ok) (hok' : (syncF h i' plan).outcome = .ok) :
    (syncF h i' plan).upd = (syncF h i plan).upd ∧
    reportedUpd i' (syncF h i' plan) = reportedUpd i (syncF h i plan) := by
  rcases sync_cases h i plan hrun with ⟨h1, _⟩ | ⟨⟨R⟩⟩
  · exact absurd hok h1
  · rcases sync_cases h i' plan hrun' with ⟨h1, _⟩ | ⟨⟨R'⟩⟩
    · exact absurd hok' h1
    · obtain ⟨e, _, _⟩ := reach_same_upd h i i' plan hs R R'
      exact ⟨by rw [R'.oupd, R.oupd, e], by rw [R'.orep, R.orep, e]⟩

end Asts.SYb
